(* Model of models/pddl_state.py (State), models/pddl_predicate.py (GroundedPredicate) and
   models/pddl_function.py (PDDLFunction), as far as states are concerned.

   State.state_predicates : dict[lifted predicate text -> set[GroundedPredicate]]   -> pydict (list gpred)
   State.state_fluents    : dict[text -> PDDLFunction]                                -> pydict pfun
   A Python set is a list in its actual iteration order (the harness dumps it in that order).
   A PDDLType is represented by its name (str(type)); nothing here walks the type tree.
   Fluent values are binary64 floats on every route through the parsers and the effects (they store float(...)
   results); str(float) = repr(float) is NOT modelled: it is the parameter [num_text] (see Proofs/C14_*: hypotheses).
   PDDLFunction stores whatever object it is given: a value that is a Python int ([pf_int]: the never-set default 0,
   or an int handed to set_value) is printed by str(int) -- "3", not "3.0" -- which is modelled ([int_text]).

   What the code computes, and the model reproduces:
     __eq__      compares two SETS OF STRINGS: the untyped texts of all facts, then the "(= (f args) value)"
                 texts of all fluents (so values are compared through their repr text, not as numbers;
                 dictionary keys, types, is_init and insertion/iteration order play no role);
     copy        new dict / new sets / new fact and fluent objects (signature dicts are shared: aliasing is
                 outside this value model, see Model/Store.v and the harness' mutation test);
     serialize   "(:init|:state <fluents joined by blanks>< for every predicate group: blank + facts, SORTED by their
                 text, joined by blanks>)\n".
   Definitions only. *)
From Coq Require Import List Ascii String Bool Arith PrimFloat.
From Verif Require Import Base.Result Base.Str Base.Sexp Base.PyDict Base.Float.
Import ListNotations.
Open Scope string_scope.
Open Scope list_scope.

Infix "+++" := String.append (at level 60, right associativity).

(* ---------- objects ---------- *)
Record gpred := {
  gp_name : string;
  gp_sig : pydict string;          (* parameter name -> type name *)
  gp_map : pydict string;          (* parameter name -> object name *)
  gp_pos : bool
}.

Record pfun := {
  pf_name : string;
  pf_sig : pydict string;          (* (grounded: object | lifted: parameter) name -> type name *)
  pf_val : float;
  pf_rep : pydict nat;             (* repeating_variables: name -> multiplicity (only the problem parser fills it) *)
  pf_int : bool                    (* the stored value is a Python int, not a float: the never-set default
                                      (__init__: stored_value = 0) or an int handed to set_value; [pf_val] is its
                                      number, str() prints it without ".0" *)
}.

Record mstate := {
  st_init : bool;
  st_preds : pydict (list gpred);
  st_fluents : pydict pfun
}.

(* ---------- GroundedPredicate ---------- *)
(* untyped_representation: f"({name} {' '.join(object_mapping.values())})", wrapped in (not ...) when negative *)
Definition gp_objects (g : gpred) : list string := dvalues (gp_map g).

Definition gp_untyped (g : gpred) : string :=
  let body := "(" +++ gp_name g +++ " " +++ join " " (gp_objects g) +++ ")" in
  if gp_pos g then body else "(not " +++ body +++ ")".

(* lifted_untyped_representation (Predicate.untyped_representation): the signature's parameter names *)
Definition gp_lifted_untyped (g : gpred) : string :=
  let body := "(" +++ gp_name g +++ " " +++ join " " (dkeys (gp_sig g)) +++ ")" in
  if gp_pos g then body else "(not " +++ body +++ ")".

(* __str__: f"{object_mapping[param]} - {type}" for every signature entry; KeyError when a parameter is unmapped *)
Definition gp_typed (g : gpred) : result string :=
  do items <- mapM (fun pt => match dget (gp_map g) (fst pt) with
                              | Some o => Ok (o +++ " - " +++ snd pt)
                              | None => Err EKey
                              end) (gp_sig g);
  let body := "(" +++ gp_name g +++ " " +++ join " " items +++ ")" in
  Ok (if gp_pos g then body else "(not " +++ body +++ ")").

(* dict == dict on str -> str *)
Definition sdict_eqb (a b : pydict string) : bool :=
  Nat.eqb (List.length a) (List.length b) &&
  forallb (fun kv => match dget b (fst kv) with Some v => String.eqb v (snd kv) | None => false end) a.

Fixpoint strs_eqb (a b : list string) : bool :=
  match a, b with
  | [], [] => true
  | x :: xs, y :: ys => String.eqb x y && strs_eqb xs ys
  | _, _ => false
  end.

(* set membership test of GroundedPredicate: equal hash (typed text) and __eq__ (name, polarity, ordered parameter
   names, types equal by name -- forced by the equal hash --, object_mapping equal as dicts) *)
Definition gp_same (a b : gpred) : bool :=
  match gp_typed a, gp_typed b with
  | Ok ta, Ok tb =>
      String.eqb ta tb && String.eqb (gp_name a) (gp_name b) && Bool.eqb (gp_pos a) (gp_pos b) &&
      strs_eqb (dkeys (gp_sig a)) (dkeys (gp_sig b)) && sdict_eqb (gp_map a) (gp_map b)
  | _, _ => false
  end.

(* set.add: nothing happens when an equal element is present; the position of a new element in the iteration
   order is unspecified in CPython -- the model appends, and every statement about sets is made up to permutation *)
Definition set_add (g : gpred) (l : list gpred) : list gpred :=
  if existsb (gp_same g) l then l else l ++ [g].

(* GroundedPredicate.copy(): a new object with the same fields (the two dicts are the same objects) *)
Definition gp_copy (g : gpred) : gpred :=
  {| gp_name := gp_name g; gp_sig := gp_sig g; gp_map := gp_map g; gp_pos := gp_pos g |}.

(* ---------- PDDLFunction ---------- *)
(* the variables printed by state_representation: every repeating variable as often as recorded, then the
   signature names that are not repeating variables *)
Definition pf_vars (f : pfun) : list string :=
  flat_map (fun kv => repeat (fst kv) (snd kv)) (pf_rep f) ++
  filter (fun p => negb (dmem (pf_rep f) p)) (dkeys (pf_sig f)).

(* untyped_representation: the key under which parsers and effects store the fluent *)
Definition pf_untyped (f : pfun) : string :=
  "(" +++ pf_name f +++ " " +++ join " " (dkeys (pf_sig f)) +++ ")".

Definition pf_copy (f : pfun) : pfun :=
  {| pf_name := pf_name f; pf_sig := pf_sig f; pf_val := pf_val f; pf_rep := pf_rep f; pf_int := pf_int f |}.

(* str(int): the decimal digits of an integral number *)
Definition int_text (x : float) : string :=
  match f_trunc x with Some z => py_int_text z | None => "<not-an-int>" end.

(* ---------- sorted(texts) ---------- *)
(* Python compares str by code point; on ASCII texts that is the byte order, [String.leb].  An insertion sort: the
   result is the sorted permutation whatever the algorithm (equal keys are equal texts). *)
Fixpoint insert_by {A} (key : A -> string) (x : A) (l : list A) : list A :=
  match l with
  | [] => [x]
  | y :: r => if String.leb (key x) (key y) then x :: l else y :: insert_by key x r
  end.
Definition sort_by {A} (key : A -> string) (l : list A) : list A := fold_right (insert_by key) [] l.
Definition sort_strs (l : list string) : list string := sort_by (fun x => x) l.

Section Texts.
  (* str(value) inside the f-string: repr(float) *)
  Variable num_text : float -> string.

  (* str(value): repr for a float, the digits for an int *)
  Definition pf_value_text (f : pfun) : string :=
    if pf_int f then int_text (pf_val f) else num_text (pf_val f).

  (* state_representation: f"(= ({name} {' '.join(vars)}) {value})" *)
  Definition pf_state_text (f : pfun) : string :=
    "(= (" +++ pf_name f +++ " " +++ join " " (pf_vars f) +++ ") " +++ pf_value_text f +++ ")".

  (* ---------- State ---------- *)
  Definition all_preds (s : mstate) : list gpred := flat_map snd (st_preds s).

  (* the two set comprehensions of __eq__ (as lists: a Python set of strings built from them) *)
  Definition fact_texts (s : mstate) : list string := map gp_untyped (all_preds s).
  Definition fluent_texts (s : mstate) : list string := map pf_state_text (dvalues (st_fluents s)).

  (* set(a) == set(b) on strings *)
  Definition strset_eqb (a b : list string) : bool :=
    forallb (fun x => str_in x b) a && forallb (fun x => str_in x a) b.

  Definition state_eq (s t : mstate) : bool :=
    if negb (strset_eqb (fact_texts s) (fact_texts t)) then false
    else strset_eqb (fluent_texts s) (fluent_texts t).

  (* _serialize_numeric_fluents, _serialize_predicates, serialize (since 3ad2e15 the facts of EACH predicate group are
     printed in sorted(...) order of their texts; the order of the groups and of the fluents is the dicts' order) *)
  Definition serialize_fluents (s : mstate) : string := join " " (fluent_texts s).

  Definition serialize_preds (s : mstate) : string :=
    fold_left (fun acc grp => acc +++ " " +++ join " " (sort_strs (map gp_untyped (snd grp)))) (st_preds s) "".

  Definition LFs : string := String LF EmptyString.

  Definition serialize (s : mstate) : string :=
    "(" +++ (if st_init s then ":init" else ":state") +++ " " +++ serialize_fluents s +++ serialize_preds s +++ ")" +++ LFs.

  (* the same text with every group printed in the order of its list (State.serialize before 3ad2e15; what [serialize]
     prints for a state whose groups are already in print order: Proofs/C14_Sorted.serialize_sorted) *)
  Definition serialize_preds_in_order (s : mstate) : string :=
    fold_left (fun acc grp => acc +++ " " +++ join " " (map gp_untyped (snd grp))) (st_preds s) "".

  Definition serialize_in_order (s : mstate) : string :=
    "(" +++ (if st_init s then ":init" else ":state") +++ " " +++ serialize_fluents s +++ serialize_preds_in_order s +++ ")" +++ LFs.
End Texts.

(* copy(): same keys in the same order; every set rebuilt from copies (same elements; iteration order unspecified:
   the model keeps it, statements are made up to permutation); every fluent copied; is_init kept *)
Definition state_copy (s : mstate) : mstate :=
  {| st_init := st_init s;
     st_preds := map (fun kv => (fst kv, map gp_copy (snd kv))) (st_preds s);
     st_fluents := map (fun kv => (fst kv, pf_copy (snd kv))) (st_fluents s) |}.

(* the state with the facts of every group listed in print order (same dict keys, same order of groups) *)
Definition sort_facts (s : mstate) : mstate :=
  {| st_init := st_init s;
     st_preds := map (fun kv => (fst kv, sort_by gp_untyped (snd kv))) (st_preds s);
     st_fluents := st_fluents s |}.

(* State(predicates, fluents, is_init) as built by TrajectoryExporter.parse_plan / a refused step: the same dicts *)
Definition state_with_init (b : bool) (s : mstate) : mstate :=
  {| st_init := b; st_preds := st_preds s; st_fluents := st_fluents s |}.

(* ---------- building a state the way the parsers do (used by Model/Trajectory.v and by the build-order theorems) ---------- *)
(* defaultdict(set)[key].add(g) *)
Definition preds_add (key : string) (g : gpred) (d : pydict (list gpred)) : pydict (list gpred) :=
  match dget d key with
  | Some l => dset d key (set_add g l)
  | None => dset d key [g]
  end.

(* state_fluents[f.untyped_representation] = f *)
Definition fluents_put (f : pfun) (d : pydict pfun) : pydict pfun := dset d (pf_untyped f) f.

Inductive component := CFact (g : gpred) | CFluent (f : pfun).

Definition add_component (s : mstate) (c : component) : mstate :=
  match c with
  | CFact g => {| st_init := st_init s; st_preds := preds_add (gp_lifted_untyped g) g (st_preds s);
                  st_fluents := st_fluents s |}
  | CFluent f => {| st_init := st_init s; st_preds := st_preds s; st_fluents := fluents_put f (st_fluents s) |}
  end.

Definition empty_state (init : bool) : mstate := {| st_init := init; st_preds := []; st_fluents := [] |}.
Definition build_state (init : bool) (cs : list component) : mstate := fold_left add_component cs (empty_state init).

(* ---------- what a state denotes: the ground facts and the valued ground fluents it prints ---------- *)
Definition gp_atom (g : gpred) : string * list string := (gp_name g, gp_objects g).
Definition pf_atom (f : pfun) : string * list string := (pf_name f, pf_vars f).
Definition den_facts (s : mstate) : list (string * list string) := map gp_atom (all_preds s).
Definition den_fluents (s : mstate) : list ((string * list string) * float) :=
  map (fun f => (pf_atom f, pf_val f)) (dvalues (st_fluents s)).

(* ---------- typed_serialize (wave 3) ---------- *)
(* PDDLFunction.state_typed_representation: the printed variables, each with signature[variable] (KeyError when a
   repeating variable is no signature key): f"(= ({name} {' '.join(f'{v} - {type}')}) {value})" *)
Definition pf_typed_text (num_text : float -> string) (f : pfun) : result string :=
  do items <- mapM (fun v => match dget (pf_sig f) v with
                             | Some t => Ok (v +++ " - " +++ t)
                             | None => Err EKey
                             end) (pf_vars f);
  Ok ("(= (" +++ pf_name f +++ " " +++ join " " items +++ ") " +++ pf_value_text num_text f +++ ")").

(* State.typed_serialize: "(<typed fluents joined by blanks>< for every predicate group: blank + the typed texts of its
   facts, SORTED, joined by blanks>)\n" -- no ':init' / ':state' head *)
Definition typed_serialize (num_text : float -> string) (s : mstate) : result string :=
  do groups <- mapM (fun grp => do ts <- mapM gp_typed (snd grp); Ok (" " +++ join " " (sort_strs ts))) (st_preds s);
  do fl <- mapM (pf_typed_text num_text) (dvalues (st_fluents s));
  Ok ("(" +++ join " " fl +++ fold_left String.append groups "" +++ ")" +++ LFs).

(* ---------- in-place changes of a state through its public attributes (wave 3) ---------- *)
(* state_predicates[key].discard(g) / .remove(g) for the fact object(s) printing [text] *)
Definition discard_fact (text : string) (s : mstate) : mstate :=
  {| st_init := st_init s;
     st_preds := map (fun kv => (fst kv, filter (fun g => negb (String.eqb (gp_untyped g) text)) (snd kv))) (st_preds s);
     st_fluents := st_fluents s |}.

(* state_predicates[key].add(g), the key present or not *)
Definition add_fact (key : string) (g : gpred) (s : mstate) : mstate :=
  {| st_init := st_init s; st_preds := preds_add key g (st_preds s); st_fluents := st_fluents s |}.

(* state_fluents[key].set_value(x) *)
Definition set_fluent_value (key : string) (x : float) (s : mstate) : mstate :=
  {| st_init := st_init s; st_preds := st_preds s;
     st_fluents := map (fun kv => if String.eqb (fst kv) key
                                  then (fst kv, {| pf_name := pf_name (snd kv); pf_sig := pf_sig (snd kv); pf_val := x;
                                                   pf_rep := pf_rep (snd kv); pf_int := false |})
                                  else kv) (st_fluents s) |}.
