(* Model of exporters/problem_exporter.py (ProblemExporter.extract_problem) up to layout: the token tree of the
   exported text.  The implementation's text is read back by the model's tokenizer on every run and compared with
   this tree (modulo the order inside sets).  Uses PDDLObject.__str__, GroundedPredicate.untyped_representation,
   PDDLFunction.state_representation and NumericalExpressionTree.to_pddl.  Definitions only.

   repr(float) / str(float) is NOT modelled: [repr_text] is supplied by the caller (trusted base: for every value
   the harness sees it is the text CPython printed, and float() of it is re-checked to give the value back).
   [gdigits]: how to_pddl prints the non-integral constants of numeric goals:
     Some d   "{:.df}" (the pinned exporter: to_pddl() with DEFAULT_DIGITS - deviation D50)
     None     repr (proposed fix D50: to_pddl(decimal_digits=None)). *)
From Coq Require Import ZArith List Ascii String Bool PrimFloat.
From Verif Require Import Base.Result Base.Str Base.Sexp Base.PyDict Base.Float Model.NumExpr Model.Problem.
Import ListNotations.
Open Scope string_scope.
Open Scope list_scope.

Section Export.
  Variable repr_text : float -> string.
  Variable gdigits : option nat.

  Definition goal_num_text (v : float) : string :=
    match gdigits with
    | Some d => NumExpr.num_text d v
    | None => repr_text v
    end.

  Fixpoint export_tree (t : ntree) : sexp :=
    match t with
    | NNum v => Atom (goal_num_text v)
    | NFl f => SList (Atom (nf_name f) :: map Atom (nf_params f))
    | NBin op l r => SList [Atom op; export_tree l; export_tree r]
    end.

  Definition export_objects (objs : pydict string) : list sexp :=
    flat_map (fun kv => [Atom (fst kv); Atom "-"; Atom (snd kv)]) objs.

  Definition export_atom (p : string) (args : list string) : sexp := SList (Atom p :: map Atom args).

  Definition export_facts (facts : pydict (list (list string))) : list sexp :=
    flat_map (fun kv => map (export_atom (fst kv)) (snd kv)) facts.

  Definition export_fluent (fl : mfluent) : sexp :=
    SList [Atom "="; export_atom (fl_name fl) (expand_args (fl_sig fl) (fl_rep fl)); Atom (repr_text (fl_val fl))].

  Definition export_problem (dname : string) (pb : mproblem) : sexp :=
    SList [ Atom "define";
            SList (Atom "problem" :: if String.eqb (pb_name pb) "" then [] else [Atom (pb_name pb)]);
            SList [Atom ":domain"; Atom dname];
            SList (Atom ":objects" :: export_objects (pb_objects pb));
            SList (Atom ":init" :: export_facts (pb_facts pb) ++ map (fun kf => export_fluent (snd kf)) (pb_fluents pb));
            SList [Atom ":goal";
                   SList (Atom "and" :: map (fun g => export_atom (fst g) (snd g)) (pb_goal pb)
                                        ++ map export_tree (pb_goal_num pb))] ].
End Export.
