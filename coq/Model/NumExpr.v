(* Executable model of pddl_plus_parser/models/numerical_expression.py (and the part of pddl_function.py it
   uses): construct_expression_tree, set_expression_value + calculate, evaluate_expression
   (COMPARISON_OPERATORS / ASSIGNMENT_EXPRESSIONS), NumericalExpressionTree.to_pddl.

   Floats are PrimFloat, bit exact.  float(str) is data: [pn] (a table supplied with every case by the
   harness, in hexadecimal).  A PDDLFunction is its name and the keys of its signature (types play no role in
   the observables of C12); its stored value lives in the state: set_expression_value copies the state's value
   (0.0 when the key is missing) into every fluent leaf immediately before calculate/evaluate_expression --
   the only way the library calls them (grounded_precondition.py:139-144, grounded_effect.py:145-146) -- so the
   model reads the state directly.

   Configuration [ncfg]: the module constants EPSILON / DEFAULT_DIGITS (read from the environment at import),
   the relative tolerance handed to math.isclose (1e-9 = isclose's default on the pinned tree, deviation D20;
   0 after fix D20) and whether forms with other than two operands are rejected (false on the pinned tree:
   (+ a b c) silently keeps a b, deviation D08; true after fix D08).

   Not modelled: the [id] attribute of the anytree nodes (used by __str__ only); a form whose head is itself a
   list (the library stores the list as "operator"): [Err EOther] at construction.
   Err kinds: ESyntax SyntaxError, EValue ValueError, EKey KeyError, EIndex IndexError, EType TypeError,
   EAttr AttributeError, EOther ZeroDivisionError (in calculate). *)
From Coq Require Import ZArith List Bool String Ascii PrimFloat FloatOps.
From Verif Require Import Base.Result Base.Str Base.Sexp Base.Float.
Import ListNotations.
Open Scope string_scope.
Open Scope list_scope.

(* ------------------------------------------------------------------ small dict helpers (insertion ordered) *)
Fixpoint alookup {V} (k : string) (d : list (string * V)) : option V :=
  match d with
  | [] => None
  | (k', v) :: r => if String.eqb k k' then Some v else alookup k r
  end.

Fixpoint has_dup_s (l : list string) : bool :=
  match l with [] => false | x :: r => str_in x r || has_dup_s r end.

(* d[k] = v : in place when the key exists, appended otherwise *)
Fixpoint aset {V} (d : list (string * V)) (k : string) (v : V) : list (string * V) :=
  match d with
  | [] => [(k, v)]
  | (k', v') :: r => if String.eqb k k' then (k', v) :: r else (k', v') :: aset r k v
  end.

(* keys of {k: ... for k in l}: first occurrences, in order *)
Fixpoint dedup_keys (seen l : list string) : list string :=
  match l with
  | [] => []
  | x :: r => if str_in x seen then dedup_keys seen r else x :: dedup_keys (x :: seen) r
  end.

(* ------------------------------------------------------------------ objects *)
Record nfun := { nf_name : string; nf_params : list string }.

(* PDDLFunction.untyped_representation: "(name p1 p2)"; "(name )" without parameters *)
Definition untyped_rep (f : nfun) : string :=
  "(" ++ nf_name f ++ " " ++ join " " (nf_params f) ++ ")".

Inductive ntree :=
| NNum (v : float)
| NFl (f : nfun)
| NBin (op : string) (l r : ntree).

Record ncfg := { cfg_eps : float; cfg_rel : float; cfg_digits : nat; cfg_strict : bool }.

Definition LEGAL_NUMERICAL_EXPRESSIONS : list string :=
  ["="; "!="; "<="; ">="; ">"; "<"; "+"; "-"; "/"; "*"; "increase"; "decrease"; "assign"].
Definition LEGAL_NUMERIC_OPERATORS : list string := ["+"; "-"; "/"; "*"].
Definition ASSIGNMENT_NAMES : list string := ["increase"; "decrease"; "assign"; "scale-up"; "scale-down"].

Definition domain_functions := list (string * list string).   (* name -> signature keys *)
Definition fluents := list (string * float).                   (* untyped representation -> value *)

(* ------------------------------------------------------------------ construct_expression_tree *)
Fixpoint all_atoms (l : list sexp) : option (list string) :=
  match l with
  | [] => Some []
  | Atom s :: r => match all_atoms r with Some t => Some (s :: t) | None => None end
  | SList _ :: _ => None
  end.

Section Construct.
  Variable strict : bool.
  Variable pn : string -> option float.
  Variable funcs : domain_functions.

  Definition construct_atom (s : string) : result ntree :=
    if str_in s LEGAL_NUMERICAL_EXPRESSIONS then Err ESyntax
    else match pn s with Some v => Ok (NNum v) | None => Err ESyntax end.

  (* a list of strings only: an operator on two constants, or a function *)
  Definition construct_flat (strs : list string) : result ntree :=
    match strs with
    | [] => Err EIndex
    | h :: args =>
        if str_in h LEGAL_NUMERIC_OPERATORS then
          if strict && negb (Nat.eqb (List.length args) 2) then Err ESyntax else
          match args with
          | [] => Err EIndex
          | a :: rest =>
              match pn a with
              | None => Err EValue
              | Some x =>
                  match rest with
                  | [] => Err EIndex
                  | b :: _ =>
                      match pn b with
                      | None => Err EValue
                      | Some y => Ok (NBin h (NNum x) (NNum y))
                      end
                  end
              end
          end
        else
          match alookup h funcs with
          | None => Err EKey
          | Some sig =>
              (* since the D46 repair an application with a wrong number of arguments or a repeated argument is a
                 ValueError ('(f)' for an n-ary f included) *)
              if strict && (negb (Nat.eqb (List.length args) (List.length sig)) || has_dup_s args) then Err EValue else
              match args with
              | [] => Ok (NFl {| nf_name := h; nf_params := sig |})
              | _ => Ok (NFl {| nf_name := h; nf_params := dedup_keys [] (firstn (List.length sig) args) |})
              end
          end
    end.

  Fixpoint construct (e : sexp) : result ntree :=
    match e with
    | Atom s => construct_atom s
    | SList l =>
        match all_atoms l with
        | Some strs => construct_flat strs
        | None =>
            if strict && negb (Nat.eqb (List.length l) 3) then Err ESyntax else
            match l with
            | h :: a :: rest =>
                do x <- construct a;
                match rest with
                | b :: _ =>
                    do y <- construct b;
                    match h with
                    | Atom op => Ok (NBin op x y)
                    | SList _ => Err EOther
                    end
                | [] => Err EIndex
                end
            | _ => Err EIndex
            end
        end
    end.
End Construct.

(* ------------------------------------------------------------------ set_expression_value ; calculate *)
Definition fluent_value (st : fluents) (f : nfun) : float :=
  match alookup (untyped_rep f) st with Some v => v | None => 0%float end.

Definition binop (op : string) (x y : float) : result float :=
  if String.eqb op "+" then Ok (x + y)%float
  else if String.eqb op "-" then Ok (x - y)%float
  else if String.eqb op "/" then (if PrimFloat.eqb y 0%float then Err EOther else Ok (x / y)%float)
  else if String.eqb op "*" then Ok (x * y)%float
  else Err EKey.

Fixpoint calculate (st : fluents) (t : ntree) : result float :=
  match t with
  | NNum v => Ok v
  | NFl f => Ok (fluent_value st f)
  | NBin op l r =>
      do x <- calculate st l;
      do y <- calculate st r;
      binop op x y
  end.

(* ------------------------------------------------------------------ COMPARISON_OPERATORS *)
(* math.isclose(a, b, rel_tol=rel, abs_tol=abs_tol), CPython Modules/mathmodule.c *)
Definition rel_term (rel a b : float) : bool :=
  let diff := abs (b - a)%float in
  PrimFloat.leb diff (abs (rel * b)%float) || PrimFloat.leb diff (abs (rel * a)%float).

Definition isclose (rel abs_tol a b : float) : result bool :=
  if PrimFloat.ltb rel 0%float || PrimFloat.ltb abs_tol 0%float then Err EValue
  else if PrimFloat.eqb a b then Ok true
  else if is_infinity a || is_infinity b then Ok false
  else Ok (rel_term rel a b || PrimFloat.leb (abs (b - a)%float) abs_tol).

Definition compare_op (cfg : ncfg) (op : string) (x y : float) : result bool :=
  let close := isclose (cfg_rel cfg) (cfg_eps cfg) x y in
  if String.eqb op "=" then close
  else if String.eqb op "!=" then (do c <- close; Ok (negb c))
  else if String.eqb op "<=" then (do c <- close; Ok (c || PrimFloat.ltb x y))
  else if String.eqb op ">=" then (do c <- close; Ok (c || PrimFloat.ltb y x))
  else if String.eqb op ">" then Ok (PrimFloat.ltb y x)
  else if String.eqb op "<" then Ok (PrimFloat.ltb x y)
  else Err EKey.

(* ------------------------------------------------------------------ ASSIGNMENT_EXPRESSIONS *)
Definition assign_op (op : string) (old v : float) : result float :=
  if String.eqb op "assign" then Ok v
  else if String.eqb op "increase" then Ok (old + v)%float
  else if String.eqb op "decrease" then Ok (old - v)%float
  else if String.eqb op "scale-up" then Ok (old * v)%float
  else if String.eqb op "scale-down" then (if PrimFloat.eqb v 0%float then Err EValue else Ok (old / v)%float)
  else Err EKey.

(* ------------------------------------------------------------------ evaluate_expression *)
Inductive evres :=
| EvBool (b : bool)
| EvAssign (target : string) (v : float).   (* the PDDLFunction returned: its key and its new value *)

Definition evaluate (cfg : ncfg) (st : fluents) (t : ntree) : result evres :=
  match t with
  | NNum _ => Err EIndex          (* children[0] of a leaf *)
  | NFl _ => Err EType            (* "PDDLFunction in dict": unhashable *)
  | NBin op l r =>
      if str_in op ASSIGNMENT_NAMES then
        do v <- calculate st r;
        match l with
        | NFl f => do nv <- assign_op op (fluent_value st f) v; Ok (EvAssign (untyped_rep f) nv)
        | _ => Err EAttr
        end
      else
        do x <- calculate st l;
        do y <- calculate st r;
        do b <- compare_op cfg op x y;
        Ok (EvBool b)
  end.

(* grounded_effect.apply for one numeric effect: state.state_fluents[key] = new value *)
Definition write_back (st : fluents) (r : evres) : fluents :=
  match r with
  | EvAssign k v => aset st k v
  | EvBool _ => st
  end.

(* ------------------------------------------------------------------ to_pddl *)
Definition num_text (digits : nat) (v : float) : string :=
  match exact v with
  | Some d => if dy_is_integer d then py_int_text (dy_trunc d) else format_fixed digits v
  | None => format_fixed digits v
  end.

Fixpoint to_pddl (digits : nat) (t : ntree) : string :=
  match t with
  | NNum v => num_text digits v
  | NFl f => untyped_rep f
  | NBin op l r => "(" ++ op ++ " " ++ to_pddl digits l ++ " " ++ to_pddl digits r ++ ")"
  end.

(* the two configurations of interest *)
Definition cfg_pinned (eps : float) (digits : nat) : ncfg :=
  {| cfg_eps := eps; cfg_rel := 0x1.12e0be826d695p-30%float (* 1e-9 *); cfg_digits := digits; cfg_strict := false |}.
Definition cfg_fixed (eps : float) (digits : nat) : ncfg :=
  {| cfg_eps := eps; cfg_rel := 0%float; cfg_digits := digits; cfg_strict := true |}.

(* ------------------------------------------------------------------ GroundedEffect.apply, numeric part *)
(* grounded_effect.py:170-195: EVERY numeric effect of the group is evaluated first (set_expression_value from the
   previous state's fluents, then evaluate_expression), the results are stored afterwards, one after the other, into
   the state being built ([cur]; Operator.apply passes a copy of the previous state).  The list is the iteration
   order of the Python set of effects. *)
Definition apply_effects (cfg : ncfg) (prev cur : fluents) (effs : list ntree) : result fluents :=
  do rs <- mapM (evaluate cfg prev) effs;
  Ok (fold_left write_back rs cur).
