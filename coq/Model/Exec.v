(* Model of grounding and execution: models/{grounding_utils,grounded_precondition,grounded_effect,pddl_operator}.py
   on the tree after the repairs D09-D14, D35-D37 (see known_findings.json).
   Operator.ground() -> ground_action;  Operator.is_applicable -> is_applicable;  Operator.apply -> apply_op.
   Sets are lists in iteration order; apply_op takes the order in which the effect groups are visited.
   Facts are matched by their untyped text: here by (predicate, argument list). *)
From Coq Require Import List Ascii String Bool Arith PrimFloat.
From Verif Require Import Base.Result Base.Str Base.Sexp Base.PyDict Model.Types Model.Domain Spec.Pddl.
Import ListNotations.
Open Scope string_scope.
Open Scope list_scope.

Definition pmap := pydict string.                         (* parameter -> object *)

(* ---------- grounded object model ---------- *)
Inductive gtree :=
| GTNum (x : float)
| GTFn (a : atom)
| GTNode (op : string) (l r : gtree).

Inductive gcond :=
| GLit (pos : bool) (a : atom)
| GNum (t : gtree)
| GNested (g : gpre)
| GUniv (v ty : string) (body : mpre) (pm : pmap)         (* grounded per object when it is validated *)
with gpre :=
| GPre (op : string) (operands : list gcond) (eqs neqs : list (string * string)).

Record ggroup := { gg_ante : option gpre; gg_disc : list (bool * atom); gg_num : list gtree }.

Record gaction := {
  ga_action : maction;
  ga_pm : pmap;
  ga_pre : gpre;
  ga_groups : list ggroup                                  (* the unconditional group first, then one per 'when' *)
}.

Section Ground.
  Variable dom : mdomain.

  (* a name inside a literal or a function application: constants first, then the parameter map *)
  Definition ground_name (pm : pmap) (t : string) : result string :=
    if dmem (d_consts dom) t then Ok t
    else match dget pm t with Some o => Ok o | None => Err EKey end.

  (* ground_predicate: the predicate must be declared; arity must match (the library pads with constants
     or truncates silently: outside the generated fragment) *)
  Definition ground_lit (pm : pmap) (p : string) (args : list string) : result atom :=
    match dget (d_preds dom) p with
    | None => Err EKey
    | Some sg =>
        if negb (Nat.eqb (List.length sg) (List.length args)) then Err EValue
        else do os <- mapM (ground_name pm) args; Ok (p, os)
    end.

  Fixpoint ground_tree (pm : pmap) (t : mtree) : result gtree :=
    match t with
    | TNum x => Ok (GTNum x)
    | TFn f args => do os <- mapM (ground_name pm) args; Ok (GTFn (f, os))
    | TNode op l r => do gl <- ground_tree pm l; do gr <- ground_tree pm r; Ok (GTNode op gl gr)
    end.

  (* _ground_equality_objects: through the parameter map only *)
  Definition ground_pairs (pm : pmap) (l : list (string * string)) : result (list (string * string)) :=
    mapM (fun ab => match dget pm (fst ab), dget pm (snd ab) with
                    | Some a, Some b => Ok (a, b)
                    | _, _ => Err EKey
                    end) l.

  Fixpoint ground_pre (pm : pmap) (p : mpre) : result gpre :=
    match p with
    | MPre op os eqs neqs =>
        do geqs <- ground_pairs pm eqs;
        do gneqs <- ground_pairs pm neqs;
        do gos <- (fix go (l : list mcond) : result (list gcond) :=
                     match l with
                     | [] => Ok []
                     | c :: r => do gc <- ground_cond pm c; do gr <- go r; Ok (gc :: gr)
                     end) os;
        Ok (GPre op gos geqs gneqs)
    end
  with ground_cond (pm : pmap) (c : mcond) : result gcond :=
    match c with
    | MLit pos p args => do a <- ground_lit pm p args; Ok (GLit pos a)
    | MNum t => do g <- ground_tree pm t; Ok (GNum g)
    | MNested q => do g <- ground_pre pm q; Ok (GNested g)
    | MUniv v ty body => Ok (GUniv v ty body pm)
    end.

  Definition ground_group (pm : pmap) (ante : option mpre) (disc : list mlit) (nums : list mtree) : result ggroup :=
    do ga <- match ante with None => Ok None | Some a => do g <- ground_pre pm a; Ok (Some g) end;
    do gd <- mapM (fun l => do a <- ground_lit pm (l_name l) (l_args l); Ok (l_pos l, a)) disc;
    do gn <- mapM (ground_tree pm) nums;
    Ok {| gg_ante := ga; gg_disc := gd; gg_num := gn |}.

  (* Operator.ground: zip(signature, call objects) *)
  Definition ground_action (a : maction) (args : list string) : result gaction :=
    let pm := combine (dkeys (ma_sig a)) args in
    do gp <- ground_pre pm (ma_pre a);
    do g0 <- ground_group pm None (ma_disc a) (ma_num a);
    do gs <- mapM (fun ce => ground_group pm (Some (ce_ante ce)) (ce_disc ce) (ce_num ce)) (ma_cond a);
    Ok {| ga_action := a; ga_pm := pm; ga_pre := gp; ga_groups := g0 :: gs |}.

  (* ---------- evaluation ---------- *)
  Variable eps : float.

  Definition binop_of (s : string) : option binop :=
    if String.eqb s "+" then Some OAdd else if String.eqb s "-" then Some OSub
    else if String.eqb s "*" then Some OMul else if String.eqb s "/" then Some ODiv else None.
  Definition cmpop_of (s : string) : option cmpop :=
    if String.eqb s "=" then Some CEq else if String.eqb s "<=" then Some CLe
    else if String.eqb s ">=" then Some CGe else if String.eqb s "<" then Some CLt
    else if String.eqb s ">" then Some CGt else None.
  Definition assignop_of (s : string) : option assignop :=
    if String.eqb s "assign" then Some AAssign else if String.eqb s "increase" then Some AIncrease
    else if String.eqb s "decrease" then Some ADecrease else None.

  Definition is_zero (x : float) : bool := (x =? 0)%float.

  (* calculate: a missing fluent reads 0.0; Python raises ZeroDivisionError on x / 0.0 *)
  Fixpoint calc (s : state) (t : gtree) : result float :=
    match t with
    | GTNum x => Ok x
    | GTFn a => Ok (match fluent_get a (fluents s) with Some v => v | None => 0%float end)
    | GTNode op l r =>
        do x <- calc s l; do y <- calc s r;
        match binop_of op with
        | None => Err EKey
        | Some ODiv => if is_zero y then Err EOther else Ok (x / y)%float
        | Some o => Ok (apply_binop o x y)
        end
    end.

  (* evaluate_expression on a comparison; KeyError (unknown operator) is caught by the caller and reads False *)
  Definition eval_cmp (s : state) (t : gtree) : result bool :=
    match t with
    | GTNode op l r =>
        match cmpop_of op with
        | Some c => do x <- calc s l; do y <- calc s r; Ok (cmp_holds eps c x y)
        | None =>
            match assignop_of op with
            | Some _ => Err EAttr                            (* an assignment used as a condition *)
            | None => do x <- calc s l; do y <- calc s r; Ok false
            end
        end
    | _ => Err EAttr
    end.

  Definition fold_op (op : string) (a b : bool) : bool := if String.eqb op "or" then a || b else a && b.
  Definition seed_of (op : string) (eqs neqs : list (string * string)) : bool :=
    let rs := map (fun ab => String.eqb (fst ab) (snd ab)) eqs ++
              map (fun ab => negb (String.eqb (fst ab) (snd ab))) neqs in
    if String.eqb op "or" then existsb (fun b => b) rs else forallb (fun b => b) rs.

  Variable objs : option objects.                           (* problem objects: name -> type *)

  (* evaluation of a lifted body under a parameter map (used for forall bodies): ground on the fly.
     Every operand is evaluated (the library's fold does not short-circuit); the first error wins. *)
  Fixpoint eval_lifted (s : state) (pm : pmap) (p : mpre) : result bool :=
    match p with
    | MPre op os eqs neqs =>
        do geqs <- ground_pairs pm eqs;
        do gneqs <- ground_pairs pm neqs;
        (fix go (l : list mcond) (acc : bool) : result bool :=
           match l with
           | [] => Ok acc
           | c :: r => do b <- eval_lifted_cond s pm c; go r (fold_op op acc b)
           end) os (seed_of op geqs gneqs)
    end
  with eval_lifted_cond (s : state) (pm : pmap) (c : mcond) : result bool :=
    match c with
    | MLit pos p args =>
        do a <- ground_lit pm p args; Ok (if pos then atom_in a (facts s) else negb (atom_in a (facts s)))
    | MNum t => do g <- ground_tree pm t; eval_cmp s g
    | MNested q => eval_lifted s pm q
    | MUniv v ty body =>
        match objs with
        | None => Ok true                                     (* no object table: skipped with a warning *)
        | Some os =>
            (fix over (l : objects) (acc : bool) : result bool :=
               match l with
               | [] => Ok acc
               | (o, oty) :: r =>
                   if is_sub_type (d_types dom) oty ty
                   then do b <- eval_lifted s (dset pm v o) body; over r (acc && b)
                   else over r acc
               end) os true
        end
    end.

  Fixpoint eval_g (s : state) (g : gpre) : result bool :=
    match g with
    | GPre op os eqs neqs =>
        (fix go (l : list gcond) (acc : bool) : result bool :=
           match l with
           | [] => Ok acc
           | c :: r => do b <- eval_gcond s c; go r (fold_op op acc b)
           end) os (seed_of op eqs neqs)
    end
  with eval_gcond (s : state) (c : gcond) : result bool :=
    match c with
    | GLit pos a => Ok (if pos then atom_in a (facts s) else negb (atom_in a (facts s)))
    | GNum t => eval_cmp s t
    | GNested q => eval_g s q
    | GUniv v ty body pm => eval_lifted_cond s pm (MUniv v ty body)
    end.

  Definition is_applicable (ga : gaction) (s : state) : result bool := eval_g s (ga_pre ga).
End Ground.

(* ---------- apply ---------- *)
Section Apply.
  Variable dom : mdomain.
  Variable eps : float.

  (* one numeric effect: value computed in the previous state *)
  Definition eval_numeric_effect (prev : state) (t : gtree) : result (atom * float) :=
    match t with
    | GTNode op (GTFn a) rhs =>
        match assignop_of op with
        | Some k =>
            do v <- calc prev rhs;
            let old := match fluent_get a (fluents prev) with Some x => x | None => 0%float end in
            Ok (a, match k with AAssign => v | AIncrease => (old + v)%float | ADecrease => (old - v)%float end)
        | None => Err EKey
        end
    | _ => Err EAttr
    end.

  (* GroundedEffect.apply: deletes, adds, then every numeric update (all evaluated before any is stored) *)
  Definition apply_group_m (prev cur : state) (g : ggroup) : result state :=
    let dels := flat_map (fun pa : bool * atom => if fst pa then [] else [snd pa]) (gg_disc g) in
    let adds := flat_map (fun pa : bool * atom => if fst pa then [snd pa] else []) (gg_disc g) in
    let f1 := fold_left (fun fs a => remove_atom a fs) dels (facts cur) in
    let f2 := fold_left (fun fs a => add_atom a fs) adds f1 in
    do vals <- mapM (eval_numeric_effect prev) (gg_num g);
    Ok {| facts := f2; fluents := fold_left (fun fl av => fluent_set (fst av) (snd av) fl) vals (fluents cur) |}.

  Definition antecedents_hold (objs : option objects) (g : ggroup) (s : state) : result bool :=
    match gg_ante g with
    | None => Ok true
    | Some a => eval_g dom eps objs s a                      (* the operator's object table (after the D37/D40 repair) *)
    end.

  (* reorder the groups by a list of indices (the iteration order of the effect set) *)
  Definition reorder {A} (l : list A) (order : list nat) : list A :=
    flat_map (fun i => match nth_error l i with Some x => [x] | None => [] end) order.

  Definition apply_universal (ga : gaction) (objs : option objects) (uorder : list nat) (prev cur : state)
    : result state :=
    match objs with
    | None => Ok cur
    | Some os =>
        foldM (fun cur1 o =>
                 foldM (fun cur2 ue =>
                          if is_sub_type (d_types dom) (snd o) (ue_ty ue) then
                            let pm := dset (ga_pm ga) (ue_var ue) (fst o) in
                            let ce := ue_ce ue in
                            do g <- ground_group dom pm (Some (ce_ante ce)) (ce_disc ce) (ce_num ce);
                            do h <- antecedents_hold (Some os) g prev;
                            if h then apply_group_m prev cur2 g else Ok cur2
                          else Ok cur2)
                       (reorder (ma_univ (ga_action ga)) uorder) cur1)
              os cur
    end.

  Definition apply_op (ga : gaction) (objs : option objects) (allow skip : bool)
             (order uorder : list nat) (prev : state) : result state :=
    do okb <- (if skip then Ok true else is_applicable dom eps objs ga prev);
    if negb okb && negb allow then Err EValue
    else
      do cur <- foldM (fun cur g =>
                         do h <- (if skip then Ok true else antecedents_hold objs g prev);
                         if h then apply_group_m prev cur g else Ok cur)
                      (reorder (ga_groups ga) order) prev;
      apply_universal ga objs uorder prev cur.
End Apply.

(* ---------- denotation: what formula / effect the object model means (the interface to Spec.Pddl) ---------- *)
Fixpoint denote_tree (t : mtree) : option nexp :=
  match t with
  | TNum x => Some (NNum x)
  | TFn f args => Some (NFl f args)
  | TNode op l r =>
      match binop_of op, denote_tree l, denote_tree r with
      | Some o, Some a, Some b => Some (NBin o a b)
      | _, _, _ => None
      end
  end.

Definition denote_cmp (t : mtree) : option form :=
  match t with
  | TNode op l r =>
      match cmpop_of op, denote_tree l, denote_tree r with
      | Some c, Some a, Some b => Some (FCmp c a b)
      | _, _, _ => None
      end
  | _ => None
  end.

Fixpoint denote_pre (p : mpre) : option form :=
  match p with
  | MPre op os eqs neqs =>
      let parts := map (fun ab => Some (FEq (fst ab) (snd ab))) eqs ++
                   map (fun ab => Some (FNeq (fst ab) (snd ab))) neqs ++
                   (fix go (l : list mcond) : list (option form) :=
                      match l with [] => [] | c :: r => denote_cond c :: go r end) os in
      if forallb (fun o => match o with Some _ => true | None => false end) parts then
        let fs := flat_map (fun o => match o with Some f => [f] | None => [] end) parts in
        Some (if String.eqb op "or" then FOr fs else FAnd fs)
      else None
  end
with denote_cond (c : mcond) : option form :=
  match c with
  | MLit true p args => Some (FAtom p args)
  | MLit false p args => Some (FNotAtom p args)
  | MNum t => denote_cmp t
  | MNested q => denote_pre q
  | MUniv v ty body => match denote_pre body with Some f => Some (FForall v ty f) | None => None end
  end.

(* Operator.quantification_objects (pddl_operator.py, repair of D30): what the quantified conditions and effects of an
   Operator built with the problem objects [objs] range over - the domain's constants, then the problem's objects
   ({**domain.constants, **problem_objects}).  is_applicable / apply_op above take THIS table as their [objs]. *)
Definition quantification_objects (dom : mdomain) (objs : objects) : objects := dupdate (d_consts dom) objs.
