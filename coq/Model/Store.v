(* Store / ownership model for C07 (definitions only).

   A purely functional model would make "inputs are never modified" trivially true, so this model is about
   *footprints*: the mutable objects the Python code shares are cells of an explicit store, every cell lives in
   the region of its owner (a domain, a state, an operator object, or the module pddl_domain), and every API
   operation is a list of Alloc/Read/Write/Link events computed from its arguments the way the code performs
   them (pddl_operator.py, grounded_effect.py, grounded_precondition.py, numerical_expression.py
   set_expression_value/evaluate_expression, pddl_state.py copy, pddl_domain.py, numeric_trajectory_exporter.py
   create_single_triplet, multi_agent_domain_converter.py locate_domains).

   What is abstracted: VALUES.  A cell's content is a stamp (number of writes); which branch a value-dependent
   test takes (action refused?  step refused?) is an input of the operation.  Objects that no operation of the
   property's scope writes after construction (PDDLType, Predicate/GroundedPredicate and their signature dicts,
   PDDLObject) are values, not cells.  CPython's scheduler, the GIL and byte-code atomicity are outside: the
   interleaving theorem is about interleavings of these container-level events.

   Cells (region, index):
     (OMod, 0)            pddl_domain.DEFAULT_TYPES
     (OMod, 1)            every other process-wide object of the library: module globals, class attributes and the
                          default-argument objects of its functions (e.g. the one dict of
                          PDDLFunction.__init__(repeating_variables={}) that every fluent built without explicit
                          repeating variables carries and every serializer of a state reads)
     (ODom d, 0)          Domain.types when the domain owns it        (ODom d, 1)   everything else lifted
     (ODom d, 2+i)        Action.signature of the i-th action
     (OSt s, 0/1/2)       state_predicates (dict + fact sets) / state_fluents dict / Problem.objects
     (OSt s, 3+j)         PDDLFunction value cells
     (OOp o, 0)           the Operator's own fields (grounded flag, caches)
     (OOp o, 1+j)         PDDLFunction leaves of its grounded precondition / antecedent / effect trees.

   The four repairs are switches, so that the same model describes the tree before and after each of them:
   fix15 (forall effects work on a copy of the signature), fix16 (the successor stores a copy of the evaluated
   function), fix17 (a refused step returns a copy), fix18 (Domain() copies DEFAULT_TYPES). *)
From Coq Require Import List Bool Arith PeanoNat.
Import ListNotations.
Open Scope list_scope.

Inductive owner := ODom (d : nat) | OSt (s : nat) | OOp (o : nat) | OMod.
Definition loc := (owner * nat)%type.

Definition owner_eqb (a b : owner) : bool :=
  match a, b with
  | ODom x, ODom y | OSt x, OSt y | OOp x, OOp y => Nat.eqb x y
  | OMod, OMod => true
  | _, _ => false
  end.
Definition loc_eqb (a b : loc) : bool := owner_eqb (fst a) (fst b) && Nat.eqb (snd a) (snd b).

(* values in the sense of the property: everything but operator objects *)
Definition protected (o : owner) : bool := match o with OOp _ => false | _ => true end.

Inductive event :=
| Alloc (l : loc)
| Read (l : loc)
| Write (l : loc)
| Link (v : owner) (l : loc).      (* v now references cell l (l is reachable from v) *)

(* contents are stamps *)
Definition store := loc -> nat.
Definition upd (st : store) (l : loc) (n : nat) : store := fun l' => if loc_eqb l l' then n else st l'.
Definition exec (st : store) (e : event) : store :=
  match e with
  | Write l => upd st l (S (st l))
  | _ => st
  end.
Definition exec_all (st : store) (es : list event) : store := fold_left exec es st.

Record cfg := { fix15 : bool; fix16 : bool; fix17 : bool; fix18 : bool }.
Definition all_fixed : cfg := {| fix15 := true; fix16 := true; fix17 := true; fix18 := true |}.
(* the configurations in which no operation writes a cell of a live value: D17 only aliases, it never writes *)
Definition writes_fixed (c : cfg) : bool := fix15 c && fix16 c && fix18 c.

(* shape of an action schema: #leaves in grounded precondition/antecedent trees; numeric effects of the cached
   groups (assigned fluent key, #leaves of the right-hand side); number of forall effects *)
Record ashape := { a_pre : nat; a_effs : list (nat * nat); a_forall : nat }.

Record dinfo := { d_types : loc; d_nacts : nat }.
Record sinfo := { s_cells : list loc; s_vals : list (nat * loc) }.
Record oinfo := { o_dom : nat; o_act : nat; o_objs : option nat; o_sh : ashape;
                  o_grounded : bool; o_base : nat; o_next : nat }.
Record mstate := { doms : list dinfo; sts : list sinfo; ops : list oinfo }.

Definition init : mstate := {| doms := []; sts := []; ops := [] |}.

Inductive op :=
| ONop                                                  (* a call that failed before doing anything / was skipped *)
| OParseDomain (typed : bool) (nacts : nat)
| ONewDomain
| OCombine (nacts : nat)
| OShallowCopy (d : nat)                                (* Domain.shallow_copy: a new domain built from copies *)
| OParseProblem (d : nat) (keys : list nat)
| OMkOp (d a : nat) (objs : option nat) (sh : ashape)
| OGround (o : nat)
| OApplicable (o s : nat)
| OApply (o s : nat) (skip raised : bool)
| OCopy (s : nat)
| OReadState (s : nat)
| OReadDomain (d : nat)
| OReadOp (o : nat)
| OTriplet (d a s pobjs : nat) (sh : ashape) (refused : bool)
| ONewState (d p : nat) (keys : list nat).              (* a State read from text against domain d and the objects of
                                                           problem p: TrajectoryParser.parse_state *)

(* ---------------------------------------------------------------- helpers *)
Definition dflt_d : dinfo := {| d_types := (OMod, 0); d_nacts := 0 |}.
Definition dflt_s : sinfo := {| s_cells := []; s_vals := [] |}.
Definition dflt_sh : ashape := {| a_pre := 0; a_effs := []; a_forall := 0 |}.
Definition dflt_o : oinfo := {| o_dom := 0; o_act := 0; o_objs := None; o_sh := dflt_sh; o_grounded := false;
                                o_base := 1; o_next := 1 |}.

Definition dom_cells (d : nat) (di : dinfo) : list loc :=
  d_types di :: (ODom d, 1) :: map (fun i => (ODom d, 2 + i)) (seq 0 (d_nacts di)).
Definition st_cells (si : sinfo) : list loc := s_cells si ++ map snd (s_vals si).
Definition sig_cell (d a : nat) : loc := (ODom d, 2 + a).

Definition nleaves (sh : ashape) : nat := a_pre sh + fold_right (fun e n => S (snd e) + n) 0 (a_effs sh).

Fixpoint set_val (vals : list (nat * loc)) (k : nat) (l : loc) : list (nat * loc) :=
  match vals with
  | [] => [(k, l)]
  | (k', l') :: r => if Nat.eqb k k' then (k, l) :: r else (k', l') :: set_val r k l
  end.

Definition region (o : owner) (from n : nat) : list loc := map (fun i => (o, i)) (seq from n).

(* Domain(): returns the types cell and the events *)
Definition new_domain_types (c : cfg) (d : nat) (typed : bool) : loc * list event :=
  if typed then ((ODom d, 0), [Alloc (ODom d, 0); Write (ODom d, 0)])          (* parse_types builds a fresh dict *)
  else if fix18 c then ((ODom d, 0), [Read (OMod, 0); Alloc (ODom d, 0)])     (* dict(DEFAULT_TYPES) *)
  else ((OMod, 0), []).                                                          (* self.types = DEFAULT_TYPES *)

Definition ev_new_domain (c : cfg) (m : mstate) (typed : bool) (nacts : nat) (upd_types : bool) : mstate * list event :=
  let d := List.length (doms m) in
  let '(t, evs) := new_domain_types c d typed in
  let di := {| d_types := t; d_nacts := nacts |} in
  let own := (ODom d, 1) :: map (fun i => (ODom d, 2 + i)) (seq 0 nacts) in
  let evs' := evs ++ map Alloc own ++ map Write own
                  ++ (if upd_types then [Write t] else [])           (* combined_domain.types.update(...) *)
                  ++ map (Link (ODom d)) (dom_cells d di) in
  ({| doms := doms m ++ [di]; sts := sts m; ops := ops m |}, evs').

(* a fresh state owning copies: cells 0,1 (and optionally 2) and one value cell per key *)
Definition fresh_state (s : nat) (ncells : nat) (keys : list nat) : sinfo :=
  {| s_cells := region (OSt s) 0 ncells;
     s_vals := combine keys (region (OSt s) 3 (List.length keys)) |}.

Definition add_state (m : mstate) (si : sinfo) : mstate :=
  {| doms := doms m; sts := sts m ++ [si]; ops := ops m |}.

Definition ev_copy_state (m : mstate) (src : sinfo) : sinfo * list event :=
  let s := List.length (sts m) in
  let si := fresh_state s 2 (map fst (s_vals src)) in
  (si, map Read (st_cells src) ++ map Alloc (st_cells si) ++ map Write (st_cells si)
         ++ map (Link (OSt s)) (st_cells si)).

(* grounding: reads the schema, allocates the leaves in the operator's region *)
Definition ev_ground (m : mstate) (o : nat) (oi : oinfo) : oinfo * list event :=
  let n := nleaves (o_sh oi) in
  let leaves := region (OOp o) (o_next oi) n in
  ({| o_dom := o_dom oi; o_act := o_act oi; o_objs := o_objs oi; o_sh := o_sh oi; o_grounded := true;
      o_base := o_next oi; o_next := o_next oi + n |},
   [Read (sig_cell (o_dom oi) (o_act oi)); Read (ODom (o_dom oi), 1)]
   ++ map Alloc leaves ++ [Write (OOp o, 0)] ++ map (Link (OOp o)) leaves).

Definition set_op (m : mstate) (o : nat) (oi : oinfo) : mstate :=
  {| doms := doms m; sts := sts m;
     ops := firstn o (ops m) ++ [oi] ++ skipn (S o) (ops m) |}.

Definition ensure_grounded (m : mstate) (o : nat) : mstate * oinfo * list event :=
  let oi := nth o (ops m) dflt_o in
  if o_grounded oi then (m, oi, [])
  else let '(oi', evs) := ev_ground m o oi in (set_op m o oi', oi', evs).

Definition objs_reads (m : mstate) (oi : oinfo) : list event :=
  match o_objs oi with Some p => [Read (OSt p, 2)] | None => [] end.

(* is_applicable: walks the state's facts, copies its fluent values into the operator's precondition leaves; a
   quantified precondition is grounded per problem object against an extended COPY of the schema's signature
   ({**action.signature, var: type}: a read of the shared dict) *)
Definition ev_applicable (m : mstate) (o : nat) (oi : oinfo) (si : sinfo) : list event :=
  map Read (st_cells si) ++ objs_reads m oi
  ++ [Read (sig_cell (o_dom oi) (o_act oi))]
  ++ map Write (region (OOp o) (o_base oi) (a_pre (o_sh oi))).

(* numeric effects of the cached groups applied to the new state s (info si), leaves starting at index i *)
Fixpoint ev_effects (c : cfg) (o s : nat) (i : nat) (effs : list (nat * nat)) (si : sinfo) (fresh : nat)
  : sinfo * list event :=
  match effs with
  | [] => (si, [])
  | (k, nrhs) :: r =>
      let leaf := (OOp o, i) in
      let rhs := region (OOp o) (S i) nrhs in
      (* set_expression_value writes every leaf from the state; evaluate_expression writes the assigned leaf *)
      let evs := map Read (st_cells si) ++ map Write (leaf :: rhs) ++ [Write leaf] in
      let '(cell, evs2) :=
        if fix16 c then let cl := (OSt s, fresh) in (cl, [Read leaf; Alloc cl; Write cl])   (* new_value.copy() *)
        else (leaf, []) in
      let si' := {| s_cells := s_cells si; s_vals := set_val (s_vals si) k cell |} in
      let '(si'', evs3) := ev_effects c o s (S i + nrhs) r si' (S fresh) in
      (si'', evs ++ evs2 ++ [Write (OSt s, 1); Link (OSt s) cell] ++ evs3)
  end.

(* forall effects: per (object, effect) pair the unrepaired code inserts the quantified variable into the shared
   signature dict (and pops it only when the object's type matched) *)
Definition ev_universal (c : cfg) (m : mstate) (oi : oinfo) : list event :=
  match o_objs oi with
  | None => []
  | Some p =>
      if Nat.eqb (a_forall (o_sh oi)) 0 then [Read (OSt p, 2)]
      else if fix15 c then [Read (OSt p, 2); Read (sig_cell (o_dom oi) (o_act oi))]
      else [Read (OSt p, 2); Write (sig_cell (o_dom oi) (o_act oi)); Write (sig_cell (o_dom oi) (o_act oi))]
  end.

(* Operator.apply on state src (not raised): copy, effects, universal effects *)
Definition ev_apply_body (c : cfg) (m : mstate) (o : nat) (oi : oinfo) (src : sinfo) : mstate * list event :=
  let s := List.length (sts m) in
  let '(si, evc) := ev_copy_state m src in
  let '(si', eve) := ev_effects c o s (o_base oi + a_pre (o_sh oi)) (a_effs (o_sh oi)) si
                                  (3 + List.length (s_vals si)) in
  (add_state m si', evc ++ [Write (OSt s, 0)] ++ eve ++ ev_universal c m oi).

Definition mk_oinfo (d a : nat) (objs : option nat) (sh : ashape) : oinfo :=
  {| o_dom := d; o_act := a; o_objs := objs; o_sh := sh; o_grounded := false; o_base := 1; o_next := 1 |}.

Definition add_op (m : mstate) (oi : oinfo) : mstate * list event :=
  let o := List.length (ops m) in
  let reach := dom_cells (o_dom oi) (nth (o_dom oi) (doms m) dflt_d)
               ++ match o_objs oi with Some p => [(OSt p, 2)] | None => [] end in
  ({| doms := doms m; sts := sts m; ops := ops m ++ [oi] |},
   Alloc (OOp o, 0) :: Link (OOp o) (OOp o, 0) :: map (Link (OOp o)) reach).

(* ---------------------------------------------------------------- the operations *)
Definition step (c : cfg) (m : mstate) (p : op) : mstate * list event :=
  match p with
  | ONop => (m, [])
  | OParseDomain typed nacts => ev_new_domain c m typed nacts false
  | ONewDomain => ev_new_domain c m false 0 false
  | OCombine nacts => ev_new_domain c m false nacts true
  | OShallowCopy d =>
      (* Domain() then requirements.copy(), {k: v.copy()} for types/constants/predicates/functions, and one fresh
         Action with signature.copy() per action: reads every container of the source, owns everything it holds *)
      let di := nth d (doms m) dflt_d in
      let '(m', evs) := ev_new_domain c m true (d_nacts di) false in
      (m', map Read (dom_cells d di) ++ evs)
  | OParseProblem d keys =>
      let s := List.length (sts m) in
      let si := fresh_state s 3 keys in
      (add_state m si,
       map Read (dom_cells d (nth d (doms m) dflt_d)) ++ map Alloc (st_cells si) ++ map Write (st_cells si)
       ++ map (Link (OSt s)) (st_cells si))
  | OMkOp d a objs sh => add_op m (mk_oinfo d a objs sh)
  | OGround o =>
      let '(oi, evs) := ev_ground m o (nth o (ops m) dflt_o) in (set_op m o oi, evs)
  | OApplicable o s =>
      let '(m1, oi, evg) := ensure_grounded m o in
      (m1, evg ++ ev_applicable m1 o oi (nth s (sts m) dflt_s))
  | OApply o s skip raised =>
      let '(m1, oi, evg) := ensure_grounded m o in
      let src := nth s (sts m) dflt_s in
      let eva := if skip then [] else ev_applicable m1 o oi src in
      if raised then (m1, evg ++ eva)
      else let '(m2, evb) := ev_apply_body c m1 o oi src in (m2, evg ++ eva ++ evb)
  | OCopy s =>
      let '(si, evs) := ev_copy_state m (nth s (sts m) dflt_s) in (add_state m si, evs)
  | OReadState s =>
      (* serialize / typed_serialize / trajectory and problem export: PDDLFunction.state_representation reads the
         fluent's repeating_variables, which is the process-wide default dict unless the problem parser supplied one *)
      (m, Read (OMod, 1) :: map Read (st_cells (nth s (sts m) dflt_s)))
  | OReadDomain d => (m, map Read (dom_cells d (nth d (doms m) dflt_d)))
  | OReadOp o =>
      let oi := nth o (ops m) dflt_o in
      (m, [Read (OOp o, 0); Read (sig_cell (o_dom oi) (o_act oi))] ++ objs_reads m oi)
  | OTriplet d a s pobjs sh refused =>
      let o := List.length (ops m) in
      let '(m0, evo) := add_op m (mk_oinfo d a (Some pobjs) sh) in
      let '(m1, oi, evg) := ensure_grounded m0 o in
      let src := nth s (sts m) dflt_s in
      let eva := ev_applicable m1 o oi src in
      if refused then
        if fix17 c then let '(si, evs) := ev_copy_state m1 src in (add_state m1 si, evo ++ evg ++ eva ++ evs)
        else (* State(predicates=previous_state.state_predicates, fluents=previous_state.state_fluents) *)
          let s' := List.length (sts m1) in
          let si := {| s_cells := firstn 2 (s_cells src); s_vals := s_vals src |} in
          (add_state m1 si, evo ++ evg ++ eva ++ map (Link (OSt s')) (st_cells si))
      else let '(m2, evb) := ev_apply_body c m1 o oi src in (m2, evo ++ evg ++ eva ++ evb)
  | ONewState d p keys =>
      (* parse_state: looks every atom up in the domain's predicates / functions and every argument in Problem.objects
         (+ the domain's constants), builds fresh GroundedPredicate / PDDLFunction objects in fresh dicts *)
      let s := List.length (sts m) in
      let si := fresh_state s 2 keys in
      (add_state m si,
       map Read (dom_cells d (nth d (doms m) dflt_d)) ++ [Read (OSt p, 2)] ++ map Alloc (st_cells si)
       ++ map Write (st_cells si) ++ map (Link (OSt s)) (st_cells si))
  end.

(* running a history: the model state, the store, and the event log *)
Definition run_step (c : cfg) (acc : mstate * store) (p : op) : mstate * store :=
  let '(m', evs) := step c (fst acc) p in (m', exec_all (snd acc) evs).
Definition run (c : cfg) (h : list op) (acc : mstate * store) : mstate * store := fold_left (run_step c) h acc.
Definition st0 : store := fun _ => 0.
Definition start : mstate * store := (init, st0).

(* ---------------------------------------------------------------- observables of the model *)
(* the cells reachable from a handle (what the Link events of the history have established) *)
Definition op_cells (m : mstate) (o : nat) (oi : oinfo) : list loc :=
  region (OOp o) 0 (o_next oi)
  ++ dom_cells (o_dom oi) (nth (o_dom oi) (doms m) dflt_d)
  ++ match o_objs oi with Some p => [(OSt p, 2)] | None => [] end.

Definition reach (m : mstate) (v : owner) : list loc :=
  match v with
  | OMod => [(OMod, 0); (OMod, 1)]
  | ODom d => dom_cells d (nth d (doms m) dflt_d)
  | OSt s => st_cells (nth s (sts m) dflt_s)
  | OOp o => op_cells m o (nth o (ops m) dflt_o)
  end.

Definition mem_loc (l : loc) (ls : list loc) : bool := existsb (loc_eqb l) ls.

Definition writes (evs : list event) : list loc :=
  flat_map (fun e => match e with Write l => [l] | _ => [] end) evs.
Definition reads (evs : list event) : list loc :=
  flat_map (fun e => match e with Read l => [l] | _ => [] end) evs.

(* live values: the module, the domains and the states created so far *)
Definition values (m : mstate) : list owner :=
  OMod :: map ODom (seq 0 (List.length (doms m))) ++ map OSt (seq 0 (List.length (sts m))).
Definition handles (m : mstate) : list owner :=
  values m ++ map OOp (seq 0 (List.length (ops m))).

(* values that the operation may have changed: a cell reachable from the value before the call is written *)
Definition may_change (m : mstate) (evs : list event) : list owner :=
  filter (fun v => existsb (fun l => mem_loc l (reach m v)) (writes evs)) (values m).

(* sharing graph: pairs of handles with a common reachable cell *)
Definition shares (m : mstate) (a b : owner) : bool := existsb (fun l => mem_loc l (reach m b)) (reach m a).
Fixpoint pairs {A} (l : list A) : list (A * A) :=
  match l with [] => [] | x :: r => map (fun y => (x, y)) r ++ pairs r end.
Definition sharing (m : mstate) : list (owner * owner) :=
  filter (fun p => shares m (fst p) (snd p)) (pairs (handles m)).

(* separation: every cell reachable from a value lies in that value's own region *)
Definition separated (m : mstate) : bool :=
  forallb (fun v => forallb (fun l => owner_eqb (fst l) v) (reach m v)) (values m).

(* a recorded schedule (thread, event) over SHARED cells -- cells private to no thread -- respects the thread
   discipline of the interleaving theorem iff it contains no Write (Proofs/C07_Interleave.v, no_writes_sched_ok) *)
Definition no_writes (s : list (nat * event)) : bool :=
  forallb (fun te => match snd te with Write _ => false | _ => true end) s.

(* ---------------------------------------------------------------- joint actions (multi_agent/common.py apply_actions,
   multi_agent_trajectory_exporter.py create_multi_agent_triplet / parse_plan) as histories of the operations above.
   The Operators and the intermediate states these calls create and drop are handles like any other (the correspondence
   run keeps them alive), so every theorem about histories speaks about them.  A member of a joint action is a nop
   (None) or an action call with its schema's shape and the value-level fact "applicable in the state the joint action
   is applied to" (an input, like `refused` of OTriplet).  The renderings are functions of the call's arguments and of
   the numbers of state / operator handles alive (ns, no); they return the operations, the handle of the state the
   call returns (None: it raises ValueError) and the numbers of handles afterwards. *)
Record member := { mb_act : nat; mb_sh : ashape; mb_app : bool }.

Definition acting (ms : list (option member)) : list member :=
  flat_map (fun x => match x with Some mb => [mb] | None => [] end) ms.

(* the loop of apply_actions over >= 2 acting members: o = next operator handle, acc = handle of the accumulated
   state, ns = next state handle.  Per member: Operator(...); operator.is_applicable(current_state); then
   acc = operator.apply(acc, allow_inapplicable_actions=True), or ValueError *)
Fixpoint joint_loop (d s : nat) (objs : option nat) (allow : bool) (ms : list member) (o acc ns : nat)
  : list op * option nat * nat * nat :=
  match ms with
  | [] => ([], Some acc, ns, o)
  | mb :: r =>
      let pre := [OMkOp d (mb_act mb) objs (mb_sh mb); OApplicable o s] in
      if mb_app mb || allow then
        let '(rest, res, ns', o') := joint_loop d s objs allow r (S o) ns (S ns) in
        (pre ++ OApply o acc false false :: rest, res, ns', o')
      else (pre, None, ns, S o)
  end.

Definition apply_actions_at (ns no d s : nat) (objs : option nat) (ms : list (option member)) (allow : bool)
  : list op * option nat * nat * nat :=
  match acting ms with
  | [] => ([OCopy s], Some ns, S ns, no)                       (* nobody acts: current_state.copy() *)
  | [mb] =>                                                     (* Operator(...).apply(current_state, allow) *)
      let refused := negb (mb_app mb) && negb allow in
      ([OMkOp d (mb_act mb) objs (mb_sh mb); OApply no s false refused],
       if refused then None else Some ns, if refused then ns else S ns, S no)
  | mbs =>
      let '(rest, res, ns', no') := joint_loop d s objs allow mbs no ns (S ns) in (OCopy s :: rest, res, ns', no')
  end.

Definition apply_actions_ops (m : mstate) (d s : nat) (objs : option nat) (ms : list (option member)) (allow : bool)
  : list op * option nat :=
  fst (fst (apply_actions_at (List.length (sts m)) (List.length (ops m)) d s objs ms allow)).

(* create_multi_agent_triplet: the log line serializes the input state; one Operator per acting member is built for
   the triplet (never grounded); then apply_actions *)
Definition ma_triplet_at (ns no d s pobjs : nat) (ms : list (option member)) (allow : bool)
  : list op * option nat * nat * nat :=
  let mbs := acting ms in
  let '(rest, res, ns', no') := apply_actions_at ns (no + List.length mbs) d s (Some pobjs) ms allow in
  (OReadState s :: map (fun mb => OMkOp d (mb_act mb) (Some pobjs) (mb_sh mb)) mbs ++ rest, res, ns', no').

(* MultiAgentTrajectoryExporter.parse_plan: the first step starts from a State over the problem's own initial dicts
   (the value of handle pobjs), every later step from the state the step before returned; returns the operations and
   the handles of the triplets' next states (a step that raises ends the call) *)
Fixpoint ma_plan_at (d pobjs : nat) (allow : bool) (steps : list (list (option member))) (ns no src : nat)
  : list op * list nat :=
  match steps with
  | [] => ([], [])
  | ms :: r =>
      let '(ops1, res, ns', no') := ma_triplet_at ns no d src pobjs ms allow in
      match res with
      | None => (ops1, [])
      | Some x => let '(ops2, xs) := ma_plan_at d pobjs allow r ns' no' x in (ops1 ++ ops2, x :: xs)
      end
  end.
