(* Model of pddl_plus_parser/exporters/ff_output_parser.py (MetricFFParser) and
   enhsp_output_parser.py (ENHSPParser).  Definitions only.

   Metric-FF log:
     PLAN_COMPONENT_REGEX = r"^(?:step)?[ \t]*\d+: ([\w+ \t?-]+)\r?\n"      (after the fix of D24)
     _parse_plan_content  = ["(" + m.group(1).lower().strip() + ")\n" for m in re.finditer(REGEX, text, re.MULTILINE)]
     get_solving_status   = re.search of the plan marker, then of the three no-solution patterns
     parse_plan           = writes the concatenated actions unless there are none
   The scanner below is written for exactly the pattern text [plan_regex_src]; the correspondence check reads
   the pattern from the imported module on every run and compares it with this text (Corr/C19.v).

   re.finditer semantics modelled: candidate start positions are tried left to right; the first position where
   the pattern matches yields a match; scanning resumes at the END of the match ([scan]'s skip counter);
   "^" under re.MULTILINE holds at position 0 and after every LF (also when that LF was consumed by the
   previous match).  Greedy quantifiers with backtracking: in this pattern every quantified item is followed
   by an item that no character of the quantified class can match ([ \t]* then \d ; \d+ then ':' ;
   [\w+ \t?-]+ then \r or \n ; \r? then \n), so giving characters back can never turn a failure into a success
   and the matcher may commit to the longest run.  The one real choice point, "(?:step)?", is modelled as
   tried-then-skipped ([match_here]).  ASCII input only: \d = [0-9], \w = [A-Za-z0-9_], lower() on A-Z.

   ENHSP plan file: open(path,"rt") (universal newlines: CRLF and lone CR arrive as LF), readlines(), lower(). *)
From Coq Require Import List Ascii String Bool Arith NArith.
From Verif Require Import Base.Result Base.Str.
Import ListNotations.
Open Scope list_scope.

(* ---------- generic helpers ---------- *)
Fixpoint take_while (p : ascii -> bool) (t : text) : text :=
  match t with
  | [] => []
  | c :: r => if p c then c :: take_while p r else []
  end.

Fixpoint drop_while (p : ascii -> bool) (t : text) : text :=
  match t with
  | [] => []
  | c :: r => if p c then drop_while p r else t
  end.

Fixpoint strip_prefix (p t : text) : option text :=
  match p with
  | [] => Some t
  | a :: p' =>
      match t with
      | [] => None
      | c :: r => if Ascii.eqb a c then strip_prefix p' r else None
      end
  end.

Definition in_range (lo hi : N) (c : ascii) : bool :=
  let n := N_of_ascii c in ((lo <=? n) && (n <=? hi))%N.

Definition is_digit (c : ascii) : bool := in_range 48 57 c.                       (* \d *)
Definition is_alpha (c : ascii) : bool := in_range 65 90 c || in_range 97 122 c.
Definition is_word (c : ascii) : bool := is_alpha c || is_digit c || Ascii.eqb c "_".   (* \w *)
Definition is_blank (c : ascii) : bool := Ascii.eqb c SP || Ascii.eqb c TAB.      (* [ \t] *)
(* [\w+ \t?-] *)
Definition in_class (c : ascii) : bool :=
  is_word c || Ascii.eqb c "+" || is_blank c || Ascii.eqb c "?" || Ascii.eqb c "-".

(* ---------- the plan-step pattern ---------- *)
Definition plan_regex_src : string := "^(?:step)?[ \t]*\d+: ([\w+ \t?-]+)\r?\n".

(* [ \t]*\d+:<space>   -> the text after the label *)
Definition after_label (t : text) : option text :=
  let t2 := drop_while is_blank t in
  match take_while is_digit t2 with
  | [] => None
  | _ :: _ => strip_prefix [":"%char; SP] (drop_while is_digit t2)
  end.

(* \r?\n *)
Definition eol_here (t : text) : option text :=
  match strip_prefix [CR; LF] t with
  | Some r => Some r
  | None => strip_prefix [LF] t
  end.

(* ([\w+ \t?-]+)\r?\n  -> (group 1, text after the match) *)
Definition body_here (t : text) : option (text * text) :=
  match take_while in_class t with
  | [] => None
  | b =>
      match eol_here (drop_while in_class t) with
      | Some r => Some (b, r)
      | None => None
      end
  end.

Definition try_line (t : text) : option (text * text) :=
  match after_label t with
  | Some r => body_here r
  | None => None
  end.

(* the pattern after "^": (?:step)? is greedy — first with "step" consumed, then without *)
Definition match_here (t : text) : option (text * text) :=
  match strip_prefix (s2t "step") t with
  | Some r =>
      match try_line r with
      | Some x => Some x
      | None => try_line t
      end
  | None => try_line t
  end.

(* re.finditer(PLAN_COMPONENT_REGEX, t, re.MULTILINE): group 1 of every match, left to right.
   [bol]: the previous character is LF or there is none; [skip]: characters still inside the previous match. *)
Fixpoint scan (t : text) (bol : bool) (skip : nat) : list text :=
  match t with
  | [] => []
  | c :: r =>
      let bol' := Ascii.eqb c LF in
      match skip with
      | S k => scan r bol' k
      | O =>
          match (if bol then match_here t else None) with
          | Some (g, rest) => g :: scan r bol' (List.length t - List.length rest - 1)
          | None => scan r bol' 0
          end
      end
  end.

Definition finditer_groups (t : text) : list text := scan t true 0.

(* str.strip() *)
Definition strip (t : text) : text := rev (drop_while is_ws (rev (drop_while is_ws t))).

(* f"({action_sequence.lower().strip()})\n" *)
Definition action_of_group (g : text) : text := LP :: strip (lower_text g) ++ [RP; LF].

Definition parse_plan_content (t : text) : list text := map action_of_group (finditer_groups t).

(* ---------- status markers: re.search(pattern, text, re.MULTILINE) ----------
   The four patterns contain no metacharacter other than '.', which matches any character but LF. *)
Inductive pelem := PLit (c : ascii) | PAny.

Definition compile_simple (src : text) : list pelem :=
  map (fun c => if Ascii.eqb c "."%char then PAny else PLit c) src.

Definition is_meta (c : ascii) : bool :=
  existsb (Ascii.eqb c) (s2t "\^$*+?{}[]|()").

Definition simple_src (s : string) : bool := forallb (fun c => negb (is_meta c)) (s2t s).

Definition pelem_match (e : pelem) (c : ascii) : bool :=
  match e with PLit a => Ascii.eqb a c | PAny => negb (Ascii.eqb c LF) end.

Fixpoint match_pat (p : list pelem) (t : text) : bool :=
  match p with
  | [] => true
  | e :: p' =>
      match t with
      | [] => false
      | c :: r => pelem_match e c && match_pat p' r
      end
  end.

Fixpoint search_pat (p : list pelem) (t : text) : bool :=
  match_pat p t || match t with [] => false | _ :: r => search_pat p r end.

Definition re_search (src : string) (t : text) : bool := search_pat (compile_simple (s2t src)) t.

Definition valid_plan_src : string := "ff: found legal plan as follows".
Definition no_solution_srcs : list string :=
  [ "problem proven unsolvable.";
    "ff: goal can be simplified to FALSE. No plan will solve it";
    "all increasers applied yet goal not fulfilled" ]%string.

Inductive status := StOk | StNoSolution | StTimeout.

Definition get_solving_status (t : text) : status * list text :=
  if re_search valid_plan_src t then (StOk, parse_plan_content t)
  else if existsb (fun s => re_search s t) no_solution_srcs then (StNoSolution, [])
  else (StTimeout, []).

(* parse_plan: the bytes written to output_path, None when no file is written *)
Definition parse_plan_file (t : text) : option text :=
  match parse_plan_content t with
  | [] => None
  | l => Some (List.concat l)
  end.

(* ---------- ENHSP ---------- *)
(* text-mode reading: "\r\n" and "\r" become "\n" *)
Fixpoint univ_nl (t : text) : text :=
  match t with
  | [] => []
  | c :: r =>
      if Ascii.eqb c CR then
        LF :: match r with
              | [] => []
              | c2 :: r2 => if Ascii.eqb c2 LF then univ_nl r2 else univ_nl r
              end
      else c :: univ_nl r
  end.

(* readlines(): split after every LF, line ends kept; [cur] = reversed current line *)
Fixpoint readlines (t : text) (cur : text) : list text :=
  match t with
  | [] => match cur with [] => [] | _ => [rev cur] end
  | c :: r => if Ascii.eqb c LF then rev (c :: cur) :: readlines r [] else readlines r (c :: cur)
  end.

Definition enhsp_parse_plan_content (bytes : text) : list text :=
  map lower_text (readlines (univ_nl bytes) []).

(* parse_plan: the file is rewritten with the lower-cased lines *)
Definition enhsp_plan_file (bytes : text) : text := List.concat (enhsp_parse_plan_content bytes).

(* ---------- the pattern BEFORE the repair of D24 (kept only to state the finding; Proofs/C19_Original.v) ----------
   r"\d: ([\w+\s?-]+)\n": unanchored; the class holds \s, hence LF.  The greedy run extends over every following
   line made of class characters and backtracks to the LAST LF inside the maximal run (at least one character
   must precede it). *)
Definition plan_regex_src_before_D24 : string := "\d: ([\w+\s?-]+)\n".

Definition in_class_orig (c : ascii) : bool :=
  is_word c || Ascii.eqb c "+" || is_ws c || Ascii.eqb c "?" || Ascii.eqb c "-".

(* the part of the run before its last LF *)
Fixpoint upto_last_lf (run : text) : option text :=
  match run with
  | [] => None
  | c :: r =>
      match upto_last_lf r with
      | Some a => Some (c :: a)
      | None => if Ascii.eqb c LF then Some [] else None
      end
  end.

(* group 1 and the length of the whole match *)
Definition match_here_orig (t : text) : option (text * nat) :=
  match t with
  | d :: c1 :: c2 :: r =>
      if is_digit d && Ascii.eqb c1 ":" && Ascii.eqb c2 SP then
        match upto_last_lf (take_while in_class_orig r) with
        | Some (g0 :: g) => Some (g0 :: g, 4 + List.length (g0 :: g))
        | _ => None
        end
      else None
  | _ => None
  end.

Fixpoint scan_orig (t : text) (skip : nat) : list text :=
  match t with
  | [] => []
  | _ :: r =>
      match skip with
      | S k => scan_orig r k
      | O =>
          match match_here_orig t with
          | Some (g, len) => g :: scan_orig r (len - 1)
          | None => scan_orig r 0
          end
      end
  end.

Definition parse_plan_content_orig (t : text) : list text := map action_of_group (scan_orig t 0).
