(* C13 - the ELIMINATION DECISION of a conjunction of numeric conditions (definitions only).

   NumericalExpressionTree.extract_eliminated_expressions (numerical_expression.py) decides, from the SHAPE of an equality,
   whether it becomes an assumption "A = R" handed to simplify_inequality (sympy substitutes R for A in every inequality of
   the conjunction), and Precondition._simplify_numeric_preconditions (pddl_precondition.py) assembles the calls:

       equality_conditions = the conditions whose root is "="            (in the order of the conjunction)
       assumptions         = [extract(e) for e in equality_conditions if extract(e) is not None]
       for every condition, in order:   "="  -> simplify_equality(condition)            (no assumptions)
                                        else -> simplify_inequality(condition, ALL assumptions)
       the results that are not None, in order

   extract:  root "=" and left side A + B:    A  :=  -1 * B    when the right side is the NUMBER zero (0, 0.0, -0.0: the
                                                                  test is  value == 0  on a float leaf; a function or an
                                                                  operator node never equals 0)
                                               A  :=  R - B     otherwise
             anything else (a difference, a product, a function alone, the sum on the right side): not used.

   The conditions are the [cond] of Spec/Poly.v (what the restricted reader gives for the condition's PDDL text): number leaves
   are rationals, function leaves are named by their canonical text, every operator node is binary - as in the library's tree
   (construct_expression_tree builds binary nodes only). *)
From Coq Require Import List String Bool ZArith QArith.
From Verif Require Import Spec.Poly.
Import ListNotations.

Definition is_zero_leaf (e : expr) : bool :=
  match e with ENum q => Qeq_bool q 0 | _ => false end.

Definition extract_eliminated (c : cond) : option (expr * expr) :=
  match c_op c with
  | CEq =>
      match c_l c with
      | EBin OAdd a b =>
          Some (a, if is_zero_leaf (c_r c) then EBin OMul (ENum (-1 # 1)) b else EBin OSub (c_r c) b)
      | _ => None
      end
  | _ => None
  end.

Definition assumptions_of (conds : list cond) : list (expr * expr) :=
  somes (map extract_eliminated (filter is_eq conds)).

(* the skeleton of _simplify_numeric_preconditions; the two sympy-based printers are parameters (S: what they print) *)
Definition simplify_numeric_preconditions {S : Type}
           (simp_eq : cond -> option S) (simp_ineq : cond -> list (expr * expr) -> option S)
           (conds : list cond) : list S :=
  let asm := assumptions_of conds in
  somes (map (fun c => if is_eq c then simp_eq c else simp_ineq c asm) conds).

(* an assumption as a condition *)
Definition cond_of_assumption (ar : expr * expr) : cond := {| c_op := CEq; c_l := fst ar; c_r := snd ar |}.
