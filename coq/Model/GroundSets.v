(* Model of the Python SETS behind what an Operator reports (added in round 3 for C20).

   Model/GroundTyped.v lists the reported items in schema order, one per schema occurrence.  The library keeps them in
   Python sets: Precondition.operands (a set per connective), GroundedEffect.grounded_discrete_effects /
   grounded_numeric_effects.  A set keeps ONE of several members with equal hash and ==:
     - GroundedPredicate: __hash__ = hash(str(self)) (the TYPED text, negation included), __eq__ compares name, polarity,
       signature (types) and object mapping: two members coincide iff polarity, name, arguments and types coincide;
       lifted Predicate (inside a quantified condition): __hash__ = typed text without the negation, __eq__ with the
       polarity: the same criterion.  (Literals with the same UNTYPED text and different types are different members.)
     - NumericalExpressionTree: no __hash__ / __eq__: identity.  Every grounded expression is a new object, so two numeric
       members never coincide.
     - nested Precondition: __hash__ = hash(print(should_simplify=False)), __eq__ = same connective, equal operand sets,
       equal (in)equality sets.  UniversalPrecondition: the same and equal quantified parameter and type.
   [collapse] applies this bottom-up (nested groups are hashed after they were filled); [node_items] is what
   Precondition.__iter__ yields (nested groups flattened in place), up to the iteration order of the sets, which the
   correspondence ignores (multisets are compared).
   The lifted conditions of the schema are sets of the same kind; equal lifted members ground to equal members, so collapsing
   once after grounding gives the same collection.  Definitions only. *)
From Coq Require Import List Ascii String Bool Arith PrimFloat.
From Verif Require Import Base.Result Base.Str Base.PyDict Model.Types Model.Domain Model.Exec Model.GroundTyped Spec.Pddl.
Import ListNotations.
Open Scope string_scope.
Open Scope list_scope.

(* the reported condition as a tree: [RNGroup (Some (v, ty))] is a quantified condition (kept lifted by the library) *)
Inductive rnode :=
| RNLit (l : rlit)
| RNNum (t : gtree)
| RNGroup (univ : option (string * string)) (op : string) (os : list rnode) (eqs neqs : list (string * string)).

Definition rlit_eqb (a b : rlit) : bool :=
  Bool.eqb (rl_grounded a) (rl_grounded b) && Bool.eqb (rl_pos a) (rl_pos b) && String.eqb (rl_name a) (rl_name b) &&
  list_eqb String.eqb (rl_args a) (rl_args b) && list_eqb String.eqb (rl_types a) (rl_types b).

Definition spair_eqb (a b : string * string) : bool := String.eqb (fst a) (fst b) && String.eqb (snd a) (snd b).
Definition pairs_seteq (a b : list (string * string)) : bool :=
  forallb (fun x => existsb (spair_eqb x) b) a && forallb (fun y => existsb (spair_eqb y) a) b.
Definition univ_eqb (a b : option (string * string)) : bool :=
  match a, b with
  | None, None => true
  | Some x, Some y => spair_eqb x y
  | _, _ => false
  end.

(* Python's == on two members whose hashes are equal *)
Fixpoint node_eqb (a b : rnode) {struct a} : bool :=
  match a, b with
  | RNLit x, RNLit y => rlit_eqb x y
  | RNGroup u op os eqs neqs, RNGroup u' op' os' eqs' neqs' =>
      univ_eqb u u' && String.eqb op op' &&
      (fix all (l : list rnode) : bool :=
         match l with [] => true | x :: r => existsb (node_eqb x) os' && all r end) os &&
      forallb (fun y => (fix ex (l : list rnode) : bool :=
                           match l with [] => false | x :: r => node_eqb x y || ex r end) os) os' &&
      pairs_seteq eqs eqs' && pairs_seteq neqs neqs'
  | _, _ => false                                            (* numeric conditions: identity *)
  end.

(* set.add one by one: a member equal to an earlier one is not added *)
Fixpoint dedupe {A} (eqb : A -> A -> bool) (l : list A) (seen : list A) : list A :=
  match l with
  | [] => []
  | x :: r => if existsb (eqb x) seen then dedupe eqb r seen else x :: dedupe eqb r (x :: seen)
  end.

Fixpoint collapse (n : rnode) : rnode :=
  match n with
  | RNGroup u op os eqs neqs => RNGroup u op (dedupe node_eqb (map collapse os) []) eqs neqs
  | _ => n
  end.

(* Precondition.__iter__ *)
Fixpoint node_items (n : rnode) : list ritem :=
  match n with
  | RNLit l => [RL l]
  | RNNum t => [RN t]
  | RNGroup _ _ os _ _ => flat_map node_items os
  end.

(* the grounded (in)equality pairs of the root and of every nested grounded (not quantified) condition *)
Fixpoint node_eqs (n : rnode) : list eqpair :=
  match n with
  | RNGroup None _ os eqs neqs => tag_pairs true eqs ++ tag_pairs false neqs ++ flat_map node_eqs os
  | _ => []
  end.

Section Sets.
  Variable dom : mdomain.

  Fixpoint lifted_node (sg : signature) (u : option (string * string)) (p : mpre) : result rnode :=
    match p with
    | MPre op os eqs neqs =>
        do ns <- (fix go (l : list mcond) : result (list rnode) :=
                    match l with
                    | [] => Ok []
                    | c :: r => do x <- lifted_cond_node sg c; do y <- go r; Ok (x :: y)
                    end) os;
        Ok (RNGroup u op ns eqs neqs)
    end
  with lifted_cond_node (sg : signature) (c : mcond) : result rnode :=
    match c with
    | MLit pos p args => do l <- lifted_lit dom sg pos p args; Ok (RNLit l)
    | MNum t => Ok (RNNum (lifted_tree t))
    | MNested q => lifted_node sg None q
    | MUniv v ty body => lifted_node (dset sg v ty) (Some (v, ty)) body
    end.

  (* GroundedPrecondition._ground, structure kept *)
  Fixpoint report_node (sg : signature) (pm : pmap) (p : mpre) : result rnode :=
    match p with
    | MPre op os eqs neqs =>
        do geqs <- ground_pairs pm eqs;
        do gneqs <- ground_pairs pm neqs;
        do ns <- (fix go (l : list mcond) : result (list rnode) :=
                    match l with
                    | [] => Ok []
                    | c :: r => do x <- report_cond_node sg pm c; do y <- go r; Ok (x :: y)
                    end) os;
        Ok (RNGroup None op ns geqs gneqs)
    end
  with report_cond_node (sg : signature) (pm : pmap) (c : mcond) : result rnode :=
    match c with
    | MLit pos p args => do l <- report_lit dom sg pm pos p args; Ok (RNLit l)
    | MNum t => do g <- report_tree dom pm t; Ok (RNNum g)
    | MNested q => report_node sg pm q
    | MUniv v ty body => lifted_node (dset sg v ty) (Some (v, ty)) body
    end.

  (* iteration over op.grounded_preconditions (a multiset: the order is the sets' iteration order) *)
  Definition iter_pre (sg : signature) (pm : pmap) (p : mpre) : result (list ritem * list eqpair) :=
    do n <- report_node sg pm p;
    let c := collapse n in
    Ok (node_items c, node_eqs c).

  (* one effect group: the antecedent as above, the set of grounded add/delete literals, the numeric effects (identity) *)
  Definition iter_group (sg : signature) (pm : pmap) (ante : option mpre) (disc : list mlit) (nums : list mtree)
    : result rgroup :=
    do ra <- match ante with None => Ok None | Some a => do r <- iter_pre sg pm a; Ok (Some r) end;
    do rd <- mapM (fun l => report_lit dom sg pm (l_pos l) (l_name l) (l_args l)) disc;
    do rn <- mapM (report_tree dom pm) nums;
    Ok {| rg_ante := ra; rg_disc := dedupe rlit_eqb rd []; rg_num := rn |}.

  Definition iter_action (a : maction) (args : list string) : result report :=
    let pm := combine (dkeys (ma_sig a)) args in
    do rp <- iter_pre (ma_sig a) pm (ma_pre a);
    do g0 <- iter_group (ma_sig a) pm None (ma_disc a) (ma_num a);
    do gs <- mapM (fun ce => iter_group (ma_sig a) pm (Some (ce_ante ce)) (ce_disc ce) (ce_num ce)) (ma_cond a);
    Ok {| rp_items := fst rp; rp_eqs := snd rp; rp_groups := g0 :: gs |}.
End Sets.
