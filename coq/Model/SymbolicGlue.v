(* Model of the glue around sympy in pddl_plus_parser/models/numeric_symbolic_operations.py
   (tree AFTER the repairs D21a-D21n, D21, D21b and D21o = 117bd92: rounding before int(), zero factors, Rational
   atoms printed from their exact value, general integer powers, function names must start with a letter, injective
   symbol names).

   sympy itself (parse_expr / simplify / expand / subs) is NOT modelled: its result arrives as a tree
   [stree] (a Gallina copy of expr.func / expr.args, numbers as exact rationals).  Modelled here:
     transform_expression            fluent text -> symbol name, textual replacement
     extract_atom                    rounding, integer printing, zero dropping
     _convert_internal_expression_to_pddl  (n-ary Add/Mul -> nested binary, Pow -> repeated product)
     convert_expr_to_pddl            "0" when everything was dropped
   Definitions only. *)
From Coq Require Import List String Ascii Bool ZArith QArith Qabs Qround DecimalString.
From Verif Require Import Base.Result Base.Str Base.Sexp Model.Tokenizer Spec.Poly.
Import ListNotations.
Open Scope string_scope.
Open Scope list_scope.

(* ------------------------------------------------------------------ sympy's expression tree *)
Inductive stree :=
| SAdd (args : list stree)
| SMul (args : list stree)
| SPow (b e : stree)
| SFloat (v : Q)                 (* exact value of the 53-bit mpf *)
| SInt (z : Z)                   (* Integer, Zero, One, NegativeOne *)
| SRat (p : Z) (q : positive)    (* Rational, Half *)
| SSym (name : string)
| SOther (cls : string).         (* any class that is not in SYMPY_OP_TO_PDDL_OP *)

(* ------------------------------------------------------------------ numbers *)
Definition pow10 (n : nat) : Z := Z.pow 10 (Z.of_nat n).

(* round half to even of a rational to an integer *)
Definition rhe (x : Q) : Z :=
  let f := Qfloor x in
  let r := x - inject_Z f in
  match Qcompare r (1 # 2) with
  | Lt => f
  | Gt => (f + 1)%Z
  | Eq => if Z.even f then f else (f + 1)%Z
  end.

(* round half up (used by mpmath's to_str on the magnitude) *)
Definition rhu (x : Q) : Z := Qfloor (x + (1 # 2)).

Definition q10 (z : Z) : Q := Qpower (10 # 1) z.

(* e with 10^e <= x < 10^(e+1), for x > 0 *)
Fixpoint ilog_down (fuel : nat) (x : Q) (e : Z) : Z :=   (* x < 1: multiply up *)
  match fuel with
  | O => e
  | S f => if Qle_bool 1 x then e else ilog_down f (x * (10 # 1)) (e - 1)
  end.
Fixpoint ilog_up (fuel : nat) (x : Q) (e : Z) : Z :=     (* x >= 10: divide down *)
  match fuel with
  | O => e
  | S f => if Qle_bool (10 # 1) x then ilog_up f (x / (10 # 1)) (e + 1) else e
  end.
Definition ilog10 (x : Q) : Z :=
  if Qle_bool 1 x then ilog_up 400 x 0 else ilog_down 400 x 0.

(* str(Float): 15 significant digits, the 16th digit decides, half goes up (mpmath to_str) *)
Definition sig15 (v : Q) : Q :=
  if Qeq_bool v 0 then 0 else
  let a := Qabs v in
  let e := ilog10 a in
  let s := q10 (14 - e) in
  let n := rhu (a * s) in
  let r := Qred (inject_Z n / s) in
  if Qle_bool 0 v then r else Qopp r.

Definition nat_digits (n : Z) : string := NilZero.string_of_int (Z.to_int n).

Fixpoint zeros (n : nat) : string := match n with O => "" | S k => String "0" (zeros k) end.

(* a printed number: sign, N, d  stands for  (-)N / 10^d printed with exactly d decimals *)
Record pnum := { pn_neg : bool; pn_n : Z; pn_d : nat }.

Definition pnum_value (x : pnum) : Q :=
  let v := Qred (Qmake (pn_n x) (Z.to_pos (pow10 (pn_d x)))) in if pn_neg x then Qopp v else v.

Definition show_pnum (x : pnum) : string :=
  let p := pow10 (pn_d x) in
  let ip := Z.div (pn_n x) p in
  let fp := Z.modulo (pn_n x) p in
  let fs := nat_digits fp in
  (if pn_neg x then "-" else "") ++ nat_digits ip ++
  match pn_d x with
  | O => ""
  | S _ => "." ++ zeros (pn_d x - String.length fs) ++ fs
  end.

(* format(Decimal(text), ".df"): half-even on the decimal text, sign kept even for zero *)
Definition fmt_decimal (d : nat) (s : Q) : pnum :=
  {| pn_neg := negb (Qle_bool 0 s); pn_n := rhe (Qabs s * inject_Z (pow10 d)); pn_d := d |}.

(* round(float(x), d): correctly rounded half-even on the exact binary value; scaled by 10^d *)
Definition py_round_scaled (d : nat) (v : Q) : Z :=
  let a := rhe (Qabs v * inject_Z (pow10 d)) in if Qle_bool 0 v then a else (- a)%Z.

Definition pint (z : Z) : pnum := {| pn_neg := Z.ltb z 0; pn_n := Z.abs z; pn_d := 0 |}.

(* extract_atom on a Float / Rational: (text as pnum, is it zero) ; [exact15] is str()'s 15 digit value *)
Definition number_atom (d : nat) (v : Q) (text_value : Q) : pnum :=
  let r := py_round_scaled d v in
  if Z.eqb (Z.modulo r (pow10 d)) 0 then pint (Z.div r (pow10 d))
  else fmt_decimal d text_value.

Definition pnum_is_zero (x : pnum) : bool := Z.eqb (pn_n x) 0.

(* ------------------------------------------------------------------ printed expressions *)
Inductive pexpr :=
| PNum (x : pnum)
| PFl (text : string)                 (* the PDDL text of a fluent, as found in the input *)
| PBin (op : string) (a b : pexpr).

Fixpoint show_pexpr (p : pexpr) : string :=
  match p with
  | PNum x => show_pnum x
  | PFl t => t
  | PBin op a b => "(" ++ op ++ " " ++ show_pexpr a ++ " " ++ show_pexpr b ++ ")"
  end.

Definition is_number_p (p : pexpr) : bool := match p with PNum _ => true | _ => false end.

(* {val: key for key, val in symbolic_vars.items()}[sym] : the last text mapped to this symbol *)
Fixpoint lookup_sym (m : list (string * string)) (sym : string) : option string :=
  match m with
  | [] => None
  | (text, s) :: r =>
      match lookup_sym r sym with
      | Some t => Some t
      | None => if String.eqb s sym then Some text else None
      end
  end.

(* SYMPY_OP_TO_PDDL_OP[e.func] *)
Definition op_of (e : stree) : result string :=
  match e with
  | SAdd _ => Ok "+" | SMul _ => Ok "*" | SPow _ _ => Ok "^"
  | SFloat _ | SInt _ | SRat _ _ | SSym _ => Ok ""
  | SOther _ => Err EKey
  end.

Definition extract_atom (d : nat) (flag : bool) (m : list (string * string)) (e : stree) : result (option pexpr) :=
  match e with
  | SFloat v =>
      let x := number_atom d v (sig15 v) in
      if flag && pnum_is_zero x then Ok None else Ok (Some (PNum x))
  | SRat p q =>
      (* after D21o: round(Fraction(p * 10^d, q)) - the EXACT value rounded half to even; an integer is printed when
         that is a multiple of 10^d, else sign, integer part, '.', d decimals: number_atom with the exact value as the
         "text" that is formatted *)
      let v := Qmake p q in
      let x := number_atom d v v in
      if flag && pnum_is_zero x then Ok None else Ok (Some (PNum x))
  | SInt z => Ok (Some (PNum (pint z)))
  | SSym s => match lookup_sym m s with Some t => Ok (Some (PFl t)) | None => Err EKey end
  | _ => Err EValue
  end.

(* the nesting loop over the kept components: the loop runs over reversed(components), i.e. it is a right fold;
   generic in the node type so that the proofs can nest exact expressions the same way *)
Definition nestg {A} (bin : A -> A -> A) (numfirst : bool) (comps : list A) : option A :=
  fold_right (fun c (acc : option A) =>
                match acc with
                | None => Some c
                | Some n => Some (if numfirst then bin n c else bin c n)
                end) None comps.

Definition nest (op : string) (comps : list pexpr) : option pexpr :=
  match comps with
  | [] => None
  | c0 :: _ => nestg (PBin op) (is_number_p c0) comps
  end.

Fixpoint pow_chain (base : pexpr) (n : nat) : pexpr :=   (* n extra factors *)
  match n with O => base | S k => PBin "*" (pow_chain base k) base end.

(* components of an n-ary node: None = some factor of a product vanished *)
Fixpoint collect (is_mul : bool) (rs : list (option pexpr)) : option (list pexpr) :=
  match rs with
  | [] => Some []
  | Some c :: r => match collect is_mul r with Some l => Some (c :: l) | None => None end
  | None :: r => if is_mul then None else collect is_mul r
  end.

Fixpoint conv (d : nat) (flag : bool) (m : list (string * string)) (e : stree) : result (option pexpr) :=
  match e with
  | SAdd args | SMul args =>
      let is_mul := match e with SMul _ => true | _ => false end in
      (* the operator of every argument is looked up before it is converted *)
      do _ <- mapM op_of args;
      do rs <- mapM (fun x => x) (map (conv d flag m) args);
      match collect is_mul rs with
      | None => Ok None
      | Some comps => Ok (nest (if is_mul then "*" else "+") comps)
      end
  | SPow b ex =>
      match ex with
      | SInt z =>
          if Z.eqb z 0 then Err EValue else
          do _ <- op_of b;
          do r <- conv d flag m b;
          let base := match r with Some p => p | None => PNum (pint 0) end in
          let chain := pow_chain base (Z.to_nat (Z.abs z) - 1) in
          Ok (Some (if Z.ltb 0 z then chain else PBin "/" (PNum (pint 1)) chain))
      | _ => Err EValue
      end
  | SOther _ => Err EValue
  | _ => extract_atom d flag m e
  end.

(* convert_expr_to_pddl *)
Definition convert_expr_to_pddl (d : nat) (flag : bool) (m : list (string * string)) (e : stree) : result string :=
  do _ <- op_of e;
  do r <- conv d flag m e;
  Ok (match r with Some p => show_pexpr p | None => "0" end).

(* ------------------------------------------------------------------ transform_expression *)
Definition is_word (c : ascii) : bool :=
  let n := N_of_ascii c in
  (((48 <=? n) && (n <=? 57)) || ((65 <=? n) && (n <=? 90)) || ((97 <=? n) && (n <=? 122)) || (n =? 95))%N.
Definition is_digit (c : ascii) : bool := let n := N_of_ascii c in ((48 <=? n) && (n <=? 57))%N.
Definition is_dash (c : ascii) : bool := Ascii.eqb c "-".
Definition is_q (c : ascii) : bool := Ascii.eqb c "?".

Fixpoint take_while (f : ascii -> bool) (t : text) : text * text :=
  match t with
  | c :: r => if f c then let (a, b) := take_while f r in (c :: a, b) else ([], t)
  | [] => ([], [])
  end.

(* \([^\W\d][\w-]*\s[?\w\-\s]*\)  anchored at the head of t (which starts after the '(') *)
Definition match_fluent (t : text) : option (text * text) :=
  match t with
  | c :: r =>
      if is_word c && negb (is_digit c) then
        let (name, r1) := take_while (fun x => is_word x || is_dash x) r in
        match r1 with
        | s :: r2 =>
            if is_ws s then
              let (args, r3) := take_while (fun x => is_q x || is_word x || is_dash x || is_ws x) r2 in
              match r3 with
              | ")"%char :: r4 => Some ("("%char :: c :: name ++ s :: args ++ [")"%char], r4)
              | _ => None
              end
            else None
        | [] => None
        end
      else None
  | [] => None
  end.

Fixpoint find_fluents (fuel : nat) (t : text) : list string :=
  match fuel with
  | O => []
  | S f =>
      match t with
      | [] => []
      | "("%char :: r =>
          match match_fluent r with
          | Some (m, rest) => t2s m :: find_fluents f rest
          | None => find_fluents f r
          end
      | _ :: r => find_fluents f r
      end
  end.

Fixpoint dedup (l : list string) : list string :=
  match l with [] => [] | x :: r => x :: filter (fun y => negb (String.eqb x y)) (dedup r) end.

(* re.sub(r"[\(\-\)\s\?]", "", var) *)
Definition symbol_name (var : string) : string :=
  t2s (filter (fun c => negb (Ascii.eqb c "(" || Ascii.eqb c ")" || is_dash c || is_q c || is_ws c)) (s2t var)).

Fixpoint is_prefix (p t : text) : option text :=
  match p, t with
  | [], _ => Some t
  | x :: p', y :: t' => if Ascii.eqb x y then is_prefix p' t' else None
  | _ :: _, [] => None
  end.

(* str.replace(pat, rep), pat non-empty *)
Fixpoint replace_all (fuel : nat) (pat rep t : text) : text :=
  match fuel with
  | O => t
  | S f =>
      match t with
      | [] => []
      | c :: r => match is_prefix pat t with
                  | Some rest => rep ++ replace_all f pat rep rest
                  | None => c :: replace_all f pat rep r
                  end
      end
  end.

(* sorted(pddl_variables): code-point order *)
Fixpoint insert_sorted (x : string) (l : list string) : list string :=
  match l with
  | [] => [x]
  | y :: r => if String.leb x y then x :: l else y :: insert_sorted x r
  end.
Definition sort_strings (l : list string) : list string := fold_right insert_sorted [] l.

(* the candidates stripped, stripped_1, stripped_2, ... *)
Definition name_cand (base : string) (i : nat) : string :=
  match i with O => base | S _ => base ++ "_" ++ nat_digits (Z.of_nat i) end.

(* the while loop: the first candidate that no function uses yet.  Among length used + 1 different candidates
   one is free; [Err EFuel] stands for "none was" and is excluded by the theorems (never observed). *)
Definition fresh_name (base : string) (used : list string) : result string :=
  match find (fun i => negb (str_in (name_cand base i) used)) (seq 0 (S (List.length used))) with
  | Some i => Ok (name_cand base i)
  | None => Err EFuel
  end.

(* the dictionary after the call: the given entries, then one per new function, visited in sorted order *)
Definition transform_map (given : list (string * string)) (found : list string) : result (list (string * string)) :=
  fold_left (fun (acc : result (list (string * string))) v =>
               do m <- acc;
               if str_in v (map fst m) then Ok m
               else do n <- fresh_name (symbol_name v) (map snd m); Ok (m ++ [(v, n)]))
            (sort_strings found) (Ok given).

Definition transform_text (expression : string) (m : list (string * string)) : string :=
  t2s (fold_left (fun t kv => replace_all (S (List.length t)) (s2t (fst kv)) (s2t (snd kv)) t) m (s2t expression)).

Definition fluents_in (expression : string) : list string :=
  dedup (find_fluents (S (String.length expression)) (s2t expression)).

(* ------------------------------------------------------------------ the shape of a function text *)
(* "(" name blanks / arguments ")": atom characters and blanks between one pair of parentheses, the first token a name.
   Hypothesis of C13_glue_readback on the keys of a symbol table; proved for the tables transform_map builds
   (C13_symbol_table_shape) and checked on every symbol table the library handed to convert_expr_to_pddl in a run. *)
(* (an atom character or a blank: anything but a parenthesis and the comment character) *)
Definition inner_char (c : ascii) : bool := negb (is_paren c) && negb (Ascii.eqb c SEMI).
Definition inner_of (t : string) : text := removelast (tl (s2t t)).
Definition fl_tokens (t : string) : list string := tokenize MStr (inner_of t).

Definition fl_ok_b (t : string) : bool :=
  match s2t t with
  | c :: r => Ascii.eqb c LP && match rev r with e :: _ => Ascii.eqb e RP | [] => false end
  | [] => false
  end && forallb inner_char (inner_of t) && match fl_tokens t with h :: _ => name_start h | [] => false end.

(* the trees sympy builds: no empty product, no zero exponent.  Hypothesis of the value half of C13_glue (Proofs/C13_Glue.v);
   checked by the correspondence on every tree the library handed to convert_expr_to_pddl in a run (Corr/C13.v, CGlue) *)
Fixpoint wf_tree (t : stree) : bool :=
  match t with
  | SAdd args => forallb wf_tree args
  | SMul args => negb (match args with [] => true | _ => false end) && forallb wf_tree args
  | SPow b (SInt z) => negb (Z.eqb z 0) && wf_tree b
  | SPow b _ => wf_tree b
  | _ => true
  end.
