(* Model of lisp_parsers/problem_parser.py (ProblemParser) with the parts of models/pddl_problem.py,
   pddl_function.py (PDDLFunction: signature dict, repeating_variables, state_representation),
   pddl_predicate.py (GroundedPredicate: object_mapping, hash/eq inside a state set) and pddl_object.py it uses.
   One function per Python method, same order of checks.  Definitions only.

   [pcfg] selects the tree that is described:
     cfg_pinned  the tree before the repairs proposed in proposed_fixes/D19a, D19b, D19c (deviation D19 of DESIGN.md)
     cfg_fixed   the tree with them (what the correspondence check runs against):
       fix_untyped     parse_objects gives trailing names without "- type" the type object (D19a)
       fix_goal_arity  parse_goal_state rejects a fluent with a wrong number of arguments in a numeric goal (D19b)
       fix_positional  parse_grounded_numeric_fluent type-checks argument i against parameter i (D19c); the pinned
                       code zips the DE-DUPLICATED arguments against the signature (mis-aligned under repeats)
       fix_apps        construct_expression_tree rejects a function application with a wrong number of arguments or
                       a repeated argument (/repo c7c8534, proposed by the C01 builder as D46); Model/NumExpr.v (C12,
                       shared) does not have this check yet, hence the local copy [pconstruct] below
     cfg_gt true     = cfg_fixed + fix_goal_types: _validate_goal_fluents_arity also type-checks those arguments of a
                       numeric-goal fluent that are declared objects / constants (proposed_fixes/D19d.diff, NOT yet in
                       /repo; [cfg_current] says which one the correspondence uses)
   NOT repaired and reproduced here (finding D07): the signature of a grounded PDDLFunction is a dict keyed by
   object name, so repeated arguments collapse: an initial fluent is stored under "(f <distinct arguments>)" and
   printed with the repeated names first; a numeric goal over a fluent with a repeated argument is rejected
   (with fix_apps; before, the repetition was dropped).  Numeric goals check neither that their arguments are
   declared nor their types (finding D19d).

   Representation choices (injective abstractions of the library's string keys):
     initial_state_predicates  dict "(p ?a ?b)" -> set    ~ pydict keyed by the predicate NAME (one lifted form
                               per name); a set of GroundedPredicate of one predicate is a duplicate-free list of
                               argument lists in insertion order (hash/eq of two groundings of the same lifted
                               predicate reduce to equality of the argument lists)
     initial_state_fluents     dict "(f a b)" -> PDDLFunction  ~ assoc list keyed by (f, [a; b])  (tokens contain no
                               blank, so the text determines the pair)
     goal_state_fluents        set of trees hashed by identity  ~ list in insertion order (compared as a multiset)
   x[0] / x[1:] on a token (a Python str) yield its first character / the remaining characters: [head_args].
   float(token) is data supplied by the caller ([num], as in Model/Domain.v).
   Not modelled: a list in the place of the problem name ([Err EOther]). *)
From Coq Require Import List Ascii String Bool Arith PrimFloat.
From Verif Require Import Base.Result Base.Str Base.Sexp Base.PyDict Model.Types Model.Domain Model.NumExpr.
Import ListNotations.
Open Scope string_scope.
Open Scope list_scope.

Record pcfg := { fix_untyped : bool; fix_goal_arity : bool; fix_positional : bool; fix_apps : bool; fix_goal_types : bool }.
Definition cfg_pinned : pcfg :=
  {| fix_untyped := false; fix_goal_arity := false; fix_positional := false; fix_apps := false; fix_goal_types := false |}.
Definition cfg_fixed : pcfg :=
  {| fix_untyped := true; fix_goal_arity := true; fix_positional := true; fix_apps := true; fix_goal_types := false |}.
(* the current tree with ([gt] = true) or without ([gt] = false: [cfg_fixed]) the repair proposed in
   proposed_fixes/D19d.diff: a fluent of a numeric goal whose argument IS a declared object / constant must have an
   argument of a conforming type (an undeclared argument is still let through: what is left of finding D19d) *)
Definition cfg_gt (gt : bool) : pcfg :=
  {| fix_untyped := true; fix_goal_arity := true; fix_positional := true; fix_apps := true; fix_goal_types := gt |}.
(* the configuration the correspondence checks (Corr/C05.v, Corr/C09.v) run against: the tree as it is, i.e. WITH the
   repair D19e = 43c9edb (proposed_fixes/D19d.diff, committed). *)
Definition cfg_current : pcfg := cfg_gt true.

(* ---------- object model ---------- *)
Definition fkey := (string * list string)%type.

Fixpoint strs_eqb (a b : list string) : bool :=
  match a, b with
  | [], [] => true
  | x :: xs, y :: ys => String.eqb x y && strs_eqb xs ys
  | _, _ => false
  end.
Definition fkey_eqb (a b : fkey) : bool := String.eqb (fst a) (fst b) && strs_eqb (snd a) (snd b).

Record mfluent := {
  fl_name : string;
  fl_sig : pydict string;             (* signature: distinct argument -> the type of that object *)
  fl_rep : list (string * nat);       (* repeating_variables: arguments occurring more than once, with multiplicity *)
  fl_val : float
}.

Record mproblem := {
  pb_name : string;
  pb_objects : pydict string;                       (* object -> type name *)
  pb_facts : pydict (list (list string));           (* predicate -> its groundings *)
  pb_fluents : list (fkey * mfluent);               (* untyped representation -> function *)
  pb_goal : list (string * list string);            (* goal_state_predicates, a list *)
  pb_goal_num : list ntree                          (* goal_state_fluents *)
}.

Definition empty_problem : mproblem :=
  {| pb_name := ""; pb_objects := []; pb_facts := []; pb_fluents := []; pb_goal := []; pb_goal_num := [] |}.

(* assoc list keyed by fkey with dict semantics *)
Fixpoint kget {V} (d : list (fkey * V)) (k : fkey) : option V :=
  match d with
  | [] => None
  | (k', v) :: r => if fkey_eqb k k' then Some v else kget r k
  end.
Fixpoint kset {V} (d : list (fkey * V)) (k : fkey) (v : V) : list (fkey * V) :=
  match d with
  | [] => [(k, v)]
  | (k', v') :: r => if fkey_eqb k k' then (k', v) :: r else (k', v') :: kset r k v
  end.

(* ---------- x[0], x[1:] ---------- *)
Definition chars_as_atoms (s : string) : list sexp :=
  map (fun c => Atom (String c EmptyString)) (list_ascii_of_string s).

Definition head_args (e : sexp) : result (string * list sexp) :=
  match e with
  | SList (Atom h :: args) => Ok (h, args)
  | SList (SList _ :: _) => Err EType                 (* a list used as a dict key *)
  | SList [] => Err EIndex
  | Atom (String c r) => Ok (String c EmptyString, chars_as_atoms r)
  | Atom EmptyString => Err EIndex
  end.

Definition sx_len (e : sexp) : nat :=
  match e with SList l => List.length l | Atom s => String.length s end.

(* ---------- parse_objects ---------- *)
Definition add_typed (same : list string) (ty : string) (acc : pydict string) : pydict string :=
  fold_left (fun a n => dset a n ty) same acc.

Section Objects.
  Variable cfg : pcfg.
  Variable tt : typetable.
  Variable rec : sexp -> result (pydict string).     (* parse_objects(sub[1:]) for a nested list *)

  (* [skip]: drop the first element (the [1:] of the recursive call / of the section) *)
  Fixpoint po_list (skip : bool) (l : list sexp) (same : list string) (acc : pydict string)
    : result (pydict string) :=
    match l with
    | [] => Ok (if fix_untyped cfg then add_typed same "object" acc else acc)
    | x :: rest =>
        if skip then po_list false rest same acc else
        match x with
        | SList _ => do priv <- rec x; po_list false rest same (dupdate acc priv)
        | Atom t =>
            if String.eqb t "-" then
              match rest with
              | [] => Err EIndex
              | SList _ :: _ => Err EType
              | Atom ty :: rest' =>
                  if negb (type_known tt ty) then Err EValue
                  else po_list false rest' [] (add_typed same ty acc)
              end
            else po_list false rest (same ++ [t]) acc
        end
    end.
End Objects.

(* parse_objects(e[1:]) *)
Fixpoint parse_objects_sx (cfg : pcfg) (tt : typetable) (e : sexp) : result (pydict string) :=
  match e with
  | Atom _ => Err EType
  | SList l => po_list cfg tt (parse_objects_sx cfg tt) true l [] []
  end.

(* ---------- Counter, dict comprehensions ---------- *)
Fixpoint count_str (x : string) (l : list string) : nat :=
  match l with [] => 0 | y :: r => (if String.eqb x y then 1 else 0) + count_str x r end.

(* keys of Counter(l) / of {a: ... for a in l}: first occurrences, in order *)
Definition distinct (l : list string) : list string := NumExpr.dedup_keys [] l.

Definition repeating (l : list string) : list (string * nat) :=
  filter (fun kv => Nat.ltb 1 (snd kv)) (map (fun x => (x, count_str x l)) (distinct l)).

(* PDDLFunction.state_representation: repeated names first (each as often as it occurred), then the others *)
Definition expand_args (sg : pydict string) (rep : list (string * nat)) : list string :=
  flat_map (fun kv => repeat (fst kv) (snd kv)) rep
  ++ filter (fun p => negb (dmem rep p)) (dkeys sg).

Fixpoint forall2b {A B} (f : A -> B -> bool) (a : list A) (b : list B) : bool :=   (* all(f(x,y) for x,y in zip(a,b)) *)
  match a, b with
  | x :: xs, y :: ys => f x y && forall2b f xs ys
  | _, _ => true
  end.

(* ---------- numerical_expression.construct_expression_tree (current /repo) ----------
   NumExpr.construct with strict arity of operators (fix D08) and, with [check_apps], the check of function
   applications of /repo c7c8534 *)
Section PConstruct.
  Variable check_apps : bool.
  Variable pn : string -> option float.
  Variable funcs : domain_functions.

  Definition pconstruct_flat (strs : list string) : result ntree :=
    match strs with
    | [] => Err EIndex
    | h :: args =>
        if str_in h LEGAL_NUMERIC_OPERATORS then construct_flat true pn funcs strs
        else
          match alookup h funcs with
          | None => Err EKey
          | Some sig =>
              if check_apps && (negb (Nat.eqb (List.length args) (List.length sig)) || has_dup args) then Err EValue
              else
                match args with
                | [] => Ok (NFl {| nf_name := h; nf_params := sig |})
                | _ => Ok (NFl {| nf_name := h; nf_params := NumExpr.dedup_keys [] (firstn (List.length sig) args) |})
                end
          end
    end.

  Fixpoint pconstruct (e : sexp) : result ntree :=
    match e with
    | Atom s => construct_atom pn s
    | SList l =>
        match NumExpr.all_atoms l with
        | Some strs => pconstruct_flat strs
        | None =>
            if negb (Nat.eqb (List.length l) 3) then Err ESyntax else
            match l with
            | h :: a :: rest =>
                do x <- pconstruct a;
                match rest with
                | b :: _ =>
                    do y <- pconstruct b;
                    match h with
                    | Atom op => Ok (NBin op x y)
                    | SList _ => Err EOther
                    end
                | [] => Err EIndex
                end
            | _ => Err EIndex
            end
        end
    end.
End PConstruct.

Section Parser.
  Variable cfg : pcfg.
  Variable num : numparser.
  Variable dom : mdomain.

  Definition ptt : typetable := d_types dom.

  (* {**self.problem.objects, **self.domain.constants} *)
  Definition possible (objs : pydict string) : pydict string := dupdate objs (d_consts dom).

  (* ---------- parse_grounded_numeric_fluent ---------- *)
  Definition parse_gfluent (objs : pydict string) (e : sexp) : result mfluent :=
    do ha <- head_args e;
    let (f, args) := ha in
    match dget (d_funcs dom) f with
    | None => Err EAssert
    | Some sg =>
        do items <- atoms_of args;                                  (* Counter(...) hashes every item *)
        if negb (Nat.eqb (List.length items) (List.length sg)) then Err EValue
        else
          let po := possible objs in
          if negb (forallb (dmem po) items) then Err EKey
          else
            let ty a := match dget po a with Some t => t | None => "object" end in
            let fsig := fold_left (fun acc a => dset acc a (ty a)) items [] in
            let checked :=
              if fix_positional cfg
              then forall2b (fun a lt => is_sub_type ptt (ty a) lt) items (dvalues sg)
              else forall2b (fun gt lt => is_sub_type ptt gt lt) (dvalues fsig) (dvalues sg) in
            if negb checked then Err EAssert
            else Ok {| fl_name := f; fl_sig := fsig; fl_rep := repeating items; fl_val := 0%float |}
    end.

  (* ---------- parse_grounded_predicate (with _validate_object_types) ---------- *)
  Definition parse_gpred (objs : pydict string) (args : list sexp) (sg : signature) : result (list string) :=
    if negb (Nat.eqb (List.length args) (List.length sg)) then Err EValue
    else
      do items <- atoms_of args;
      let po := possible objs in
      if negb (forallb (dmem po) items) then Err EKey
      else
        let ty a := match dget po a with Some t => t | None => "object" end in
        if negb (forall2b (fun a lt => is_sub_type ptt (ty a) lt) items (dvalues sg)) then Err EAssert
        else Ok (dvalues (combine (dkeys sg) items))              (* object_mapping.values() *)
  .

  (* set.add on the groundings of one predicate *)
  Definition add_fact (facts : pydict (list (list string))) (p : string) (args : list string)
    : pydict (list (list string)) :=
    match dget facts p with
    | Some l => if existsb (strs_eqb args) l then facts else dset facts p (l ++ [args])
    | None => dset facts p [args]
    end.

  Definition with_facts (pb : mproblem) facts : mproblem :=
    {| pb_name := pb_name pb; pb_objects := pb_objects pb; pb_facts := facts; pb_fluents := pb_fluents pb;
       pb_goal := pb_goal pb; pb_goal_num := pb_goal_num pb |}.
  Definition with_fluents (pb : mproblem) fls : mproblem :=
    {| pb_name := pb_name pb; pb_objects := pb_objects pb; pb_facts := pb_facts pb; pb_fluents := fls;
       pb_goal := pb_goal pb; pb_goal_num := pb_goal_num pb |}.
  Definition with_goal (pb : mproblem) g gn : mproblem :=
    {| pb_name := pb_name pb; pb_objects := pb_objects pb; pb_facts := pb_facts pb; pb_fluents := pb_fluents pb;
       pb_goal := g; pb_goal_num := gn |}.
  Definition with_objects (pb : mproblem) objs : mproblem :=
    {| pb_name := pb_name pb; pb_objects := objs; pb_facts := pb_facts pb; pb_fluents := pb_fluents pb;
       pb_goal := pb_goal pb; pb_goal_num := pb_goal_num pb |}.
  Definition with_name (pb : mproblem) n : mproblem :=
    {| pb_name := n; pb_objects := pb_objects pb; pb_facts := pb_facts pb; pb_fluents := pb_fluents pb;
       pb_goal := pb_goal pb; pb_goal_num := pb_goal_num pb |}.

  (* ---------- parse_state_component ---------- *)
  Definition parse_state_component (pb : mproblem) (e : sexp) : result mproblem :=
    do ha <- head_args e;
    let (h, rest) := ha in
    if String.eqb h "=" then
      if negb (Nat.eqb (sx_len e) 3) then Err ESyntax
      else
        match rest with
        | [fdata; Atom v] =>
            match num v with
            | None => Err EValue                                     (* float(expression[2]) *)
            | Some x =>
                do fl <- parse_gfluent (pb_objects pb) fdata;
                let fl' := {| fl_name := fl_name fl; fl_sig := fl_sig fl; fl_rep := fl_rep fl; fl_val := x |} in
                Ok (with_fluents pb (kset (pb_fluents pb) (fl_name fl, dkeys (fl_sig fl)) fl'))
            end
        | [_; SList _] => Err EType                                  (* float(list) *)
        | _ => Err EOther                                            (* unreachable: the length is 3 *)
        end
    else
      match dget (d_preds dom) h with
      | Some sg =>
          do args <- parse_gpred (pb_objects pb) rest sg;
          Ok (with_facts pb (add_fact (pb_facts pb) h args))
      | None => Err EValue
      end.

  (* ---------- parse_goal_state ---------- *)
  Definition goal_ops : list string := [">"; "="; "<"; ">="; "<="].
  Definition funcs_keys : domain_functions := map (fun kv => (fst kv, dkeys (snd kv))) (d_funcs dom).

  (* the type check of proposed_fixes/D19d.diff: an argument that is declared must conform; others pass *)
  Definition goal_types_ok (objs : pydict string) (args : list string) (tys : list string) : bool :=
    forall2b (fun a lt => match dget (possible objs) a with Some t => is_sub_type ptt t lt | None => true end) args tys.

  (* _validate_goal_fluents_arity (only with fix D19b; the type check only with fix_goal_types) *)
  Fixpoint goal_arity_ok (objs : pydict string) (e : sexp) : bool :=
    match e with
    | Atom _ => true
    | SList l =>
        match NumExpr.all_atoms l with
        | Some (h :: args) =>
            match dget (d_funcs dom) h with
            | Some sg => Nat.eqb (List.length args) (List.length sg)
                         && (negb (fix_goal_types cfg) || goal_types_ok objs args (dvalues sg))
            | None => true
            end
        | Some [] => true
        | None =>
            (fix go (skip : bool) (l : list sexp) : bool :=              (* the operands: expression[1:] *)
               match l with
               | [] => true
               | x :: r => (if skip then true else goal_arity_ok objs x) && go false r
               end) true l
        end
    end.

  Definition parse_goal_item (pb : mproblem) (e : sexp) : result mproblem :=
    do ha <- head_args e;
    let (h, rest) := ha in
    if negb (dmem (d_preds dom) h) && negb (str_in h goal_ops) then Err EValue
    else if negb (str_in h goal_ops) then
      match dget (d_preds dom) h with
      | Some sg =>
          do args <- parse_gpred (pb_objects pb) rest sg;
          Ok (with_goal pb (pb_goal pb ++ [(h, args)]) (pb_goal_num pb))
      | None => Err EKey
      end
    else
      if fix_goal_arity cfg && negb (goal_arity_ok (pb_objects pb) e) then Err EValue
      else
        do t <- pconstruct (fix_apps cfg) num funcs_keys e;
        Ok (with_goal pb (pb_goal pb) (pb_goal_num pb ++ [t])).

  Definition parse_goal_state (pb : mproblem) (g : sexp) : result mproblem :=
    match g with
    | SList [] => Err EIndex
    | SList (Atom h :: items) =>
        if negb (String.eqb h "and") then Err ESyntax else foldM parse_goal_item items pb
    | SList (SList _ :: _) => Err ESyntax
    | Atom (String _ _) => Err ESyntax                   (* its first character is not "and" *)
    | Atom EmptyString => Err EIndex
    end.

  (* ---------- parse_problem: the loop over the top-level elements ---------- *)
  Definition parse_section (pb : mproblem) (e : sexp) : result mproblem :=
    match e with
    | Atom (String _ _) => Ok pb                           (* a bare token: its first character names no section *)
    | Atom EmptyString => Err EIndex
    | SList [] => Err EIndex
    | SList (SList _ :: _) => Ok pb
    | SList (Atom h :: body) =>
        if String.eqb h "problem" then
          match body with
          | Atom n :: _ => Ok (with_name pb n)
          | SList _ :: _ => Err EOther                     (* not modelled *)
          | [] => Err EIndex
          end
        else if String.eqb h ":domain" then
          match body with
          | Atom n :: _ => if String.eqb n (d_name dom) then Ok pb else Err EValue
          | SList _ :: _ => Err EValue
          | [] => Err EIndex
          end
        else if String.eqb h ":objects" then
          do objs <- parse_objects_sx cfg ptt e; Ok (with_objects pb objs)
        else if String.eqb h ":init" then foldM parse_state_component body pb
        else if String.eqb h ":goal" then
          match body with
          | g :: _ => parse_goal_state pb g
          | [] => Err EIndex
          end
        else Ok pb
    end.

  Definition parse_problem (e : sexp) : result mproblem :=
    match e with
    | SList (Atom h :: _ as l) =>
        if String.eqb h "define" then foldM parse_section l empty_problem else Err ESyntax
    | SList (SList _ :: _) => Err ESyntax
    | SList [] => Err EIndex
    | Atom (String _ _) => Err ESyntax
    | Atom EmptyString => Err EIndex
    end.
End Parser.
