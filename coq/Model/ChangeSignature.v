(* Model of Action.change_signature and everything it calls:
     models/pddl_action.py          Action.change_signature
     models/pddl_predicate.py       Predicate.change_signature
     models/pddl_function.py        PDDLFunction.change_signature
     models/numerical_expression.py NumericalExpressionTree.change_signature
     models/pddl_precondition.py    Precondition / UniversalPrecondition / CompoundPrecondition.change_signature
     models/conditional_effect.py   ConditionalEffect / UniversalEffect.change_signature
   on the tree after the repair D23 (see findings.d/C18.json) and before eb5fde6 (repair D75b: a quantifier renames its own
   variable to a fresh name when a new name equals it - that step is modelled in Model.ChangeSignatureAlpha, which agrees
   with this file wherever no new name is a quantified variable): every signature dict is REBUILT by a dict
   comprehension  {mapping.get(name, name): type for name, type in signature.items()}.
   The comprehension is modelled as what CPython does: successive  d[k'] = v  on an empty dict (Base.PyDict.dset:
   replace in place | append), so what happens under a non-injective mapping is computed, not assumed.
   The second half of the file keeps a model of the code as it was BEFORE the repair (in-place
   sig[new] = sig.pop(old) loop, flattened walk of the preconditions, no conditional/universal effects):
   it is used only to state, as theorems, what the repair changed (Proofs/C18_Legacy.v).
   Definitions only. *)
From Coq Require Import List String Bool.
From Verif Require Import Base.Result Base.PyDict Model.Domain.
Import ListNotations.
Open Scope string_scope.
Open Scope list_scope.

Definition renaming := pydict string.                      (* the dict passed by the caller: old name -> new name *)

(* mapping.get(name, name) *)
Definition rn (m : renaming) (n : string) : string :=
  match dget m n with Some x => x | None => n end.

(* {mapping.get(k, k): v for k, v in sg.items()} *)
Definition rebuild {V} (m : renaming) (sg : pydict V) : pydict V :=
  fold_left (fun acc kv => dset acc (rn m (fst kv)) (snd kv)) sg [].

(* The signature of a literal / of a fluent is a dict  argument name -> type  whose keys are the argument list
   (Domain.v keeps the keys only; a repeated argument is a parse error there, D07).  The type objects play no
   role in the renaming, so the values are units. *)
Definition args_dict (args : list string) : pydict unit := map (fun a => (a, tt)) args.
Definition rename_args (m : renaming) (args : list string) : list string := dkeys (rebuild m (args_dict args)).

(* {old: new for old, new in mapping.items() if old != quantified_parameter} *)
Definition drop (m : renaming) (v : string) : renaming :=
  filter (fun kv => negb (String.eqb (fst kv) v)) m.

(* NumericalExpressionTree.change_signature: every function node among the DESCENDANTS of the root *)
Fixpoint rename_tree (m : renaming) (t : mtree) : mtree :=
  match t with
  | TNum x => TNum x
  | TFn f args => TFn f (rename_args m args)
  | TNode op l r => TNode op (rename_tree m l) (rename_tree m r)
  end.
Definition rename_numexp (m : renaming) (t : mtree) : mtree :=
  match t with
  | TNode op l r => TNode op (rename_tree m l) (rename_tree m r)
  | leaf => leaf                                             (* the root itself is not among its descendants *)
  end.

Definition rename_pair (m : renaming) (ab : string * string) : string * string := (rn m (fst ab), rn m (snd ab)).

(* Precondition.change_signature: operands one by one (each kind has its own change_signature), then the two
   sets of pairs.  UniversalPrecondition drops its bound variable from the mapping first.
   The Python sets are rebuilt (re-hashed); as everywhere in the object model a set is the list of its elements,
   so an element that became equal to another one is still listed (this needs a non-injective mapping). *)
Fixpoint rename_pre (m : renaming) (p : mpre) : mpre :=
  match p with
  | MPre op os eqs neqs =>
      MPre op ((fix go (l : list mcond) : list mcond :=
                  match l with [] => [] | c :: r => rename_cond m c :: go r end) os)
           (map (rename_pair m) eqs) (map (rename_pair m) neqs)
  end
with rename_cond (m : renaming) (c : mcond) : mcond :=
  match c with
  | MLit pos p args => MLit pos p (rename_args m args)
  | MNum t => MNum (rename_numexp m t)
  | MNested q => MNested (rename_pre m q)
  | MUniv v ty body => MUniv v ty (rename_pre (drop m v) body)
  end.

Definition rename_lit (m : renaming) (l : mlit) : mlit :=
  {| l_pos := l_pos l; l_name := l_name l; l_args := rename_args m (l_args l) |}.

(* ConditionalEffect.change_signature *)
Definition rename_condeff (m : renaming) (ce : mcondeff) : mcondeff :=
  {| ce_ante := rename_pre m (ce_ante ce);
     ce_disc := map (rename_lit m) (ce_disc ce);
     ce_num := map (rename_numexp m) (ce_num ce) |}.

(* UniversalEffect.change_signature *)
Definition rename_univeff (m : renaming) (ue : muniveff) : muniveff :=
  {| ue_var := ue_var ue; ue_ty := ue_ty ue; ue_ce := rename_condeff (drop m (ue_var ue)) (ue_ce ue) |}.

(* Action.change_signature.  It cannot raise: every lookup is a .get with a default. *)
Definition change_signature (m : renaming) (a : maction) : maction :=
  {| ma_name := ma_name a;
     ma_sig := rebuild m (ma_sig a);
     ma_pre := rename_pre m (ma_pre a);
     ma_disc := map (rename_lit m) (ma_disc a);
     ma_num := map (rename_numexp m) (ma_num a);
     ma_cond := map (rename_condeff m) (ma_cond a);
     ma_univ := map (rename_univeff m) (ma_univ a) |}.

(* ================================================================================================== *)
(* The code before the repair (pinned snapshot up to /repo 9ab7bc5)                                    *)
(* ================================================================================================== *)

(* ordered = list(sg.keys());  for old in ordered:  new = mapping[old];  sg[new] = sg.pop(old) *)
Definition pop_insert_step {V} (m : renaming) (d : pydict V) (old : string) : result (pydict V) :=
  match dget m old with
  | None => Err EKey                                         (* mapping[old] *)
  | Some new =>
      match dget d old with
      | None => Err EKey                                     (* sg.pop(old) *)
      | Some v => Ok (dset (dpop d old) new v)
      end
  end.
Definition pop_insert {V} (m : renaming) (sg : pydict V) : result (pydict V) :=
  foldM (pop_insert_step m) (dkeys sg) sg.

Definition legacy_rename_args (m : renaming) (args : list string) : result (list string) :=
  do d <- pop_insert m (args_dict args); Ok (dkeys d).

Fixpoint legacy_rename_tree (m : renaming) (t : mtree) : result mtree :=
  match t with
  | TNum x => Ok (TNum x)
  | TFn f args => do args' <- legacy_rename_args m args; Ok (TFn f args')
  | TNode op l r => do l' <- legacy_rename_tree m l; do r' <- legacy_rename_tree m r; Ok (TNode op l' r')
  end.
Definition legacy_rename_numexp (m : renaming) (t : mtree) : result mtree :=
  match t with
  | TNode op l r => do l' <- legacy_rename_tree m l; do r' <- legacy_rename_tree m r; Ok (TNode op l' r')
  | leaf => Ok leaf
  end.

(* "for _, condition in self": Precondition.__iter__ flattens nested (and quantified) conditions, so the literals
   and numeric conditions at every depth are renamed with the SAME mapping, a nested condition is never met as
   such, and only the root's own pairs are renamed (mapping[...], KeyError on a name outside the mapping). *)
Fixpoint legacy_rename_operands (m : renaming) (p : mpre) : result mpre :=
  match p with
  | MPre op os eqs neqs =>
      do os' <- (fix go (l : list mcond) : result (list mcond) :=
                   match l with
                   | [] => Ok []
                   | c :: r => do c' <- legacy_rename_operand m c; do r' <- go r; Ok (c' :: r')
                   end) os;
      Ok (MPre op os' eqs neqs)
  end
with legacy_rename_operand (m : renaming) (c : mcond) : result mcond :=
  match c with
  | MLit pos p args => do args' <- legacy_rename_args m args; Ok (MLit pos p args')
  | MNum t => do t' <- legacy_rename_numexp m t; Ok (MNum t')
  | MNested q => do q' <- legacy_rename_operands m q; Ok (MNested q')
  | MUniv v ty body => do b' <- legacy_rename_operands m body; Ok (MUniv v ty b')
  end.

Definition legacy_rename_pair (m : renaming) (ab : string * string) : result (string * string) :=
  match dget m (fst ab), dget m (snd ab) with
  | Some a, Some b => Ok (a, b)
  | _, _ => Err EKey
  end.

Definition legacy_rename_pre (m : renaming) (p : mpre) : result mpre :=
  do p' <- legacy_rename_operands m p;
  match p' with
  | MPre op os eqs neqs =>
      do eqs' <- mapM (legacy_rename_pair m) eqs;
      do neqs' <- mapM (legacy_rename_pair m) neqs;
      Ok (MPre op os eqs' neqs')
  end.

Definition legacy_rename_lit (m : renaming) (l : mlit) : result mlit :=
  do args' <- legacy_rename_args m (l_args l);
  Ok {| l_pos := l_pos l; l_name := l_name l; l_args := args' |}.

(* the conditional and universal effects were a TODO: left as they are *)
Definition legacy_change_signature (m : renaming) (a : maction) : result maction :=
  do sg <- pop_insert m (ma_sig a);
  do pre <- legacy_rename_pre m (ma_pre a);
  do disc <- mapM (legacy_rename_lit m) (ma_disc a);
  do nums <- mapM (legacy_rename_numexp m) (ma_num a);
  Ok {| ma_name := ma_name a; ma_sig := sg; ma_pre := pre; ma_disc := disc; ma_num := nums;
        ma_cond := ma_cond a; ma_univ := ma_univ a |}.
