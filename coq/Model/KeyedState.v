(* How the library SEES the fluents of a state (round 3, C02; finding D07):
   a grounded PDDLFunction keeps its arguments in a dict keyed by OBJECT name, so its text -- the key under which the
   problem parser stores the fluent in State.state_fluents, and the key under which set_expression_value looks it up -- is
   the function name followed by the FIRST OCCURRENCES of its arguments: (k o1 o2 o1), (k o1 o1 o2) and (k o1 o2 o2) are all
   '(k o1 o2)'.  The parser stores the initial fluents one by one (a later one with the same key overwrites), the evaluator
   reads by the same key.  For arity <= 2 the keys of different fluents differ, for arity >= 3 with repeated objects they
   collide.
   Model/Exec.v keeps full argument lists on both sides (which is PDDL).  [code_state s] is the state in which every fluent
   has the value the LIBRARY reads for it; evaluating Model.Exec.is_applicable on [code_state s] is what the code computes
   on the state parsed from the text of s.  Definitions only. *)
From Coq Require Import List String Bool PrimFloat.
From Verif Require Import Base.Str Base.PyDict Model.Types Model.Domain Model.Exec Model.GroundTyped Spec.Pddl.
Import ListNotations.
Open Scope string_scope.
Open Scope list_scope.

Definition keyed (a : atom) : atom := (fst a, key_collapse (snd a)).

(* the value stored last under a key *)
Fixpoint last_value (k : atom) (fl : list (atom * float)) : option float :=
  match fl with
  | [] => None
  | (b, w) :: r =>
      match last_value k r with
      | Some v => Some v
      | None => if atom_eqb (keyed b) k then Some w else None
      end
  end.

Definition code_value (fl : list (atom * float)) (av : atom * float) : float :=
  match last_value (keyed (fst av)) fl with Some v => v | None => snd av end.

Definition code_fluents (fl : list (atom * float)) : list (atom * float) :=
  map (fun av => (fst av, code_value fl av)) fl.

Definition code_state (s : state) : state := {| facts := facts s; fluents := code_fluents (fluents s) |}.
