(* Executable model of pddl_plus_parser/multi_agent/multi_agent_domain_converter.py (locate_domains),
   multi_agent_problem_converter.py (combine_problems) and of the part of models/pddl_domain.py that
   matters for them (Domain.__init__ and the module-level DEFAULT_TYPES).

   PDDL parsing is NOT modelled here: every per-agent file is parsed by the implementation and what
   reaches the model is the file's *vocabulary dump*: insertion-ordered association lists
   name -> canonical text of the entry (type -> chain of ancestors, constant/object -> type,
   predicate/function -> typed signature, action -> canonical action text, fluent -> value text),
   sets as lists.  The model is the fold of dict updates that the converters perform over the files
   in discovery order; the order is an explicit parameter (Path.glob enumerates in file-system order).

   Definitions only.  The model describes the tree after the repairs D18 (Domain() copies
   DEFAULT_TYPES) and D27 (numeric goals are de-duplicated by their text); the behaviour before D18
   is kept as [InitAlias], the behaviour before D27 as [merge_problem_identity].  The domain name and
   the requirements are those of the file found last (they are not among the sections C17 speaks
   about; the model records what the code does with them, the check does not judge them). *)
From Coq Require Import List String Bool.
From Verif Require Import Base.Result Base.Str.
Import ListNotations.
Open Scope string_scope.
Open Scope list_scope.

(* ---------------------------------------------------------------- insertion-ordered dicts *)
Definition adict (V : Type) := list (string * V).
Definition alist := adict string.

Fixpoint lookup {V} (k : string) (d : adict V) : option V :=
  match d with
  | [] => None
  | (k', v) :: r => if String.eqb k k' then Some v else lookup k r
  end.

(* d[k] = v : an existing key keeps its position, a new key goes to the end *)
Fixpoint set_item {V} (k : string) (v : V) (d : adict V) : adict V :=
  match d with
  | [] => [(k, v)]
  | (k', v') :: r => if String.eqb k k' then (k, v) :: r else (k', v') :: set_item k v r
  end.

(* d.update(e) *)
Definition update {V} (d e : adict V) : adict V :=
  fold_left (fun acc kv => set_item (fst kv) (snd kv) acc) e d.

Definition keys {V} (d : adict V) : list string := map fst d.

(* for x in a: if x not in c: c.append(x)     (also the shape of "add to a set unless its text is known") *)
Definition add_one (acc : list string) (x : string) : list string :=
  if str_in x acc then acc else acc ++ [x].
Definition add_new (c a : list string) : list string := fold_left add_one a c.

(* ---------------------------------------------------------------- domains *)
Record domainv := {
  d_name : option string;          (* None: the attribute was never assigned (Domain() has no name) *)
  d_reqs : list string;
  d_types : alist;                 (* type name -> ancestors *)
  d_consts : alist;                (* constant -> type *)
  d_preds : alist;                 (* predicate name -> typed signature text *)
  d_funcs : alist;
  d_acts : alist                   (* action name -> canonical text of the action *)
}.

(* Domain(): types is (a copy of) DEFAULT_TYPES, everything else empty *)
Definition new_domain (defaults : alist) : domainv :=
  {| d_name := None; d_reqs := []; d_types := defaults; d_consts := []; d_preds := []; d_funcs := [];
     d_acts := [] |}.

(* body of the loop of locate_domains (multi_agent_domain_converter.py:53-68) *)
Definition merge_domain (c a : domainv) : domainv :=
  {| d_name := d_name a;                               (* last file wins *)
     d_reqs := d_reqs a;                               (* last file wins *)
     d_types := update (d_types c) (d_types a);
     d_consts := update (d_consts c) (d_consts a);
     d_preds := update (d_preds c) (d_preds a);
     d_funcs := update (d_funcs c) (d_funcs a);
     d_acts := update (d_acts c) (d_acts a) |}.

Definition combine_domains (defaults : alist) (files : list domainv) : domainv :=
  fold_left merge_domain files (new_domain defaults).

(* texts of the dummy entries, as the harness' dump function renders them (harness/ops_c17.py) *)
Definition DUMMY_PRED := "dummy-additional-predicate".
Definition DUMMY_PRED_TEXT := "(dummy-additional-predicate )".
Definition DUMMY_ADD := "dummy-add-predicate-action".
Definition DUMMY_ADD_TEXT :=
  "(dummy-add-predicate-action ?agent - object) :pre (and ) :eff (dummy-additional-predicate )".
Definition DUMMY_DEL := "dummy-del-predicate-action".
Definition DUMMY_DEL_TEXT :=
  "(dummy-del-predicate-action ?agent - object) :pre (and ) :eff (not (dummy-additional-predicate ))".

(* lines 70-72 and _add_dummy_actions; domain.types["object"] raises KeyError when missing *)
Definition add_dummy (c : domainv) : result domainv :=
  match lookup "object" (d_types c) with
  | None => Err EKey
  | Some _ =>
      Ok {| d_name := d_name c; d_reqs := d_reqs c; d_types := d_types c; d_consts := d_consts c;
            d_preds := set_item DUMMY_PRED DUMMY_PRED_TEXT (d_preds c);
            d_funcs := d_funcs c;
            d_acts := set_item DUMMY_DEL DUMMY_DEL_TEXT (set_item DUMMY_ADD DUMMY_ADD_TEXT (d_acts c)) |}
  end.

Definition locate_domains (defaults : alist) (dummy : bool) (files : list domainv) : result domainv :=
  let c := combine_domains defaults files in
  if dummy then add_dummy c else Ok c.

(* a per-agent file that does not parse makes the call raise *)
Definition locate_domains_r (defaults : alist) (dummy : bool) (files : list (result domainv))
  : result domainv :=
  do fs <- mapM (fun x => x) files; locate_domains defaults dummy fs.

(* ---------------------------------------------------------------- problems *)
Definition flist := adict (list string).     (* lifted predicate text -> set of ground facts (untyped texts) *)

Record problemv := {
  p_name : string;
  p_objs : alist;                  (* object -> type *)
  p_facts : flist;
  p_fluents : alist;               (* grounded fluent text -> value text *)
  p_goals : list string;           (* goal literals (typed texts) *)
  p_ngoals : list string           (* numeric goals (PDDL texts) *)
}.

Definition new_problem : problemv :=
  {| p_name := ""; p_objs := []; p_facts := []; p_fluents := []; p_goals := []; p_ngoals := [] |}.

Definition facts_at (k : string) (c : flist) : list string :=
  match lookup k c with Some l => l | None => [] end.

(* lines 42-59: the texts already present under the key are computed once, before the inner loop;
   reading the defaultdict creates the key *)
Definition merge_key (c : flist) (kg : string * list string) : flist :=
  let existing := facts_at (fst kg) c in
  set_item (fst kg) (existing ++ filter (fun g => negb (str_in g existing)) (snd kg)) c.

Definition merge_facts (c a : flist) : flist := fold_left merge_key a c.

(* body of the loop of combine_problems (multi_agent_problem_converter.py:31-67).
   list(set(goals)): the iteration order of that set (str hashes) is not modelled; the observable is
   compared as a set.  Numeric goals: after the D27 repair a goal is added unless a goal with the same
   text is already there (the texts known so far include the ones added from this very file). *)
Definition merge_problem (c a : problemv) : problemv :=
  {| p_name := p_name a;
     p_objs := update (p_objs c) (p_objs a);
     p_facts := merge_facts (p_facts c) (p_facts a);
     p_fluents := update (p_fluents c) (p_fluents a);
     p_goals := add_new [] (p_goals c ++ p_goals a);
     p_ngoals := add_new (p_ngoals c) (p_ngoals a) |}.

Definition combine_problems (files : list problemv) : problemv :=
  fold_left merge_problem files new_problem.

(* before the D27 repair: `goal_state_fluents.update(...)` on a set of expression trees hashed by
   identity -- every tree of every file is a new element *)
Definition merge_problem_identity (c a : problemv) : problemv :=
  {| p_name := p_name a;
     p_objs := update (p_objs c) (p_objs a);
     p_facts := merge_facts (p_facts c) (p_facts a);
     p_fluents := update (p_fluents c) (p_fluents a);
     p_goals := add_new [] (p_goals c ++ p_goals a);
     p_ngoals := p_ngoals c ++ p_ngoals a |}.

Definition combine_problems_identity (files : list problemv) : problemv :=
  fold_left merge_problem_identity files new_problem.

Definition combine_problems_r (files : list (result problemv)) : result problemv :=
  do fs <- mapM (fun x => x) files; Ok (combine_problems fs).

(* ---------------------------------------------------------------- the store: who owns DEFAULT_TYPES
   A heap of type dictionaries; location 0 is the module-level DEFAULT_TYPES, the other locations are
   the `types` dictionaries of the Domain objects alive (earlier parsed domains included). *)
Definition heap := list alist.
Definition hget (h : heap) (l : nat) : alist := nth l h [].
Fixpoint hset (h : heap) (l : nat) (d : alist) : heap :=
  match h, l with
  | [], _ => []
  | _ :: r, O => d :: r
  | x :: r, S l' => x :: hset r l' d
  end.

(* Domain.__init__: `self.types = DEFAULT_TYPES` (pinned tree, D18) or `dict(DEFAULT_TYPES)` (repaired) *)
Inductive domain_init := InitAlias | InitCopy.
Definition code_init : domain_init := InitCopy.

Definition new_domain_types (m : domain_init) (h : heap) : heap * nat :=
  match m with
  | InitAlias => (h, 0)
  | InitCopy => (h ++ [hget h 0], List.length h)
  end.

(* the `types` part of locate_domains on the heap: returns the heap and where the combination's types live *)
Definition locate_types_store (m : domain_init) (files : list domainv) (h : heap) : heap * nat :=
  let '(h1, l) := new_domain_types m h in
  (fold_left (fun h' f => hset h' l (update (hget h' l) (d_types f))) files h1, l).

(* the types a Domain() created now starts with *)
Definition fresh_domain_types (m : domain_init) (h : heap) : alist :=
  let '(h1, l) := new_domain_types m h in hget h1 l.
