(* Model of DomainParser.parse_types (two-pass, after the D03 repair) and PDDLType.is_sub_type.
   A type object is determined by its name and the table, so the table maps a type name to its
   parent's name ('object' has no entry as a child; it is appended last like the code does). *)
From Coq Require Import List String Bool Arith.
From Verif Require Import Base.Result Base.Str Base.Sexp Base.PyDict.
Import ListNotations.
Open Scope string_scope.
Open Scope list_scope.

Definition typetable := pydict string.           (* type name -> parent name *)

(* first pass: the while loop over the tokens.  [same] = names read since the last '-' *)
Fixpoint collect_decls (toks : list sexp) (same : list string) (d : typetable)
  : result (typetable * list string) :=
  match toks with
  | [] => Ok (d, same)
  | SList _ :: _ => Err EType                    (* a list used as a dict key: TypeError *)
  | Atom t :: rest =>
      if String.eqb t "-" then
        match rest with
        | [] => Err EIndex                        (* types[index + 1] *)
        | SList _ :: _ => Err EType
        | Atom p :: rest' =>
            collect_decls rest' [] (fold_left (fun acc c => dset acc c p) same d)
        end
      else collect_decls rest (same ++ [t]) d
  end.

(* a type that is only used as a parent is a child of object *)
Definition add_parent_only (d : typetable) : typetable :=
  fold_left (fun acc p => if dmem acc p || String.eqb p "object" then acc else dset acc p "object")
            (dvalues d) d.

(* is_sub_type: walk the parent links comparing names; object's parent is None *)
Fixpoint walk (fuel : nat) (d : typetable) (t target : string) : result bool :=
  if String.eqb t target then Ok true else
  match fuel with
  | 0 => Err ERecursion
  | S f =>
      if String.eqb t "object" then Ok false else
      match dget d t with
      | Some parent => walk f d parent target
      | None => walk f d "object" target          (* a type object outside the table hangs under object *)
      end
  end.

(* cycle check of the second pass: every chain must reach object within len+1 steps *)
Definition reaches_object (d : typetable) (t : string) : bool :=
  match walk (S (S (List.length d))) d t "object" with Ok true => true | _ => false end.

Definition parse_types (toks : list sexp) : result typetable :=
  match collect_decls toks [] [] with
  | Err k => Err k
  | Ok (d, trailing) =>
      let d1 := fold_left (fun acc c => dset acc c "object") trailing d in
      let d2 := add_parent_only d1 in
      let d3 := filter (fun kv => negb (String.eqb (fst kv) "object")) d2 in
      if forallb (fun kv => reaches_object d3 (fst kv)) d3 then Ok d3 else Err ESyntax
  end.

(* the names in domain.types, in dict order ('object' last) *)
Definition type_names (d : typetable) : list string := dkeys d ++ ["object"].
Definition type_known (d : typetable) (t : string) : bool := String.eqb t "object" || dmem d t.

(* the fuel the library effectively has is Python's recursion limit; on a parsed (acyclic) table the chain
   is shorter than the table *)
Definition is_sub_type (d : typetable) (t target : string) : bool :=
  match walk (S (S (List.length d))) d t target with Ok b => b | Err _ => false end.
