(* What is observed of a parsed Problem (the property's observables, Spec.Problem.pdump): the harness dumps the
   implementation's Problem object the same way (objects in table order with their type names; every
   GroundedPredicate of the initial state as name + grounded_objects; every initial fluent as the atom its
   state_representation prints + its value; goal predicates in list order; goal expression trees node by node). *)
From Coq Require Import List String Bool PrimFloat.
From Verif Require Import Base.Result Base.Str Base.Sexp Base.PyDict Model.Types Model.Domain Model.NumExpr Model.Problem
  Spec.Pddl Spec.Problem.
Import ListNotations.
Open Scope string_scope.
Open Scope list_scope.

Fixpoint dump_tree (t : ntree) : gtree :=
  match t with
  | NumExpr.NNum v => GNum v
  | NumExpr.NFl f => GFl (nf_name f) (nf_params f)
  | NumExpr.NBin op l r => GOp op (dump_tree l) (dump_tree r)
  end.

Definition dump_facts (facts : pydict (list (list string))) : list atom :=
  flat_map (fun kv => map (fun a => (fst kv, a)) (snd kv)) facts.

Definition dump_fluent (fl : mfluent) : atom * float :=
  ((fl_name fl, expand_args (fl_sig fl) (fl_rep fl)), fl_val fl).

Definition dump_problem (pb : mproblem) : pdump :=
  {| pd_name := pb_name pb;
     pd_objects := pb_objects pb;
     pd_facts := dump_facts (pb_facts pb);
     pd_fluents := map (fun kf => dump_fluent (snd kf)) (pb_fluents pb);
     pd_goal := pb_goal pb;
     pd_goal_num := map dump_tree (pb_goal_num pb) |}.

(* the vocabulary of a (model) domain, as the spec sees it *)
Definition vocab_of (d : mdomain) : vocab :=
  {| v_name := d_name d; v_types := d_types d; v_consts := d_consts d; v_preds := d_preds d; v_funcs := d_funcs d |}.

Definition mdomain_of (v : vocab) : mdomain :=
  {| d_name := v_name v; d_reqs := []; d_types := v_types v; d_consts := v_consts v; d_preds := v_preds v;
     d_funcs := v_funcs v; d_actions := [] |}.

(* ---------- initial fluents with repeated arguments that the library represents correctly ----------
   [canon args]: what PDDLFunction.state_representation prints for a fluent read with the arguments [args]
   (repeated names first); [kappa]: the key it is stored under (its distinct arguments).
   [safe_repeats]: every fluent is written in the printed form and two assignments of one function with the same
   distinct arguments are the same fluent.  Used by the theorems C05_faithful_safe / C09_roundtrip and, negated,
   as the input class of finding D07. *)
Definition canon (args : list string) : list string :=
  flat_map (fun kv : string * nat => repeat (fst kv) (snd kv)) (repeating args)
  ++ filter (fun p => negb (dmem (repeating args) p)) (distinct args).

Definition kappa (a : atom) : fkey := (fst a, distinct (snd a)).

Definition safe_repeats (sp : sproblem) : bool :=
  forallb (fun fl : atom * string => strs_eqb (canon (snd (fst fl))) (snd (fst fl))) (sp_fluents sp)
  && forallb (fun fl1 : atom * string =>
       forallb (fun fl2 : atom * string =>
                  negb (fkey_eqb (kappa (fst fl1)) (kappa (fst fl2))) || atom_eqb (fst fl1) (fst fl2)) (sp_fluents sp))
       (sp_fluents sp).
