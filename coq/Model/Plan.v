(* Model of exporters/numeric_trajectory_exporter.py (parse_action_call, TrajectoryExporter.create_single_triplet,
   parse_plan, export) on top of the execution model (Model/Exec.v: Operator.ground / is_applicable / apply).

   parse_action_call(line):  line.lower().replace("(", " ( ").replace(")", " ) ").split()  ->  tokens[1:-1]
                             -> ActionCall(name = tokens[0], parameters = tokens[1:])         (IndexError when empty)
   create_single_triplet:    domain.actions[name] (KeyError) ; Operator(action, domain, parameters, problem objects) ;
                             try apply(previous, allow_inapplicable_actions = exporter flag)
                             except ValueError: next state = State(previous' dicts, is_init = False)
   parse_plan:               previous = State(initial facts, initial fluents, is_init = True);
                             for line in lines: triplet = create_single_triplet(previous, line, problem.objects);
                                                triplets.append(triplet); previous = triplet.next_state
   export:                   [first previous state] ++ for each triplet: "(operator: <op>)", next state.

   A State is modelled by its facts and fluents (Spec.Pddl.state, as in Model/Exec.v) plus the is_init flag that decides
   whether it is serialised as (:init ...) or (:state ...).  The order in which apply() visits its effect collections
   (hash sets) is an explicit input: a schedule gives, for the i-th plan line and the action it names, the two orders.
   Definitions only. *)
From Coq Require Import List Ascii String Bool Arith PrimFloat.
From Verif Require Import Base.Result Base.Str Base.Sexp Base.PyDict Model.Tokenizer Model.Types Model.Domain Model.Exec
  Spec.Pddl.
Import ListNotations.
Open Scope string_scope.
Open Scope list_scope.

(* ---------- str.replace("(", " ( ").replace(")", " ) ") and str.split() ---------- *)
Definition pad_parens (t : text) : text :=
  flat_map (fun c => if is_paren c then [SP; c; SP] else [c]) t.

(* str.split(): maximal runs of non-whitespace characters ([cur] = reversed characters of the current run) *)
Fixpoint split_aux (cs : text) (cur : text) : list string :=
  match cs with
  | [] => flush cur []
  | c :: r => if is_ws c then flush cur (split_aux r []) else split_aux r (c :: cur)
  end.
Definition py_split (t : text) : list string := split_aux t [].

Definition action_tokens (line : string) : list string :=
  py_split (pad_parens (lower_text (s2t line))).

(* l[1:-1] *)
Definition slice_1_m1 {A} (l : list A) : list A := removelast (tl l).

Record acall := { ac_name : string; ac_args : list string }.

Definition parse_action_call (line : string) : result acall :=
  match slice_1_m1 (action_tokens line) with
  | [] => Err EIndex                                          (* action_data[0] on an empty list *)
  | n :: ps => Ok {| ac_name := n; ac_args := ps |}
  end.

(* str(Operator): "(name a1 ... an)"; with no arguments "(name )" *)
Definition op_text (name : string) (args : list string) : string :=
  "(" ++ name ++ " " ++ join " " args ++ ")".

(* ---------- states with their is_init flag; triplets ---------- *)
Record mstate := { ms_init : bool; ms_st : state }.
Record triplet := { t_prev : mstate; t_op : string; t_next : mstate }.

(* the orders in which apply() visits the effect groups / the universal effects of an action *)
Definition orders := (list nat * list nat)%type.
Definition id_orders (a : maction) : orders :=
  (seq 0 (S (List.length (ma_cond a))), seq 0 (List.length (ma_univ a))).
Definition schedule := nat -> maction -> orders.
Definition id_schedule : schedule := fun _ a => id_orders a.

Section Exporter.
  Variable dom : mdomain.
  Variable eps : float.

  (* Operator(domain.actions[name], domain, args, objs).apply(s, allow_inapplicable_actions = allow) *)
  Definition apply_action (objs : option objects) (allow : bool) (o : orders) (a : maction) (args : list string)
             (s : state) : result state :=
    do ga <- ground_action dom a args;
    apply_op dom eps ga objs allow false (fst o) (snd o) s.

  Definition apply_call (objs : option objects) (allow : bool) (ord : maction -> orders) (c : acall) (s : state)
    : result state :=
    match dget (d_actions dom) (ac_name c) with
    | None => Err EKey
    | Some a => apply_action objs allow (ord a) a (ac_args c) s
    end.

  (* Operator(...).is_applicable(s) *)
  Definition call_applicable (objs : option objects) (c : acall) (s : state) : result bool :=
    match dget (d_actions dom) (ac_name c) with
    | None => Err EKey
    | Some a => do ga <- ground_action dom a (ac_args c); is_applicable dom eps objs ga s
    end.

  Variable allow : bool.                                      (* TrajectoryExporter(domain, allow_invalid_actions) *)

  Definition create_single_triplet (objs : objects) (ord : maction -> orders) (prev : mstate) (line : string)
    : result triplet :=
    do c <- parse_action_call line;
    match dget (d_actions dom) (ac_name c) with
    | None => Err EKey
    | Some a =>
        let txt := op_text (ma_name a) (ac_args c) in
        match apply_action (Some objs) allow (ord a) a (ac_args c) (ms_st prev) with
        | Ok nxt => Ok {| t_prev := prev; t_op := txt; t_next := {| ms_init := false; ms_st := nxt |} |}
        | Err EValue =>                                       (* except ValueError: the state remains unchanged *)
            Ok {| t_prev := prev; t_op := txt; t_next := {| ms_init := false; ms_st := ms_st prev |} |}
        | Err k => Err k
        end
    end.

  (* the loop of parse_plan as a left fold: accumulator = (triplets so far, previous state, line number) *)
  Definition plan_acc := (list triplet * mstate * nat)%type.
  Definition plan_step (objs : objects) (sch : schedule) (acc : plan_acc) (line : string) : result plan_acc :=
    let '(ts, prev, i) := acc in
    do t <- create_single_triplet objs (sch i) prev line;
    Ok (ts ++ [t], t_next t, S i).

  Definition parse_plan (objs : objects) (sch : schedule) (init : state) (lines : list string)
    : result (list triplet) :=
    do r <- foldM (plan_step objs sch) lines ([], {| ms_init := true; ms_st := init |}, 0);
    Ok (fst (fst r)).
End Exporter.

(* ---------- export: the serialized trajectory as a list of items (layout is outside the model) ---------- *)
Inductive xitem :=
| XState (s : mstate)                                         (* "(:init ...)" or "(:state ...)" *)
| XOp (txts : list string).                                   (* "(operator: <op>)" / "(operators: <op> ... <op>)" *)

Definition export (ts : list triplet) : result (list xitem) :=
  match ts with
  | [] => Err EIndex                                          (* triplets[0] *)
  | t :: _ => Ok (XState (t_prev t) :: flat_map (fun t => [XOp [t_op t]; XState (t_next t)]) ts)
  end.
