(* Model of pddl_plus_parser/lisp_parsers/pddl_tokenizer.py (PDDLTokenizer).

   tokenize(): per line: drop from the first ';' to the end of the line, lower(),
   pad parentheses with blanks, split() on whitespace.  The model is the
   equivalent one-pass character automaton.  Two input modes:
     MFile: open(path,"rt") -> universal newlines: CR and CRLF arrive as LF, so CR ends a comment;
     MStr : pddl_str.split("\n"): only LF ends a line (and a comment).
   read_from_tokens(): recursive descent; parse() = read (no end-of-input check).
   Definitions only (no proofs) so that the model keeps running when a proof breaks. *)
From Coq Require Import List Ascii String Bool Arith.
From Verif Require Import Base.Result Base.Str Base.Sexp.
Import ListNotations.

Inductive mode := MFile | MStr.

Definition ends_comment (m : mode) (c : ascii) : bool :=
  Ascii.eqb c LF || match m with MFile => Ascii.eqb c CR | MStr => false end.

Definition is_paren (c : ascii) : bool := Ascii.eqb c LP || Ascii.eqb c RP.

Definition flush (cur : text) (k : list string) : list string :=
  match cur with [] => k | _ => t2s (rev cur) :: k end.

(* [tk m cs cur]: outside a comment, [cur] = reversed characters of the token being read *)
Fixpoint tk (m : mode) (cs : text) (cur : text) : list string :=
  match cs with
  | [] => flush cur []
  | c :: r =>
      if Ascii.eqb c SEMI then flush cur (tkc m r)
      else if is_paren c then flush cur (String c EmptyString :: tk m r [])
      else if is_ws c then flush cur (tk m r [])
      else tk m r (lower_ascii c :: cur)
  end
with tkc (m : mode) (cs : text) : list string :=
  match cs with
  | [] => []
  | c :: r => if ends_comment m c then tk m r [] else tkc m r
  end.

Definition tokenize (m : mode) (s : text) : list string := tk m s [].

(* read_from_tokens.  Fuel bounds the recursion; [parse] supplies enough
   (Proofs/C11: rd_fuel_enough). *)
Fixpoint rd (fuel : nat) (ts : list string) : result (sexp * list string) :=
  match fuel with
  | 0 => Err EFuel
  | S f =>
      match ts with
      | [] => Err ESyntax                                  (* "Unexpected EOF" *)
      | t :: rest =>
          if String.eqb t "(" then rdl f rest []
          else if String.eqb t ")" then Err ESyntax        (* "Unexpected )" *)
          else Ok (Atom t, rest)
      end
  end
with rdl (fuel : nat) (ts : list string) (acc : list sexp) : result (sexp * list string) :=
  match fuel with
  | 0 => Err EFuel
  | S f =>
      match ts with
      | [] => Err EIndex                                   (* tokens[0] on an empty deque *)
      | t :: rest =>
          if String.eqb t ")" then Ok (SList (rev acc), rest)
          else match rd f ts with
               | Ok (e, ts') => rdl f ts' (e :: acc)
               | Err k => Err k
               end
      end
  end.

(* parse(): no end-of-input check — tokens after the first complete form are ignored
   (recorded finding D02; the strict reader is Spec.Layout.parse_tokens_strict). *)
Definition parse_tokens (ts : list string) : result sexp :=
  match rd (2 * List.length ts + 2) ts with
  | Ok (e, _) => Ok e
  | Err k => Err k
  end.

(* what was left unread (used to classify inputs of finding D02) *)
Definition unread_tokens (ts : list string) : list string :=
  match rd (2 * List.length ts + 2) ts with
  | Ok (_, rest) => rest
  | Err _ => []
  end.

Definition parse (m : mode) (s : text) : result sexp := parse_tokens (tokenize m s).
Definition parse_string (m : mode) (s : string) : result sexp := parse m (s2t s).
