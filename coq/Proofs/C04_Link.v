(* C04 / C16: the premises [plan_refines] (Proofs/C04_Spec.v) and [seq_refines] (Proofs/C16_Main.v) are what C02 and C03
   prove.  One step, at one state: under the hypotheses of C02_applicable_spec and C03_forced the library's
   applicability test answers Spec.Pddl.applicable, and apply (whenever the guard lets the call through) returns the
   PDDL successor. *)
From Coq Require Import List Ascii String Bool Arith PrimFloat Permutation.
From Verif Require Import Base.Result Base.Str Base.PyDict Model.Types Model.Domain Model.Exec Model.Plan
  Spec.Pddl Spec.Subst Spec.Joint
  Proofs.C20_Defs Proofs.C20_Subst Proofs.C03_Spec Proofs.C03_Defs Props.C02 Props.C03 Proofs.C04_Plan.
Import ListNotations.
Open Scope string_scope.
Open Scope list_scope.

Section Link.
  Variable d : mdomain.
  Variable eps : float.
  Variable objs : objects.

  Variables (name : string) (a : maction) (effs : list eff) (phi : form) (args : list string) (ga : gaction) (s : state).
  Variable o : orders.
  Let A := spec_action a effs.
  Let c := {| ac_name := name; ac_args := args |}.
  Let m : member := (A, args).

  Hypothesis Hact : dget (d_actions d) name = Some a.
  Hypothesis Hpre : denote_pre (ma_pre a) = Some phi.
  Hypothesis Heff : denote_effs a = Some effs.
  Hypothesis Hnames : names_ok d a = true.
  Hypothesis Hg : ground_action d a args = Ok ga.
  Hypothesis Hshadow : no_shadow (d_consts d) (dkeys (call_map a args) ++ pre_bvars (ma_pre a)) = true.
  Hypothesis Hok : pre_ok d true (dkeys (call_map a args)) (ma_pre a) = true.
  Hypothesis Hdiv : fdiv0 (d_types d) objs (bind_args A args) s (a_pre A) = false.
  Hypothesis Hev : evaluates d eps objs ga s.
  Hypothesis Hcons : consistent (all_groups eps (d_types d) objs A args s) = true.
  Hypothesis Ho1 : is_order (fst o) (List.length (ga_groups ga)).
  Hypothesis Ho2 : is_order (snd o) (List.length (ma_univ a)).

  Lemma link_applicable :
    call_applicable d eps (Some objs) c s = Ok (m_applicable (d_types d) objs eps s m).
  Proof.
    unfold call_applicable, c. simpl. rewrite Hact, Hg. simpl.
    unfold m_applicable, m. simpl.
    apply (C02_applicable_spec d eps a A args objs s ga).
    - unfold A, spec_action. simpl. rewrite Hpre. reflexivity.
    - reflexivity.
    - exact Hg.
    - exact Hshadow.
    - exact Hok.
    - exact Hdiv.
  Qed.

  Lemma link_step allow ord :
    ord a = o ->
    m_applicable (d_types d) objs eps s m || allow = true ->
    exists s', apply_call d eps (Some objs) allow ord c s = Ok s' /\ st_equiv s' (m_step (d_types d) objs eps s m).
  Proof.
    intros Hord Hb.
    pose proof link_applicable as Happ. unfold call_applicable, c in Happ. simpl in Happ. rewrite Hact, Hg in Happ. simpl in Happ.
    destruct (C03_forced d eps a effs args ga objs s _ Heff Hnames Hg Happ Hev Hcons (fst o) (snd o) Ho1 Ho2)
      as [s' [Hs' He]].
    exists s'. split.
    - unfold apply_call, apply_action, c. simpl. rewrite Hact, Hg, Hord. simpl.
      destruct (m_applicable (d_types d) objs eps s m) eqn:Eb.
      + rewrite (apply_op_allow_irrelevant _ _ _ _ _ _ _ allow Happ). exact Hs'.
      + simpl in Hb. subst allow. exact Hs'.
    - exact He.
  Qed.
End Link.

Lemma link_lemma : forall d eps objs name a effs phi args ga s (o : orders),
  dget (d_actions d) name = Some a ->
  denote_pre (ma_pre a) = Some phi -> denote_effs a = Some effs -> names_ok d a = true ->
  ground_action d a args = Ok ga ->
  no_shadow (d_consts d) (dkeys (call_map a args) ++ pre_bvars (ma_pre a)) = true ->
  pre_ok d true (dkeys (call_map a args)) (ma_pre a) = true ->
  fdiv0 (d_types d) objs (bind_args (spec_action a effs) args) s (a_pre (spec_action a effs)) = false ->
  evaluates d eps objs ga s ->
  consistent (all_groups eps (d_types d) objs (spec_action a effs) args s) = true ->
  is_order (fst o) (List.length (ga_groups ga)) -> is_order (snd o) (List.length (ma_univ a)) ->
  let c := {| ac_name := name; ac_args := args |} in
  let m : member := (spec_action a effs, args) in
  call_applicable d eps (Some objs) c s = Ok (m_applicable (d_types d) objs eps s m) /\
  forall allow ord, ord a = o -> m_applicable (d_types d) objs eps s m || allow = true ->
    exists s', apply_call d eps (Some objs) allow ord c s = Ok s' /\ st_equiv s' (m_step (d_types d) objs eps s m).
Proof.
  intros d eps objs name a effs phi args ga s o H1 H2 H3 H4 H5 H6 H7 H8 H9 H10 H11 H12. split.
  - exact (link_applicable d eps objs name a effs phi args ga s H1 H2 H5 H6 H7 H8).
  - intros allow ord. exact (link_step d eps objs name a effs phi args ga s o H1 H2 H3 H4 H5 H6 H7 H8 H9 H10 H11 H12 allow ord).
Qed.

(* the same for a member of a joint action (apply_actions applies it with allow_inapplicable_actions=True) *)
Lemma link_joint_lemma : forall d eps objs name a effs phi args ga s (o : orders),
  dget (d_actions d) name = Some a ->
  denote_pre (ma_pre a) = Some phi -> denote_effs a = Some effs -> names_ok d a = true ->
  ground_action d a args = Ok ga ->
  no_shadow (d_consts d) (dkeys (call_map a args) ++ pre_bvars (ma_pre a)) = true ->
  pre_ok d true (dkeys (call_map a args)) (ma_pre a) = true ->
  fdiv0 (d_types d) objs (bind_args (spec_action a effs) args) s (a_pre (spec_action a effs)) = false ->
  evaluates d eps objs ga s ->
  consistent (all_groups eps (d_types d) objs (spec_action a effs) args s) = true ->
  is_order (fst o) (List.length (ga_groups ga)) -> is_order (snd o) (List.length (ma_univ a)) ->
  let c := {| ac_name := name; ac_args := args |} in
  let m : member := (spec_action a effs, args) in
  call_applicable d eps (Some objs) c s = Ok (m_applicable (d_types d) objs eps s m) /\
  forall ord, ord a = o ->
    exists s', apply_call d eps (Some objs) true ord c s = Ok s' /\ st_equiv s' (m_step (d_types d) objs eps s m).
Proof.
  intros d eps objs name a effs phi args ga s o H1 H2 H3 H4 H5 H6 H7 H8 H9 H10 H11 H12 c m.
  destruct (link_lemma d eps objs name a effs phi args ga s o H1 H2 H3 H4 H5 H6 H7 H8 H9 H10 H11 H12) as [A B].
  split; [exact A|]. intros ord Hord. apply (B true ord Hord). apply orb_true_r.
Qed.
