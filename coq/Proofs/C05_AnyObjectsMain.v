(* C05: consequences of Proofs/C05_AnyObjects.v for whole problem texts - the theorems stated for the grammar of
   Spec/Problem.v apply to the NORMAL FORM of every accepted text (object section rewritten as "n1 - t1 n2 - t2 ...":
   repeated names resolved - first position, last type -, nested lists spliced), and the parser returns for the text
   what it returns for its normal form - with examples computed on the model. *)
From Coq Require Import List Ascii String Bool Arith PrimFloat.
From Verif Require Import Base.Result Base.Str Base.Sexp Base.PyDict Base.Float
  Model.Types Model.Domain Model.NumExpr Model.Problem Model.ProblemObs
  Spec.Pddl Spec.Grammar Spec.Problem Spec.ProblemObjects
  Proofs.C05_Items Proofs.C05_Parse Proofs.C05_Examples Proofs.C05_Main Proofs.C05_AnyObjects.
Import ListNotations.
Open Scope string_scope.
Open Scope list_scope.

Section AnyText.
  Variable num : string -> option float.
  Variable dom : mdomain.
  Hypothesis Hdom : dom_ok dom.
  Hypothesis Hnum : num_ok num.

  (* accepted -> faithful to what the normal form of the text says *)
  Lemma C05_faithful_any_objects_lemma e sp pb :
    parse_problem (cfg_gt true) num dom e = Ok pb ->
    read_problem num (normal_objects e) = Some sp -> safe_repeats sp = true ->
    pdump_equiv (dump_problem pb) (spec_dump num sp) = true.
  Proof.
    intros Hp Hr Hs. apply (C05_faithful_typed_lemma num dom Hdom Hnum (normal_objects e) sp pb Hr Hs).
    apply parse_problem_normal_objects. exact Hp.
  Qed.

  (* accepted -> the normal form passes the checks of the code (C05_code_iff_typed), hence is well formed when the
     arguments of its numeric goals are declared names and not repeated (C05_wf_split_typed) *)
  Lemma C05_wf_any_objects_lemma e sp pb :
    parse_problem (cfg_gt true) num dom e = Ok pb ->
    read_problem num (normal_objects e) = Some sp ->
    wf_code_t true num dom sp = true /\
    (goal_args_declared dom sp = true -> goal_norepeat sp = true -> wf_sproblem num (vocab_of dom) sp = true).
  Proof.
    intros Hp Hr.
    assert (Hc : wf_code_t true num dom sp = true).
    { apply (accepted_iff_code_typed num dom Hdom Hnum (normal_objects e) sp Hr).
      exists pb. apply parse_problem_normal_objects. exact Hp. }
    split; [exact Hc|]. intros Hg Hn.
    pose proof (wf_split_typed num dom Hdom sp) as H. rewrite Hc, Hg, Hn, andb_true_r in H. exact H.
  Qed.
End AnyText.

(* ---------- examples ---------- *)
(* o0 is declared twice (t2, then - inside a nested group - t1); a group inside a group; names pending across a group *)
Definition any_objects_problem : sexp := tok
  "(define (problem pr) (:domain dom)
     (:objects o0 - t2 o1 (:private o5 (:private o6 - t0 o7) o0 - t1) - t1 o3)
     (:init (p0 o0) (p1 o6 o1) (p0 o5) (= (f0 o0) 2))
     (:goal (and (p0 o1) (>= (f0 o0) 1))))".

Definition any_objects_table : list (name * name) :=
  [("o0", "t1"); ("o6", "t0"); ("o7", "object"); ("o5", "t1"); ("o1", "t1"); ("o3", "object")].

(* the superseded declaration names an undeclared type: rejected, although the table would be fine *)
Definition any_objects_bad_type : sexp := tok
  "(define (problem pr) (:domain dom) (:objects o0 - zz o0 - t1) (:init (p0 o0)) (:goal (and)))".
Definition any_objects_dangling_dash : sexp := tok
  "(define (problem pr) (:domain dom) (:objects o0 - t1 (:private o1 -)) (:init (p0 o0)) (:goal (and)))".

Definition objects_section_of (e : sexp) : sexp :=
  match e with SList (_ :: _ :: _ :: s :: _) => s | _ => e end.

Definition parsed_or_empty (e : sexp) : mproblem :=
  match parse_problem (cfg_gt true) ex_num ex_dom e with Ok pb => pb | Err _ => empty_problem end.
Definition no_sproblem : sproblem :=
  Build_sproblem "" "" [] [] [] [] [].
Definition read_or_empty (e : sexp) : sproblem :=
  match read_problem ex_num e with Some sp => sp | None => no_sproblem end.

Example any_objects_outside_grammar : read_problem ex_num any_objects_problem = None.
Proof. vm_compute. reflexivity. Qed.

Example any_objects_table_ok :
  objects_of (type_known (d_types ex_dom)) (objects_section_of any_objects_problem) = Some any_objects_table.
Proof. vm_compute. reflexivity. Qed.

Example any_objects_parsed :
  parse_problem (cfg_gt true) ex_num ex_dom any_objects_problem = Ok (parsed_or_empty any_objects_problem) /\
  pb_objects (parsed_or_empty any_objects_problem) = any_objects_table.
Proof. split; vm_compute; reflexivity. Qed.

Example any_objects_normal_form :
  read_problem ex_num (normal_objects any_objects_problem) = Some (read_or_empty (normal_objects any_objects_problem)) /\
  sp_objects (read_or_empty (normal_objects any_objects_problem)) = any_objects_table /\
  wf_sproblem ex_num (vocab_of ex_dom) (read_or_empty (normal_objects any_objects_problem)) = true /\
  safe_repeats (read_or_empty (normal_objects any_objects_problem)) = true /\
  pdump_equiv (dump_problem (parsed_or_empty any_objects_problem))
              (spec_dump ex_num (read_or_empty (normal_objects any_objects_problem))) = true.
Proof. repeat split; vm_compute; reflexivity. Qed.

Example any_objects_rejected :
  objects_of (type_known (d_types ex_dom)) (objects_section_of any_objects_bad_type) = None /\
  objects_of (fun _ => true) (objects_section_of any_objects_bad_type) = Some [("o0", "t1")] /\
  is_ok (parse_problem (cfg_gt true) ex_num ex_dom any_objects_bad_type) = false /\
  objects_of (fun _ => true) (objects_section_of any_objects_dangling_dash) = None /\
  is_ok (parse_problem (cfg_gt true) ex_num ex_dom any_objects_dangling_dash) = false.
Proof. repeat split; vm_compute; reflexivity. Qed.

Example C05_any_objects_example :
  read_problem ex_num any_objects_problem = None /\
  objects_of (type_known (d_types ex_dom)) (objects_section_of any_objects_problem) = Some any_objects_table /\
  (exists pb, parse_problem (cfg_gt true) ex_num ex_dom any_objects_problem = Ok pb /\ pb_objects pb = any_objects_table) /\
  (exists sp pb, read_problem ex_num (normal_objects any_objects_problem) = Some sp /\ sp_objects sp = any_objects_table /\
                 wf_sproblem ex_num (vocab_of ex_dom) sp = true /\ safe_repeats sp = true /\
                 parse_problem (cfg_gt true) ex_num ex_dom any_objects_problem = Ok pb /\
                 pdump_equiv (dump_problem pb) (spec_dump ex_num sp) = true) /\
  objects_of (type_known (d_types ex_dom)) (objects_section_of any_objects_bad_type) = None /\
  objects_of (fun _ => true) (objects_section_of any_objects_bad_type) = Some [("o0", "t1")] /\
  is_ok (parse_problem (cfg_gt true) ex_num ex_dom any_objects_bad_type) = false /\
  objects_of (fun _ => true) (objects_section_of any_objects_dangling_dash) = None /\
  is_ok (parse_problem (cfg_gt true) ex_num ex_dom any_objects_dangling_dash) = false.
Proof.
  split; [exact any_objects_outside_grammar|]. split; [exact any_objects_table_ok|].
  split; [exists (parsed_or_empty any_objects_problem); exact any_objects_parsed|].
  split; [|exact any_objects_rejected].
  exists (read_or_empty (normal_objects any_objects_problem)), (parsed_or_empty any_objects_problem).
  destruct any_objects_normal_form as (H1 & H2 & H3 & H4 & H5). destruct any_objects_parsed as (H6 & _).
  repeat split; assumption.
Qed.
