(* C03: the theorems about Model.Exec.apply_op, assembled from C03_Spec (sets, commutation), C03_Eval
   (conditions), C03_Refine (model groups = spec groups).  Examples and the D40 witness at the end. *)
From Coq Require Import List String Bool PrimFloat Arith Lia Permutation.
From Verif Require Import Base.Result Base.Str Base.Sexp Base.PyDict Model.Tokenizer Model.Types Model.Domain Model.Exec
  Spec.Pddl Proofs.C03_Spec Proofs.C03_Defs Proofs.C03_Eval Proofs.C03_Refine.
Import ListNotations.
Open Scope string_scope.
Open Scope list_scope.

Lemma ground_action_shape : forall d a args ga,
  ground_action d a args = Ok ga -> ga_action ga = a /\ ga_pm ga = combine (dkeys (ma_sig a)) args.
Proof.
  intros d a args ga H. unfold ground_action in H.
  inv_bind H gp Hgp. inv_bind H g0 Hg0. inv_bind H gs Hgs. inversion H; subst. split; reflexivity.
Qed.

Lemma evaluates_b_sound : forall d eps objs ga s, evaluates_b d eps objs ga s = true -> evaluates d eps objs ga s.
Proof.
  intros d eps objs ga s H. unfold evaluates_b in H. apply andb_true_iff in H. destruct H as [H1 H2].
  rewrite forallb_forall in H1, H2. split.
  - exact H1.
  - intros o ue Ho Hue. specialize (H2 o Ho). rewrite forallb_forall in H2. apply H2. exact Hue.
Qed.

Section Main.
  Variable d : mdomain.
  Variable eps : float.

  (* ---------- order independence, on the model alone (no condition on the effects' shape) ---------- *)
  Theorem order_independent_model : forall ga objs s allow b,
    is_applicable d eps (Some objs) ga s = Ok b -> (b = true \/ allow = true) ->
    evaluates d eps objs ga s ->
    consistent (canon_groups d eps objs ga s) = true ->
    forall order order' uorder uorder',
      is_order order (List.length (ga_groups ga)) -> is_order order' (List.length (ga_groups ga)) ->
      is_order uorder (List.length (ma_univ (ga_action ga))) -> is_order uorder' (List.length (ma_univ (ga_action ga))) ->
      exists s1 s2,
        apply_op d eps ga (Some objs) allow false order uorder s = Ok s1 /\
        apply_op d eps ga (Some objs) allow false order' uorder' s = Ok s2 /\
        state_eq s1 s2.
  Proof.
    intros ga objs s allow b Happ Hb Hev Hc order order' uorder uorder' Ho Ho' Hu Hu'.
    exists (succ s (model_groups d eps objs ga order uorder s)), (succ s (model_groups d eps objs ga order' uorder' s)).
    split; [eapply apply_op_fire; eauto|]. split; [eapply apply_op_fire; eauto|].
    pose proof (model_groups_perm d eps objs ga order uorder s Ho Hu) as P1.
    pose proof (model_groups_perm d eps objs ga order' uorder' s Ho' Hu') as P2.
    eapply state_eq_trans.
    - apply state_eq_sym. apply succ_perm; [exact Hc | apply Permutation_sym; exact P1].
    - apply succ_perm; [exact Hc | apply Permutation_sym; exact P2].
  Qed.

  (* ---------- refinement: the successor ---------- *)
  Section Refined.
    Variable a : maction.
    Variable effs : list eff.
    Variable args : list string.
    Variable ga : gaction.
    Variable objs : objects.
    Variable s : state.
    Hypothesis Hden : denote_effs a = Some effs.
    Hypothesis Hnames : names_ok d a = true.
    Hypothesis Hground : ground_action d a args = Ok ga.
    Hypothesis Hev : evaluates d eps objs ga s.

    Let A := spec_action a effs.
    Let G := all_groups eps (d_types d) objs A args s.

    Lemma canon_is_spec : canon_groups d eps objs ga s = G.
    Proof. unfold G, A. eapply canon_groups_spec; eauto. Qed.

    Lemma univ_len : ma_univ (ga_action ga) = ma_univ a.
    Proof. destruct (ground_action_shape _ _ _ _ Hground) as [E _]. rewrite E. reflexivity. Qed.

    Theorem successor_gen : forall allow b,
      is_applicable d eps (Some objs) ga s = Ok b -> (b = true \/ allow = true) ->
      consistent G = true ->
      forall order uorder, is_order order (List.length (ga_groups ga)) -> is_order uorder (List.length (ma_univ a)) ->
      exists s', apply_op d eps ga (Some objs) allow false order uorder s = Ok s' /\
                 state_eq s' (successor eps (d_types d) objs A args s).
    Proof.
      intros allow b Happ Hb Hc order uorder Ho Hu.
      exists (succ s (model_groups d eps objs ga order uorder s)). split; [eapply apply_op_fire; eauto|].
      unfold successor. fold G. apply state_eq_sym. apply succ_perm; [exact Hc|].
      apply Permutation_sym. rewrite <- canon_is_spec. apply model_groups_perm; [exact Ho|].
      rewrite univ_len. exact Hu.
    Qed.

    Theorem order_independent : forall allow b,
      is_applicable d eps (Some objs) ga s = Ok b -> (b = true \/ allow = true) ->
      consistent G = true ->
      forall order order' uorder uorder',
        is_order order (List.length (ga_groups ga)) -> Permutation order order' ->
        is_order uorder (List.length (ma_univ a)) -> Permutation uorder uorder' ->
        exists s1 s2,
          apply_op d eps ga (Some objs) allow false order uorder s = Ok s1 /\
          apply_op d eps ga (Some objs) allow false order' uorder' s = Ok s2 /\
          state_eq s1 s2.
    Proof.
      intros allow b Happ Hb Hc order order' uorder uorder' Ho HP Hu HPu.
      eapply order_independent_model; eauto.
      - rewrite canon_is_spec. exact Hc.
      - unfold is_order in *. eapply Permutation_trans; [apply Permutation_sym; exact HP | exact Ho].
      - rewrite univ_len. exact Hu.
      - rewrite univ_len. unfold is_order in *. eapply Permutation_trans; [apply Permutation_sym; exact HPu | exact Hu].
    Qed.

    (* ---------- corollaries about the returned state ---------- *)
    Section Returned.
      Variable allow : bool.
      Variable order uorder : list nat.
      Variable s' : state.
      Variable b : bool.
      Hypothesis Happ : is_applicable d eps (Some objs) ga s = Ok b.
      Hypothesis Hb : b = true \/ allow = true.
      Hypothesis Hc : consistent G = true.
      Hypothesis Ho : is_order order (List.length (ga_groups ga)).
      Hypothesis Hu : is_order uorder (List.length (ma_univ a)).
      Hypothesis Hret : apply_op d eps ga (Some objs) allow false order uorder s = Ok s'.

      Lemma returned_eq : state_eq s' (succ s G).
      Proof.
        destruct (successor_gen allow b Happ Hb Hc order uorder Ho Hu) as [s2 [H1 H2]].
        rewrite Hret in H1. inversion H1; subst. exact H2.
      Qed.

      (* every fact that no firing effect adds or deletes is unchanged *)
      Theorem frame_fact : forall x, ~ In x (flat_map adds_of G) -> ~ In x (flat_map dels_of G) ->
        atom_in x (facts s') = atom_in x (facts s).
      Proof. intros x Ha Hd. destruct returned_eq as [Hf _]. rewrite Hf. apply succ_frame_fact; assumption. Qed.

      (* every fluent that no firing effect assigns is unchanged *)
      Theorem frame_fluent : forall x, ~ In x (flat_map sets_of G) ->
        fluent_get x (fluents s') = fluent_get x (fluents s).
      Proof. intros x Hn. destruct returned_eq as [_ Hf]. rewrite Hf. apply succ_frame_fluent; assumption. Qed.

      (* delete then add: what a firing group adds is there afterwards, even if the same group deletes it *)
      Theorem add_wins : forall x, In x (flat_map adds_of G) -> atom_in x (facts s') = true.
      Proof. intros x Ha. destruct returned_eq as [Hf _]. rewrite Hf. apply succ_add_wins; assumption. Qed.

      Theorem deleted : forall x, ~ In x (flat_map adds_of G) -> In x (flat_map dels_of G) -> atom_in x (facts s') = false.
      Proof. intros x Ha Hd. destruct returned_eq as [Hf _]. rewrite Hf. apply succ_deleted; assumption. Qed.

      (* a fact is in the returned state iff added, or there before and not deleted *)
      Theorem facts_char : forall x,
        atom_in x (facts s') = atom_in x (flat_map adds_of G) || (atom_in x (facts s) && negb (atom_in x (flat_map dels_of G))).
      Proof. intros x. destruct returned_eq as [Hf _]. rewrite Hf. apply succ_char_facts. exact Hc. Qed.

      (* numeric effects: the value stored is computed from the state BEFORE the action, whatever else fires *)
      Theorem numeric_prestate : forall ps rest k f fargs rhs,
        effs = EPrims ps :: rest -> In (PNum k f fargs rhs) ps ->
        let e := bind_args A args in
        let tgt := (f, map (subst e) fargs) in
        let old := match fluent_get tgt (fluents s) with Some v => v | None => 0%float end in
        let v := neval e s rhs in
        fluent_get tgt (fluents s') =
        Some (match k with AAssign => v | AIncrease => old + v | ADecrease => old - v end)%float.
      Proof.
        intros ps rest k f fargs rhs Heffs Hin e tgt old v. destruct returned_eq as [_ Hf]. rewrite Hf.
        apply succ_char_fluents; [exact Hc|].
        unfold G, all_groups, A, spec_action. simpl. rewrite Heffs. simpl.
        apply in_or_app. left.
        change (GSet tgt (match k with AAssign => v | AIncrease => old + v | ADecrease => old - v end)%float)
          with (ground_prim e s (PNum k f fargs rhs)).
        apply in_map. exact Hin.
      Qed.

      (* a conditional effect whose condition is false in the state before the action contributes nothing;
         one whose condition is true contributes its group (read in the pre-state) *)
      Theorem when_fires_iff : forall c ps,
        In (EWhen c ps) effs ->
        let e := bind_args A args in
        (holds eps (d_types d) objs e s c = true -> In (map (ground_prim e s) ps) G) /\
        (holds eps (d_types d) objs e s c = false -> fires eps (d_types d) objs e s (EWhen c ps) = []).
      Proof.
        intros c ps Hin e. split; intros Hh.
        - unfold G, all_groups. apply in_flat_map. exists (EWhen c ps). split; [exact Hin|].
          simpl. fold e. rewrite Hh. left. reflexivity.
        - simpl. rewrite Hh. reflexivity.
      Qed.
      (* conditional effects: a 'when' whose condition holds in the state BEFORE the action adds its atoms (whatever
         the other effects do to the atoms the condition reads); likewise every instance of a 'forall-when', the
         variable ranging over the objects of the type and of its subtypes *)
      Lemma adds_of_ground : forall e p pargs ps, In (PAdd p pargs) ps ->
        In (p, map (subst e) pargs) (adds_of (map (ground_prim e s) ps)).
      Proof.
        intros e p pargs ps Hin. unfold adds_of. apply in_flat_map. exists (ground_prim e s (PAdd p pargs)).
        split; [apply in_map; exact Hin | simpl; left; reflexivity].
      Qed.

      Theorem when_adds : forall c ps p pargs,
        In (EWhen c ps) effs -> In (PAdd p pargs) ps ->
        let e := bind_args A args in
        holds eps (d_types d) objs e s c = true ->
        atom_in (p, map (subst e) pargs) (facts s') = true.
      Proof.
        intros c ps p pargs Hin Hp e Hh. apply add_wins. apply in_flat_map.
        exists (map (ground_prim e s) ps). split; [|apply adds_of_ground; exact Hp].
        unfold G, all_groups. apply in_flat_map. exists (EWhen c ps). split; [exact Hin|].
        simpl. fold e. rewrite Hh. left. reflexivity.
      Qed.

      Theorem forall_when_adds : forall v ty c ps p pargs o,
        In (EForall v ty c ps) effs -> In (PAdd p pargs) ps ->
        In o (objects_of_type (d_types d) objs ty) ->
        let e := (v, o) :: bind_args A args in
        holds eps (d_types d) objs e s c = true ->
        atom_in (p, map (subst e) pargs) (facts s') = true.
      Proof.
        intros v ty c ps p pargs o Hin Hp Hobj e Hh. apply add_wins. apply in_flat_map.
        exists (map (ground_prim e s) ps). split; [|apply adds_of_ground; exact Hp].
        unfold G, all_groups. apply in_flat_map. exists (EForall v ty c ps). split; [exact Hin|].
        simpl. apply in_flat_map. exists o. split; [exact Hobj|]. fold e. rewrite Hh. left. reflexivity.
      Qed.
    End Returned.
  End Refined.

  (* ---------- refusal ---------- *)
  Theorem refused : forall ga objs s order uorder,
    is_applicable d eps (Some objs) ga s = Ok false ->
    apply_op d eps ga (Some objs) false false order uorder s = Err EValue.
  Proof. intros ga objs s order uorder H. unfold apply_op. rewrite H. reflexivity. Qed.
End Main.

(* ---------- "evaluates" read on a run: if the call returns in ONE visiting order, every group can be visited ---------- *)
Lemma mapM_ok_each : forall (A B : Type) (F : A -> result B) l ys,
  mapM F l = Ok ys -> forall x, In x l -> is_ok (F x) = true.
Proof.
  intros A B F l. induction l as [|y r IH]; intros ys H x Hin; [contradiction|].
  simpl in H. inv_bind H b Hb. inv_bind H bs Hbs. destruct Hin as [E|Hin].
  - subst. rewrite Hb. reflexivity.
  - eapply IH; eauto.
Qed.

Section RunOk.
  Variable d : mdomain.
  Variable eps : float.
  Variable objs : objects.

  Lemma apply_universal_ok_each : forall ga uorder prev cur s',
    is_order uorder (List.length (ma_univ (ga_action ga))) ->
    apply_universal d eps ga (Some objs) uorder prev cur = Ok s' ->
    forall o ue, In o objs -> In ue (ma_univ (ga_action ga)) -> is_ok (fire_univ d eps objs (ga_pm ga) prev o ue) = true.
  Proof.
    intros ga uorder prev cur s' Hu H o ue Ho Hue. unfold apply_universal in H.
    set (L := reorder (ma_univ (ga_action ga)) uorder) in *.
    rewrite (foldM_fire _ (fun o => do gss <- mapM (fire_univ d eps objs (ga_pm ga) prev o) L; Ok (List.concat gss))) in H.
    - inv_bind H gss Hgss. pose proof (mapM_ok_each _ _ _ _ _ Hgss o Ho) as Hok. cbv beta in Hok.
      destruct (mapM (fire_univ d eps objs (ga_pm ga) prev o) L) as [ys|k] eqn:E; [|simpl in Hok; discriminate].
      eapply mapM_ok_each; [exact E|]. unfold L. eapply Permutation_in; [apply Permutation_sym; apply reorder_perm; exact Hu | exact Hue].
    - intros cur1 o'. rewrite (foldM_fire _ (fire_univ d eps objs (ga_pm ga) prev o')).
      + destruct (mapM (fire_univ d eps objs (ga_pm ga) prev o') L); reflexivity.
      + intros cur2 ue'. unfold fire_univ. destruct (is_sub_type (d_types d) (snd o') (ue_ty ue')); [|reflexivity].
        destruct (ground_group d (dset (ga_pm ga) (ue_var ue') (fst o')) (Some (ce_ante (ue_ce ue')))
                    (ce_disc (ue_ce ue')) (ce_num (ue_ce ue'))) as [g|k]; simpl; [|reflexivity].
        apply step_fire.
  Qed.

  Theorem run_ok_evaluates : forall ga allow order uorder s s',
    is_order order (List.length (ga_groups ga)) -> is_order uorder (List.length (ma_univ (ga_action ga))) ->
    apply_op d eps ga (Some objs) allow false order uorder s = Ok s' ->
    evaluates d eps objs ga s /\
    exists b, is_applicable d eps (Some objs) ga s = Ok b /\ (b = true \/ allow = true).
  Proof.
    intros ga allow order uorder s s' Ho Hu H. unfold apply_op in H.
    destruct (is_applicable d eps (Some objs) ga s) as [b|k] eqn:Happ; [|discriminate]. cbn [bind] in H.
    destruct (negb b && negb allow) eqn:Hgo; [discriminate|].
    rewrite (foldM_fire _ (fire d eps objs s)) in H by (intros cur g; apply step_fire).
    destruct (mapM (fire d eps objs s) (reorder (ga_groups ga) order)) as [gss|k] eqn:E; [|discriminate].
    cbn [bind] in H. split; [split|].
    - intros g Hg. eapply mapM_ok_each; [exact E|].
      eapply Permutation_in; [apply Permutation_sym; apply reorder_perm; exact Ho | exact Hg].
    - eapply apply_universal_ok_each; eauto.
    - exists b. split; [reflexivity|]. destruct b; [left; reflexivity|]. destruct allow; [right; reflexivity | discriminate].
  Qed.

  (* order independence without the hypothesis "evaluates": one run that returns is enough *)
  Theorem order_independent_run : forall ga allow order uorder s s1,
    is_order order (List.length (ga_groups ga)) -> is_order uorder (List.length (ma_univ (ga_action ga))) ->
    apply_op d eps ga (Some objs) allow false order uorder s = Ok s1 ->
    consistent (canon_groups d eps objs ga s) = true ->
    forall order' uorder',
      is_order order' (List.length (ga_groups ga)) -> is_order uorder' (List.length (ma_univ (ga_action ga))) ->
      exists s2, apply_op d eps ga (Some objs) allow false order' uorder' s = Ok s2 /\ state_eq s1 s2.
  Proof.
    intros ga allow order uorder s s1 Ho Hu Hrun Hc order' uorder' Ho' Hu'.
    destruct (run_ok_evaluates _ _ _ _ _ _ Ho Hu Hrun) as [Hev [b [Happ Hb]]].
    destruct (order_independent_model d eps ga objs s allow b Happ Hb Hev Hc order order' uorder uorder' Ho Ho' Hu Hu')
      as [t1 [t2 [E1 [E2 E3]]]].
    rewrite Hrun in E1. inversion E1; subst. exists t2. split; assumption.
  Qed.
End RunOk.
