(* C07: index-aware invariants of the store model (Model/Store.v).
   StInv R: every cell of the s-th state satisfies R s (R is a parameter: "lies in the state's own region" gives
   separation; "lies in a region of the same thread or in a shared one" gives the thread discipline of
   Proofs/C07_Threads.v).  DomInv: the d-th domain owns its types dict (needs the D18 repair). *)
From Coq Require Import List Bool Arith PeanoNat Lia FinFun.
From Verif Require Import Model.Store Proofs.C07_Frame.
Import ListNotations.
Open Scope list_scope.

Definition StInv (R : nat -> loc -> Prop) (m : mstate) : Prop :=
  forall s, Forall (R s) (st_cells (nth s (sts m) dflt_s)).

Definition DomInv (m : mstate) : Prop :=
  forall d, d < length (doms m) -> d_types (nth d (doms m) dflt_d) = (ODom d, 0).

Lemma StInv_init : forall R, StInv R init.
Proof. intros R s. simpl. destruct s; constructor. Qed.

Lemma DomInv_init : DomInv init.
Proof. intros d H. simpl in H. lia. Qed.

Lemma StInv_same : forall R m m', sts m' = sts m -> StInv R m -> StInv R m'.
Proof. intros R m m' E H s. rewrite E. apply H. Qed.

Lemma StInv_add_state : forall R m si, StInv R m -> Forall (R (length (sts m))) (st_cells si) ->
  StInv R (add_state m si).
Proof.
  intros R m si H Hsi s. unfold add_state; cbn [sts].
  destruct (lt_eq_lt_dec s (length (sts m))) as [[L|E]|G].
  - rewrite app_nth1; auto.
  - subst s. rewrite app_nth2, Nat.sub_diag; [simpl; auto | lia].
  - rewrite nth_overflow; [constructor | rewrite app_length; simpl; lia].
Qed.

Lemma apply_body_sts : forall c m o oi src, exists si, sts (fst (ev_apply_body c m o oi src)) = sts m ++ [si].
Proof.
  intros. unfold ev_apply_body. destruct (ev_copy_state m src) as [si evc].
  destruct (ev_effects c o (length (sts m)) (o_base oi + a_pre (o_sh oi)) (a_effs (o_sh oi)) si
             (3 + length (s_vals si))) as [si' eve]. simpl. eexists; eauto.
Qed.

Lemma apply_body_StInv : forall R c m o oi src, fix16 c = true -> StInv R m ->
  (forall i, R (length (sts m)) (OSt (length (sts m)), i)) -> StInv R (fst (ev_apply_body c m o oi src)).
Proof.
  intros R c m o oi src F H HR. unfold ev_apply_body.
  destruct (ev_copy_state m src) as [si evc] eqn:Ec.
  destruct (ev_effects c o (length (sts m)) (o_base oi + a_pre (o_sh oi)) (a_effs (o_sh oi)) si
             (3 + length (s_vals si))) as [si' eve] eqn:Ee.
  simpl. apply StInv_add_state; auto.
  pose proof (effects_cells (R (length (sts m))) c o (length (sts m)) (a_effs (o_sh oi))
                (o_base oi + a_pre (o_sh oi)) si (3 + length (s_vals si)) F HR) as G.
  rewrite Ee in G; simpl in G. apply G.
  unfold ev_copy_state in Ec. inversion Ec; subst. apply fresh_state_cells; auto.
Qed.

Lemma copy_state_cells : forall (P : loc -> Prop) m src, (forall i, P (OSt (length (sts m)), i)) ->
  Forall P (st_cells (fst (ev_copy_state m src))).
Proof. intros. unfold ev_copy_state; cbn [fst]. apply fresh_state_cells; auto. Qed.

Lemma new_domain_sts : forall c m typed nacts u, sts (fst (ev_new_domain c m typed nacts u)) = sts m.
Proof.
  intros. unfold ev_new_domain. destruct (new_domain_types c (length (doms m)) typed) as [t evs]. reflexivity.
Qed.

(* the only way a new state gets cells of an existing one: the unrepaired refused trajectory step *)
Definition alias_ok (R : nat -> loc -> Prop) (c : cfg) (m : mstate) (p : op) : Prop :=
  fix17 c = false ->
  match p with
  | OTriplet _ _ s _ _ true => forall l, R s l -> R (length (sts m)) l
  | _ => True
  end.

Lemma step_StInv : forall R c m p, fix16 c = true -> StInv R m ->
  (forall i, R (length (sts m)) (OSt (length (sts m)), i)) -> alias_ok R c m p ->
  StInv R (fst (step c m p)).
Proof.
  intros R c m p F H HR HA. destruct p; cbn [step].
  - auto.
  - eapply StInv_same; [apply new_domain_sts | auto].
  - eapply StInv_same; [apply new_domain_sts | auto].
  - eapply StInv_same; [apply new_domain_sts | auto].
  - destruct (ev_new_domain c m true (d_nacts (nth d (doms m) dflt_d)) false) as [m' evs] eqn:E. cbn [fst].
    eapply StInv_same; [| apply H]. pose proof (new_domain_sts c m true (d_nacts (nth d (doms m) dflt_d)) false) as G.
    rewrite E in G; auto.
  - cbn [fst]. apply StInv_add_state; auto. apply fresh_state_cells; auto.
  - destruct (add_op m (mk_oinfo d a objs sh)) as [m0 evo] eqn:E. cbn [fst].
    apply add_op_same in E as (_ & E2 & _). eapply StInv_same; eauto.
  - destruct (ev_ground m o (nth o (ops m) dflt_o)) as [oi evs] eqn:E. cbn [fst].
    eapply StInv_same; [| apply H]; auto.
  - destruct (ensure_grounded m o) as [[m1 oi] evg] eqn:E. cbn [fst].
    apply ensure_grounded_same in E as (_ & E2 & _). eapply StInv_same; eauto.
  - destruct (ensure_grounded m o) as [[m1 oi] evg] eqn:E.
    apply ensure_grounded_same in E as (_ & E2 & _).
    assert (H1 : StInv R m1) by (eapply StInv_same; eauto).
    destruct raised; [cbn [fst]; auto|].
    destruct (ev_apply_body c m1 o oi (nth s (sts m) dflt_s)) as [m2 evb] eqn:Eb. cbn [fst].
    pose proof (apply_body_StInv R c m1 o oi (nth s (sts m) dflt_s) F H1) as G. rewrite Eb, E2 in G; auto.
  - destruct (ev_copy_state m (nth s (sts m) dflt_s)) as [si evs] eqn:E. cbn [fst].
    apply StInv_add_state; auto.
    pose proof (copy_state_cells (R (length (sts m))) m (nth s (sts m) dflt_s) HR) as G. rewrite E in G; auto.
  - auto.
  - auto.
  - auto.
  - destruct (add_op m (mk_oinfo d a (Some pobjs) sh)) as [m0 evo] eqn:E0.
    apply add_op_same in E0 as (_ & Es0 & _).
    destruct (ensure_grounded m0 (length (ops m))) as [[m1 oi] evg] eqn:E1.
    apply ensure_grounded_same in E1 as (_ & Es1 & _).
    assert (Es : sts m1 = sts m) by congruence.
    assert (H1 : StInv R m1) by (eapply StInv_same; eauto).
    destruct refused.
    + destruct (fix17 c) eqn:F17.
      * destruct (ev_copy_state m1 (nth s (sts m) dflt_s)) as [si evs] eqn:Ec. cbn [fst].
        apply StInv_add_state; auto. rewrite Es.
        pose proof (copy_state_cells (R (length (sts m))) m1 (nth s (sts m) dflt_s)) as G.
        rewrite Ec, Es in G; auto.
      * cbn [fst]. apply StInv_add_state; auto. rewrite Es.
        specialize (HA F17). cbn in HA.
        pose proof (H s) as L. unfold st_cells in *; cbn [s_cells s_vals].
        apply Forall_app in L as [L1 L2]. apply Forall_app; split.
        -- apply Forall_forall; intros x Hx. apply In_firstn in Hx. rewrite Forall_forall in L1. auto.
        -- eapply Forall_impl; [| apply L2]. auto.
    + destruct (ev_apply_body c m1 (length (ops m)) oi (nth s (sts m) dflt_s)) as [m2 evb] eqn:Eb. cbn [fst].
      pose proof (apply_body_StInv R c m1 (length (ops m)) oi (nth s (sts m) dflt_s) F H1) as G.
      rewrite Eb, Es in G; auto.
  - cbn [fst]. apply StInv_add_state; auto. apply fresh_state_cells; auto.
Qed.

(* ------------------------------------------------------------------ domains *)
Lemma apply_body_doms : forall c m o oi src, doms (fst (ev_apply_body c m o oi src)) = doms m.
Proof.
  intros. unfold ev_apply_body. destruct (ev_copy_state m src) as [si evc].
  destruct (ev_effects c o (length (sts m)) (o_base oi + a_pre (o_sh oi)) (a_effs (o_sh oi)) si
             (3 + length (s_vals si))) as [si' eve]. reflexivity.
Qed.

Lemma new_domain_doms : forall c m typed nacts u, fix18 c = true ->
  doms (fst (ev_new_domain c m typed nacts u)) = doms m ++ [{| d_types := (ODom (length (doms m)), 0); d_nacts := nacts |}].
Proof.
  intros c m typed nacts u F. unfold ev_new_domain, new_domain_types. rewrite F. destruct typed; reflexivity.
Qed.

Lemma step_doms : forall c m p, fix18 c = true ->
  doms (fst (step c m p)) = doms m \/
  exists n, doms (fst (step c m p)) = doms m ++ [{| d_types := (ODom (length (doms m)), 0); d_nacts := n |}].
Proof.
  intros c m p F. destruct p; cbn [step].
  - left; auto.
  - right; eexists; apply new_domain_doms; auto.
  - right; eexists; apply new_domain_doms; auto.
  - right; eexists; apply new_domain_doms; auto.
  - destruct (ev_new_domain c m true (d_nacts (nth d (doms m) dflt_d)) false) as [m' evs] eqn:E. cbn [fst].
    right. pose proof (new_domain_doms c m true (d_nacts (nth d (doms m) dflt_d)) false F) as G.
    rewrite E in G. eexists; apply G.
  - left; auto.
  - destruct (add_op m (mk_oinfo d a objs sh)) as [m0 evo] eqn:E. cbn [fst].
    apply add_op_same in E as (E1 & _ & _). left; auto.
  - destruct (ev_ground m o (nth o (ops m) dflt_o)) as [oi evs] eqn:E. left; auto.
  - destruct (ensure_grounded m o) as [[m1 oi] evg] eqn:E. cbn [fst].
    apply ensure_grounded_same in E as (E1 & _ & _). left; auto.
  - destruct (ensure_grounded m o) as [[m1 oi] evg] eqn:E.
    apply ensure_grounded_same in E as (E1 & _ & _).
    destruct raised; [cbn [fst]; left; auto|].
    destruct (ev_apply_body c m1 o oi (nth s (sts m) dflt_s)) as [m2 evb] eqn:Eb. cbn [fst].
    pose proof (apply_body_doms c m1 o oi (nth s (sts m) dflt_s)) as G. rewrite Eb in G. left; cbn [fst] in G; congruence.
  - destruct (ev_copy_state m (nth s (sts m) dflt_s)) as [si evs]. left; auto.
  - left; auto.
  - left; auto.
  - left; auto.
  - destruct (add_op m (mk_oinfo d a (Some pobjs) sh)) as [m0 evo] eqn:E0.
    apply add_op_same in E0 as (Ed0 & _ & _).
    destruct (ensure_grounded m0 (length (ops m))) as [[m1 oi] evg] eqn:E1.
    apply ensure_grounded_same in E1 as (Ed1 & _ & _).
    assert (Ed : doms m1 = doms m) by congruence.
    left. destruct refused.
    + destruct (fix17 c).
      * destruct (ev_copy_state m1 (nth s (sts m) dflt_s)) as [si evs]. cbn [fst]. auto.
      * cbn [fst]. auto.
    + destruct (ev_apply_body c m1 (length (ops m)) oi (nth s (sts m) dflt_s)) as [m2 evb] eqn:Eb. cbn [fst].
      pose proof (apply_body_doms c m1 (length (ops m)) oi (nth s (sts m) dflt_s)) as G. rewrite Eb in G.
      cbn [fst] in G; congruence.
  - left; auto.
Qed.

Lemma step_DomInv : forall c m p, fix18 c = true -> DomInv m -> DomInv (fst (step c m p)).
Proof.
  intros c m p F H d Hd. destruct (step_doms c m p F) as [E|[n E]]; rewrite E in *.
  - auto.
  - rewrite app_length in Hd; simpl in Hd.
    destruct (Nat.eq_dec d (length (doms m))) as [->|N].
    + rewrite app_nth2, Nat.sub_diag; [reflexivity | lia].
    + rewrite app_nth1; [apply H|]; lia.
Qed.

(* ------------------------------------------------------------------ separation *)
Definition own_region (s : nat) (l : loc) : Prop := fst l = OSt s.
(* the configurations in which no value aliases another one: D16, D17 and D18 repaired *)
Definition sep_fixed (c : cfg) : bool := fix16 c && fix17 c && fix18 c.

Lemma sep_run : forall c h m st, sep_fixed c = true -> DomInv m -> StInv own_region m ->
  DomInv (fst (run c h (m, st))) /\ StInv own_region (fst (run c h (m, st))).
Proof.
  intros c h. induction h as [|p h IH]; intros m st F HD HS; simpl; auto.
  rewrite run_step_eq. unfold sep_fixed in F. apply andb_true_iff in F as [F F18].
  apply andb_true_iff in F as [F16 F17].
  apply IH.
  - unfold sep_fixed. rewrite F16, F17, F18; auto.
  - apply step_DomInv; auto.
  - apply step_StInv; auto.
    + intros i. reflexivity.
    + intros X. rewrite F17 in X. discriminate.
Qed.

Lemma separated_of_inv : forall m, DomInv m -> StInv own_region m -> separated m = true.
Proof.
  intros m HD HS. unfold separated. apply forallb_forall. intros v Hv.
  apply forallb_forall. intros l Hl. apply owner_eqb_eq.
  unfold values in Hv. destruct Hv as [<-|Hv].
  - simpl in Hl. destruct Hl as [<-|[<-|[]]]; reflexivity.
  - apply in_app_or in Hv as [Hv|Hv]; apply in_map_iff in Hv as [i [<- Hi]]; apply in_seq in Hi; simpl in Hi.
    + simpl in Hl. unfold dom_cells in Hl. rewrite HD in Hl by lia.
      destruct Hl as [<-|[<-|Hl]]; auto. apply in_map_iff in Hl as [j [<- _]]. reflexivity.
    + simpl in Hl. specialize (HS i). rewrite Forall_forall in HS. apply HS; auto.
Qed.

Lemma separation_holds : forall c h, sep_fixed c = true -> separated (fst (run c h start)) = true.
Proof.
  intros c h F. destruct (sep_run c h init st0 F DomInv_init (StInv_init own_region)) as [HD HS].
  apply separated_of_inv; auto.
Qed.

(* with D17 open (fix17 = false) full separation fails, but what is shared is confined: a domain reaches only its
   own cells, and a state reaches only cells of states -- never a cell of a domain, of the module or of an operator *)
Definition st_region (s : nat) (l : loc) : Prop := exists s', fst l = OSt s'.
Definition weakly_separated (m : mstate) : Prop :=
  (forall d l, d < length (doms m) -> In l (reach m (ODom d)) -> fst l = ODom d) /\
  (forall s l, In l (reach m (OSt s)) -> exists s', fst l = OSt s').

Lemma weak_sep_run : forall c h m st, fix16 c = true -> fix18 c = true -> DomInv m -> StInv st_region m ->
  DomInv (fst (run c h (m, st))) /\ StInv st_region (fst (run c h (m, st))).
Proof.
  intros c h. induction h as [|p h IH]; intros m st F16 F18 HD HS; simpl; auto.
  rewrite run_step_eq. apply IH; auto.
  - apply step_DomInv; auto.
  - apply step_StInv; auto.
    + intros i. eexists; reflexivity.
    + intros _. destruct p; auto. destruct refused; auto.
Qed.

Lemma weak_separation_holds : forall c h, fix16 c = true -> fix18 c = true ->
  weakly_separated (fst (run c h start)).
Proof.
  intros c h F16 F18.
  destruct (weak_sep_run c h init st0 F16 F18 DomInv_init (StInv_init st_region)) as [HD HS].
  split.
  - intros d l Hd Hl. simpl in Hl. unfold dom_cells in Hl. rewrite HD in Hl by auto.
    destruct Hl as [<-|[<-|Hl]]; auto. apply in_map_iff in Hl as [j [<- _]]. reflexivity.
  - intros s l Hl. simpl in Hl. specialize (HS s). rewrite Forall_forall in HS. apply HS; auto.
Qed.

(* non-vacuity: a history in which the store really changes (operator cells and fresh state cells are written)
   while every cell of the earlier values keeps its stamp *)
Definition ex_hist : list op :=
  [OParseDomain true 2; OParseProblem 0 [0; 1]; OMkOp 0 0 (Some 0) {| a_pre := 1; a_effs := [(0, 1); (1, 0)]; a_forall := 1 |};
   OApply 0 0 false false; OApply 0 1 false false; OApply 0 0 true false; OTriplet 0 1 1 0 dflt_sh true;
   OReadDomain 0; OCombine 2; OParseDomain false 1; OShallowCopy 0; OCopy 2; OReadState 1].
Lemma ex_hist_nontrivial :
  let r := run {| fix15 := true; fix16 := true; fix17 := false; fix18 := true |} ex_hist start in
  (Nat.leb 5 (length (sts (fst r))) && Nat.leb 4 (length (doms (fst r))) &&
   Nat.ltb 2 (snd r (OOp 0, 2)) && negb (separated (fst r))) = true.
Proof. vm_compute. reflexivity. Qed.

(* ------------------------------------------------------------------ what the correspondence run compares
   The per-step observables of the model that Corr/C07.v compares with the implementation are `may_change` (values
   that a call may have changed) and `sharing` (pairs of roots with a common cell).  In the repaired configurations
   they are provably empty / free of value-value pairs for EVERY history: a run of the implementation that shows a
   changed value or two values sharing a mutable object therefore always disagrees with the model. *)
Lemma mem_loc_true : forall l ls, mem_loc l ls = true -> In l ls.
Proof.
  intros l ls H. unfold mem_loc in H. apply existsb_exists in H as [x [Hx E]]. apply loc_eqb_eq in E; subst; auto.
Qed.

Lemma no_change_predicted_step : forall c m p, writes_fixed c = true -> Inv m -> may_change m (snd (step c m p)) = [].
Proof.
  intros c m p F H. unfold may_change.
  assert (G : forall v, In v (values m) ->
                existsb (fun l => mem_loc l (reach m v)) (writes (snd (step c m p))) = false).
  { intros v Hv. destruct (existsb _ _) eqn:E; auto. exfalso.
    apply existsb_exists in E as [l [Hl Hm]]. apply mem_loc_true in Hm.
    pose proof (step_writes_ok c m p F) as W. unfold Wok in W. rewrite Forall_forall in W.
    pose proof (reach_live m v H Hv) as L. rewrite Forall_forall in L.
    eapply okw_live_disjoint; eauto. }
  induction (values m) as [|v vs IH]; simpl; auto.
  rewrite G by (left; auto). apply IH. intros v' Hv'. apply G. right; auto.
Qed.

Lemma no_change_predicted : forall c h p, writes_fixed c = true ->
  may_change (fst (run c h start)) (snd (step c (fst (run c h start)) p)) = [].
Proof. intros c h p F. apply no_change_predicted_step; auto. apply run_inv; auto. apply Inv_init. Qed.

Lemma pairs_In : forall {A} (l : list A) a b, In (a, b) (pairs l) ->
  exists l1 l2, l = l1 ++ a :: l2 /\ In b l2.
Proof.
  induction l as [|x r IH]; intros a b H; simpl in H; [contradiction|].
  apply in_app_or in H as [H|H].
  - apply in_map_iff in H as [y [E Hy]]. inversion E; subst. exists [], r. split; auto.
  - destruct (IH a b H) as [l1 [l2 [E Hb]]]. exists (x :: l1), l2. subst; split; auto.
Qed.

Lemma NoDup_app' : forall {A} (a b : list A), NoDup a -> NoDup b -> (forall x, In x a -> In x b -> False) ->
  NoDup (a ++ b).
Proof.
  induction a as [|x a IH]; intros b Ha Hb H; simpl; auto.
  inversion Ha; subst. constructor.
  - intros Hin. apply in_app_or in Hin as [Hin|Hin]; auto. apply (H x); simpl; auto.
  - apply IH; auto. intros y Hy1 Hy2. apply (H y); simpl; auto.
Qed.

Lemma NoDup_handles : forall m, NoDup (handles m).
Proof.
  intros m. unfold handles, values.
  assert (I1 : NoDup (map ODom (seq 0 (length (doms m))))) by
    (apply Injective_map_NoDup; [intros x y E; inversion E; auto | apply seq_NoDup]).
  assert (I2 : NoDup (map OSt (seq 0 (length (sts m))))) by
    (apply Injective_map_NoDup; [intros x y E; inversion E; auto | apply seq_NoDup]).
  assert (I3 : NoDup (map OOp (seq 0 (length (ops m))))) by
    (apply Injective_map_NoDup; [intros x y E; inversion E; auto | apply seq_NoDup]).
  apply NoDup_app'; auto.
  - constructor.
    + intros H. apply in_app_or in H as [H|H]; apply in_map_iff in H as [i [E _]]; discriminate.
    + apply NoDup_app'; auto.
      intros x H1 H2. apply in_map_iff in H1 as [i [<- _]]. apply in_map_iff in H2 as [j [E _]]. discriminate.
  - intros x H1 H2. apply in_map_iff in H2 as [j [<- _]]. destruct H1 as [H1|H1]; [discriminate|].
    apply in_app_or in H1 as [H1|H1]; apply in_map_iff in H1 as [i [E _]]; discriminate.
Qed.

(* two values never share a cell in a separated model state *)
Lemma no_value_sharing_of_separated : forall m, separated m = true ->
  forall p, In p (sharing m) -> protected (fst p) && protected (snd p) = false.
Proof.
  intros m S [a b] Hp. unfold sharing in Hp. apply filter_In in Hp as [Hp Hs]. cbn [fst snd] in *.
  destruct (protected a && protected b) eqn:E; auto. exfalso.
  apply andb_true_iff in E as [Pa Pb].
  destruct (pairs_In (handles m) a b Hp) as [l1 [l2 [El Hb]]].
  assert (Nab : a <> b).
  { intros <-. pose proof (NoDup_handles m) as N. rewrite El in N. apply NoDup_remove_2 in N.
    apply N. apply in_or_app; right; auto. }
  assert (Va : In a (values m)).
  { assert (Ha : In a (handles m)) by (rewrite El; apply in_or_app; right; left; auto).
    unfold handles in Ha. apply in_app_or in Ha as [Ha|Ha]; auto.
    apply in_map_iff in Ha as [i [<- _]]. discriminate. }
  assert (Vb : In b (values m)).
  { assert (Hb' : In b (handles m)) by (rewrite El; apply in_or_app; right; right; auto).
    unfold handles in Hb'. apply in_app_or in Hb' as [Hb'|Hb']; auto.
    apply in_map_iff in Hb' as [i [<- _]]. discriminate. }
  unfold separated in S. rewrite forallb_forall in S.
  unfold shares in Hs. apply existsb_exists in Hs as [l [Hla Hlb]]. apply mem_loc_true in Hlb.
  pose proof (S a Va) as Sa. rewrite forallb_forall in Sa. specialize (Sa l Hla). apply owner_eqb_eq in Sa.
  pose proof (S b Vb) as Sb. rewrite forallb_forall in Sb. specialize (Sb l Hlb). apply owner_eqb_eq in Sb.
  congruence.
Qed.

Lemma no_value_sharing_predicted : forall c h, sep_fixed c = true ->
  existsb (fun p => protected (fst p) && protected (snd p)) (sharing (fst (run c h start))) = false.
Proof.
  intros c h F. destruct (existsb _ _) eqn:E; auto. exfalso.
  apply existsb_exists in E as [p [Hp Hv]].
  rewrite (no_value_sharing_of_separated _ (separation_holds c h F) p Hp) in Hv. discriminate.
Qed.
