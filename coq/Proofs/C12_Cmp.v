(* C12_cmp: the comparison operators are "within the tolerance, else the ordering", with the tolerance made of
   the absolute term eps and math.isclose's relative term; C12_assign: what assignments write. *)
From Coq Require Import ZArith List Bool String Ascii Lia PrimFloat FloatOps SpecFloat.
From Verif Require Import Base.Result Base.Str Base.Sexp Base.Float Model.NumExpr Spec.Arith Proofs.C12_Eval.
Import ListNotations.
Open Scope string_scope.
Open Scope list_scope.

(* math.isclose accepts the tolerances (it raises ValueError for a negative one) *)
Definition tol_ok (rel eps : float) : Prop :=
  PrimFloat.ltb rel 0%float = false /\ PrimFloat.ltb eps 0%float = false.

Lemma isclose_spec rel eps x y :
  tol_ok rel eps -> is_infinity x = false -> is_infinity y = false ->
  isclose rel eps x y = Ok (close eps x y || rel_term rel x y).
Proof.
  intros [Hr He] Hx Hy. unfold isclose, close, dist. rewrite Hr, He, Hx, Hy. cbn [orb].
  destruct (PrimFloat.eqb x y); cbn [orb]; [reflexivity|].
  rewrite orb_comm. reflexivity.
Qed.

(* the general statement: the relative term is visible *)
Theorem C12_cmp_lemma cfg c x y :
  tol_ok (cfg_rel cfg) (cfg_eps cfg) -> is_infinity x = false -> is_infinity y = false ->
  compare_op cfg (cmp_name c) x y =
  Ok (cmp_with (close (cfg_eps cfg) x y || rel_term (cfg_rel cfg) x y) c x y).
Proof.
  intros Ht Hx Hy. unfold compare_op. rewrite (isclose_spec _ _ _ _ Ht Hx Hy).
  destruct c; reflexivity.
Qed.

(* when the relative term does not fire the operators are exactly the spec's *)
Theorem C12_cmp_abs_lemma cfg c x y :
  tol_ok (cfg_rel cfg) (cfg_eps cfg) -> is_infinity x = false -> is_infinity y = false ->
  rel_term (cfg_rel cfg) x y = false ->
  compare_op cfg (cmp_name c) x y = Ok (spec_cmp (cfg_eps cfg) c x y).
Proof.
  intros Ht Hx Hy Hrel. rewrite (C12_cmp_lemma _ _ _ _ Ht Hx Hy), Hrel, orb_false_r. reflexivity.
Qed.

(* '<' and '>' never look at the tolerance *)
Theorem C12_cmp_strict_lemma cfg x y :
  compare_op cfg "<" x y = Ok (PrimFloat.ltb x y) /\ compare_op cfg ">" x y = Ok (PrimFloat.ltb y x).
Proof. split; reflexivity. Qed.

(* a negative tolerance is an error of every tolerance-using operator *)
Lemma negative_tolerance cfg x y :
  PrimFloat.ltb (cfg_eps cfg) 0%float = true ->
  compare_op cfg "=" x y = Err EValue /\ compare_op cfg "<=" x y = Err EValue /\ compare_op cfg ">=" x y = Err EValue.
Proof.
  intros H. unfold compare_op, isclose. rewrite H, orb_true_r. cbn. repeat split; reflexivity.
Qed.

(* D20: with isclose's default rel_tol = 1e-9 the relative term fires although the sides are 5 tolerances apart *)
Definition D20_x : float := 0x1.e848p+19%float.            (* 1000000.0 *)
Definition D20_y : float := 0x1.e848000418937p+19%float.   (* 1000000.0005 *)
Definition eps_default : float := 0x1.a36e2eb1c432dp-14%float.   (* 0.0001 *)

Theorem C12_cmp_refuted_pinned_lemma :
  exists x y, is_infinity x = false /\ is_infinity y = false /\ tol_ok (cfg_rel (cfg_pinned eps_default 4)) eps_default /\
    compare_op (cfg_pinned eps_default 4) "=" x y = Ok true /\ spec_cmp eps_default CEq x y = false.
Proof. exists D20_x, D20_y. vm_compute. repeat split; reflexivity. Qed.

(* ------------------------------------------------------------------ rel_tol = 0 (fix D20) *)
(* With rel_tol = 0 the relative term can fire only when the difference is 0, which is within any eps >= 0.
   This needs three facts about the primitive operations (0 * finite = +-0, |+-0| = +0, <= through 0); they are
   three of the statements Coq's FloatAxioms asserts about the primitives (mul_spec, abs_spec, leb_spec), taken
   here as explicit HYPOTHESES of the theorem -- nothing is assumed globally. *)
Definition ieee_mul_spec : Prop :=
  forall x y, Prim2SF (x * y)%float = SFmul prec emax (Prim2SF x) (Prim2SF y).
Definition ieee_abs_spec : Prop := forall x, Prim2SF (abs x) = SFabs (Prim2SF x).
Definition ieee_leb_spec : Prop := forall x y, PrimFloat.leb x y = SFleb (Prim2SF x) (Prim2SF y).

Lemma Prim2SF_finite_cases y :
  is_nan y = false -> is_infinity y = false ->
  (exists s, Prim2SF y = S754_zero s) \/ (exists s m e, Prim2SF y = S754_finite s m e).
Proof.
  intros Hn Hi. unfold Prim2SF. rewrite Hn, Hi.
  destruct (is_zero y); [left; eexists; reflexivity|].
  destruct (Z.frexp y) as [r ex].
  destruct (shr_fexp prec emax (Uint63.to_Z (normfr_mantissa r)) (ex - prec) loc_Exact) as [shr e'].
  destruct (shr_m shr) as [|p|p].
  - left. eexists. reflexivity.
  - right. do 3 eexists. reflexivity.
  - left. eexists. reflexivity.
Qed.

Lemma SFleb_through_zero D E :
  SFleb D (S754_zero false) = true -> SFleb (S754_zero false) E = true -> SFleb D E = true.
Proof.
  unfold SFleb.
  destruct D as [sd|sd| |sd md ed]; destruct E as [se|se| |se me ee]; cbn;
    try discriminate; try reflexivity;
    repeat match goal with s : bool |- _ => destruct s end; cbn; try discriminate; try reflexivity.
Qed.

Section RelZero.
  Hypothesis Hmul : ieee_mul_spec.
  Hypothesis Habs : ieee_abs_spec.
  Hypothesis Hleb : ieee_leb_spec.

  Lemma abs_zero_mul y :
    is_nan y = false -> is_infinity y = false -> Prim2SF (abs (0 * y)%float) = S754_zero false.
  Proof.
    intros Hn Hi. rewrite Habs, Hmul.
    change (Prim2SF 0%float) with (S754_zero false).
    destruct (Prim2SF_finite_cases y Hn Hi) as [[s ->]|(s & m & e & ->)]; reflexivity.
  Qed.

  Lemma rel_zero_within eps x y :
    is_nan x = false -> is_infinity x = false -> is_nan y = false -> is_infinity y = false ->
    PrimFloat.leb 0%float eps = true ->
    rel_term 0%float x y = true -> PrimFloat.leb (abs (y - x)%float) eps = true.
  Proof.
    intros Hnx Hix Hny Hiy Heps Hrel. unfold rel_term in Hrel.
    rewrite Hleb in Heps. change (Prim2SF 0%float) with (S754_zero false) in Heps.
    rewrite Hleb. apply orb_true_iff in Hrel as [H|H]; rewrite Hleb in H.
    - rewrite (abs_zero_mul y Hny Hiy) in H. exact (SFleb_through_zero _ _ H Heps).
    - rewrite (abs_zero_mul x Hnx Hix) in H. exact (SFleb_through_zero _ _ H Heps).
  Qed.

  (* the repaired operators are exactly the spec's, for all finite values and every eps >= 0 *)
  Theorem C12_cmp_fixed_lemma eps digits c x y :
    f_is_finite x = true -> f_is_finite y = true -> PrimFloat.leb 0%float eps = true ->
    PrimFloat.ltb eps 0%float = false ->
    compare_op (cfg_fixed eps digits) (cmp_name c) x y = Ok (spec_cmp eps c x y).
  Proof.
    unfold f_is_finite. intros Hx Hy Heps Hlt.
    apply andb_true_iff in Hx as [Hnx Hix]. apply andb_true_iff in Hy as [Hny Hiy].
    apply negb_true_iff in Hnx, Hix, Hny, Hiy.
    assert (Ht : tol_ok (cfg_rel (cfg_fixed eps digits)) (cfg_eps (cfg_fixed eps digits))).
    { split; [reflexivity | exact Hlt]. }
    rewrite (C12_cmp_lemma _ c x y Ht Hix Hiy). cbn [cfg_fixed cfg_eps cfg_rel].
    unfold spec_cmp. f_equal. f_equal.
    destruct (rel_term 0 x y) eqn:Hrel; [|apply orb_false_r].
    rewrite orb_true_r. symmetry. unfold close, dist.
    rewrite (rel_zero_within eps x y Hnx Hix Hny Hiy Heps Hrel). apply orb_true_r.
  Qed.
End RelZero.

(* ------------------------------------------------------------------ assignments *)
Definition asg_result (st : fluents) (a : asg) (f : nfun) (rhs : ntree) : result evres :=
  do v <- calculate st rhs;
  Ok (EvAssign (untyped_rep f) (spec_assign a (val_of st (untyped_rep f)) v)).

Theorem C12_assign_lemma cfg st a f rhs :
  evaluate cfg st (NBin (asg_name a) (NFl f) rhs) = asg_result st a f rhs.
Proof.
  unfold asg_result, evaluate. destruct a; cbn [asg_name str_in ASSIGNMENT_NAMES String.eqb Ascii.eqb Bool.eqb orb];
    destruct (calculate st rhs) as [v|k]; reflexivity.
Qed.

(* ... and nothing else: storing the result changes exactly the target's entry *)
Lemma alookup_aset {V} (d : list (string * V)) k v k' :
  alookup k' (aset d k v) = if String.eqb k' k then Some v else alookup k' d.
Proof.
  induction d as [|[k0 v0] r IH]; cbn [aset alookup].
  - destruct (String.eqb k' k); reflexivity.
  - destruct (String.eqb k k0) eqn:E; cbn [alookup].
    + apply String.eqb_eq in E. subst k0. destruct (String.eqb k' k); reflexivity.
    + destruct (String.eqb k' k0) eqn:E'.
      * apply String.eqb_eq in E'. subst k0. rewrite String.eqb_sym, E. reflexivity.
      * exact IH.
Qed.

Theorem C12_assign_frame_lemma st k v k' :
  val_of (write_back st (EvAssign k v)) k' = if String.eqb k' k then v else val_of st k'.
Proof.
  unfold val_of. cbn [write_back]. rewrite alookup_aset. destruct (String.eqb k' k); reflexivity.
Qed.

Lemma aset_keys {V} (d : list (string * V)) k v :
  map fst (aset d k v) = if str_in k (map fst d) then map fst d else map fst d ++ [k].
Proof.
  induction d as [|[k0 v0] r IH]; cbn [aset map fst str_in app]; [reflexivity|].
  destruct (String.eqb k k0) eqn:E; cbn [orb map fst].
  - apply String.eqb_eq in E. subst. reflexivity.
  - rewrite IH. destruct (str_in k (map fst r)); reflexivity.
Qed.
