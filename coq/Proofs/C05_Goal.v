(* C05: goal items.  A goal literal is checked like a fact; a numeric goal is accepted by the model (repaired
   configuration) exactly when every fluent in it is a declared function applied to the declared NUMBER of
   pairwise DISTINCT arguments -- their declaredness and types are NOT checked (finding D19d), and a repeated
   argument is refused although legal PDDL (finding D07) -- and the stored tree is the condition as written. *)
From Coq Require Import List Ascii String Bool Arith Lia PrimFloat Btauto.
From Verif Require Import Base.Result Base.Str Base.Sexp Base.PyDict
  Model.Types Model.Domain Model.NumExpr Model.Problem Model.ProblemObs
  Spec.Pddl Spec.Grammar Spec.Problem Proofs.C05_Lemmas Proofs.C05_Items.
Import ListNotations.
Open Scope string_scope.
Open Scope list_scope.

(* the tree construct_expression_tree builds for an expression of the grammar *)
Fixpoint tree_of_nexp (n : nexp) : ntree :=
  match n with
  | Pddl.NNum x => NumExpr.NNum x
  | Pddl.NFl f args => NumExpr.NFl {| nf_name := f; nf_params := args |}
  | Pddl.NBin o a b => NumExpr.NBin (binop_name o) (tree_of_nexp a) (tree_of_nexp b)
  end.

Fixpoint nexp_nodup (n : nexp) : bool :=
  match n with
  | Pddl.NNum _ => true
  | Pddl.NFl _ args => negb (has_dup_name args)
  | Pddl.NBin _ a b => nexp_nodup a && nexp_nodup b
  end.

Lemma has_dup_has_dup_name l : has_dup l = has_dup_name l.
Proof. induction l as [|x xs IH]; simpl; [reflexivity|]. rewrite IH. reflexivity. Qed.

Lemma dedup_keys_nodup l : forall seen, NoDup l -> (forall x, In x l -> ~ In x seen) -> NumExpr.dedup_keys seen l = l.
Proof.
  induction l as [|x xs IH]; intros seen Hnd Hdis; simpl; [reflexivity|].
  destruct (str_in x seen) eqn:E.
  - apply str_in_In in E. exfalso. apply (Hdis x); [left; reflexivity | exact E].
  - f_equal. inversion Hnd as [|? ? Hnx Hnd']; subst. apply IH; [exact Hnd'|].
    intros y Hy [Hyx|Hys]; [subst; contradiction | apply (Hdis y); [right; exact Hy | exact Hys]].
Qed.

Lemma distinct_nodup l : NoDup l -> distinct l = l.
Proof. intros H. apply dedup_keys_nodup; [exact H | intros ? _ []]. Qed.

Section Shape.
  Variable funcs : list (string * list (string * string)).

  Fixpoint arity_okb (n : nexp) : bool :=
    match n with
    | Pddl.NNum _ => true
    | Pddl.NFl f args =>
        match lookup f funcs with Some sg => Nat.eqb (List.length args) (List.length sg) | None => true end
    | Pddl.NBin _ a b => arity_okb a && arity_okb b
    end.

  Fixpoint declared_all (n : nexp) : bool :=
    match n with
    | Pddl.NNum _ => true
    | Pddl.NFl f _ => match lookup f funcs with Some _ => true | None => false end
    | Pddl.NBin _ a b => declared_all a && declared_all b
    end.

  (* declared functions, right number of arguments *)
  Definition shape_ok (n : nexp) : bool := arity_okb n && declared_all n.
  (* what the code checks of a numeric expression: that, and no repeated argument *)
  Definition code_ok (n : nexp) : bool := shape_ok n && nexp_nodup n.
End Shape.

Lemma read_binop_facts h o : read_binop h = Some o ->
  h = binop_name o /\ str_in h LEGAL_NUMERIC_OPERATORS = true /\ str_in h keywords = true.
Proof.
  unfold read_binop.
  destruct (String.eqb h "+") eqn:E1; [apply String.eqb_eq in E1; subst; intros H; injection H as <-; repeat split; reflexivity|].
  destruct (String.eqb h "-") eqn:E2; [apply String.eqb_eq in E2; subst; intros H; injection H as <-; repeat split; reflexivity|].
  destruct (String.eqb h "*") eqn:E3; [apply String.eqb_eq in E3; subst; intros H; injection H as <-; repeat split; reflexivity|].
  destruct (String.eqb h "/") eqn:E4; [apply String.eqb_eq in E4; subst; intros H; injection H as <-; repeat split; reflexivity|].
  discriminate.
Qed.

Lemma not_keyword_not_operator h : str_in h keywords = false -> str_in h LEGAL_NUMERIC_OPERATORS = false.
Proof.
  intros Hk. destruct (str_in h LEGAL_NUMERIC_OPERATORS) eqn:E; [|reflexivity].
  apply str_in_In in E. simpl in E.
  destruct E as [<-|[<-|[<-|[<-|[]]]]]; discriminate Hk.
Qed.

Lemma read_cmpop_goal_ops h : str_in h goal_ops = match read_cmpop h with Some _ => true | None => false end.
Proof.
  unfold goal_ops, read_cmpop. simpl.
  destruct (String.eqb h "=") eqn:E1; destruct (String.eqb h "<=") eqn:E2; destruct (String.eqb h ">=") eqn:E3;
    destruct (String.eqb h "<") eqn:E4; destruct (String.eqb h ">") eqn:E5; reflexivity.
Qed.

Lemma read_cmpop_name h c : read_cmpop h = Some c -> h = cmpop_name c.
Proof.
  unfold read_cmpop.
  destruct (String.eqb h "=") eqn:E1; [apply String.eqb_eq in E1; subst; intros H; injection H as <-; reflexivity|].
  destruct (String.eqb h "<=") eqn:E2; [apply String.eqb_eq in E2; subst; intros H; injection H as <-; reflexivity|].
  destruct (String.eqb h ">=") eqn:E3; [apply String.eqb_eq in E3; subst; intros H; injection H as <-; reflexivity|].
  destruct (String.eqb h "<") eqn:E4; [apply String.eqb_eq in E4; subst; intros H; injection H as <-; reflexivity|].
  destruct (String.eqb h ">") eqn:E5; [apply String.eqb_eq in E5; subst; intros H; injection H as <-; reflexivity|].
  discriminate.
Qed.

Section GoalItems.
  Variable gt : bool.                         (* with / without the repair proposed for D19d: Model.Problem.cfg_gt *)
  Variable num : string -> option float.
  Variable dom : mdomain.
  Hypothesis Hdom : dom_ok dom.
  Hypothesis Hnum : num_ok num.

  Local Notation v := (vocab_of dom).
  Local Notation funcs := (d_funcs dom).
  Local Notation cfgx := (cfg_gt gt).

  (* every argument of a fluent that IS a declared object / constant conforms to the parameter's type *)
  Fixpoint tyd (objs : pydict string) (n : nexp) : bool :=
    match n with
    | Pddl.NNum _ => true
    | Pddl.NFl f args =>
        match lookup f funcs with
        | Some sg => if Nat.eqb (List.length args) (List.length sg) then goal_types_ok dom objs args (dvalues sg) else true
        | None => true
        end
    | Pddl.NBin _ a b => tyd objs a && tyd objs b
    end.

  Lemma alookup_funcs_keys h :
    alookup h (funcs_keys dom) = match dget funcs h with Some sg => Some (dkeys sg) | None => None end.
  Proof.
    unfold funcs_keys. induction funcs as [|[k sg] r IH]; simpl; [reflexivity|].
    destruct (String.eqb h k); [reflexivity | exact IH].
  Qed.

  (* goal_arity_ok on a list that is not flat: all operands *)
  Lemma arity_go_false objs l :
    (fix go (skip : bool) (l0 : list sexp) {struct l0} : bool :=
       match l0 with
       | [] => true
       | x :: r => (if skip then true else goal_arity_ok cfgx dom objs x) && go false r
       end) false l = forallb (goal_arity_ok cfgx dom objs) l.
  Proof. induction l as [|x r IH]; [reflexivity|]. rewrite IH. reflexivity. Qed.

  Lemma goal_arity_nonflat objs l : NumExpr.all_atoms l = None ->
    goal_arity_ok cfgx dom objs (SList l) = forallb (goal_arity_ok cfgx dom objs) (tl l).
  Proof.
    intros H. cbn [goal_arity_ok]. rewrite H. destruct l as [|x r]; [reflexivity|].
    cbn [tl]. rewrite <- arity_go_false. reflexivity.
  Qed.

  (* a function application (flat list) *)
  Lemma flat_fluent objs h names : str_in h keywords = false ->
    goal_arity_ok cfgx dom objs (SList (Atom h :: map Atom names))
      = arity_okb funcs (Pddl.NFl h names) && (negb gt || tyd objs (Pddl.NFl h names)) /\
    (arity_okb funcs (Pddl.NFl h names) = true ->
     res_rel (pconstruct true num (funcs_keys dom) (SList (Atom h :: map Atom names)))
             (if declared_all funcs (Pddl.NFl h names) && nexp_nodup (Pddl.NFl h names)
              then Some (tree_of_nexp (Pddl.NFl h names)) else None)).
  Proof.
    intros Hk. unfold name in *.
    assert (Hall : NumExpr.all_atoms (Atom h :: map Atom names) = Some (h :: names)).
    { cbn [NumExpr.all_atoms]. rewrite all_atoms_map. reflexivity. }
    split.
    - cbn [goal_arity_ok]. rewrite Hall. cbn [arity_okb tyd fix_goal_types cfg_gt]. rewrite <- !dget_lookup.
      unfold signature, pydict, name in *.
      match goal with |- context [@dget ?V ?d h] => destruct (@dget V d h) as [sg|] end;
        [destruct (Nat.eqb (List.length names) (List.length sg)); reflexivity | rewrite orb_true_r; reflexivity].
    - cbn [arity_okb declared_all tree_of_nexp nexp_nodup]. rewrite <- !dget_lookup. intros Har.
      cbn [pconstruct]. rewrite Hall. cbn [pconstruct_flat].
      rewrite (not_keyword_not_operator h Hk). rewrite alookup_funcs_keys.
      unfold signature, pydict, name in *.
      match goal with |- context [@dget ?V ?d h] => destruct (@dget V d h) as [sg|] end; [|raises EKey].
      unfold dkeys. rewrite map_length, Har. cbn [negb orb andb]. rewrite has_dup_has_dup_name.
      destruct (has_dup_name names) eqn:Ed; cbn [negb]; [raises EValue|].
      apply Nat.eqb_eq in Har. apply has_dup_name_NoDup in Ed. unfold res_rel. destruct names as [|a ar].
      + destruct sg; [reflexivity | discriminate].
      + rewrite <- Har, firstn_all. fold (distinct (a :: ar)). rewrite distinct_nodup by exact Ed. reflexivity.
  Qed.

  (* every expression of the grammar *)
  Lemma construct_read objs e : forall x, read_nexp num e = Some x ->
    goal_arity_ok cfgx dom objs e = arity_okb funcs x && (negb gt || tyd objs x) /\
    (arity_okb funcs x = true ->
     res_rel (pconstruct true num (funcs_keys dom) e)
             (if declared_all funcs x && nexp_nodup x then Some (tree_of_nexp x) else None)).
  Proof.
    induction e as [s|l IH] using sexp_ind'; intros x Hx.
    - cbn [read_nexp] in Hx. destruct (num s) as [xv|] eqn:En; [|discriminate]. injection Hx as <-.
      split; [cbn [goal_arity_ok arity_okb tyd andb]; rewrite orb_true_r; reflexivity|].
      intros _. cbn [pconstruct declared_all nexp_nodup tree_of_nexp andb]. unfold construct_atom.
      destruct (str_in s LEGAL_NUMERICAL_EXPRESSIONS) eqn:El; [rewrite (Hnum s El) in En; discriminate|].
      rewrite En. reflexivity.
    - destruct l as [|[h|] t]; [discriminate | | discriminate].
      (* the flat case, reached from several shapes of t *)
      assert (Hflat : forall names, str_in h keywords = false -> atom_names t = Some names -> x = Pddl.NFl h names ->
                goal_arity_ok cfgx dom objs (SList (Atom h :: t)) = arity_okb funcs x && (negb gt || tyd objs x) /\
                (arity_okb funcs x = true ->
                 res_rel (pconstruct true num (funcs_keys dom) (SList (Atom h :: t)))
                         (if declared_all funcs x && nexp_nodup x then Some (tree_of_nexp x) else None))).
      { intros names Hk Hn ->. apply atom_names_map in Hn. subst t. apply flat_fluent. exact Hk. }
      cbn [read_nexp] in Hx.
      destruct t as [|a [|b [|c t']]].
      + destruct (str_in h keywords) eqn:Hk; [discriminate|].
        destruct (atom_names []) as [names|] eqn:Hn; [|discriminate]. injection Hx as <-. eapply Hflat; eauto.
      + destruct (str_in h keywords) eqn:Hk; [discriminate|].
        destruct (atom_names [a]) as [names|] eqn:Hn; [|discriminate]. injection Hx as <-. eapply Hflat; eauto.
      + destruct (read_binop h) as [o|] eqn:Eo.
        * (* a binary operator *)
          destruct (read_nexp num a) as [xa|] eqn:Ea; [|discriminate].
          destruct (read_nexp num b) as [xb|] eqn:Eb; [|discriminate]. injection Hx as <-.
          destruct (read_binop_facts h o Eo) as (Hh & Hop & Hkw).
          inversion IH as [|? ? _ IH1]; subst. inversion IH1 as [|? ? Ha IH2]; subst.
          inversion IH2 as [|? ? Hb _]; subst.
          destruct (Ha xa Ea) as [Haa Hac]. destruct (Hb xb Eb) as [Hba Hbc].
          destruct (NumExpr.all_atoms [Atom (binop_name o); a; b]) as [strs|] eqn:Hall.
          -- (* both operands are numerals *)
             destruct a as [sa|]; [|discriminate]. destruct b as [sb|]; [|discriminate].
             cbn [NumExpr.all_atoms] in Hall. injection Hall as <-.
             cbn [read_nexp] in Ea, Eb.
             destruct (num sa) as [va|] eqn:Ena; [|discriminate]. injection Ea as <-.
             destruct (num sb) as [vb|] eqn:Enb; [|discriminate]. injection Eb as <-.
             split.
             ++ cbn [goal_arity_ok NumExpr.all_atoms arity_okb tyd andb]. rewrite orb_true_r.
                destruct Hdom as [_ Hf].
                destruct (dget funcs (binop_name o)) eqn:Ed; [|reflexivity].
                assert (Hin : In (binop_name o) (dkeys funcs)).
                { apply dmem_In. unfold dmem. rewrite Ed. reflexivity. }
                rewrite (Hf _ Hin) in Hkw. discriminate.
             ++ intros _. cbn [pconstruct NumExpr.all_atoms pconstruct_flat]. rewrite Hop.
                cbn [construct_flat List.length Nat.eqb negb andb]. rewrite Hop, Ena, Enb. reflexivity.
          -- split.
             ++ rewrite goal_arity_nonflat by exact Hall. cbn [tl forallb arity_okb tyd]. rewrite Haa, Hba, andb_true_r.
                destruct gt, (arity_okb funcs xa), (arity_okb funcs xb), (tyd objs xa), (tyd objs xb); reflexivity.
             ++ cbn [arity_okb declared_all nexp_nodup tree_of_nexp]. intros Har. apply andb_true_iff in Har. destruct Har as [Har1 Har2].
                cbn [pconstruct]. rewrite Hall. cbn [List.length Nat.eqb negb andb].
                specialize (Hac Har1). specialize (Hbc Har2).
                replace (declared_all funcs xa && declared_all funcs xb && (nexp_nodup xa && nexp_nodup xb))
                  with ((declared_all funcs xa && nexp_nodup xa) && (declared_all funcs xb && nexp_nodup xb)) by btauto.
                destruct (declared_all funcs xa && nexp_nodup xa); cbn [andb].
                ** unfold res_rel in Hac. rewrite Hac. cbn [bind].
                   destruct (declared_all funcs xb && nexp_nodup xb).
                   --- unfold res_rel in Hbc. rewrite Hbc. reflexivity.
                   --- destruct Hbc as [k Hbc]. rewrite Hbc. exists k. reflexivity.
                ** destruct Hac as [k Hac]. rewrite Hac. exists k. reflexivity.
        * destruct (str_in h keywords) eqn:Hk; [discriminate|].
          destruct (atom_names [a; b]) as [names|] eqn:Hn; [|discriminate]. injection Hx as <-. eapply Hflat; eauto.
      + destruct (str_in h keywords) eqn:Hk; [discriminate|].
        destruct (atom_names (a :: b :: c :: t')) as [names|] eqn:Hn; [|discriminate]. injection Hx as <-. eapply Hflat; eauto.
  Qed.

  (* ---------- parse_goal_item ---------- *)
  Definition goal_tree (g : cmpop * nexp * nexp) : ntree :=
    match g with (c, l, r) => NumExpr.NBin (cmpop_name c) (tree_of_nexp l) (tree_of_nexp r) end.

  Definition step_goal (pb : mproblem) (g : atom + (cmpop * nexp * nexp)) : option mproblem :=
    match g with
    | inl (p, args) =>
        if atom_ok v (v_preds v) (pb_objects pb) (p, args)
        then Some (with_goal pb (pb_goal pb ++ [(p, args)]) (pb_goal_num pb)) else None
    | inr (c, l, r) =>
        if code_ok funcs l && code_ok funcs r && (negb gt || (tyd (pb_objects pb) l && tyd (pb_objects pb) r))
        then Some (with_goal pb (pb_goal pb) (pb_goal_num pb ++ [goal_tree (c, l, r)])) else None
    end.

  Lemma parse_goal_item_spec pb e g :
    read_goal_item num e = Some g ->
    res_rel (parse_goal_item cfgx num dom pb e) (step_goal pb g).
  Proof.
    unfold read_goal_item. destruct e as [s|[|[h|] rest]]; try discriminate.
    unfold parse_goal_item. cbn [head_args bind]. rewrite read_cmpop_goal_ops.
    destruct (read_cmpop h) as [c|] eqn:Ec.
    - (* a numeric condition *)
      destruct rest as [|l [|r [|]]]; try discriminate.
      destruct (is_atom l && is_atom r) eqn:Eat; [discriminate|].
      destruct (read_nexp num l) as [x|] eqn:El; [|discriminate].
      destruct (read_nexp num r) as [y|] eqn:Er; [|discriminate].
      intros H. injection H as <-.
      rewrite andb_false_r. cbn [negb fix_goal_arity fix_apps cfg_gt andb].
      destruct (construct_read (pb_objects pb) l x El) as [Hla Hlc]. destruct (construct_read (pb_objects pb) r y Er) as [Hra Hrc].
      assert (Hall : NumExpr.all_atoms [Atom h; l; r] = None).
      { destruct l as [sl|]; [destruct r as [sr|]; [discriminate Eat | reflexivity] | reflexivity]. }
      rewrite goal_arity_nonflat by exact Hall. cbn [tl forallb]. rewrite Hla, Hra, andb_true_r.
      cbn [step_goal]. unfold code_ok, shape_ok.
      assert (HT : negb gt || (tyd (pb_objects pb) x && tyd (pb_objects pb) y)
                   = (negb gt || tyd (pb_objects pb) x) && (negb gt || tyd (pb_objects pb) y))
        by (destruct gt, (tyd (pb_objects pb) x), (tyd (pb_objects pb) y); reflexivity).
      rewrite HT. clear HT.
      destruct (arity_okb funcs x) eqn:Eax; cbn [andb negb]; [|raises EValue].
      destruct (negb gt || tyd (pb_objects pb) x); cbn [andb negb].
      2:{ rewrite !andb_false_r. raises EValue. }
      destruct (arity_okb funcs y) eqn:Eay; cbn [andb negb].
      2:{ rewrite !andb_false_r. raises EValue. }
      destruct (negb gt || tyd (pb_objects pb) y); cbn [andb negb].
      2:{ rewrite !andb_false_r. raises EValue. }
      rewrite !andb_true_r.
      cbn [pconstruct]. rewrite Hall. cbn [List.length Nat.eqb negb andb].
      specialize (Hlc eq_refl). specialize (Hrc eq_refl).
      destruct (declared_all funcs x && nexp_nodup x); cbn [andb].
      + unfold res_rel in Hlc. rewrite Hlc. cbn [bind]. destruct (declared_all funcs y && nexp_nodup y).
        * unfold res_rel in Hrc. rewrite Hrc. cbn [bind]. rewrite (read_cmpop_name h c Ec). reflexivity.
        * destruct Hrc as [k Hrc]. rewrite Hrc. exists k. reflexivity.
      + destruct Hlc as [k Hlc]. rewrite Hlc. exists k. reflexivity.
    - (* a literal *)
      destruct (atom_names rest) as [args|] eqn:Ea; [|discriminate].
      intros H. injection H as <-. apply atom_names_map in Ea. subst rest.
      cbn [negb andb step_goal]. rewrite andb_true_r. unfold atom_ok. cbn [fst snd]. simpl v_preds.
      unfold dmem. rewrite <- dget_lookup. unfold signature, pydict, name in *.
      match goal with |- context [@dget ?V ?d h] => destruct (@dget V d h) as [sg|] end;
        [|raises EValue].
      cbn [negb]. pose proof (parse_gpred_spec dom Hdom (pb_objects pb) args sg) as Hp.
      match goal with |- res_rel _ (if ?c then _ else _) => destruct c eqn:Eok end; try rewrite Eok in Hp.
      + simpl in Hp. rewrite Hp. unfold res_rel. reflexivity.
      + destruct Hp as [k Hp]. rewrite Hp. exists k. reflexivity.
  Qed.
End GoalItems.
