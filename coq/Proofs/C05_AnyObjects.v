(* C05: the object section of ANY token tree.  parse_objects (current tree) computes exactly the table that
   Spec/ProblemObjects.v describes - repeated declarations of a name: the first position and the last type;
   lists nested to any depth: their groups take effect where the list stands -, or raises when a dash is not
   followed by a type name or a type after a dash is not known.  The section may then be replaced by its normal form
   "n1 - t1 n2 - t2 ..." without changing what parse_problem returns, and the normal form is in the grammar of
   Spec/Problem.v, so that the theorems stated for that grammar speak about every text the parser accepts. *)
From Coq Require Import List Ascii String Bool Arith Lia.
From Verif Require Import Base.Result Base.Str Base.Sexp Base.PyDict
  Model.Types Model.Domain Model.NumExpr Model.Problem Spec.Pddl Spec.Grammar Spec.Problem Spec.ProblemObjects
  Proofs.C05_Lemmas Proofs.C05_Objects Proofs.C05_Outside.
Import ListNotations.
Open Scope string_scope.
Open Scope list_scope.

(* ---------- dict facts ---------- *)
Lemma dset_dset_same {V} (d : pydict V) k v v' : dset (dset d k v') k v = dset d k v.
Proof.
  induction d as [|[a va] r IH]; simpl.
  - rewrite String.eqb_refl. reflexivity.
  - destruct (String.eqb k a) eqn:E; simpl; rewrite E; [reflexivity | rewrite IH; reflexivity].
Qed.

Lemma dset_comm_present {V} (d : pydict V) k v k1 v1 :
  In k (dkeys d) -> k <> k1 -> dset (dset d k1 v1) k v = dset (dset d k v) k1 v1.
Proof.
  intros Hin Hne. induction d as [|[a va] r IH]; [destruct Hin|].
  simpl. destruct (String.eqb k1 a) eqn:E1; destruct (String.eqb k a) eqn:E; simpl; rewrite ?E1, ?E; try reflexivity.
  - apply String.eqb_eq in E1. apply String.eqb_eq in E. congruence.
  - rewrite IH; [reflexivity|]. simpl in Hin. destruct Hin as [Ha|Hr]; [|exact Hr].
    subst a. rewrite String.eqb_refl in E. discriminate.
Qed.

Lemma dkeys_dset_in {V} (d : pydict V) k v n : In n (dkeys d) -> In n (dkeys (dset d k v)).
Proof.
  induction d as [|[a va] r IH]; simpl; [intros []|].
  destruct (String.eqb k a); simpl; intros [H|H]; auto.
Qed.

Lemma dupdate_cons {V} (d : pydict V) kv kvs : dupdate d (kv :: kvs) = dupdate (dset d (fst kv) (snd kv)) kvs.
Proof. reflexivity. Qed.

Lemma dupdate_app {V} (d : pydict V) a b : dupdate d (a ++ b) = dupdate (dupdate d a) b.
Proof. unfold dupdate. apply fold_left_app. Qed.

(* setting a key that is present commutes with later updates of other keys *)
Lemma dset_dupdate_present {V} (kvs : pydict V) : forall d k v,
  ~ In k (dkeys kvs) -> In k (dkeys d) -> dset (dupdate d kvs) k v = dupdate (dset d k v) kvs.
Proof.
  induction kvs as [|[k1 v1] r IH]; intros d k v Hni Hin; [reflexivity|].
  rewrite !dupdate_cons. cbn [fst snd]. simpl in Hni.
  rewrite IH; [| intros H; apply Hni; right; exact H | apply dkeys_dset_in; exact Hin].
  rewrite dset_comm_present; [reflexivity | exact Hin | intros ->; apply Hni; left; reflexivity].
Qed.

Lemma dupdate_dset {V} (t : pydict V) : forall acc k v, NoDup (dkeys t) ->
  dupdate acc (dset t k v) = dset (dupdate acc t) k v.
Proof.
  induction t as [|[a va] r IH]; intros acc k v Hnd; [reflexivity|].
  simpl in Hnd. inversion Hnd as [|? ? Ha Hnd']; subst.
  simpl. destruct (String.eqb k a) eqn:E.
  - apply String.eqb_eq in E. subst a. rewrite !dupdate_cons. cbn [fst snd].
    rewrite dset_dupdate_present; [rewrite dset_dset_same; reflexivity | exact Ha |].
    apply dmem_In. unfold dmem. rewrite dget_dset_same. reflexivity.
  - rewrite !dupdate_cons. cbn [fst snd]. apply IH. exact Hnd'.
Qed.

Lemma dupdate_NoDup {V} (kvs : pydict V) : forall d, NoDup (dkeys d) -> NoDup (dkeys (dupdate d kvs)).
Proof.
  induction kvs as [|[k v] r IH]; intros d Hnd; [exact Hnd|].
  rewrite dupdate_cons. apply IH. apply dkeys_dset_NoDup. exact Hnd.
Qed.

(* {**acc, **table}: updating with the table of a list of declarations is updating with the declarations *)
Lemma dupdate_table {V} (ds : pydict V) : forall acc t, NoDup (dkeys t) ->
  dupdate acc (dupdate t ds) = dupdate (dupdate acc t) ds.
Proof.
  induction ds as [|[k v] r IH]; intros acc t Hnd; [reflexivity|].
  rewrite !dupdate_cons. cbn [fst snd]. rewrite IH by (apply dkeys_dset_NoDup; exact Hnd).
  rewrite dupdate_dset by exact Hnd. reflexivity.
Qed.

Lemma add_typed_dupdate names ty acc : add_typed names ty acc = dupdate acc (map (fun n => (n, ty)) names).
Proof.
  unfold add_typed, dupdate. revert acc. induction names as [|n ns IH]; intros acc; [reflexivity|]. simpl. apply IH.
Qed.

(* ---------- the table of a list of declarations: first positions, last types ---------- *)
Lemma lookup_app {V} (a b : list (name * V)) k :
  lookup k (a ++ b) = match lookup k a with Some v => Some v | None => lookup k b end.
Proof. induction a as [|[k' v] r IH]; simpl; [reflexivity|]. destruct (String.eqb k k'); [reflexivity|exact IH]. Qed.

Lemma dget_dupdate_last (ds : list (name * name)) : forall d k,
  dget (dupdate d ds) k = match lookup k (rev ds) with Some t => Some t | None => dget d k end.
Proof.
  induction ds as [|[k' v'] r IH]; intros d k; [reflexivity|].
  rewrite dupdate_cons. cbn [fst snd]. rewrite IH. simpl rev. rewrite lookup_app.
  destruct (lookup k (rev r)); [reflexivity|]. simpl.
  destruct (String.eqb k k') eqn:E.
  - apply String.eqb_eq in E. subst. apply dget_dset_same.
  - apply dget_dset_other. intros ->. rewrite String.eqb_refl in E. discriminate.
Qed.

Definition fresh_for (seen : list string) (y : string) : bool := negb (str_in y seen).

Lemma dkeys_dset_cases {V} (d : pydict V) k v :
  dkeys (dset d k v) = if dmem d k then dkeys d else dkeys d ++ [k].
Proof.
  unfold dmem. induction d as [|[a va] r IH]; simpl; [reflexivity|].
  destruct (String.eqb k a) eqn:E; simpl; [reflexivity|]. rewrite IH. destruct (dget r k); reflexivity.
Qed.

Lemma str_in_app s a b : str_in s (a ++ b) = str_in s a || str_in s b.
Proof.
  induction a as [|x r IH]; simpl; [reflexivity|]. rewrite IH. apply orb_assoc.
Qed.

Lemma str_in_In s l : str_in s l = true <-> In s l.
Proof.
  induction l as [|x r IH]; simpl; [split; [discriminate|intros []]|].
  rewrite orb_true_iff, IH, String.eqb_eq. split; intros [H|H]; auto.
Qed.

Lemma dmem_str_in {V} (d : pydict V) k : dmem d k = str_in k (dkeys d).
Proof.
  destruct (dmem d k) eqn:E.
  - symmetry. apply str_in_In. apply dmem_In. exact E.
  - symmetry. apply str_in_false. intros H. apply dmem_In in H. congruence.
Qed.

Lemma filter_filter {A} (f g : A -> bool) l : filter f (filter g l) = filter (fun x => g x && f x) l.
Proof.
  induction l as [|x r IH]; simpl; [reflexivity|].
  destruct (g x); simpl; [destruct (f x); rewrite IH; reflexivity | exact IH].
Qed.

Lemma filter_ext' {A} (f g : A -> bool) l : (forall x, f x = g x) -> filter f l = filter g l.
Proof. intros H. induction l as [|x r IH]; simpl; [reflexivity|]. rewrite H, IH. reflexivity. Qed.

Lemma dkeys_dupdate_firsts (ds : list (name * name)) : forall d,
  dkeys (dupdate d ds) = dkeys d ++ filter (fresh_for (dkeys d)) (firsts (map fst ds)).
Proof.
  induction ds as [|[k v] r IH]; intros d; [simpl; rewrite app_nil_r; reflexivity|].
  rewrite dupdate_cons. cbn [fst snd]. rewrite IH. rewrite dkeys_dset_cases, dmem_str_in.
  simpl map. simpl firsts. simpl filter. unfold fresh_for at 2.
  destruct (str_in k (dkeys d)) eqn:Ek; cbn [negb].
  - f_equal. rewrite filter_filter. apply filter_ext'. intros x. unfold fresh_for.
    destruct (String.eqb x k) eqn:Ex; simpl; [|reflexivity].
    apply String.eqb_eq in Ex. subst x. rewrite Ek. reflexivity.
  - rewrite <- app_assoc. simpl. f_equal. f_equal. rewrite filter_filter. apply filter_ext'. intros x.
    unfold fresh_for. rewrite str_in_app. simpl. rewrite orb_false_r, negb_orb.
    rewrite andb_comm. reflexivity.
Qed.

Lemma filter_all_true {A} (f : A -> bool) l : (forall x, f x = true) -> filter f l = l.
Proof. intros H. induction l as [|x r IH]; simpl; [reflexivity|]. rewrite H, IH. reflexivity. Qed.

Lemma firsts_NoDup l : NoDup (firsts l).
Proof.
  induction l as [|x r IH]; simpl; [constructor|]. constructor.
  - intros H. apply filter_In in H. destruct H as [_ H]. rewrite String.eqb_refl in H. discriminate.
  - apply NoDup_filter. exact IH.
Qed.

Lemma firsts_In l x : In x (firsts l) <-> In x l.
Proof.
  induction l as [|y r IH]; simpl; [reflexivity|]. split.
  - intros [H|H]; [left; exact H|]. apply filter_In in H. right. apply IH. apply H.
  - intros [H|H]; [left; exact H|]. destruct (String.eqb x y) eqn:E.
    + left. apply String.eqb_eq in E. auto.
    + right. apply filter_In. split; [apply IH; exact H | rewrite E; reflexivity].
Qed.

(* an association list is determined by its keys (distinct) and its lookups *)
Lemma assoc_ext (a : list (name * name)) : forall b,
  map fst a = map fst b -> NoDup (map fst a) -> (forall k, In k (map fst a) -> lookup k a = lookup k b) -> a = b.
Proof.
  induction a as [|[k v] r IH]; intros [|[k' v'] r'] Hk Hnd Hl; simpl in Hk; try discriminate; [reflexivity|].
  injection Hk as <- Hk. simpl in Hnd. inversion Hnd as [|? ? Hni Hnd']; subst.
  pose proof (Hl k (or_introl eq_refl)) as H0. simpl in H0. rewrite String.eqb_refl in H0. injection H0 as <-.
  f_equal. apply IH; [exact Hk | exact Hnd' |]. intros n Hn.
  pose proof (Hl n (or_intror Hn)) as H1. simpl in H1.
  destruct (String.eqb n k) eqn:E; [|exact H1].
  apply String.eqb_eq in E. subst. contradiction.
Qed.

Lemma lookup_map_key (f : name -> name) (l : list name) k :
  In k l -> lookup k (map (fun n => (n, f n)) l) = Some (f k).
Proof.
  induction l as [|x r IH]; [intros []|]. simpl. destruct (String.eqb k x) eqn:E.
  - apply String.eqb_eq in E. subst. reflexivity.
  - intros [H|H]; [subst; rewrite String.eqb_refl in E; discriminate | apply IH; exact H].
Qed.

Lemma lookup_rev_in (ds : list (name * name)) k : In k (map fst ds) -> exists t, lookup k (rev ds) = Some t.
Proof.
  intros H. destruct (lookup k (rev ds)) as [t|] eqn:E; [eauto|]. exfalso.
  rewrite <- dget_lookup in E. apply dget_None_notin in E. apply E. unfold dkeys. rewrite map_rev. apply in_rev in H. exact H.
Qed.

(* repeated declarations: the dict that the declarations leave is the table of the spec *)
Theorem table_of_declarations (ds : list (name * name)) : dupdate [] ds = obj_table ds.
Proof.
  apply assoc_ext.
  - change (map fst (dupdate [] ds)) with (dkeys (dupdate [] ds)). rewrite dkeys_dupdate_firsts. simpl.
    unfold obj_table. rewrite map_map. simpl. rewrite map_id.
    apply filter_all_true. intros x. reflexivity.
  - apply (dupdate_NoDup ds []). constructor.
  - intros k Hk. rewrite <- dget_lookup. rewrite dget_dupdate_last. simpl.
    change (map fst (dupdate [] ds)) with (dkeys (dupdate [] ds)) in Hk. rewrite dkeys_dupdate_firsts in Hk. simpl in Hk.
    apply filter_In in Hk. destruct Hk as [Hk _]. unfold obj_table.
    rewrite (lookup_map_key (last_type ds)) by exact Hk.
    pose proof (proj1 (firsts_In _ _) Hk) as Hk'. destruct (lookup_rev_in ds k Hk') as [t Ht]. unfold last_type. rewrite Ht. reflexivity.
Qed.

(* ---------- parse_objects on any token tree ---------- *)
Lemma decl_pairs_app a b : decl_pairs (a ++ b) = decl_pairs a ++ decl_pairs b.
Proof. unfold decl_pairs. apply flat_map_app. Qed.

Section Any.
  Variable gt : bool.
  Variable tt : typetable.

  Definition gs_known (gs : list ogroup) : bool := forallb (fun g : ogroup => type_known tt (snd g)) gs.

  Lemma gs_known_app a b : gs_known (a ++ b) = gs_known a && gs_known b.
  Proof. apply forallb_app. Qed.

  (* what a list of groups does to the table [acc] *)
  Definition groups_result (acc : pydict string) (o : option (list ogroup)) : option (pydict string) :=
    match o with
    | Some gs => if gs_known gs then Some (dupdate acc (decl_pairs gs)) else None
    | None => None
    end.

  Section Level.
    Variable rec : sexp -> result (pydict string).
    Variable recS : sexp -> option (list ogroup).

    Lemma po_list_groups n : forall l skip pending acc,
      List.length l <= n ->
      (forall x, In x l -> res_rel (rec x) (groups_result [] (recS x))) ->
      res_rel (po_list (cfg_gt gt) tt rec skip l pending acc) (groups_result acc (groups_list recS skip l pending)).
    Proof.
      induction n as [|n IH]; intros l skip pending acc Hlen Hrec.
      - destruct l; [|simpl in Hlen; lia]. simpl.
        rewrite add_typed_dupdate, app_nil_r. reflexivity.
      - destruct l as [|x rest].
        { simpl. rewrite add_typed_dupdate, app_nil_r. reflexivity. }
        simpl in Hlen.
        assert (Hrest : forall y, In y rest -> res_rel (rec y) (groups_result [] (recS y))).
        { intros y Hy. apply Hrec. right. exact Hy. }
        cbn [po_list groups_list]. destruct skip.
        { apply IH; [lia | exact Hrest]. }
        destruct x as [t|sub].
        + destruct (String.eqb t "-") eqn:Et.
          * destruct rest as [|[ty|sub'] rest'].
            -- exists EIndex. reflexivity.
            -- assert (Hrest' : forall y, In y rest' -> res_rel (rec y) (groups_result [] (recS y))).
               { intros y Hy. apply Hrest. right. exact Hy. }
               assert (Hl : List.length rest' <= n) by (simpl in Hlen; lia).
               pose proof (IH rest' false (@nil name) (add_typed pending ty acc) Hl Hrest') as H.
               destruct (type_known tt ty) eqn:Ek; cbn [negb].
               ++ destruct (groups_list recS false rest' []) as [r|] eqn:Eg; try rewrite Eg in H; [|exact H].
                  unfold groups_result in *. cbn [gs_known forallb snd]. fold (gs_known r). rewrite Ek. cbn [andb].
                  destruct (gs_known r); [|exact H].
                  cbn [decl_pairs flat_map fst snd]. fold (decl_pairs r). rewrite dupdate_app, <- add_typed_dupdate. exact H.
               ++ destruct (groups_list recS false rest' []) as [r|]; unfold groups_result;
                    cbn [gs_known forallb snd]; rewrite ?Ek; cbn [andb]; exists EValue; reflexivity.
            -- exists EType. reflexivity.
          * apply IH; [lia | exact Hrest].
        + pose proof (Hrec (SList sub) (or_introl eq_refl)) as Hx.
          destruct (recS (SList sub)) as [a|]; cbn [groups_result] in Hx.
          * destruct (gs_known a) eqn:Ea.
            -- rewrite Hx. cbn [bind].
               assert (Hl : List.length rest <= n) by lia.
               pose proof (IH rest false pending (dupdate acc (dupdate [] (decl_pairs a))) Hl Hrest) as H.
               destruct (groups_list recS false rest pending) as [b|] eqn:Eg; try rewrite Eg in H; [|exact H].
               unfold groups_result in *. rewrite gs_known_app, Ea. cbn [andb]. destruct (gs_known b); [|exact H].
               rewrite decl_pairs_app, dupdate_app.
               rewrite dupdate_table in H by constructor. rewrite dupdate_table by constructor. exact H.
            -- destruct Hx as [k Hk]. rewrite Hk.
               destruct (groups_list recS false rest pending) as [b|]; unfold groups_result; [|exists k; reflexivity].
               rewrite gs_known_app, Ea. cbn [andb]. exists k. reflexivity.
          * destruct Hx as [k Hk]. rewrite Hk. exists k. reflexivity.
    Qed.
  End Level.

  (* every token tree: induction over the nesting *)
  Lemma parse_objects_groups : forall e,
    res_rel (parse_objects_sx (cfg_gt gt) tt e) (groups_result [] (groups_sx e)).
  Proof.
    induction e as [s|l IHl] using sexp_ind'.
    - exists EType. reflexivity.
    - cbn [parse_objects_sx groups_sx].
      apply (po_list_groups (parse_objects_sx (cfg_gt gt) tt) groups_sx (List.length l)); [apply le_n|].
      intros x Hx. rewrite Forall_forall in IHl. apply IHl. exact Hx.
  Qed.

  (* parse_objects returns the table of the spec, or raises where the spec has none *)
  Theorem parse_objects_any : forall e,
    res_rel (parse_objects_sx (cfg_gt gt) tt e) (objects_of (type_known tt) e).
  Proof.
    intros e. pose proof (parse_objects_groups e) as H. unfold groups_result in H. unfold objects_of.
    destruct (groups_sx e) as [gs|]; [|exact H]. fold (gs_known gs).
    destruct (gs_known gs); [|exact H]. rewrite <- table_of_declarations. exact H.
  Qed.
End Any.

(* ---------- the normal form of an object section ---------- *)
Definition names_plain (gs : list ogroup) : Prop := forall g n, In g gs -> In n (fst g) -> n <> "-".

Lemma groups_list_names (recS : sexp -> option (list ogroup)) n : forall l skip pending gs,
  List.length l <= n ->
  (forall x gs', In x l -> recS x = Some gs' -> names_plain gs') ->
  (forall m, In m pending -> m <> "-") ->
  groups_list recS skip l pending = Some gs -> names_plain gs.
Proof.
  induction n as [|n IH]; intros l skip pending gs Hlen Hrec Hp Hg.
  - destruct l; [|simpl in Hlen; lia]. simpl in Hg. injection Hg as <-.
    intros g m [<-|[]] Hm. apply Hp. exact Hm.
  - destruct l as [|x rest].
    { simpl in Hg. injection Hg as <-. intros g m [<-|[]] Hm. apply Hp. exact Hm. }
    simpl in Hlen.
    assert (Hrest : forall y gs', In y rest -> recS y = Some gs' -> names_plain gs').
    { intros y gs' Hy. apply Hrec. right. exact Hy. }
    cbn [groups_list] in Hg. destruct skip.
    { apply (IH rest false pending gs); [lia | exact Hrest | exact Hp | exact Hg]. }
    destruct x as [t|sub].
    + destruct (String.eqb t "-") eqn:Et.
      * destruct rest as [|[ty|sub'] rest']; try discriminate.
        destruct (groups_list recS false rest' []) as [r|] eqn:Er; [|discriminate]. injection Hg as <-.
        assert (Hr : names_plain r).
        { apply (IH rest' false [] r); [simpl in Hlen; lia | | intros m [] | exact Er].
          intros y gs' Hy. apply Hrest. right. exact Hy. }
        intros g m [<-|Hin] Hm; [apply Hp; exact Hm | apply (Hr g m Hin Hm)].
      * apply (IH rest false (pending ++ [t]) gs); [lia | exact Hrest | | exact Hg].
        intros m Hm. apply in_app_or in Hm. destruct Hm as [Hm|[<-|[]]]; [apply Hp; exact Hm|].
        intros ->. rewrite String.eqb_refl in Et. discriminate.
    + destruct (recS (SList sub)) as [a|] eqn:Ea; [|discriminate].
      destruct (groups_list recS false rest pending) as [b|] eqn:Eb; [|discriminate]. injection Hg as <-.
      pose proof (Hrec (SList sub) a (or_introl eq_refl) Ea) as Ha.
      assert (Hb : names_plain b) by (apply (IH rest false pending b); [lia | exact Hrest | exact Hp | exact Eb]).
      intros g m Hin Hm. apply in_app_or in Hin. destruct Hin as [Hin|Hin]; [apply (Ha g m Hin Hm) | apply (Hb g m Hin Hm)].
Qed.

Lemma groups_sx_names : forall e gs, groups_sx e = Some gs -> names_plain gs.
Proof.
  induction e as [s|l IHl] using sexp_ind'; intros gs Hg; [discriminate|].
  cbn [groups_sx] in Hg.
  apply (groups_list_names groups_sx (List.length l) l true [] gs (le_n _)); [| intros m [] | exact Hg].
  intros x gs' Hx. rewrite Forall_forall in IHl. apply IHl. exact Hx.
Qed.

Lemma decl_pairs_In gs n t : In (n, t) (decl_pairs gs) <-> exists g, In g gs /\ In n (fst g) /\ t = snd g.
Proof.
  unfold decl_pairs. rewrite in_flat_map. split.
  - intros (g & Hg & Hin). apply in_map_iff in Hin. destruct Hin as (m & Hm & Hin). injection Hm as <- <-. eauto.
  - intros (g & Hg & Hn & ->). exists g. split; [exact Hg|]. apply in_map_iff. eauto.
Qed.

Lemma lookup_In {V} (l : list (name * V)) k v : lookup k l = Some v -> In (k, v) l.
Proof.
  induction l as [|[k' v'] r IH]; simpl; [discriminate|]. destruct (String.eqb k k') eqn:E.
  - intros H. injection H as <-. apply String.eqb_eq in E. subst. left. reflexivity.
  - intros H. right. apply IH. exact H.
Qed.

(* the entries of the table are declarations of the list *)
Lemma obj_table_In ds n t : In (n, t) (obj_table ds) -> In (n, t) ds.
Proof.
  unfold obj_table. intros H. apply in_map_iff in H. destruct H as (m & Hm & Hin). injection Hm as <- <-.
  apply (proj1 (firsts_In _ _)) in Hin. destruct (lookup_rev_in ds m Hin) as [t Ht]. unfold last_type. rewrite Ht.
  apply lookup_In in Ht. apply in_rev in Ht. exact Ht.
Qed.

Lemma obj_table_keys ds : map fst (obj_table ds) = firsts (map fst ds).
Proof. unfold obj_table. rewrite map_map. simpl. apply map_id. Qed.

Lemma obj_table_NoDup ds : NoDup (map fst (obj_table ds)).
Proof. rewrite obj_table_keys. apply firsts_NoDup. Qed.

(* the normal form is a typed list of the grammar of Spec/Problem.v that declares exactly the table *)
Lemma read_objs_objects_text (os : list (name * name)) :
  (forall o, In o os -> fst o <> "-") -> read_objs (objects_text os) [] = Some os.
Proof.
  induction os as [|[n t] r IH]; intros Hn; [reflexivity|].
  cbn [objects_text flat_map app fst snd read_objs].
  assert (En : String.eqb n "-" = false).
  { apply eqb_neq_false. exact (Hn (n, t) (or_introl eq_refl)). }
  rewrite En. cbn [app read_objs]. rewrite String.eqb_refl.
  change (flat_map (fun o : name * name => [Atom (fst o); Atom "-"; Atom (snd o)]) r) with (objects_text r).
  rewrite IH by (intros o Ho; apply Hn; right; exact Ho). reflexivity.
Qed.

Section Normal.
  Variable gt : bool.
  Variable tt : typetable.

  Lemma objects_of_accepted e os :
    objects_of (type_known tt) e = Some os ->
    objects_of (fun _ => true) e = Some os /\ NoDup (map fst os) /\ (forall o, In o os -> fst o <> "-") /\ types_ok tt os = true.
  Proof.
    unfold objects_of. destruct (groups_sx e) as [gs|] eqn:Eg; [|discriminate].
    destruct (forallb (fun g : ogroup => type_known tt (snd g)) gs) eqn:Ek; [|discriminate]. intros H. injection H as <-.
    assert (Ht : forallb (fun _ : ogroup => true) gs = true) by (apply forallb_forall; reflexivity).
    rewrite Ht. split; [reflexivity|]. split; [apply obj_table_NoDup|]. split.
    - intros [n t] Ho. apply obj_table_In in Ho. apply decl_pairs_In in Ho. destruct Ho as (g & Hg & Hn & _).
      exact (groups_sx_names e gs Eg g n Hg Hn).
    - unfold types_ok. apply forallb_forall. intros [n t] Ho. apply obj_table_In in Ho. apply decl_pairs_In in Ho.
      destruct Ho as (g & Hg & _ & ->). rewrite forallb_forall in Ek. exact (Ek g Hg).
  Qed.

  (* an accepted section and its normal form give the same table *)
  Theorem parse_objects_normal k body os :
    parse_objects_sx (cfg_gt gt) tt (SList (Atom k :: body)) = Ok os ->
    parse_objects_sx (cfg_gt gt) tt (SList (Atom k :: objects_text os)) = Ok os /\
    objects_of (fun _ => true) (SList (Atom k :: body)) = Some os /\
    read_objs (objects_text os) [] = Some os /\ NoDup (map fst os).
  Proof.
    intros H. pose proof (parse_objects_any gt tt (SList (Atom k :: body))) as Hr.
    apply (res_rel_ok _ _ _ Hr) in H. apply objects_of_accepted in H. destruct H as (Ho & Hnd & Hnames & Hty).
    pose proof (read_objs_objects_text os Hnames) as Hread.
    pose proof (parse_objects_read gt tt k (objects_text os) os Hread Hnd) as Hp. rewrite Hty in Hp.
    repeat split; assumption.
  Qed.
End Normal.

(* ---------- the whole problem text ---------- *)
Lemma foldM_map_ok {A S} (f : S -> A -> result S) (g : A -> A) (l : list A) :
  (forall s x s', In x l -> f s x = Ok s' -> f s (g x) = Ok s') ->
  forall s r, foldM f l s = Ok r -> foldM f (map g l) s = Ok r.
Proof.
  induction l as [|x xs IH]; intros H s r Hf; [exact Hf|].
  simpl in Hf. apply bind_ok_inv in Hf. destruct Hf as (s' & Hx & Hrest).
  simpl. rewrite (H s x s' (or_introl eq_refl) Hx). simpl.
  apply IH; [|exact Hrest]. intros s0 y s0' Hy. apply H. right. exact Hy.
Qed.

Section Whole.
  Variable gt : bool.
  Variable num : numparser.
  Variable dom : mdomain.

  Lemma parse_section_normal pb x pb' :
    parse_section (cfg_gt gt) num dom pb x = Ok pb' ->
    parse_section (cfg_gt gt) num dom pb (normal_section x) = Ok pb'.
  Proof.
    intros H. destruct x as [s|[|[k|sub] body]]; try exact H.
    cbn [normal_section]. destruct (String.eqb k ":objects") eqn:Ek; [|exact H].
    apply String.eqb_eq in Ek. subst k.
    cbn [parse_section] in H. cbn [String.eqb Ascii.eqb Bool.eqb] in H.
    apply bind_ok_inv in H. destruct H as (os & Hos & Hpb).
    destruct (parse_objects_normal gt (ptt dom) ":objects" body os Hos) as (Hn & Ho & _ & _).
    rewrite Ho. cbn [parse_section]. cbn [String.eqb Ascii.eqb Bool.eqb]. rewrite Hn. exact Hpb.
  Qed.

  (* every accepted text is parsed as the text with its object section in the normal form *)
  Theorem parse_problem_normal_objects e pb :
    parse_problem (cfg_gt gt) num dom e = Ok pb ->
    parse_problem (cfg_gt gt) num dom (normal_objects e) = Ok pb.
  Proof.
    intros H. destruct e as [s|[|[h|sub] l]]; [exact H | exact H | | discriminate H].
    cbn [normal_objects map normal_section]. cbn [parse_problem] in *.
    destruct (String.eqb h "define"); [|discriminate].
    change (Atom h :: map normal_section l) with (map normal_section (Atom h :: l)).
    apply foldM_map_ok; [|exact H]. intros s x s' _. apply parse_section_normal.
  Qed.

  (* an object section without a table makes the whole text raise *)
  Theorem objects_section_rejects l1 body l2 :
    objects_of (type_known (ptt dom)) (SList (Atom ":objects" :: body)) = None ->
    exists k, parse_problem (cfg_gt gt) num dom (SList (Atom "define" :: l1 ++ SList (Atom ":objects" :: body) :: l2)) = Err k.
  Proof.
    intros Ho. cbn [parse_problem]. rewrite String.eqb_refl.
    change (Atom "define" :: l1 ++ SList (Atom ":objects" :: body) :: l2)
      with ((Atom "define" :: l1) ++ SList (Atom ":objects" :: body) :: l2).
    apply foldM_err_at. intros pb. cbn [parse_section]. cbn [String.eqb Ascii.eqb Bool.eqb].
    pose proof (parse_objects_any gt (ptt dom) (SList (Atom ":objects" :: body))) as Hr. rewrite Ho in Hr.
    destruct Hr as [k Hk]. rewrite Hk. exists k. reflexivity.
  Qed.

  (* ... and an accepted one leaves exactly the table of the spec in the parsed problem, when it is the only one *)
  Theorem objects_section_table l1 body l2 pb :
    parse_problem (cfg_gt gt) num dom (SList (Atom "define" :: l1 ++ SList (Atom ":objects" :: body) :: l2)) = Ok pb ->
    exists os, objects_of (type_known (ptt dom)) (SList (Atom ":objects" :: body)) = Some os.
  Proof.
    intros H. destruct (objects_of (type_known (ptt dom)) (SList (Atom ":objects" :: body))) as [os|] eqn:Eo; [eauto|].
    destruct (objects_section_rejects l1 body l2 Eo) as [k Hk]. rewrite Hk in H. discriminate.
  Qed.
End Whole.

(* ---------- statements for Props/C05.v ---------- *)
(* repeated declarations of a name: ONE entry, at the place of the first declaration, with the type of the last *)
Theorem repeated_objects_lemma gt tt e gs :
  groups_sx e = Some gs -> forallb (fun g : ogroup => type_known tt (snd g)) gs = true ->
  exists os, parse_objects_sx (cfg_gt gt) tt e = Ok os /\
             map fst os = firsts (map fst (decl_pairs gs)) /\
             forall n, In n (map fst os) -> lookup n os = lookup n (rev (decl_pairs gs)).
Proof.
  intros Hg Hk. pose proof (parse_objects_any gt tt e) as H. unfold objects_of in H. rewrite Hg, Hk in H.
  exists (obj_table (decl_pairs gs)). split; [exact H|]. split; [apply obj_table_keys|].
  intros n Hn. rewrite obj_table_keys in Hn. unfold obj_table. rewrite (lookup_map_key (last_type (decl_pairs gs))) by exact Hn.
  apply (proj1 (firsts_In _ _)) in Hn. destruct (lookup_rev_in _ _ Hn) as [t Ht]. unfold last_type. rewrite Ht. reflexivity.
Qed.

(* nested lists are flattened: the flat typed list of the groups of a section has the same groups *)
Lemma groups_list_names_prefix (recS : sexp -> option (list ogroup)) (names : list name) : forall rest pending,
  (forall m, In m names -> m <> "-") ->
  groups_list recS false (map Atom names ++ rest) pending = groups_list recS false rest (pending ++ names).
Proof.
  induction names as [|x r IH]; intros rest pending Hn; [simpl; rewrite app_nil_r; reflexivity|].
  cbn [map app groups_list].
  rewrite (eqb_neq_false x "-" (Hn x (or_introl eq_refl))).
  rewrite IH by (intros m Hm; apply Hn; right; exact Hm). rewrite <- app_assoc. reflexivity.
Qed.

Lemma groups_flat_text (recS : sexp -> option (list ogroup)) (gs : list ogroup) :
  names_plain gs -> groups_list recS false (flat_text gs) [] = Some (gs ++ [([], "object")]).
Proof.
  induction gs as [|[names ty] r IH]; intros Hn; [reflexivity|].
  cbn [flat_text flat_map fst snd]. rewrite <- app_assoc.
  rewrite groups_list_names_prefix by (intros m Hm; apply (Hn (names, ty) m (or_introl eq_refl) Hm)).
  cbn [app groups_list]. rewrite String.eqb_refl.
  change (flat_map (fun g : ogroup => map Atom (fst g) ++ [Atom "-"; Atom (snd g)]) r) with (flat_text r).
  rewrite IH by (intros g m Hg; apply Hn; right; exact Hg). reflexivity.
Qed.

Theorem private_flattened_lemma gt tt e gs k :
  groups_sx e = Some gs ->
  groups_sx (SList (Atom k :: flat_text gs)) = Some (gs ++ [([], "object")]) /\
  objects_of (type_known tt) (SList (Atom k :: flat_text gs)) = objects_of (type_known tt) e /\
  res_rel (parse_objects_sx (cfg_gt gt) tt e) (objects_of (type_known tt) e) /\
  res_rel (parse_objects_sx (cfg_gt gt) tt (SList (Atom k :: flat_text gs))) (objects_of (type_known tt) e).
Proof.
  intros Hg.
  assert (Hf : groups_sx (SList (Atom k :: flat_text gs)) = Some (gs ++ [([], "object")])).
  { cbn [groups_sx groups_list]. apply groups_flat_text. exact (groups_sx_names e gs Hg). }
  assert (Ho : objects_of (type_known tt) (SList (Atom k :: flat_text gs)) = objects_of (type_known tt) e).
  { unfold objects_of. rewrite Hf, Hg. rewrite forallb_app. cbn [forallb snd]. cbn [type_known String.eqb Ascii.eqb Bool.eqb orb andb].
    rewrite andb_true_r. rewrite decl_pairs_app. cbn [decl_pairs flat_map fst map app]. rewrite app_nil_r. reflexivity. }
  split; [exact Hf|]. split; [exact Ho|]. split; [apply parse_objects_any|]. rewrite <- Ho. apply parse_objects_any.
Qed.
