(* C18, part 6: the well-formedness half of the side condition is what the domain parser guarantees.
   [plain_action a] - no literal or fluent has a repeated argument, numeric conditions and effects have an
   operator at the root, the signature has distinct keys - implies [well_formed a] (the names-in-sight and
   quantified-variable parts hold by construction), and every action returned by Model.Domain.parse_action is
   plain, provided the declared functions have distinct parameter names and none is called like a comparison
   or assignment operator. *)
From Coq Require Import List Ascii String Bool Arith Lia PrimFloat.
From Verif Require Import Base.Result Base.Str Base.Sexp Base.PyDict Model.Types Model.Domain Model.Exec
  Model.ChangeSignature Proofs.C18_Dict Proofs.C18_Denote Proofs.C18_Exec Proofs.C18_Check.
Import ListNotations.
Open Scope string_scope.
Open Scope list_scope.

(* ---------- plain: the parser-dependent facts, without reference to any name set ---------- *)
Fixpoint plain_tree (t : mtree) : bool :=
  match t with
  | TNum _ => true
  | TFn _ args => nodupb args
  | TNode _ l r => plain_tree l && plain_tree r
  end.
Definition plain_numexp (t : mtree) : bool := match t with TNode _ _ _ => plain_tree t | _ => false end.

Fixpoint plain_pre (p : mpre) : bool :=
  match p with
  | MPre _ os _ _ => (fix go (l : list mcond) : bool := match l with [] => true | c :: r => plain_cond c && go r end) os
  end
with plain_cond (c : mcond) : bool :=
  match c with
  | MLit _ _ args => nodupb args
  | MNum t => plain_numexp t
  | MNested q => plain_pre q
  | MUniv _ _ body => plain_pre body
  end.

Definition plain_lit (l : mlit) : bool := nodupb (l_args l).
Definition plain_condeff (ce : mcondeff) : bool :=
  plain_pre (ce_ante ce) && forallb plain_lit (ce_disc ce) && forallb plain_numexp (ce_num ce).
Definition plain_action (a : maction) : bool :=
  nodupb (dkeys (ma_sig a)) && plain_pre (ma_pre a) && forallb plain_lit (ma_disc a) &&
  forallb plain_numexp (ma_num a) && forallb plain_condeff (ma_cond a) &&
  forallb (fun ue => plain_condeff (ue_ce ue)) (ma_univ a).

Lemma plain_pre_unfold op os eqs neqs : plain_pre (MPre op os eqs neqs) = forallb plain_cond os.
Proof. reflexivity. Qed.

(* ---------- part 1: plain implies well formed ---------- *)
Lemma inclb_of_incl l N : incl l N -> inclb l N = true.
Proof. intros H. unfold inclb. apply forallb_forall. intros x Hx. apply str_in_In. apply H. exact Hx. Qed.

Section Plain.
  Variable N B : list string.

  Lemma treeb_of_plain t : incl (names_tree t) N -> plain_tree t = true -> treeb N t = true.
  Proof.
    induction t as [x|f args|op l IHl r IHr]; simpl; intros Hi Hp.
    - reflexivity.
    - unfold argsb. rewrite (inclb_of_incl _ _ Hi), Hp. reflexivity.
    - apply andb_true_iff in Hp. destruct Hp as [Hl Hr].
      rewrite IHl, IHr; auto; intros x Hx; apply Hi; apply in_or_app; auto.
  Qed.

  Lemma numexpb_of_plain t : incl (names_tree t) N -> plain_numexp t = true -> numexpb N t = true.
  Proof.
    destruct t as [x|f args|op l r]; simpl; intros Hi Hp; try discriminate.
    apply (treeb_of_plain (TNode op l r) Hi Hp).
  Qed.

  Lemma names_pre_unfold op os eqs neqs :
    names_pre (MPre op os eqs neqs) =
    flat_map (fun ab : string * string => [fst ab; snd ab]) (eqs ++ neqs) ++ flat_map names_cond os.
  Proof. reflexivity. Qed.
  Lemma bound_pre_unfold op os eqs neqs : bound_pre (MPre op os eqs neqs) = flat_map bound_cond os.
  Proof. reflexivity. Qed.
  Lemma preb_unfold op os eqs neqs :
    preb N B (MPre op os eqs neqs) = pairsb N eqs && pairsb N neqs && forallb (condb N B) os.
  Proof. reflexivity. Qed.

  Lemma pairsb_of_incl l : incl (flat_map (fun ab : string * string => [fst ab; snd ab]) l) N -> pairsb N l = true.
  Proof.
    intros H. unfold pairsb. apply forallb_forall. intros ab Hab.
    apply andb_true_iff. split; apply str_in_In; apply H; apply in_flat_map; exists ab; simpl; auto.
  Qed.

  Lemma preb_of_plain : forall p, incl (names_pre p) N -> incl (bound_pre p) B -> plain_pre p = true -> preb N B p = true.
  Proof.
    apply (mpre_ind'
             (fun p => incl (names_pre p) N -> incl (bound_pre p) B -> plain_pre p = true -> preb N B p = true)
             (fun c => incl (names_cond c) N -> incl (bound_cond c) B -> plain_cond c = true -> condb N B c = true)).
    - intros op os eqs neqs IH Hn Hb Hp.
      rewrite names_pre_unfold in Hn. rewrite bound_pre_unfold in Hb. rewrite plain_pre_unfold in Hp.
      rewrite preb_unfold.
      assert (He : pairsb N eqs = true).
      { apply pairsb_of_incl. intros x Hx. apply Hn. apply in_or_app. left. rewrite flat_map_app. apply in_or_app. auto. }
      assert (Hq : pairsb N neqs = true).
      { apply pairsb_of_incl. intros x Hx. apply Hn. apply in_or_app. left. rewrite flat_map_app. apply in_or_app. auto. }
      rewrite He, Hq. simpl. apply forallb_forall. intros c Hc.
      rewrite Forall_forall in IH. rewrite forallb_forall in Hp. apply IH; auto.
      + intros x Hx. apply Hn. apply in_or_app. right. apply in_flat_map. exists c. auto.
      + intros x Hx. apply Hb. apply in_flat_map. exists c. auto.
    - intros pos p args Hn _ Hp. change (argsb N args = true). unfold argsb.
      rewrite (inclb_of_incl args N Hn). exact Hp.
    - intros t Hn _ Hp. change (numexpb N t = true). apply numexpb_of_plain; assumption.
    - intros q IH Hn Hb Hp. apply (IH Hn Hb Hp).
    - intros v ty b IH Hn Hb Hp. change (str_in v B && preb N B b = true). apply andb_true_iff. split.
      + apply str_in_In. apply Hb. left. reflexivity.
      + apply IH; auto; intros x Hx; [apply Hn|apply Hb]; right; exact Hx.
  Qed.

  Lemma condeffb_of_plain ce :
    incl (names_condeff ce) N -> incl (bound_pre (ce_ante ce)) B -> plain_condeff ce = true -> condeffb N B ce = true.
  Proof.
    intros Hn Hb Hp. unfold plain_condeff in Hp. rewrite !andb_true_iff in Hp. destruct Hp as [[Hpre Hd] Hnum].
    unfold condeffb, names_condeff in *. rewrite !andb_true_iff. repeat split.
    - apply preb_of_plain; auto. intros x Hx. apply Hn. apply in_or_app. auto.
    - apply forallb_forall. intros l Hl. rewrite forallb_forall in Hd. unfold argsb.
      rewrite (Hd l Hl : nodupb (l_args l) = true), andb_true_r. apply inclb_of_incl. intros x Hx. apply Hn.
      apply in_or_app. right. apply in_or_app. left. apply in_flat_map. exists l. auto.
    - apply forallb_forall. intros t Ht. rewrite forallb_forall in Hnum. apply numexpb_of_plain; auto.
      intros x Hx. apply Hn. apply in_or_app. right. apply in_or_app. right. apply in_flat_map. exists t. auto.
  Qed.
End Plain.

Theorem well_formed_of_plain (a : maction) : plain_action a = true -> well_formed a = true.
Proof.
  intros Hp. unfold plain_action in Hp. rewrite !andb_true_iff in Hp.
  destruct Hp as [[[[[Hs Hpre] Hd] Hn] Hc] Hu].
  unfold well_formed, actionb. set (N := names_action a). set (B := bound_maction a).
  assert (I1 : incl (dkeys (ma_sig a)) N) by (intros x Hx; unfold N, names_action; apply in_or_app; auto).
  assert (I2 : incl (names_pre (ma_pre a)) N)
    by (intros x Hx; unfold N, names_action; apply in_or_app; right; apply in_or_app; auto).
  assert (I3 : incl (flat_map l_args (ma_disc a)) N)
    by (intros x Hx; unfold N, names_action; do 2 (apply in_or_app; right); apply in_or_app; auto).
  assert (I4 : incl (flat_map names_tree (ma_num a)) N)
    by (intros x Hx; unfold N, names_action; do 3 (apply in_or_app; right); apply in_or_app; auto).
  assert (I5 : incl (flat_map names_condeff (ma_cond a)) N)
    by (intros x Hx; unfold N, names_action; do 4 (apply in_or_app; right); apply in_or_app; auto).
  assert (I6 : incl (flat_map (fun ue => ue_var ue :: names_condeff (ue_ce ue)) (ma_univ a)) N)
    by (intros x Hx; unfold N, names_action; do 5 (apply in_or_app; right); exact Hx).
  assert (B1 : incl (bound_pre (ma_pre a)) B) by (intros x Hx; unfold B, bound_maction; apply in_or_app; auto).
  assert (B2 : incl (flat_map (fun ce => bound_pre (ce_ante ce)) (ma_cond a)) B)
    by (intros x Hx; unfold B, bound_maction; apply in_or_app; right; apply in_or_app; auto).
  assert (B3 : incl (flat_map (fun ue => ue_var ue :: bound_pre (ce_ante (ue_ce ue))) (ma_univ a)) B)
    by (intros x Hx; unfold B, bound_maction; do 2 (apply in_or_app; right); exact Hx).
  rewrite Hs, (inclb_of_incl _ _ I1), (preb_of_plain N B _ I2 B1 Hpre). simpl.
  rewrite !andb_true_iff. repeat split.
  - apply forallb_forall. intros l Hl. rewrite forallb_forall in Hd. unfold argsb.
    rewrite (Hd l Hl : nodupb (l_args l) = true), andb_true_r. apply inclb_of_incl. intros x Hx. apply I3.
    apply in_flat_map. exists l. auto.
  - apply forallb_forall. intros t Ht. rewrite forallb_forall in Hn. apply numexpb_of_plain; auto.
    intros x Hx. apply I4. apply in_flat_map. exists t. auto.
  - apply forallb_forall. intros ce Hce. rewrite forallb_forall in Hc. apply condeffb_of_plain; auto.
    + intros x Hx. apply I5. apply in_flat_map. exists ce. auto.
    + intros x Hx. apply B2. apply in_flat_map. exists ce. auto.
  - apply forallb_forall. intros ue Hue. rewrite forallb_forall in Hu. apply andb_true_iff. split.
    + apply str_in_In. apply B3. apply in_flat_map. exists ue. split; [exact Hue|left; reflexivity].
    + apply condeffb_of_plain; auto.
      * intros x Hx. apply I6. apply in_flat_map. exists ue. split; [exact Hue|right; exact Hx].
      * intros x Hx. apply B3. apply in_flat_map. exists ue. split; [exact Hue|right; exact Hx].
Qed.

(* ---------- part 2: what the parser guarantees ---------- *)
Lemma nodupb_has_dup (l : list string) : has_dup l = false -> nodupb l = true.
Proof.
  induction l as [|x r IH]; simpl; intros H; [reflexivity|].
  apply orb_false_iff in H. destruct H as [H1 H2]. rewrite H1, (IH H2). reflexivity.
Qed.

Lemma NoDup_nodupb (l : list string) : NoDup l -> nodupb l = true.
Proof.
  induction 1 as [|x r Hx _ IH]; simpl; [reflexivity|]. rewrite IH, andb_true_r. apply negb_true_iff.
  destruct (str_in x r) eqn:E; [|reflexivity]. apply str_in_In in E. contradiction.
Qed.

Lemma NoDup_snoc {A} (l : list A) (k : A) : NoDup l -> ~ In k l -> NoDup (l ++ [k]).
Proof.
  induction l as [|x r IH]; simpl; intros Hnd Hk.
  - constructor; [intros []|constructor].
  - apply NoDup_cons_iff in Hnd. destruct Hnd as [Hx Hr]. constructor.
    + intros Hin. apply in_app_or in Hin. destruct Hin as [Hin|[Heq|[]]]; [contradiction|]. apply Hk. left. symmetry. exact Heq.
    + apply IH; [exact Hr|]. intros Hin. apply Hk. right. exact Hin.
Qed.

Lemma dset_keys_NoDup {V} (d : pydict V) k v : NoDup (dkeys d) -> NoDup (dkeys (dset d k v)).
Proof.
  intros H. destruct (in_dec string_dec k (dkeys d)) as [Hin|Hnot].
  - rewrite dset_present_keys by exact Hin. exact H.
  - rewrite dset_fresh by exact Hnot. rewrite dkeys_app. simpl.
    apply NoDup_snoc; assumption.
Qed.

Lemma fold_dset_NoDup {V} (ks : list string) (v : V) (d : pydict V) :
  NoDup (dkeys d) -> NoDup (dkeys (fold_left (fun acc p => dset acc p v) ks d)).
Proof.
  revert d. induction ks as [|k r IH]; simpl; intros d H; [exact H|]. apply IH. apply dset_keys_NoDup. exact H.
Qed.

Lemma parse_signature_aux_NoDup tt : forall n toks grouped sg r,
  List.length toks <= n -> NoDup (dkeys sg) -> parse_signature_aux tt toks grouped sg = Ok r -> NoDup (dkeys r).
Proof.
  induction n as [|n IH]; intros toks grouped sg r Hlen Hnd H.
  - destruct toks; [|simpl in Hlen; inversion Hlen]. simpl in H. inversion H; subst. apply fold_dset_NoDup. exact Hnd.
  - destruct toks as [|[t|l] rest]; simpl in H.
    + inversion H; subst. apply fold_dset_NoDup. exact Hnd.
    + destruct (String.eqb t "-").
      * destruct rest as [|[ty|l] rest']; try discriminate.
        destruct (negb (forallb starts_with_q grouped)); try discriminate.
        destruct (negb (type_known tt ty)).
        -- destruct grouped; try discriminate. apply (IH rest' [] sg r); [simpl in Hlen; lia|exact Hnd|exact H].
        -- eapply (IH rest' []); [simpl in Hlen; lia| |exact H]. apply fold_dset_NoDup. exact Hnd.
      * destruct (negb (starts_with_q t)); try discriminate.
        apply (IH rest (grouped ++ [t]) sg r); [simpl in Hlen; lia|exact Hnd|exact H].
    + discriminate.
Qed.

Lemma parse_signature_NoDup tt toks sg : parse_signature tt toks = Ok sg -> NoDup (dkeys sg).
Proof.
  unfold parse_signature. apply (parse_signature_aux_NoDup tt (List.length toks)); [apply le_n|constructor].
Qed.

Lemma parse_untyped_predicate_plain sg consts pos e l :
  parse_untyped_predicate sg consts pos e = Ok l -> nodupb (l_args l) = true.
Proof.
  unfold parse_untyped_predicate. destruct e as [s|[|[n|?] args]]; try discriminate.
  intros H. apply bind_ok_inv in H. destruct H as [args' [_ H]].
  destruct (negb (forallb (fun a => dmem sg a || dmem consts a) args')); try discriminate.
  destruct (has_dup args') eqn:E; try discriminate. inversion H; subst. simpl. apply nodupb_has_dup. exact E.
Qed.

(* destruct whatever the hypothesis H is matching on, dropping the branches that are errors *)
Ltac break_match H :=
  repeat (match type of H with
          | bind _ _ = Ok _ => let x := fresh "x" in let Hx := fresh "Hx" in
                               apply bind_ok_inv in H; destruct H as [x [Hx H]]
          | context [match ?x with _ => _ end] =>
              (is_var x; destruct x) || (let E := fresh "E" in destruct x eqn:E)
          end; try discriminate H).

Section Trees.
  Variable num : numparser.
  Variable funcs : pydict signature.

  (* the declared functions have distinct parameter names, and none is called like an operator *)
  Definition operator_names : list string := "=" :: comparison_ops ++ assignment_ops.
  Definition wf_funcs : Prop :=
    (forall f sg, dget funcs f = Some sg -> NoDup (dkeys sg)) /\
    (forall op, In op operator_names -> dget funcs op = None).

  Lemma construct_plain : wf_funcs -> forall fuel e t, construct num funcs fuel e = Ok t -> plain_tree t = true.
  Proof.
    intros [Hnd _]. induction fuel as [|fu IH]; intros e t H; [discriminate|].
    simpl in H. destruct e as [s|l].
    - unfold leaf_number in H. break_match H; inversion H; reflexivity.
    - destruct (all_atoms l) eqn:Ea.
      + break_match H; inversion H; subst; simpl; try reflexivity;
          try (apply nodupb_has_dup; assumption); try (apply NoDup_nodupb; eapply Hnd; eassumption).
      + destruct l as [|[h|?] [|a [|b [|? ?]]]]; try discriminate.
        apply bind_ok_inv in H. destruct H as [ta [Ha H]].
        apply bind_ok_inv in H. destruct H as [tb [Hb H]].
        inversion H. simpl. rewrite (IH a ta Ha), (IH b tb Hb). reflexivity.
  Qed.

  (* a condition or an assignment: the tree has the operator at its root *)
  Lemma construct_numexp : wf_funcs -> forall fuel h rest t,
    In h operator_names -> construct num funcs fuel (SList (Atom h :: rest)) = Ok t -> plain_numexp t = true.
  Proof.
    intros Hwf fuel h rest t Hh H. pose proof (construct_plain Hwf fuel _ t H) as Hp.
    destruct fuel as [|fu]; [discriminate|].
    Opaque str_in. simpl in H. Transparent str_in.
    assert (Hno : str_in h numeric_ops = false).
    { unfold operator_names, comparison_ops, assignment_ops in Hh. simpl in Hh.
      repeat (destruct Hh as [<-|Hh]; [reflexivity|]). contradiction. }
    rewrite Hno in H. destruct Hwf as [_ Hop]. rewrite (Hop h Hh) in H.
    destruct (all_atoms rest); [discriminate|].
    destruct rest as [|a [|b [|? ?]]]; try discriminate.
    apply bind_ok_inv in H. destruct H as [ta [Ha H]].
    apply bind_ok_inv in H. destruct H as [tb [Hb H]].
    inversion H; subst. exact Hp.
  Qed.
End Trees.

Lemma plain_add_operand c p : plain_pre (add_operand c p) = plain_pre p && plain_cond c.
Proof.
  destruct p as [op os eqs neqs]. unfold add_operand. rewrite !plain_pre_unfold, forallb_app. simpl.
  rewrite andb_true_r. reflexivity.
Qed.
Lemma plain_add_eq ab p : plain_pre (add_eq ab p) = plain_pre p.
Proof. destruct p. reflexivity. Qed.
Lemma plain_add_neq ab p : plain_pre (add_neq ab p) = plain_pre p.
Proof. destruct p. reflexivity. Qed.

Lemma str_in_operator h : h = "=" \/ str_in h comparison_ops = true \/ str_in h assignment_ops = true -> In h operator_names.
Proof.
  unfold operator_names. intros [->|[H|H]]; [left; reflexivity| |]; right; apply in_or_app;
    [left|right]; apply str_in_In; exact H.
Qed.

(* no numeral starts like a comparison (Python's float() accepts none) *)
Definition num_ok (num : numparser) : Prop :=
  forall s x, num s = Some x -> forall c r, s = String c r -> str_in (String c EmptyString) comparison_ops = false.

Section Preconditions.
  Variable num : numparser.
  Variable tt : typetable.
  Variable consts : pydict string.
  Variable preds : pydict signature.
  Variable funcs : pydict signature.
  Hypothesis Hwf : wf_funcs funcs.
  Hypothesis Hnum : num_ok num.

  (* a numeric condition built from a node whose head is a comparison operator *)
  Lemma construct_cmp_plain fuel node h t :
    head_of node = Ok h -> str_in h comparison_ops = true ->
    construct num funcs fuel node = Ok t -> plain_numexp t = true.
  Proof.
    intros Hh Hin H. destruct node as [s|[|[h'|?] rest]]; simpl in Hh; try discriminate.
    - (* a bare token: it would have to be a numeral starting like a comparison *)
      destruct fuel as [|fu]; [discriminate|]. simpl in H. unfold leaf_number in H.
      destruct (str_in s legal_numerical); [discriminate|].
      destruct (num s) as [x|] eqn:En; [|discriminate].
      destruct s as [|c r]; [discriminate|]. inversion Hh; subst h.
      rewrite (Hnum _ _ En c r eq_refl) in Hin. discriminate.
    - inversion Hh; subst h'. apply (construct_numexp num funcs Hwf fuel h rest t); [|exact H].
      apply str_in_operator. right. left. exact Hin.
  Qed.

  Lemma parse_pre_plain : forall fuel sg root nodes p,
    plain_pre root = true ->
    parse_pre num tt consts preds funcs fuel sg root nodes = Ok p -> plain_pre p = true.
  Proof.
    induction fuel as [|fu IH]; intros sg root nodes p Hroot H; [discriminate|].
    destruct nodes as [|node rest]; [simpl in H; inversion H; subst; exact Hroot|].
    Opaque str_in construct. simpl in H. Transparent str_in construct.
    apply bind_ok_inv in H. destruct H as [h [Hh H]].
    apply bind_ok_inv in H. destruct H as [root' [Hr H]].
    apply (IH sg root' rest p); [|exact H]. clear H.
    destruct (String.eqb h "and" || String.eqb h "or") eqn:E1.
    { destruct node as [s|[|x subs]]; try discriminate.
      apply bind_ok_inv in Hr. destruct Hr as [nested [Hn Hr]]. inversion Hr; subst.
      rewrite plain_add_operand, Hroot. simpl. apply (IH sg (MPre h [] [] []) subs nested); [reflexivity|exact Hn]. }
    destruct (dmem preds h) eqn:E2.
    { apply bind_ok_inv in Hr. destruct Hr as [lit [Hl Hr]]. inversion Hr; subst.
      rewrite plain_add_operand, Hroot. simpl. apply (parse_untyped_predicate_plain _ _ _ _ _ Hl). }
    destruct (String.eqb h "not") eqn:E3.
    { destruct node as [s|[|x [|inner more]]]; try discriminate.
      apply bind_ok_inv in Hr. destruct Hr as [ih [Hih Hr]].
      destruct (String.eqb ih "=").
      - break_match Hr; inversion Hr; subst; rewrite plain_add_neq; exact Hroot.
      - apply bind_ok_inv in Hr. destruct Hr as [lit [Hl Hr]]. inversion Hr; subst.
        rewrite plain_add_operand, Hroot. simpl. apply (parse_untyped_predicate_plain _ _ _ _ _ Hl). }
    destruct (String.eqb h "=") eqn:E4.
    { apply String.eqb_eq in E4. subst h.
      destruct node as [s|[|x [|[a|sub] more]]]; try discriminate.
      - destruct more as [|[b|?] ?]; try discriminate. inversion Hr; subst. rewrite plain_add_eq. exact Hroot.
      - apply bind_ok_inv in Hr. destruct Hr as [t [Ht Hr]]. inversion Hr; subst.
        rewrite plain_add_operand, Hroot. simpl.
        destruct x as [hx|?]; simpl in Hh; try discriminate. inversion Hh; subst hx.
        eapply (construct_numexp num funcs Hwf _ "="); [left; reflexivity|exact Ht]. }
    destruct (str_in h comparison_ops) eqn:E5.
    { apply bind_ok_inv in Hr. destruct Hr as [t [Ht Hr]]. inversion Hr; subst.
      rewrite plain_add_operand, Hroot. simpl. apply (construct_cmp_plain _ node h t Hh E5 Ht). }
    destruct (String.eqb h "forall") eqn:E6; [|discriminate].
    destruct node as [s|[|x [|[?|[|[v|?] [|? [|[ty|?] [|? ?]]]]] [|body ?]]]]; try discriminate.
    apply bind_ok_inv in Hr. destruct Hr as [bh [Hbh Hr]].
    destruct (negb (String.eqb bh "and" || String.eqb bh "or")); try discriminate.
    destruct (negb (type_known tt ty)); try discriminate.
    destruct body as [?|[|? subs]]; try discriminate.
    apply bind_ok_inv in Hr. destruct Hr as [u [Hu Hr]]. inversion Hr; subst.
    rewrite plain_add_operand, Hroot. simpl. apply (IH (dset sg v ty) (MPre bh [] [] []) subs u); [reflexivity|exact Hu].
  Qed.
End Preconditions.

(* matching a token against a literal keyword compiles to a decision tree over the bits of its characters:
   one step of that tree, closing the branches where the hypothesis has become an error *)
Ltac str_step s H :=
  destruct s as [|[[|] [|] [|] [|] [|] [|] [|] [|]] s]; try (simpl in H; discriminate H).

Section Effects.
  Variable num : numparser.
  Variable tt : typetable.
  Variable consts : pydict string.
  Variable preds : pydict signature.
  Variable funcs : pydict signature.
  Hypothesis Hwf : wf_funcs funcs.
  Hypothesis Hnum : num_ok num.

  Definition plain_result (r : mlit + mtree) : bool :=
    match r with inl l => plain_lit l | inr t => plain_numexp t end.

  Lemma parse_result_plain sg e r : parse_result num consts funcs sg e = Ok r -> plain_result r = true.
  Proof.
    unfold parse_result. intros H. apply bind_ok_inv in H. destruct H as [h [Hh H]].
    destruct (String.eqb h "not").
    - destruct e as [s|[|x [|inner more]]]; try discriminate.
      apply bind_ok_inv in H. destruct H as [l [Hl H]]. inversion H; subst. simpl.
      apply (parse_untyped_predicate_plain _ _ _ _ _ Hl).
    - destruct (str_in h assignment_ops) eqn:Ea.
      + apply bind_ok_inv in H. destruct H as [t [Ht H]]. inversion H; subst. simpl.
        destruct e as [s|[|[h'|?] rest]]; simpl in Hh; try discriminate.
        * (* a bare token: its head is a single character, never an assignment keyword *)
          destruct s as [|c r0]; [discriminate|]. inversion Hh; subst h.
          unfold assignment_ops in Ea. simpl in Ea. destruct r0; simpl in Ea.
          -- destruct (Ascii.eqb c "a"), (Ascii.eqb c "i"), (Ascii.eqb c "d"); discriminate.
          -- exfalso. clear -Ea. destruct c as [[|] [|] [|] [|] [|] [|] [|] [|]]; simpl in Ea; discriminate.
        * inversion Hh; subst h'. eapply (construct_numexp num funcs Hwf _ h rest t); [|exact Ht].
          apply str_in_operator. right. right. exact Ea.
      + apply bind_ok_inv in H. destruct H as [l [Hl H]]. inversion H; subst. simpl.
        apply (parse_untyped_predicate_plain _ _ _ _ _ Hl).
  Qed.

  Lemma split_results_plain rs :
    forallb plain_result rs = true ->
    forallb plain_lit (fst (split_results rs)) = true /\ forallb plain_numexp (snd (split_results rs)) = true.
  Proof.
    induction rs as [|[l|t] r IH]; simpl; intros H; [split; reflexivity| |];
      apply andb_true_iff in H; destruct H as [H1 H2]; destruct (IH H2) as [Ha Hb]; simpl in *.
    - rewrite H1. split; assumption.
    - rewrite H1. split; assumption.
  Qed.

  Lemma mapM_forallb {A C} (f : A -> result C) (P : C -> bool) l r :
    (forall x y, f x = Ok y -> P y = true) -> mapM f l = Ok r -> forallb P r = true.
  Proof.
    intros Hf. revert r. induction l as [|a l IH]; simpl; intros r H.
    - inversion H. reflexivity.
    - apply bind_ok_inv in H. destruct H as [y [Hy H]]. apply bind_ok_inv in H. destruct H as [ys [Hys H]].
      inversion H; subst. simpl. rewrite (Hf a y Hy), (IH ys Hys). reflexivity.
  Qed.

  (* the body of the 'when' branch *)
  Lemma when_body_plain sg cond res ce :
    (do ch <- head_of cond;
     let nodes := if String.eqb ch "and" then match cond with SList (_ :: subs) => subs | _ => [] end else [cond] in
     do ante <- parse_pre num tt consts preds funcs (S (size cond)) sg (MPre "and" [] [] []) nodes;
     do rh <- head_of res;
     do rs <- (if String.eqb rh "and"
               then match res with SList (_ :: subs) => mapM (parse_result num consts funcs sg) subs | _ => Err EType end
               else do r <- parse_result num consts funcs sg res; Ok [r]);
     let (disc, nums) := split_results rs in
     Ok {| ce_ante := ante; ce_disc := disc; ce_num := nums |}) = Ok ce ->
    plain_condeff ce = true.
  Proof.
    intros H. apply bind_ok_inv in H. destruct H as [ch [_ H]]. cbv zeta in H.
    apply bind_ok_inv in H. destruct H as [ante [Hante H]].
    apply bind_ok_inv in H. destruct H as [rh [_ H]].
    apply bind_ok_inv in H. destruct H as [rs [Hrs H]].
    assert (Hplain : forallb plain_result rs = true).
    { destruct (String.eqb rh "and").
      - destruct res as [?|[|? subs]]; try discriminate.
        apply (mapM_forallb _ _ _ _ (fun x y => parse_result_plain sg x y) Hrs).
      - apply bind_ok_inv in Hrs. destruct Hrs as [r [Hr Hrs]]. inversion Hrs; subst. simpl.
        rewrite (parse_result_plain sg res r Hr). reflexivity. }
    destruct (split_results_plain rs Hplain) as [Hd Hn].
    destruct (split_results rs) as [disc nums]. inversion H; subst. unfold plain_condeff.
    simpl in Hd, Hn. cbn [ce_ante ce_disc ce_num].
    rewrite Hd, Hn, (parse_pre_plain num tt consts preds funcs Hwf Hnum _ _ (MPre "and" [] [] []) _ _ eq_refl Hante).
    reflexivity.
  Qed.

  Lemma parse_conditional_effect_plain sg e ce :
    parse_conditional_effect num tt consts preds funcs sg e = Ok ce -> plain_condeff ce = true.
  Proof.
    intros H. destruct e as [s|[|[s|?] rest]]; try discriminate.
    unfold parse_conditional_effect in H.
    str_step s H. str_step s H. str_step s H. str_step s H.
    destruct s as [|? ?]; [|simpl in H; discriminate H].
    destruct rest as [|cond [|res [|? ?]]]; try discriminate.
    apply (when_body_plain sg cond res ce H).
  Qed.

  Lemma parse_universal_effect_plain sg e ue :
    parse_universal_effect num tt consts preds funcs sg e = Ok ue -> plain_condeff (ue_ce ue) = true.
  Proof.
    unfold parse_universal_effect. intros H.
    destruct e as [s|[|x [|[?|[|[v|?] [|? [|[ty|?] [|? ?]]]]] [|cef [|? ?]]]]]; try discriminate.
    destruct (negb (type_known tt ty)); try discriminate.
    apply bind_ok_inv in H. destruct H as [c [Hc H]]. inversion H; subst. simpl.
    apply (parse_conditional_effect_plain _ _ _ Hc).
  Qed.

  Definition plain_acc (acc : effacc) : bool :=
    forallb plain_lit (ea_disc acc) && forallb plain_numexp (ea_num acc) && forallb plain_condeff (ea_cond acc) &&
    forallb (fun ue => plain_condeff (ue_ce ue)) (ea_univ acc).

  Lemma forallb_snoc {A} (f : A -> bool) l x : forallb f (l ++ [x]) = forallb f l && f x.
  Proof. rewrite forallb_app. simpl. rewrite andb_true_r. reflexivity. Qed.

  Lemma parse_effect_node_plain sg acc node acc' :
    plain_acc acc = true -> parse_effect_node num tt consts preds funcs sg acc node = Ok acc' -> plain_acc acc' = true.
  Proof.
    unfold plain_acc. intros Hacc H. rewrite !andb_true_iff in Hacc. destruct Hacc as [[[Hd Hn] Hc] Hu].
    unfold parse_effect_node in H. apply bind_ok_inv in H. destruct H as [h [Hh H]].
    destruct (dmem preds h).
    { apply bind_ok_inv in H. destruct H as [l [Hl H]]. inversion H; subst. simpl.
      rewrite forallb_snoc, Hd, Hn, Hc, Hu; simpl; rewrite ?andb_true_r.
      apply (parse_untyped_predicate_plain _ _ _ _ _ Hl). }
    destruct (String.eqb h "not").
    { destruct node as [s|[|x [|inner more]]]; try discriminate.
      apply bind_ok_inv in H. destruct H as [l [Hl H]]. inversion H; subst. simpl.
      rewrite forallb_snoc, Hd, Hn, Hc, Hu; simpl; rewrite ?andb_true_r.
      apply (parse_untyped_predicate_plain _ _ _ _ _ Hl). }
    destruct (String.eqb h "forall").
    { apply bind_ok_inv in H. destruct H as [u [Hue H]]. inversion H; subst. simpl.
      rewrite forallb_snoc, Hd, Hn, Hc, Hu; simpl; rewrite ?andb_true_r. apply (parse_universal_effect_plain _ _ _ Hue). }
    destruct (String.eqb h "when").
    { apply bind_ok_inv in H. destruct H as [c [Hce H]]. inversion H; subst. simpl.
      rewrite forallb_snoc, Hd, Hn, Hc, Hu; simpl; rewrite ?andb_true_r.
      apply (parse_conditional_effect_plain _ _ _ Hce). }
    destruct (str_in h assignment_ops) eqn:Ea; [|discriminate].
    apply bind_ok_inv in H. destruct H as [t [Ht H]]. inversion H; subst. simpl.
    rewrite forallb_snoc, Hd, Hn, Hc, Hu; simpl; rewrite ?andb_true_r.
    destruct node as [s|[|[h'|?] rest]]; simpl in Hh; try discriminate.
    - destruct s as [|c r0]; [discriminate|]. inversion Hh; subst h.
      unfold assignment_ops in Ea. simpl in Ea. destruct r0; simpl in Ea.
      + destruct (Ascii.eqb c "a"), (Ascii.eqb c "i"), (Ascii.eqb c "d"); discriminate.
      + exfalso. clear -Ea. destruct c as [[|] [|] [|] [|] [|] [|] [|] [|]]; simpl in Ea; discriminate.
    - inversion Hh; subst h'. eapply (construct_numexp num funcs Hwf _ h rest t); [|exact Ht].
      apply str_in_operator. right. right. exact Ea.
  Qed.

  Lemma foldM_inv {A S} (P : S -> Prop) (f : S -> A -> result S) l :
    (forall s x s', P s -> f s x = Ok s' -> P s') -> forall s s', P s -> foldM f l s = Ok s' -> P s'.
  Proof.
    intros Hf. induction l as [|x r IH]; simpl; intros s s' Hs H.
    - inversion H; subst. exact Hs.
    - apply bind_ok_inv in H. destruct H as [s1 [H1 H]]. apply (IH s1 s'); [apply (Hf s x s1 Hs H1)|exact H].
  Qed.

  Lemma parse_effects_plain sg e acc : parse_effects num tt consts preds funcs sg e = Ok acc -> plain_acc acc = true.
  Proof.
    unfold parse_effects. intros H. apply bind_ok_inv in H. destruct H as [h [_ H]].
    destruct (negb (String.eqb h "and")); try discriminate.
    destruct e as [s|[|x nodes]]; try discriminate.
    apply (foldM_inv (fun a => plain_acc a = true) _ nodes
                     (fun s x s' Hs Hx => parse_effect_node_plain sg s x s' Hs Hx)
                     {| ea_disc := []; ea_num := []; ea_cond := []; ea_univ := [] |} acc eq_refl H).
  Qed.
End Effects.

(* one step of the decision tree over a keyword, solving the branches that left the keyword with [tac] *)
Ltac kw_step s H tac :=
  destruct s as [|[[|] [|] [|] [|] [|] [|] [|] [|]] s]; cbv beta iota in H; try (solve [tac]).

Section Actions.
  Variable num : numparser.
  Variable tt : typetable.
  Variable consts : pydict string.
  Variable preds : pydict signature.
  Variable funcs : pydict signature.
  Hypothesis Hwf : wf_funcs funcs.
  Hypothesis Hnum : num_ok num.

  Lemma parse_preconditions_plain sg e p :
    parse_preconditions num tt consts preds funcs sg e = Ok p -> plain_pre p = true.
  Proof.
    unfold parse_preconditions. intros H. destruct e as [s|[|hd args]]; try discriminate.
    - inversion H. reflexivity.
    - assert (Hother : (if Nat.ltb 1 (List.length args) then Err ESyntax
                        else parse_pre num tt consts preds funcs (S (S (size (SList (hd :: args))))) sg empty_pre
                                       [SList (hd :: args)]) = Ok p -> plain_pre p = true).
      { intros H'. destruct (Nat.ltb 1 (List.length args)); [discriminate|].
        apply (parse_pre_plain num tt consts preds funcs Hwf Hnum _ _ empty_pre _ _ eq_refl H'). }
      destruct hd as [s|l]; [|exact (Hother H)].
      kw_step s H ltac:(exact (Hother H)). kw_step s H ltac:(exact (Hother H)). kw_step s H ltac:(exact (Hother H)).
      destruct s as [|? ?]; [|exact (Hother H)].
      apply (parse_pre_plain num tt consts preds funcs Hwf Hnum _ _ empty_pre _ _ eq_refl H).
  Qed.

  Lemma plain_action_fields a :
    plain_action a = true <->
    nodupb (dkeys (ma_sig a)) = true /\ plain_pre (ma_pre a) = true /\
    plain_acc {| ea_disc := ma_disc a; ea_num := ma_num a; ea_cond := ma_cond a; ea_univ := ma_univ a |} = true.
  Proof.
    unfold plain_action, plain_acc. simpl. rewrite !andb_true_iff. tauto.
  Qed.

  Lemma parse_sections_plain : forall fuel items a a',
    plain_action a = true -> parse_sections num tt consts preds funcs fuel items a = Ok a' -> plain_action a' = true.
  Proof.
    induction fuel as [|fu IH]; intros items a a' Ha H; [discriminate|].
    destruct items as [|x l]; [simpl in H; inversion H; subst; exact Ha|].
    cbn [parse_sections] in H.
    destruct x as [s|?]; [|apply (IH l a a' Ha H)].
    apply plain_action_fields in Ha. destruct Ha as [Hs [Hp Hacc]].
    assert (Hdefault : forall rest, parse_sections num tt consts preds funcs fu rest a = Ok a' -> plain_action a' = true).
    { intros rest H'. apply (IH rest a a'); [|exact H']. apply plain_action_fields. auto. }
    (* ":parameters" / ":precondition" / ":effect" *)
    kw_step s H ltac:(exact (Hdefault _ H)).
    kw_step s H ltac:(exact (Hdefault _ H)).
    all: kw_step s H ltac:(exact (Hdefault _ H)).
    all: kw_step s H ltac:(exact (Hdefault _ H)).
    all: kw_step s H ltac:(exact (Hdefault _ H)).
    all: kw_step s H ltac:(exact (Hdefault _ H)).
    all: kw_step s H ltac:(exact (Hdefault _ H)).
    all: try (kw_step s H ltac:(exact (Hdefault _ H))).
    all: try (kw_step s H ltac:(exact (Hdefault _ H))).
    all: try (kw_step s H ltac:(exact (Hdefault _ H))).
    all: try (kw_step s H ltac:(exact (Hdefault _ H))).
    all: try (kw_step s H ltac:(exact (Hdefault _ H))).
    all: try (kw_step s H ltac:(exact (Hdefault _ H))).
    all: try (kw_step s H ltac:(exact (Hdefault _ H))).
    all: try (destruct s as [|? ?]; cbv beta iota in H; [|solve [exact (Hdefault _ H)]]).
    all: destruct l as [|y rest]; [try discriminate H; exact (Hdefault _ H)|].
    all: match type of H with
         | context [parse_effects] =>
             apply bind_ok_inv in H; destruct H as [ef [Hef H]];
             eapply (IH rest); [|exact H]; apply plain_action_fields; cbn [ma_sig ma_pre ma_disc ma_num ma_cond ma_univ];
             split; [exact Hs|split; [exact Hp|]];
             pose proof (parse_effects_plain num tt consts preds funcs Hwf Hnum _ _ _ Hef) as Hpl;
             destruct ef; exact Hpl
         | context [parse_preconditions] =>
             apply bind_ok_inv in H; destruct H as [p [Hpre H]];
             eapply (IH rest); [|exact H]; apply plain_action_fields; cbn [ma_sig ma_pre ma_disc ma_num ma_cond ma_univ];
             split; [exact Hs|split; [apply (parse_preconditions_plain _ _ _ Hpre)|exact Hacc]]
         | context [parse_signature] =>
             destruct y as [?|ps]; [discriminate H|];
             apply bind_ok_inv in H; destruct H as [sg [Hsg H]];
             eapply (IH rest); [|exact H]; apply plain_action_fields; cbn [ma_sig ma_pre ma_disc ma_num ma_cond ma_univ];
             split; [apply NoDup_nodupb; apply (parse_signature_NoDup _ _ _ Hsg)|split; [exact Hp|exact Hacc]]
         end.
  Qed.

  Theorem parse_action_plain e a :
    parse_action num tt consts preds funcs e = Ok a -> plain_action a = true.
  Proof.
    unfold parse_action. intros H. destruct e as [|[n|?] items]; try discriminate.
    destruct (negb (Nat.eqb (List.length items) 6)); try discriminate.
    eapply parse_sections_plain; [|exact H]. reflexivity.
  Qed.

  Theorem parse_action_well_formed e a :
    parse_action num tt consts preds funcs e = Ok a -> well_formed a = true.
  Proof. intros H. apply well_formed_of_plain. apply (parse_action_plain e a H). Qed.
End Actions.

(* the function table built by the domain parser has distinct parameter names in every declaration *)
Lemma parsed_funcs_NoDup tt (body : list sexp) (fs : pydict signature) :
  foldM (fun acc f => do ns <- parse_function tt f; Ok (dset acc (fst ns) (snd ns))) body [] = Ok fs ->
  forall f sg, dget fs f = Some sg -> NoDup (dkeys sg).
Proof.
  intros H.
  apply (foldM_inv (fun d : pydict signature => forall f sg, dget d f = Some sg -> NoDup (dkeys sg))
                   (fun acc f => do ns <- parse_function tt f; Ok (dset acc (fst ns) (snd ns))) body) with (s := []).
  - intros d x d' Hd Hx f sg Hget. apply bind_ok_inv in Hx. destruct Hx as [[n sgn] [Hp Hx]]. inversion Hx; subst d'.
    simpl in Hget. destruct (string_dec f n) as [->|Hne].
    + rewrite dget_dset_same in Hget. inversion Hget; subst sg.
      unfold parse_function in Hp. destruct x as [?|[|[nm|?] params]]; try discriminate.
      destruct (negb (Nat.eqb (Nat.modulo (List.length params) 3) 0)); try discriminate.
      apply bind_ok_inv in Hp. destruct Hp as [sg' [Hsg Hp]]. inversion Hp; subst.
      apply (parse_signature_NoDup _ _ _ Hsg).
    + rewrite dget_dset_other in Hget by exact Hne. apply (Hd f sg Hget).
  - intros f sg Hget. discriminate.
  - exact H.
Qed.

(* for an action read by the parser the side condition is a condition on the mapping alone *)
Theorem parsed_renaming_ok (num : numparser) (dom : mdomain) (e : list sexp) (a : maction) (m : renaming) :
  wf_funcs (d_funcs dom) -> num_ok num ->
  parse_action num (d_types dom) (d_consts dom) (d_preds dom) (d_funcs dom) e = Ok a ->
  let ps := dkeys (ma_sig a) in
  (forall n, ~ In n ps -> rn m n = n) ->
  (forall x y, In x ps -> In y ps -> rn m x = rn m y -> x = y) ->
  (forall p, In p ps -> rn m p <> p ->
     (In (rn m p) ps \/ ~ In (rn m p) (names_action a)) /\
     ~ In (rn m p) (bound_maction a) /\ dmem (d_consts dom) (rn m p) = false /\ dmem (d_consts dom) p = false) ->
  renaming_ok dom a m = true.
Proof.
  intros Hwf Hnum Hparse ps Hmove Hinj Hland.
  apply renaming_ok_intro; try assumption.
  apply (parse_action_well_formed num (d_types dom) (d_consts dom) (d_preds dom) (d_funcs dom) Hwf Hnum e a Hparse).
Qed.
