(* Definitions used by the statements of property C01: the vocabulary of a parsed (model) domain, the effects a
   parsed action denotes, and "every first use of the action is an error". *)
From Coq Require Import List Ascii String Bool Arith PrimFloat.
From Verif Require Import Base.Result Base.Str Base.Sexp Base.PyDict Model.Types Model.Domain Model.Exec
  Spec.Pddl Spec.Grammar Spec.Faithful.
Import ListNotations.
Open Scope string_scope.
Open Scope list_scope.

(* ---------- vocabulary of the parsed domain: its public tables, as they are ---------- *)
Definition model_vocabulary (m : mdomain) : vocabulary :=
  {| vo_types := d_types m;
     vo_consts := d_consts m;
     vo_preds := d_preds m;
     vo_funcs := d_funcs m;
     vo_actions := map (fun na => (fst na, ma_sig (snd na))) (d_actions m) |}.

(* ---------- the effects an action of the object model denotes ---------- *)
Definition denote_lit (l : mlit) : prim :=
  if l_pos l then PAdd (l_name l) (l_args l) else PDel (l_name l) (l_args l).

Definition denote_numeff (t : mtree) : option prim :=
  match t with
  | TNode op (TFn f args) rhs =>
      match assignop_of op, denote_tree rhs with
      | Some k, Some r => Some (PNum k f args r)
      | _, _ => None
      end
  | _ => None
  end.

Definition denote_group (disc : list mlit) (nums : list mtree) : option (list prim) :=
  match all_some (map denote_numeff nums) with
  | Some ns => Some (map denote_lit disc ++ ns)
  | None => None
  end.

Definition denote_condeff (ce : mcondeff) : option (form * list prim) :=
  match denote_pre (ce_ante ce), denote_group (ce_disc ce) (ce_num ce) with
  | Some c, Some ps => Some (c, ps)
  | _, _ => None
  end.

(* the unconditional group, then one group per 'when', then one per 'forall-when' *)
Definition denote_univeff (u : muniveff) : option eff :=
  match denote_condeff (ue_ce u) with
  | Some (c, ps) => Some (EForall (ue_var u) (ue_ty u) c ps)
  | None => None
  end.

Definition denote_eff_parts (disc : list mlit) (nums : list mtree) (conds : list mcondeff)
           (univs : list muniveff) : option (list eff) :=
  match denote_group disc nums, all_some (map denote_condeff conds), all_some (map denote_univeff univs) with
  | Some g0, Some cs, Some us => Some (EPrims g0 :: map (fun cp => EWhen (fst cp) (snd cp)) cs ++ us)
  | _, _, _ => None
  end.

Definition denote_effs (a : maction) : option (list eff) :=
  denote_eff_parts (ma_disc a) (ma_num a) (ma_cond a) (ma_univ a).

(* ---------- "the affected action cannot be used without an error" ---------- *)
(* Operator.ground() fails for every call of the action *)
Definition ground_always_errors (m : mdomain) (a : maction) : Prop :=
  forall args, exists k, ground_action m a args = Err k.

(* ---------- one action of the object model against one action of the independent reading ---------- *)
Definition action_faithful (ma : maction) (sa : action) : Prop :=
  ma_name ma = lower_string (a_name sa) /\
  ma_sig ma = dict_of (a_params sa) /\
  (exists f', denote_pre (ma_pre ma) = Some f' /\ form_equiv f' (a_pre sa)) /\
  (exists es', denote_effs ma = Some es' /\ effs_rel es' (a_effs sa)).

Definition name_pair (a : maction) : string * maction := (ma_name a, a).

(* declared names are names: no reserved word, no ':private' marker *)
Definition names_not_keywords (names : list string) : bool :=
  forallb (fun n => negb (str_in n keywords)) names.
Definition names_ok (sd : sdomain) : Prop :=
  names_not_keywords (map fst (sd_preds sd)) = true /\ names_not_keywords (map fst (sd_funcs sd)) = true /\
  ~ In ":private" (map fst (sd_preds sd)).

(* ---------- the second half at full strength: false where the library stores something it cannot evaluate
   ('(= 1 1.0)'); such an action raises when it is grounded (Proofs/C01_Witness.v) ---------- *)
Definition faithful_statement : Prop :=
  forall num e m sd n ma,
    parse_domain num e = Ok m -> read_domain num e = Some sd -> sections_once e -> names_ok sd ->
    dget (d_actions m) n = Some ma ->
    exists sa, In sa (sd_actions sd) /\ n = lower_string (a_name sa) /\ action_faithful ma sa.
