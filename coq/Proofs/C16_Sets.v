(* C16: facts and fluents of Spec.Pddl states read as sets / finite maps - the basic lemmas the commutation proof needs.
   (The statements of this file coincide with lemmas of Proofs/C03_Spec.v written by the C03 builder; they are repeated
   here so that the C04/C16 proofs build on their own.) *)
From Coq Require Import List String Bool PrimFloat Permutation Arith Lia.
From Verif Require Import Base.Str Spec.Pddl Spec.Joint.
Import ListNotations.
Open Scope string_scope.
Open Scope list_scope.

Lemma list_eqb_string_eq : forall l1 l2 : list string, list_eqb String.eqb l1 l2 = true <-> l1 = l2.
Proof.
  induction l1 as [|x xs IH]; intros [|y ys]; simpl; split; intros H; try reflexivity; try discriminate.
  - apply andb_true_iff in H. destruct H as [H1 H2]. apply String.eqb_eq in H1. apply IH in H2. congruence.
  - inversion H; subst. rewrite String.eqb_refl. simpl. apply IH. reflexivity.
Qed.

Lemma atom_eqb_eq : forall a b : atom, atom_eqb a b = true <-> a = b.
Proof.
  intros [p x] [q y]. unfold atom_eqb. simpl. split; intros H.
  - apply andb_true_iff in H. destruct H as [H1 H2]. apply String.eqb_eq in H1. apply list_eqb_string_eq in H2. congruence.
  - inversion H; subst. rewrite String.eqb_refl. simpl. apply list_eqb_string_eq. reflexivity.
Qed.

Lemma atom_eqb_refl : forall a, atom_eqb a a = true.
Proof. intros a. apply atom_eqb_eq. reflexivity. Qed.

Lemma atom_eqb_neq : forall a b : atom, atom_eqb a b = false <-> a <> b.
Proof.
  intros a b. split; intros H.
  - intros E. apply atom_eqb_eq in E. congruence.
  - destruct (atom_eqb a b) eqn:E; [apply atom_eqb_eq in E; contradiction | reflexivity].
Qed.

Lemma atom_eqb_sym : forall a b, atom_eqb a b = atom_eqb b a.
Proof.
  intros a b. destruct (atom_eqb a b) eqn:E.
  - apply atom_eqb_eq in E. subst. symmetry. apply atom_eqb_refl.
  - symmetry. apply atom_eqb_neq. apply atom_eqb_neq in E. congruence.
Qed.

Lemma atom_in_In : forall a l, atom_in a l = true <-> In a l.
Proof.
  intros a l. unfold atom_in. rewrite existsb_exists. split.
  - intros [x [Hx E]]. apply atom_eqb_eq in E. subst. exact Hx.
  - intros H. exists a. split; [exact H | apply atom_eqb_refl].
Qed.

Lemma atom_in_false : forall a l, atom_in a l = false <-> ~ In a l.
Proof.
  intros a l. split; intros H.
  - intros HI. apply atom_in_In in HI. congruence.
  - destruct (atom_in a l) eqn:E; [apply atom_in_In in E; contradiction | reflexivity].
Qed.

Lemma atom_in_app : forall a l1 l2, atom_in a (l1 ++ l2) = atom_in a l1 || atom_in a l2.
Proof. intros. unfold atom_in. apply existsb_app. Qed.

Lemma atom_in_cons : forall a b l, atom_in a (b :: l) = atom_eqb a b || atom_in a l.
Proof. reflexivity. Qed.

Lemma atom_in_ext : forall l l', (forall a, In a l <-> In a l') -> forall a, atom_in a l = atom_in a l'.
Proof.
  intros l l' H a. destruct (atom_in a l) eqn:E.
  - symmetry. apply atom_in_In. apply H. apply atom_in_In. exact E.
  - symmetry. apply atom_in_false. intros HI. apply H in HI. apply atom_in_In in HI. congruence.
Qed.

Lemma atom_in_perm : forall l l', Permutation l l' -> forall a, atom_in a l = atom_in a l'.
Proof.
  intros l l' HP. apply atom_in_ext. intros a. split; apply Permutation_in; [exact HP | apply Permutation_sym; exact HP].
Qed.

Lemma atom_in_remove : forall a b l, atom_in a (remove_atom b l) = atom_in a l && negb (atom_eqb a b).
Proof.
  intros a b l. induction l as [|x r IH]; simpl; [reflexivity|].
  destruct (atom_eqb b x) eqn:Ebx; simpl.
  - apply atom_eqb_eq in Ebx. subst x. rewrite IH.
    destruct (atom_eqb a b); simpl; [rewrite andb_false_r; reflexivity | reflexivity].
  - rewrite IH. destruct (atom_eqb a x) eqn:Eax; simpl; [|reflexivity].
    apply atom_eqb_eq in Eax. subst x. rewrite (atom_eqb_sym a b), Ebx. reflexivity.
Qed.

Lemma atom_in_add : forall a b l, atom_in a (add_atom b l) = atom_in a l || atom_eqb a b.
Proof.
  intros a b l. unfold add_atom. destruct (atom_in b l) eqn:E.
  - destruct (atom_eqb a b) eqn:Eab; [|rewrite orb_false_r; reflexivity].
    apply atom_eqb_eq in Eab. subst. rewrite E. reflexivity.
  - rewrite atom_in_app. simpl. rewrite orb_false_r. reflexivity.
Qed.

Lemma fluent_get_set : forall a b v l,
  fluent_get a (fluent_set b v l) = if atom_eqb a b then Some v else fluent_get a l.
Proof.
  intros a b v l. induction l as [|[k w] r IH]; simpl.
  - reflexivity.
  - destruct (atom_eqb b k) eqn:Ebk; simpl.
    + apply atom_eqb_eq in Ebk. subst k. destruct (atom_eqb a b); reflexivity.
    + destruct (atom_eqb a k) eqn:Eak.
      * apply atom_eqb_eq in Eak. subst k. rewrite (atom_eqb_sym a b), Ebk. reflexivity.
      * exact IH.
Qed.

(* ---------- states as sets / finite maps ---------- *)

(* ---------- states as sets / finite maps: Spec.Joint.st_equiv ---------- *)
Lemma st_equiv_refl : forall s, st_equiv s s.
Proof. intros s. split; reflexivity. Qed.
Lemma st_equiv_sym : forall s t, st_equiv s t -> st_equiv t s.
Proof. intros s t [H1 H2]. split; intros a; symmetry; auto. Qed.
Lemma st_equiv_trans : forall s t u, st_equiv s t -> st_equiv t u -> st_equiv s u.
Proof. intros s t u [H1 H2] [H3 H4]. split; intros a; [rewrite H1; apply H3 | rewrite H2; apply H4]. Qed.

(* ---------- one group ---------- *)
Definition nondel (x : gprim) : bool := negb (is_del x).

Lemma fold_dels_facts : forall a g s,
  atom_in a (facts (fold_left apply_gprim (filter is_del g) s)) = atom_in a (facts s) && negb (atom_in a (dels_of g)).
Proof.
  intros a g. induction g as [|x r IH]; intros s; simpl.
  - rewrite andb_true_r. reflexivity.
  - destruct x as [b|b|b v]; simpl; rewrite IH; simpl; try reflexivity.
    rewrite atom_in_remove. rewrite negb_orb. rewrite andb_assoc. reflexivity.
Qed.

Lemma fold_dels_fluents : forall g s, fluents (fold_left apply_gprim (filter is_del g) s) = fluents s.
Proof.
  induction g as [|x r IH]; intros s; simpl; [reflexivity|].
  destruct x; simpl; try rewrite IH; reflexivity.
Qed.

Lemma fold_nondel_facts : forall a g s,
  atom_in a (facts (fold_left apply_gprim (filter (fun x => negb (is_del x)) g) s)) =
  atom_in a (facts s) || atom_in a (adds_of g).
Proof.
  intros a g. induction g as [|x r IH]; intros s; simpl.
  - rewrite orb_false_r. reflexivity.
  - destruct x as [b|b|b v]; simpl; rewrite IH; simpl; try reflexivity.
    rewrite atom_in_add. rewrite orb_assoc. reflexivity.
Qed.

Lemma group_facts : forall a g s,
  atom_in a (facts (apply_group s g)) =
  atom_in a (adds_of g) || (atom_in a (facts s) && negb (atom_in a (dels_of g))).
Proof.
  intros a g s. unfold apply_group. rewrite fold_nondel_facts, fold_dels_facts. apply orb_comm.
Qed.

(* the value a list of primitive effects leaves in fluent [a]: the last assignment to it *)
Fixpoint last_set (a : atom) (g : list gprim) : option float :=
  match g with
  | [] => None
  | x :: r =>
      match last_set a r with
      | Some v => Some v
      | None => match x with GSet b v => if atom_eqb a b then Some v else None | _ => None end
      end
  end.

Definition or_else (o : option float) (d : option float) : option float :=
  match o with Some v => Some v | None => d end.

Lemma fold_fluents : forall a g s,
  fluent_get a (fluents (fold_left apply_gprim g s)) = or_else (last_set a g) (fluent_get a (fluents s)).
Proof.
  intros a g. induction g as [|x r IH]; intros s; simpl; [reflexivity|].
  rewrite IH. destruct (last_set a r); simpl; [reflexivity|].
  destruct x as [b|b|b v]; simpl; try reflexivity.
  rewrite fluent_get_set. destruct (atom_eqb a b); reflexivity.
Qed.

Lemma last_set_app : forall a g h, last_set a (g ++ h) = or_else (last_set a h) (last_set a g).
Proof.
  intros a g h. induction g as [|x r IH]; simpl.
  - destruct (last_set a h); reflexivity.
  - rewrite IH. destruct (last_set a h); simpl; reflexivity.
Qed.

Lemma last_set_filter_nondel : forall a g, last_set a (filter (fun x => negb (is_del x)) g) = last_set a g.
Proof.
  intros a g. induction g as [|x r IH]; simpl; [reflexivity|].
  destruct x as [b|b|b v]; simpl; rewrite IH; try reflexivity.
  destruct (last_set a r); reflexivity.
Qed.

Lemma group_fluents : forall a g s,
  fluent_get a (fluents (apply_group s g)) = or_else (last_set a g) (fluent_get a (fluents s)).
Proof.
  intros a g s. unfold apply_group. rewrite fold_fluents, last_set_filter_nondel, fold_dels_fluents. reflexivity.
Qed.


Lemma FOP_perm : forall (A : Type) (R : A -> A -> Prop), (forall x y, R x y -> R y x) ->
  forall l l', Permutation l l' -> ForallOrdPairs R l -> ForallOrdPairs R l'.
Proof.
  intros A R Hsym l l' HP. induction HP as [|x l l' HP IH|x y l|l l' l'' HP1 IH1 HP2 IH2]; intros H.
  - exact H.
  - inversion H as [|a b HF HO]; subst. constructor; [|apply IH; exact HO].
    eapply Permutation_Forall; [exact HP | exact HF].
  - inversion H as [|a b HF HO]; subst. inversion HO as [|a' b' HF' HO']; subst.
    inversion HF as [|a'' b'' Hyx HFy]; subst.
    constructor; [constructor; [apply Hsym; exact Hyx | exact HF'] | constructor; [exact HFy | exact HO']].
  - apply IH2. apply IH1. exact H.
Qed.

Lemma sets_of_In : forall a g, In a (sets_of g) <-> exists v, In (GSet a v) g.
Proof.
  intros a g. unfold sets_of. rewrite in_flat_map. split.
  - intros [x [Hx Ha]]. destruct x as [b|b|b v]; simpl in Ha; try contradiction.
    destruct Ha as [E|[]]. subst. exists v. exact Hx.
  - intros [v Hv]. exists (GSet a v). split; [exact Hv | left; reflexivity].
Qed.

Lemma last_set_Some_In : forall a g v, last_set a g = Some v -> In (GSet a v) g.
Proof.
  intros a g v. induction g as [|x r IH]; simpl; [discriminate|].
  destruct (last_set a r) eqn:E.
  - intros H. right. apply IH. exact H.
  - destruct x as [b|b|b w]; try discriminate.
    destruct (atom_eqb a b) eqn:Eab; [|discriminate].
    intros H. inversion H; subst. apply atom_eqb_eq in Eab. subst. left. reflexivity.
Qed.

Lemma last_set_None : forall a g, last_set a g = None <-> ~ In a (sets_of g).
Proof.
  intros a g. induction g as [|x r IH]; simpl.
  - split; [intros _ [] | reflexivity].
  - unfold sets_of in *. simpl. rewrite in_app_iff. destruct (last_set a r) eqn:E.
    + split; [discriminate|]. intros H. exfalso. apply H. right.
      destruct (in_dec (fun x y : atom => ltac:(destruct (atom_eqb x y) eqn:Q; [left; apply atom_eqb_eq; exact Q | right; apply atom_eqb_neq; exact Q]))
                       a (flat_map (fun x0 => match x0 with GSet a0 _ => [a0] | _ => [] end) r)) as [Hi|Hn]; [exact Hi|].
      apply IH in Hn. discriminate.
    + destruct IH as [IH1 _]. specialize (IH1 eq_refl).
      destruct x as [b|b|b w]; simpl.
      * split; [intros _ [[]|H]; contradiction | reflexivity].
      * split; [intros _ [[]|H]; contradiction | reflexivity].
      * destruct (atom_eqb a b) eqn:Eab.
        -- apply atom_eqb_eq in Eab. subst. split; [discriminate|]. intros H. exfalso. apply H. left. left. reflexivity.
        -- apply atom_eqb_neq in Eab. split; [|reflexivity]. intros _ [[E2|[]]|H]; [congruence | contradiction].
Qed.
