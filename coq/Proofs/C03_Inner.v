(* C03: the order in which the action OBJECT stores its effects (the library keeps discrete effects, numeric effects,
   conditional effects and universal effects in hash sets) does not matter: two model actions that differ only by
   permutations of these collections denote effect lists with the same successor. *)
From Coq Require Import List String Bool PrimFloat Permutation.
From Verif Require Import Base.Result Base.Str Base.PyDict Model.Types Model.Domain Model.Exec Spec.Pddl
  Proofs.C03_Spec Proofs.C03_Defs.
Import ListNotations.
Open Scope list_scope.

Definition ce_perm (c c' : mcondeff) : Prop :=
  ce_ante c = ce_ante c' /\ Permutation (ce_disc c) (ce_disc c') /\ Permutation (ce_num c) (ce_num c').

Definition ue_perm (u u' : muniveff) : Prop :=
  ue_var u = ue_var u' /\ ue_ty u = ue_ty u' /\ ce_perm (ue_ce u) (ue_ce u').

Definition perm_then {A} (R : A -> A -> Prop) (l l' : list A) : Prop :=
  exists l1, Permutation l l1 /\ Forall2 R l1 l'.

(* the same action, its effect collections stored in other orders *)
Definition maction_perm (a a' : maction) : Prop :=
  ma_name a = ma_name a' /\ ma_sig a = ma_sig a' /\ ma_pre a = ma_pre a' /\
  Permutation (ma_disc a) (ma_disc a') /\ Permutation (ma_num a) (ma_num a') /\
  perm_then ce_perm (ma_cond a) (ma_cond a') /\ perm_then ue_perm (ma_univ a) (ma_univ a').

Lemma opt_all_perm : forall (A : Type) (l l' : list (option A)) xs,
  Permutation l l' -> opt_all l = Some xs -> exists xs', opt_all l' = Some xs' /\ Permutation xs xs'.
Proof.
  intros A l l' xs HP. revert xs. induction HP as [|o l l' HP IH|o1 o2 l|l l' l'' HP1 IH1 HP2 IH2]; intros xs H.
  - exists xs. split; [exact H | apply Permutation_refl].
  - simpl in *. destruct o as [x|]; [|discriminate]. destruct (opt_all l) as [ys|] eqn:E; [|discriminate].
    inversion H; subst. destruct (IH ys eq_refl) as [ys' [E' P']]. rewrite E'. exists (x :: ys'). split; [reflexivity | constructor; exact P'].
  - simpl in *. destruct o2 as [x2|]; [|discriminate]. destruct o1 as [x1|]; [|discriminate].
    destruct (opt_all l) as [ys|]; [|discriminate]. inversion H; subst. exists (x1 :: x2 :: ys). split; [reflexivity | apply perm_swap].
  - destruct (IH1 xs H) as [ys [E1 P1]]. destruct (IH2 ys E1) as [zs [E2 P2]]. exists zs. split; [exact E2 | eapply Permutation_trans; eauto].
Qed.

Lemma opt_all_Forall2 : forall (A B : Type) (R : A -> A -> Prop) (S : B -> B -> Prop) (f : A -> option B) l l' xs,
  (forall x x' y, R x x' -> f x = Some y -> exists y', f x' = Some y' /\ S y y') ->
  Forall2 R l l' -> opt_all (map f l) = Some xs -> exists xs', opt_all (map f l') = Some xs' /\ Forall2 S xs xs'.
Proof.
  intros A B R S f l l' xs Hf HF. revert xs. induction HF as [|x x' l l' Hx HF IH]; intros xs H.
  - simpl in *. inversion H. exists []. split; [reflexivity | constructor].
  - simpl in *. destruct (f x) as [y|] eqn:Ey; [|discriminate]. destruct (opt_all (map f l)) as [ys|] eqn:E; [|discriminate].
    inversion H; subst. destruct (Hf _ _ _ Hx Ey) as [y' [Ey' Sy]]. destruct (IH ys eq_refl) as [ys' [E' F']].
    rewrite Ey', E'. exists (y' :: ys'). split; [reflexivity | constructor; assumption].
Qed.

Lemma denote_prims_perm : forall disc disc' nums nums' ps,
  Permutation disc disc' -> Permutation nums nums' -> denote_prims disc nums = Some ps ->
  exists ps', denote_prims disc' nums' = Some ps' /\ Permutation ps ps'.
Proof.
  intros disc disc' nums nums' ps Hd Hn H. unfold denote_prims in *.
  destruct (opt_all (map denote_num nums)) as [ns|] eqn:E; [|discriminate]. inversion H; subst.
  destruct (opt_all_perm _ _ _ _ (Permutation_map denote_num Hn) E) as [ns' [E' P']]. rewrite E'.
  exists (map denote_lit disc' ++ ns'). split; [reflexivity|]. apply Permutation_app; [apply Permutation_map; exact Hd | exact P'].
Qed.

Lemma denote_ce_perm : forall c c' f ps, ce_perm c c' -> denote_ce c = Some (f, ps) ->
  exists ps', denote_ce c' = Some (f, ps') /\ Permutation ps ps'.
Proof.
  intros c c' f ps [Ha [Hd Hn]] H. unfold denote_ce in *. rewrite <- Ha.
  destruct (denote_pre (ce_ante c)) as [g|]; [|discriminate].
  destruct (denote_prims (ce_disc c) (ce_num c)) as [qs|] eqn:E; [|discriminate]. inversion H; subst.
  destruct (denote_prims_perm _ _ _ _ _ Hd Hn E) as [qs' [E' P']]. rewrite E'. exists qs'. split; [reflexivity | exact P'].
Qed.

Lemma perm_then_opt_all : forall (A : Type) (R : A -> A -> Prop) (f : A -> option eff) l l' xs,
  (forall x x' y, R x x' -> f x = Some y -> exists y', f x' = Some y' /\ eff_perm y y') ->
  perm_then R l l' -> opt_all (map f l) = Some xs -> exists xs', opt_all (map f l') = Some xs' /\ effs_perm xs xs'.
Proof.
  intros A R f l l' xs Hf [l1 [HP HF]] H.
  destruct (opt_all_perm _ _ _ _ (Permutation_map f HP) H) as [ys [E1 P1]].
  destruct (opt_all_Forall2 _ _ R eff_perm f l1 l' ys Hf HF E1) as [zs [E2 F2]].
  exists zs. split; [exact E2 | exists ys; split; assumption].
Qed.

Lemma effs_perm_app : forall a a' b b', effs_perm a a' -> effs_perm b b' -> effs_perm (a ++ b) (a' ++ b').
Proof.
  intros a a' b b' [a1 [Pa Fa]] [b1 [Pb Fb]]. exists (a1 ++ b1). split; [apply Permutation_app; assumption | apply Forall2_app'; assumption].
Qed.

Theorem denote_effs_perm : forall a a' effs, maction_perm a a' -> denote_effs a = Some effs ->
  exists effs', denote_effs a' = Some effs' /\ effs_perm effs effs'.
Proof.
  intros a a' effs [_ [_ [_ [Hd [Hn [Hc Hu]]]]]] H. unfold denote_effs in *.
  destruct (denote_prims (ma_disc a) (ma_num a)) as [ps|] eqn:Eps; [|discriminate].
  destruct (opt_all (map denote_when (ma_cond a))) as [ws|] eqn:Ews; [|discriminate].
  destruct (opt_all (map denote_univ (ma_univ a))) as [us|] eqn:Eus; [|discriminate]. inversion H; subst.
  destruct (denote_prims_perm _ _ _ _ _ Hd Hn Eps) as [ps' [Eps' Pps]]. rewrite Eps'.
  destruct (perm_then_opt_all _ ce_perm denote_when _ _ _
              (fun x x' y Hx Hy => ltac:(unfold denote_when in *; destruct (denote_ce x) as [[f qs]|] eqn:E; [|discriminate];
                                         inversion Hy; subst; destruct (denote_ce_perm _ _ _ _ Hx E) as [qs' [E' P']];
                                         rewrite E'; exists (EWhen f qs'); split; [reflexivity | constructor; exact P']))
              Hc Ews) as [ws' [Ews' Pws]].
  destruct (perm_then_opt_all _ ue_perm denote_univ _ _ _
              (fun x x' y Hx Hy => ltac:(unfold denote_univ in *; destruct Hx as [Hv [Ht Hce]];
                                         destruct (denote_ce (ue_ce x)) as [[f qs]|] eqn:E; [|discriminate];
                                         inversion Hy; subst; destruct (denote_ce_perm _ _ _ _ Hce E) as [qs' [E' P']];
                                         rewrite E', <- Hv, <- Ht; exists (EForall (ue_var x) (ue_ty x) f qs'); split; [reflexivity | constructor; exact P']))
              Hu Eus) as [us' [Eus' Pus]].
  rewrite Ews', Eus'. exists (EPrims ps' :: ws' ++ us'). split; [reflexivity|].
  apply (effs_perm_app [EPrims ps] [EPrims ps'] (ws ++ us) (ws' ++ us')).
  - exists [EPrims ps]. split; [apply Permutation_refl | constructor; [constructor; exact Pps | constructor]].
  - apply effs_perm_app; assumption.
Qed.

(* whatever order the action object stores its effect collections in, it denotes the same successor *)
Theorem successor_maction_perm : forall eps tt objs a a' effs args s,
  maction_perm a a' -> denote_effs a = Some effs ->
  consistent (all_groups eps tt objs (spec_action a effs) args s) = true ->
  exists effs', denote_effs a' = Some effs' /\
    state_eq (successor eps tt objs (spec_action a effs) args s) (successor eps tt objs (spec_action a' effs') args s) /\
    consistent (all_groups eps tt objs (spec_action a' effs') args s) = true.
Proof.
  intros eps tt objs a a' effs args s HM Hd Hc. destruct (denote_effs_perm _ _ _ HM Hd) as [effs' [Hd' HP]].
  exists effs'. split; [exact Hd'|]. apply successor_effs_perm; [|exact HP|exact Hc].
  destruct HM as [_ [Hs _]]. simpl. rewrite Hs. reflexivity.
Qed.
