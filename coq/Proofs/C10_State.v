(* C10 (and the library-reader half of C14): TrajectoryParser.parse_state applied to the token tree of a serialized
   state returns a state that denotes the same facts and fluents -- for states whose predicates and functions are
   declared with the right arity, whose objects are known (when an object table is given) and whose fluents have no
   repeated argument.  With a repeated argument it does not (finding D07). *)
From Coq Require Import List Ascii String Bool Arith Lia PrimFloat Permutation.
From Verif Require Import Base.Result Base.Str Base.Sexp Base.PyDict Base.Float Model.Tokenizer Model.Types Model.Domain
  Model.State Model.Trajectory Spec.Pddl Spec.State
  Proofs.C14_Text Proofs.C14_Spec Proofs.C14_Eq Proofs.C14_Main Proofs.C14_Serialize Proofs.C14_Examples.
Import ListNotations.
Open Scope string_scope.
Open Scope list_scope.

(* ---------- small facts about the monadic helpers and dicts ---------- *)
Lemma atoms_of_atoms l : atoms_of (map Atom l) = Ok l.
Proof. induction l as [|x l IH]; simpl; [reflexivity|rewrite IH; reflexivity]. Qed.

Lemma foldM_app {A S} (f : S -> A -> result S) l1 l2 s :
  foldM f (l1 ++ l2) s = bind (foldM f l1 s) (foldM f l2).
Proof.
  revert s. induction l1 as [|x l1 IH]; intros s; simpl; [reflexivity|].
  destruct (f s x) as [s'|k]; simpl; [apply IH|reflexivity].
Qed.

Lemma dict_of_acc {V} (kvs : list (string * V)) : forall acc,
  NoDup (dkeys acc ++ map fst kvs) ->
  fold_left (fun a kv => dset a (fst kv) (snd kv)) kvs acc = acc ++ kvs.
Proof.
  induction kvs as [|[k v] kvs IH]; intros acc Nd; simpl; [rewrite app_nil_r; reflexivity|].
  simpl in Nd. rewrite dset_fresh.
  - rewrite IH; [rewrite <- app_assoc; reflexivity|].
    unfold dkeys. rewrite map_app. simpl. rewrite <- app_assoc. simpl.
    eapply Permutation_NoDup; [|exact Nd]. apply Permutation_app_head. reflexivity.
  - intros Hin. apply NoDup_remove_2 in Nd. apply Nd. apply in_or_app. left. exact Hin.
Qed.

Lemma dict_of_nodup {V} (kvs : list (string * V)) : NoDup (map fst kvs) -> dict_of kvs = kvs.
Proof. intros H. unfold dict_of. rewrite dict_of_acc; [reflexivity|exact H]. Qed.

Lemma map_fst_combine {A B} (a : list A) (b : list B) : List.length a = List.length b -> map fst (combine a b) = a.
Proof.
  revert b. induction a as [|x a IH]; intros [|y b] H; simpl in *; try discriminate; [reflexivity|].
  f_equal. apply IH. lia.
Qed.
Lemma map_snd_combine' {A B} (a : list A) (b : list B) : List.length a = List.length b -> map snd (combine a b) = b.
Proof.
  revert b. induction a as [|x a IH]; intros [|y b] H; simpl in *; try discriminate; [reflexivity|].
  f_equal. apply IH. lia.
Qed.

Lemma mapM_keys {A B} (g : A -> result B) (ka : A -> string) (kb : B -> string) l r :
  (forall x y, g x = Ok y -> kb y = ka x) -> mapM g l = Ok r -> map kb r = map ka l.
Proof.
  intros H. revert r. induction l as [|x l IH]; intros r E; simpl in E.
  - injection E as <-. reflexivity.
  - destruct (g x) as [y|] eqn:Ex; [|discriminate]. simpl in E.
    destruct (mapM g l) as [ys|] eqn:El; [|discriminate]. simpl in E. injection E as <-.
    simpl. rewrite (H x y Ex), (IH ys eq_refl). reflexivity.
Qed.

Lemma mapM_total {A B} (g : A -> result B) l : Forall (fun x => exists y, g x = Ok y) l -> exists r, mapM g l = Ok r.
Proof.
  induction 1 as [|x l [y Hy] _ [r Hr]]; simpl; [eauto|]. rewrite Hy, Hr. simpl. eauto.
Qed.

Section ParseState.
  Variable dom : mdomain.
  Variable num_text : float -> string.
  Variable parse_num : string -> option float.
  Variable problem : option (pydict string).

  (* ---------- what the parser needs of a fact / a fluent ---------- *)
  Definition fact_ok (a : atom) : Prop :=
    exists lifted, dget (d_preds dom) (fst a) = Some lifted /\ List.length lifted = List.length (snd a) /\
                   NoDup (dkeys lifted) /\
                   match problem with
                   | None => True
                   | Some objs => Forall (fun o => exists t, object_type dom objs o = Ok t) (snd a)
                   end.

  Definition fluent_ok (a : atom) : Prop :=
    exists lifted, dget (d_funcs dom) (fst a) = Some lifted /\ List.length lifted = List.length (snd a) /\
                   NoDup (snd a) /\
                   match problem with
                   | None => True
                   | Some objs =>
                       Forall2 (fun o lt => exists t, object_type dom objs o = Ok t /\ is_sub_type (d_types dom) t lt = true)
                               (snd a) (dvalues lifted)
                   end.

  Definition parseable (s : mstate) : Prop :=
    Forall fact_ok (den_facts s) /\ Forall fluent_ok (map fst (den_fluents s)) /\ NoDup (map fst (den_fluents s)).

  (* ---------- a fact ---------- *)
  Lemma parse_fact_ok p args lifted :
    dget (d_preds dom) p = Some lifted -> List.length lifted = List.length args -> NoDup (dkeys lifted) ->
    match problem with
    | None => True
    | Some objs => Forall (fun o => exists t, object_type dom objs o = Ok t) args
    end ->
    exists g, parse_fact dom problem p lifted (map Atom args) = Ok g /\
              gp_atom g = (p, args) /\ gp_pos g = true /\ gp_wf g.
  Proof.
    intros Hd Hl Hn Hp. unfold parse_fact. rewrite atoms_of_atoms. cbn [bind].
    rewrite Hl, Nat.eqb_refl. cbn [negb].
    assert (Hk : map fst (combine (dkeys lifted) args) = dkeys lifted).
    { apply map_fst_combine. unfold dkeys. rewrite map_length. exact Hl. }
    assert (Hv : map snd (combine (dkeys lifted) args) = args).
    { apply map_snd_combine'. unfold dkeys. rewrite map_length. exact Hl. }
    rewrite dict_of_nodup by (rewrite Hk; exact Hn).
    destruct problem as [objs|].
    - destruct (mapM_total (fun po => do t <- object_type dom objs (snd po); Ok (fst po, t)) (combine (dkeys lifted) args))
        as [gsig Hg].
      { apply Forall_forall. intros [k o] Hin. cbn [fst snd].
        assert (Ho : In o args) by (rewrite <- Hv; apply (in_map snd) in Hin; exact Hin).
        rewrite Forall_forall in Hp. destruct (Hp o Ho) as [t Ht]. rewrite Ht. simpl. eauto. }
      rewrite Hg. cbn [bind].
      assert (Hgk : map fst gsig = dkeys lifted).
      { rewrite <- Hk. apply (mapM_keys _ fst fst _ _) with (2 := Hg).
        intros [k o] [k' t] E. cbn [fst snd] in *. destruct (object_type dom objs o); simpl in E; [|discriminate].
        injection E as <- _. reflexivity. }
      eexists. split; [reflexivity|]. unfold gp_atom, gp_objects, gp_wf, dvalues, dkeys in *. cbn [gp_name gp_map gp_pos gp_sig].
      rewrite Hv, Hk. rewrite dict_of_nodup by (rewrite Hgk; exact Hn). rewrite Hgk.
      repeat split; try reflexivity. exact Hn.
    - eexists. split; [reflexivity|]. unfold gp_atom, gp_objects, gp_wf, dvalues, dkeys in *. cbn [gp_name gp_map gp_pos gp_sig].
      rewrite Hv, Hk. repeat split; try reflexivity. exact Hn.
  Qed.

  (* ---------- a fluent ---------- *)
  Lemma typed_items objs args lts :
    Forall2 (fun o lt => exists t, object_type dom objs o = Ok t /\ is_sub_type (d_types dom) t lt = true) args lts ->
    exists typed, mapM (fun o => do t <- object_type dom objs o; Ok (o, t)) args = Ok typed /\
                  map fst typed = args /\
                  forallb (fun gt => is_sub_type (d_types dom) (fst gt) (snd gt)) (combine (map snd typed) lts) = true.
  Proof.
    induction 1 as [|o lt args lts (t & Ht & Hs) _ (typed & Hm & Hk & Hf)]; [exists []; auto|].
    exists ((o, t) :: typed). simpl. rewrite Ht. simpl. rewrite Hm. simpl.
    split; [reflexivity|]. split; [rewrite Hk; reflexivity|]. rewrite Hs, Hf. reflexivity.
  Qed.

  Lemma parse_fluent_ok a : fluent_ok a ->
    exists f, parse_fluent dom problem (atom_sexp a) = Ok f /\ pf_name f = fst a /\ dkeys (pf_sig f) = snd a /\ pf_rep f = [].
  Proof.
    intros (lifted & Hd & Hl & Hn & Hp). destruct a as [fname args]. cbn [fst snd] in *. unfold name in *.
    unfold atom_sexp, parse_fluent. cbn [fst snd]. rewrite Hd, atoms_of_atoms. cbn [bind].
    match goal with |- context [negb (?x =? ?y)%nat] =>
      replace (x =? y)%nat with true by (symmetry; apply Nat.eqb_eq; exact (eq_sym Hl)) end.
    cbn [negb].
    destruct problem as [objs|].
    - destruct (typed_items objs args (dvalues lifted) Hp) as (typed & Hm & Hk & Hf).
      rewrite Hm. cbn [bind]. rewrite Hf. rewrite dict_of_nodup by (rewrite Hk; exact Hn).
      eexists. split; [reflexivity|]. cbn [pf_name pf_sig pf_rep]. unfold dkeys. rewrite Hk. auto.
    - eexists. split; [reflexivity|]. cbn [pf_name pf_sig pf_rep].
      assert (Hk : map fst (combine args (dvalues lifted)) = args).
      { apply map_fst_combine. unfold dvalues. rewrite map_length. symmetry. exact Hl. }
      rewrite dict_of_nodup by (rewrite Hk; exact Hn). unfold dkeys. rewrite Hk. auto.
  Qed.

  Lemma pf_vars_norep f : pf_rep f = [] -> pf_vars f = dkeys (pf_sig f).
  Proof.
    intros H. unfold pf_vars. rewrite H. cbn [flat_map app]. induction (dkeys (pf_sig f)) as [|x l IH]; [reflexivity|].
    cbn [filter]. change (dmem (@nil (string * nat)) x) with false. cbn [negb]. f_equal. exact IH.
  Qed.

  Lemma pf_untyped_atom_text f : pf_rep f = [] -> pf_untyped f = atom_text (pf_atom f).
  Proof. intros H. unfold pf_untyped, atom_text, pf_atom. cbn [fst snd]. rewrite (pf_vars_norep f H). reflexivity. Qed.

  (* ---------- the fluents of the text, one after the other ---------- *)
  Lemma fold_fluents fl : forall fl' s0,
    read_back num_text parse_num fl fl' ->
    Forall fluent_ok (map fst fl) -> Forall (fun kv => atom_ok (fst kv) = true) fl ->
    dkeys (st_fluents s0) = map atom_text (map fst (den_fluents s0)) ->
    Forall (fun kv => atom_ok (fst kv) = true) (den_fluents s0) ->
    NoDup (map fst (den_fluents s0) ++ map fst fl) ->
    exists s1, foldM (parse_state_component dom parse_num problem)
                     (map (fun kv => valued_sexp (fst kv) (num_text (snd kv))) fl) s0 = Ok s1 /\
               st_preds s1 = st_preds s0 /\ st_init s1 = st_init s0 /\
               den_fluents s1 = den_fluents s0 ++ fl'.
  Proof.
    induction fl as [|[a v] fl IH]; intros fl' s0 R Fo Ao Hk Ak Nd.
    - inversion R; subst. exists s0. rewrite app_nil_r. auto.
    - inversion R as [|? [a' v'] ? fl'' [Ea Ev] R']; subst. cbn [fst snd] in *. subst a'.
      inversion Fo as [|? ? Fa Fo']; subst. inversion Ao as [|? ? Aa Ao']; subst. cbn [fst] in Aa.
      destruct (parse_fluent_ok a Fa) as (f & Pf & Hname & Hkeys & Hrep).
      cbn [map foldM]. unfold parse_state_component at 1, valued_sexp. cbn [fst snd].
      rewrite String.eqb_refl, Ev. cbn [bind]. rewrite Pf. cbn [bind].
      set (f' := pf_set_value f v').
      assert (Ha' : pf_atom f' = a).
      { unfold pf_atom. rewrite pf_vars_norep by exact Hrep. cbn [f' pf_set_value pf_name pf_sig].
        rewrite Hname, Hkeys. destruct a; reflexivity. }
      assert (Hfresh : ~ In (pf_untyped f') (dkeys (st_fluents s0))).
      { rewrite (pf_untyped_atom_text f' Hrep), Ha', Hk. intros Hin.
        apply in_map_iff in Hin as (b & Eb & Hb).
        assert (Ab : atom_ok b = true).
        { rewrite Forall_forall in Ak. apply in_map_iff in Hb as (kv & <- & Hkv). exact (Ak kv Hkv). }
        apply atom_text_inj in Eb; [|exact Ab|exact Aa]. subst b.
        apply NoDup_remove_2 in Nd. apply Nd. apply in_or_app. left. exact Hb. }
      set (s0' := {| st_init := st_init s0; st_preds := st_preds s0; st_fluents := fluents_put f' (st_fluents s0) |}).
      assert (Hden : den_fluents s0' = den_fluents s0 ++ [(a, v')]).
      { unfold den_fluents, s0'. cbn [st_fluents]. unfold fluents_put. rewrite (dset_fresh _ _ _ Hfresh).
        unfold dvalues. rewrite !map_app. cbn [map snd]. rewrite Ha'. reflexivity. }
      destruct (IH fl'' s0') as (s1 & F1 & P1 & I1 & D1); try assumption.
      + assert (Hfl : st_fluents s0' = st_fluents s0 ++ [(pf_untyped f', f')]).
        { unfold s0'. cbn [st_fluents]. unfold fluents_put. apply dset_fresh. exact Hfresh. }
        rewrite Hfl, Hden. unfold dkeys in *. rewrite !map_app. cbn [map fst]. rewrite Hk.
        rewrite (pf_untyped_atom_text f' Hrep), Ha'. reflexivity.
      + rewrite Hden. apply Forall_app. split; [exact Ak|]. constructor; [exact Aa|constructor].
      + rewrite Hden, map_app. cbn [map fst]. rewrite <- app_assoc. exact Nd.
      + exists s1. split; [exact F1|]. split; [rewrite P1; reflexivity|]. split; [rewrite I1; reflexivity|].
        rewrite D1, Hden, <- app_assoc. reflexivity.
  Qed.

  (* ---------- the facts ---------- *)
  Lemma fold_facts fs : forall s0,
    Forall fact_ok fs -> Forall (fun a => String.eqb (fst a) "=" = false) fs -> all_wf (all_preds s0) ->
    exists s1, foldM (parse_state_component dom parse_num problem) (map atom_sexp fs) s0 = Ok s1 /\
               st_fluents s1 = st_fluents s0 /\ st_init s1 = st_init s0 /\ all_wf (all_preds s1) /\
               (forall x, In x (den_facts s1) <-> In x (den_facts s0) \/ In x fs).
  Proof.
    induction fs as [|a fs IH]; intros s0 Fo Ne W.
    - exists s0. split; [reflexivity|]. split; [reflexivity|]. split; [reflexivity|]. split; [exact W|].
      intros x. simpl. tauto.
    - inversion Fo as [|? ? (lifted & Hd & Hl & Hn & Hp) Fo']; subst. inversion Ne as [|? ? Na Ne']; subst.
      destruct a as [p args]. cbn [fst snd] in *.
      destruct (parse_fact_ok p args lifted Hd Hl Hn Hp) as (g & Pg & Ha & Hpos & Wg).
      cbn [map foldM]. unfold parse_state_component at 1, atom_sexp. cbn [fst snd].
      rewrite Na, Hd, Pg. cbn [bind].
      destruct (preds_add_atoms (lifted_key p lifted) g (st_preds s0) Wg W) as [T W'].
      set (s0' := {| st_init := st_init s0; st_preds := preds_add (lifted_key p lifted) g (st_preds s0);
                     st_fluents := st_fluents s0 |}).
      destruct (IH s0' Fo' Ne' W') as (s1 & F1 & Fl1 & I1 & W1 & D1).
      exists s1. split; [exact F1|]. split; [rewrite Fl1; reflexivity|]. split; [rewrite I1; reflexivity|].
      split; [exact W1|]. intros x. rewrite (D1 x). unfold den_facts at 1, all_preds, s0'. cbn [st_preds].
      rewrite (T x), Ha. unfold den_facts, all_preds. simpl.
      split; [intros [[H|H]|H]; [left; exact H|right; left; symmetry; exact H|right; right; exact H]
             |intros [H|[H|H]]; [left; left; exact H|left; right; symmetry; exact H|right; exact H]].
  Qed.

  (* ---------- the whole state ---------- *)
  Theorem parse_state_items s :
    state_ok s = true -> (forall x, In x (values s) -> num_ok num_text parse_num x) -> parseable s ->
    exists s', parse_state dom parse_num problem (fluent_sexps num_text s ++ fact_sexps s) = Ok s' /\
               st_init s' = false /\ State_same (den s') (den s).
  Proof.
    intros Hs Hn (Pf & Pl & Nd).
    destruct (read_back_exists num_text parse_num s Hn) as (fl' & R & S).
    unfold state_ok in Hs. apply andb_true_iff in Hs as [Hs1 Hs2].
    unfold parse_state, fluent_sexps, fact_sexps. rewrite foldM_app.
    destruct (fold_fluents (den_fluents s) fl' (empty_state false) R Pl (den_fluents_ok s Hs2))
      as (sA & FA & PA & IA & DA); [reflexivity|constructor|exact Nd|].
    rewrite FA. cbn [bind].
    assert (Ne : Forall (fun a => String.eqb (fst a) "=" = false) (den_facts s)).
    { rewrite forallb_forall in Hs1. apply Forall_forall. intros a Ha. apply in_map_iff in Ha as (g & <- & Hg).
      specialize (Hs1 g Hg). unfold gp_ok in Hs1. apply andb_true_iff in Hs1 as [_ H]. apply negb_true_iff in H. exact H. }
    destruct (fold_facts (den_facts s) sA Pf Ne) as (sB & FB & FlB & IB & WB & DB).
    { unfold all_preds. rewrite PA. constructor. }
    exists sB. split; [exact FB|]. split; [rewrite IB, IA; reflexivity|].
    split.
    - intros x. cbn [den facts]. rewrite (DB x). unfold den_facts at 1, all_preds. rewrite PA. simpl. tauto.
    - cbn [den fluents]. unfold den_fluents at 1. rewrite FlB. fold (den_fluents sA). rewrite DA. exact S.
  Qed.

  Theorem library_readback_here m s :
    state_ok s = true -> nums_clean num_text s -> (forall x, In x (values s) -> num_ok num_text parse_num x) ->
    parseable s ->
    exists e s', parse m (s2t (serialize_in_order num_text s)) = Ok (SList (Atom (head_tok s) :: e)) /\
                 parse_state dom parse_num problem e = Ok s' /\ State_same (den s') (den s).
  Proof.
    intros Hs Hc Hn Hp. destruct (parse_state_items s Hs Hn Hp) as (s' & P & _ & S).
    exists (fluent_sexps num_text s ++ fact_sexps s), s'. split; [|split; [exact P|exact S]].
    rewrite (parse_serialize num_text m s Hs Hc). reflexivity.
  Qed.
End ParseState.

Lemma library_readback dom num_text parse_num problem m s :
  state_ok s = true -> nums_clean num_text s -> (forall x, In x (values s) -> num_ok num_text parse_num x) ->
  parseable dom problem s ->
  exists e s', parse m (s2t (serialize_in_order num_text s)) = Ok (SList (Atom (head_tok s) :: e)) /\
               parse_state dom parse_num problem e = Ok s' /\ State_same (den s') (den s).
Proof. apply library_readback_here. Qed.

(* ---------- D07: a fluent with a repeated argument does not come back ---------- *)
Definition d07_dom : mdomain :=
  {| d_name := "d"; d_reqs := []; d_types := [("t", "object")]; d_consts := [];
     d_preds := [("p", [("?x", "t")])]; d_funcs := [("g", [("?x", "t"); ("?y", "t")])]; d_actions := [] |}.
(* (p o1), (g o1 o1) = 1.0 as ProblemParser builds it *)
Definition d07_state : mstate :=
  {| st_init := true;
     st_preds := [("(p ?x)", [ex_gp "p" [("?x", "t")] ["o1"]])];
     st_fluents := [("(g o1)", ex_pf "g" [("o1", "t")] 1 [("o1", 2)])] |}.

Lemma library_readback_refuted :
  exists dom s e s', state_ok s = true /\ nums_clean ex_num_text s /\
    parse MFile (s2t (serialize ex_num_text s)) = Ok (SList (Atom (head_tok s) :: e)) /\
    parse_state dom ex_parse_num None e = Ok s' /\ state_eq ex_num_text s' s = false.
Proof.
  exists d07_dom, d07_state.
  eexists. eexists. split; [vm_compute; reflexivity|]. split.
  - intros x H. vm_compute in H. destruct H as [<-|[]]. vm_compute. reflexivity.
  - split; [vm_compute; reflexivity|]. split; vm_compute; reflexivity.
Qed.
