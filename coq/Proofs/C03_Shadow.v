(* C03: SHADOWING.  A quantified variable may have the name of an action parameter (or of an enclosing quantified variable):
   inside the quantifier the name stands for the object being ranged over, outside of it the parameter keeps its meaning.
   The theorems of Props/C03.v do not exclude such actions (names_ok only asks that no CONSTANT of the domain is bound); this
   file shows it on an action parsed by the model's own parser whose three quantifiers all rebind a name:
     (forall (?x - t0) (when (p ?x) ...))                            the universal effect rebinds the parameter ?x
     (when (forall (?x - t0) (and (q ?x))) (done ?x))                a quantified 'when' condition rebinds it; (done ?x) is the argument
     (forall (?z - t0) (when (and (r ?z) (forall (?z - t1) ...)) ..)) a quantifier inside a forall-when antecedent rebinds ?z
   The call (sweep o0) must reset o1 and o2 - objects OTHER than the argument - and leave o0 alone (seeded change C03_F built the
   parameter map as {quantified: object, **action bindings}: the argument then replaces every object ranged over). *)
From Coq Require Import List String Bool PrimFloat Arith Permutation.
From Verif Require Import Base.Result Base.Str Base.Sexp Base.PyDict Model.Tokenizer Model.Types Model.Domain Model.Exec
  Spec.Pddl Proofs.C03_Spec Proofs.C03_Defs Proofs.C03_Eval Proofs.C03_Refine Proofs.C03_Main Proofs.C03_Examples.
Import ListNotations.
Open Scope string_scope.
Open Scope list_scope.

Definition sh_text : string :=
  "(define (domain sh) (:requirements :typing)
    (:types t0 - object t1 - t0)
    (:predicates (p ?a - t0) (q ?a - t0) (r ?a - t0) (mark ?a - t0) (done ?a - t0))
    (:functions (f ?a - t0))
    (:action sweep :parameters (?x - t0)
      :precondition (and (not (p ?x)))
      :effect (and (mark ?x)
                   (forall (?x - t0) (when (p ?x) (and (not (p ?x)) (assign (f ?x) 0))))
                   (when (forall (?x - t0) (and (q ?x))) (done ?x))
                   (forall (?z - t0) (when (and (r ?z) (forall (?z - t1) (and (p ?z)))) (not (r ?z)))))))".

Definition sh_dom : mdomain := Eval vm_compute in parse_text sh_text.
Definition sh_act : maction := Eval vm_compute in act_of sh_dom "sweep".
Definition sh_effs : list eff := Eval vm_compute in effs_of sh_act.
Definition sh_args : list string := ["o0"].
Definition sh_ga : gaction := Eval vm_compute in ground_of sh_dom sh_act sh_args.
Definition sh_objs : objects := [("o0", "t0"); ("o1", "t0"); ("o2", "t1")].
Definition sh_state : state :=
  {| facts := [("p", ["o1"]); ("p", ["o2"]); ("q", ["o0"]); ("q", ["o1"]); ("q", ["o2"]); ("r", ["o0"]); ("r", ["o1"])];
     fluents := [(("f", ["o0"]), 1%float); (("f", ["o1"]), 2%float); (("f", ["o2"]), 2%float)] |}.

(* the action as parsed: the bound names really are the parameter's / the outer variable's *)
Example sh_parsed :
  dkeys (ma_sig sh_act) = ["?x"] /\ map ue_var (ma_univ sh_act) = ["?x"; "?z"] /\
  flat_map (fun ce => qvars_pre (ce_ante ce)) (ma_cond sh_act) = ["?x"] /\
  flat_map (fun ue => qvars_pre (ce_ante (ue_ce ue))) (ma_univ sh_act) = ["?z"].
Proof. vm_compute. repeat split. Qed.

Example sh_denote : denote_effs sh_act = Some sh_effs /\ List.length sh_effs = 4.
Proof. vm_compute. split; reflexivity. Qed.
Example sh_names : names_ok sh_dom sh_act = true.
Proof. vm_compute. reflexivity. Qed.
Example sh_ground : ground_action sh_dom sh_act sh_args = Ok sh_ga.
Proof. vm_compute. reflexivity. Qed.
Example sh_applicable : is_applicable sh_dom ex_eps (Some sh_objs) sh_ga sh_state = Ok true.
Proof. vm_compute. reflexivity. Qed.
Example sh_evaluates : evaluates sh_dom ex_eps sh_objs sh_ga sh_state.
Proof. apply evaluates_b_sound. vm_compute. reflexivity. Qed.
Example sh_consistent :
  consistent (all_groups ex_eps (d_types sh_dom) sh_objs (spec_action sh_act sh_effs) sh_args sh_state) = true.
Proof. vm_compute. reflexivity. Qed.
Example sh_order : is_order [1; 0] (List.length (ga_groups sh_ga)).
Proof. unfold is_order. vm_compute. apply perm_swap. Qed.
Example sh_uorder : is_order [1; 0] (List.length (ma_univ sh_act)).
Proof. unfold is_order. vm_compute. apply perm_swap. Qed.

(* the theorem applies to it (every hypothesis of C03_successor holds) ... *)
Example sh_successor :
  exists s', apply_op sh_dom ex_eps sh_ga (Some sh_objs) false false [1; 0] [1; 0] sh_state = Ok s' /\
             state_eq s' (successor ex_eps (d_types sh_dom) sh_objs (spec_action sh_act sh_effs) sh_args sh_state).
Proof.
  eapply (successor_gen sh_dom ex_eps sh_act sh_effs sh_args sh_ga sh_objs sh_state).
  - apply sh_denote.
  - exact sh_names.
  - exact sh_ground.
  - exact sh_evaluates.
  - exact sh_applicable.
  - left. reflexivity.
  - exact sh_consistent.
  - exact sh_order.
  - exact sh_uorder.
Qed.

(* ... and what is returned: (p o1), (p o2) deleted and f o1 = f o2 = 0 - the objects OTHER than the argument o0 -, f o0 untouched;
   (mark o0), (done o0): outside the quantifiers ?x is the argument; (r o0), (r o1) deleted: the inner (forall (?z - t1) (p ?z))
   holds (o2 is the only t1) whatever the outer ?z is *)
Example sh_result :
  match apply_op sh_dom ex_eps sh_ga (Some sh_objs) false false [1; 0] [1; 0] sh_state with
  | Ok s' =>
      map (fun x => atom_in x (facts s'))
          [("p", ["o0"]); ("p", ["o1"]); ("p", ["o2"]); ("mark", ["o0"]); ("mark", ["o1"]); ("done", ["o0"]); ("done", ["o1"]);
           ("r", ["o0"]); ("r", ["o1"])]
      = [false; false; false; true; false; true; false; false; false] /\
      map (fun x => fluent_get x (fluents s')) [("f", ["o0"]); ("f", ["o1"]); ("f", ["o2"])]
      = [Some 1%float; Some 0%float; Some 0%float]
  | Err _ => False
  end.
Proof. vm_compute. split; reflexivity. Qed.

(* with (q o2) missing the quantified 'when' condition is false: (done o0) is not added *)
Definition sh_state2 : state :=
  {| facts := [("p", ["o1"]); ("q", ["o0"]); ("q", ["o1"]); ("r", ["o1"])]; fluents := fluents sh_state |}.
Example sh_result2 :
  match apply_op sh_dom ex_eps sh_ga (Some sh_objs) false false [0; 1] [0; 1] sh_state2 with
  | Ok s' => map (fun x => atom_in x (facts s')) [("p", ["o1"]); ("done", ["o0"]); ("r", ["o1"]); ("mark", ["o0"])]
             = [false; false; true; true]
  | Err _ => False
  end.
Proof. vm_compute. reflexivity. Qed.

Theorem shadow_example :
  names_ok sh_dom sh_act = true /\ dkeys (ma_sig sh_act) = ["?x"] /\ map ue_var (ma_univ sh_act) = ["?x"; "?z"] /\
  exists s', apply_op sh_dom ex_eps sh_ga (Some sh_objs) false false [1; 0] [1; 0] sh_state = Ok s' /\
             state_eq s' (successor ex_eps (d_types sh_dom) sh_objs (spec_action sh_act sh_effs) sh_args sh_state) /\
             atom_in ("p", ["o1"]) (facts s') = false /\ atom_in ("p", ["o2"]) (facts s') = false /\
             atom_in ("mark", ["o0"]) (facts s') = true /\ atom_in ("done", ["o0"]) (facts s') = true /\
             fluent_get ("f", ["o0"]) (fluents s') = Some 1%float /\ fluent_get ("f", ["o1"]) (fluents s') = Some 0%float.
Proof.
  split; [exact sh_names|]. split; [apply sh_parsed|]. split; [apply sh_parsed|].
  destruct sh_successor as [s' [Hs' Heq]]. exists s'. split; [exact Hs'|]. split; [exact Heq|].
  pose proof sh_result as R. rewrite Hs' in R. destruct R as [Rf Rv].
  injection Rf as _ R1 R2 R3 _ R5 _ _ _. injection Rv as V0 V1 _.
  repeat split; assumption.
Qed.
