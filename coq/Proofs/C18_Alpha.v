(* C18, spec level: alpha-invariance.  Formula satisfaction and the firing of effects commute with a renaming of
   the free names that no quantifier captures; hence an admissibly renamed action is applicable in the same
   states and has the same successors for every argument tuple of the right length. *)
From Coq Require Import List String Bool PrimFloat.
From Verif Require Import Base.Str Spec.Pddl Spec.Rename.
Import ListNotations.
Open Scope string_scope.
Open Scope list_scope.

(* ---------- lists ---------- *)
Lemma forallb_map_ext {A B} (f : B -> bool) (g : A -> B) (h : A -> bool) (l : list A) :
  (forall x, In x l -> f (g x) = h x) -> forallb f (map g l) = forallb h l.
Proof.
  induction l as [|a r IH]; simpl; intros H; [reflexivity|].
  rewrite H by (left; reflexivity). rewrite IH; [reflexivity|]. intros x Hx. apply H. right. exact Hx.
Qed.

Lemma existsb_map_ext {A B} (f : B -> bool) (g : A -> B) (h : A -> bool) (l : list A) :
  (forall x, In x l -> f (g x) = h x) -> existsb f (map g l) = existsb h l.
Proof.
  induction l as [|a r IH]; simpl; intros H; [reflexivity|].
  rewrite H by (left; reflexivity). rewrite IH; [reflexivity|]. intros x Hx. apply H. right. exact Hx.
Qed.

Lemma forallb_ext_in' {A} (f h : A -> bool) (l : list A) :
  (forall x, In x l -> f x = h x) -> forallb f l = forallb h l.
Proof. intros H. rewrite <- (map_id l) at 1. apply forallb_map_ext. exact H. Qed.

Lemma flat_map_map_ext {A B C} (f : B -> list C) (g : A -> B) (h : A -> list C) (l : list A) :
  (forall x, In x l -> f (g x) = h x) -> flat_map f (map g l) = flat_map h l.
Proof.
  induction l as [|a r IH]; simpl; intros H; [reflexivity|].
  rewrite H by (left; reflexivity). rewrite IH; [reflexivity|]. intros x Hx. apply H. right. exact Hx.
Qed.

(* ---------- environments ---------- *)
Lemma subst_cons (v o : name) (e : env) (n : name) :
  subst ((v, o) :: e) n = if String.eqb n v then o else subst e n.
Proof. unfold subst. simpl. destruct (String.eqb n v); reflexivity. Qed.

Definition agree_on (rho : ren) (e e' : env) (l : list name) : Prop :=
  forall n, In n l -> subst e' (rho n) = subst e n.

Lemma agree_on_incl rho e e' l l' : agree_on rho e e' l -> incl l' l -> agree_on rho e e' l'.
Proof. intros H Hi n Hn. apply H. apply Hi. exact Hn. Qed.

Lemma map_subst_ren rho e e' args :
  agree_on rho e e' args -> map (subst e') (map rho args) = map (subst e) args.
Proof.
  intros H. rewrite map_map. apply map_ext_in. intros n Hn. apply H. exact Hn.
Qed.

(* going below a quantifier over v *)
Lemma agree_on_under rho e e' v o body_names :
  agree_on rho e e' (filter (fun n => negb (String.eqb n v)) body_names) ->
  (forall n, In n body_names -> n <> v -> rho n <> v) ->
  agree_on (upd rho v) ((v, o) :: e) ((v, o) :: e') body_names.
Proof.
  intros Hag Hcap n Hn. unfold upd. rewrite !subst_cons.
  destruct (String.eqb n v) eqn:E.
  - rewrite E. reflexivity.
  - assert (Hne : n <> v) by (intros H; subst n; rewrite String.eqb_refl in E; discriminate).
    destruct (String.eqb (rho n) v) eqn:E2.
    + apply String.eqb_eq in E2. exfalso. exact (Hcap n Hn Hne E2).
    + apply Hag. apply filter_In. split; [exact Hn|]. rewrite E. reflexivity.
Qed.

(* ---------- numeric expressions ---------- *)
Lemma neval_ren rho e e' s x :
  agree_on rho e e' (free_nexp x) -> neval e' s (ren_nexp rho x) = neval e s x.
Proof.
  induction x as [y|f args|o a IHa b IHb]; simpl; intros H.
  - reflexivity.
  - rewrite (map_subst_ren rho e e' args H). reflexivity.
  - rewrite IHa, IHb; [reflexivity| |].
    + eapply agree_on_incl; [exact H|]. apply incl_appr. apply incl_refl.
    + eapply agree_on_incl; [exact H|]. apply incl_appl. apply incl_refl.
Qed.

(* ---------- formulas ---------- *)
Section Holds.
  Variable eps : float.
  Variable tt : tytree.
  Variable objs : objects.
  Variable s : state.

  Lemma nocap_list rho l :
    (fix go (l : list form) : Prop := match l with [] => True | x :: r => nocap_form rho x /\ go r end) l ->
    forall x, In x l -> nocap_form rho x.
  Proof.
    induction l as [|y r IH]; simpl; intros H x Hx; [contradiction|].
    destruct H as [Hy Hr]. destruct Hx as [->|Hx]; [exact Hy|exact (IH Hr x Hx)].
  Qed.

  Lemma incl_flat_map_in {A B} (f : A -> list B) (l : list A) (x : A) : In x l -> incl (f x) (flat_map f l).
  Proof. intros Hx y Hy. apply in_flat_map. exists x. split; assumption. Qed.

  Lemma holds_ren : forall f rho e e',
    agree_on rho e e' (free_form f) -> nocap_form rho f ->
    holds eps tt objs e' s (ren_form rho f) = holds eps tt objs e s f.
  Proof.
    induction f as [p a|p a|a b|a b|c l r|l IH|l IH|v ty b IH] using form_ind'; intros rho e e' Hag Hcap.
    - simpl. rewrite (map_subst_ren rho e e' a Hag). reflexivity.
    - simpl. rewrite (map_subst_ren rho e e' a Hag). reflexivity.
    - simpl. rewrite (Hag a), (Hag b); simpl; auto.
    - simpl. rewrite (Hag a), (Hag b); simpl; auto.
    - simpl. rewrite (neval_ren rho e e' s l), (neval_ren rho e e' s r); [reflexivity| |].
      + eapply agree_on_incl; [exact Hag|]. simpl. apply incl_appr. apply incl_refl.
      + eapply agree_on_incl; [exact Hag|]. simpl. apply incl_appl. apply incl_refl.
    - simpl. apply forallb_map_ext. intros x Hx.
      rewrite Forall_forall in IH. apply (IH x Hx).
      + eapply agree_on_incl; [exact Hag|]. simpl. apply incl_flat_map_in. exact Hx.
      + apply (nocap_list rho l Hcap x Hx).
    - simpl. apply existsb_map_ext. intros x Hx.
      rewrite Forall_forall in IH. apply (IH x Hx).
      + eapply agree_on_incl; [exact Hag|]. simpl. apply incl_flat_map_in. exact Hx.
      + apply (nocap_list rho l Hcap x Hx).
    - simpl. apply forallb_ext_in'. intros o _. simpl in Hcap. destruct Hcap as [Hc1 Hc2].
      apply IH; [|exact Hc2]. apply agree_on_under; [exact Hag|exact Hc1].
  Qed.

  (* ---------- effects ---------- *)
  Lemma ground_prim_ren rho e e' p :
    agree_on rho e e' (free_prim p) ->
    ground_prim e' s (ren_prim rho p) = ground_prim e s p.
  Proof.
    destruct p as [q args|q args|k f args rhs]; simpl; intros H.
    - rewrite (map_subst_ren rho e e' args H). reflexivity.
    - rewrite (map_subst_ren rho e e' args H). reflexivity.
    - rewrite (map_subst_ren rho e e' args), (neval_ren rho e e' s rhs); [reflexivity| |].
      + eapply agree_on_incl; [exact H|]. apply incl_appr. apply incl_refl.
      + eapply agree_on_incl; [exact H|]. apply incl_appl. apply incl_refl.
  Qed.

  Lemma ground_prims_ren rho e e' es :
    agree_on rho e e' (flat_map free_prim es) ->
    map (ground_prim e' s) (map (ren_prim rho) es) = map (ground_prim e s) es.
  Proof.
    intros H. rewrite map_map. apply map_ext_in. intros p Hp. apply ground_prim_ren.
    eapply agree_on_incl; [exact H|]. apply incl_flat_map_in. exact Hp.
  Qed.

  Lemma fires_ren rho e e' ef :
    agree_on rho e e' (free_eff ef) -> nocap_eff rho ef ->
    fires eps tt objs e' s (ren_eff rho ef) = fires eps tt objs e s ef.
  Proof.
    destruct ef as [es|c es|v ty c es]; simpl; intros Hag Hcap.
    - rewrite (ground_prims_ren rho e e' es Hag). reflexivity.
    - rewrite (holds_ren c rho e e'), (ground_prims_ren rho e e' es); [reflexivity| | |exact Hcap].
      + eapply agree_on_incl; [exact Hag|]. apply incl_appr. apply incl_refl.
      + eapply agree_on_incl; [exact Hag|]. apply incl_appl. apply incl_refl.
    - destruct Hcap as [Hc1 Hc2].
      apply flat_map_ext. intros o.
      assert (Hu : agree_on (upd rho v) ((v, o) :: e) ((v, o) :: e') (free_form c ++ flat_map free_prim es))
        by (apply agree_on_under; [exact Hag|exact Hc1]).
      rewrite (holds_ren c (upd rho v) ((v, o) :: e) ((v, o) :: e')),
              (ground_prims_ren (upd rho v) ((v, o) :: e) ((v, o) :: e') es); [reflexivity| | |exact Hc2].
      + eapply agree_on_incl; [exact Hu|]. apply incl_appr. apply incl_refl.
      + eapply agree_on_incl; [exact Hu|]. apply incl_appl. apply incl_refl.
  Qed.
End Holds.

(* ---------- from the simple side conditions to "no capture" ---------- *)
Definition lands_outside (rho : ren) (B : list name) : Prop := forall n, rho n <> n -> ~ In (rho n) B.

Lemma lands_outside_upd rho B v : lands_outside rho B -> lands_outside (upd rho v) B.
Proof.
  intros H n Hn. unfold upd in *. destruct (String.eqb n v); [congruence|]. apply H. exact Hn.
Qed.

Lemma lands_outside_nocap_step rho B v (l : list name) :
  lands_outside rho B -> In v B -> forall n, In n l -> n <> v -> rho n <> v.
Proof.
  intros H Hv n _ Hne Heq. destruct (string_dec (rho n) n) as [E|E].
  - congruence.
  - apply (H n E). rewrite Heq. exact Hv.
Qed.

Lemma nocap_of_lands_outside : forall f rho B,
  lands_outside rho B -> incl (bound_form f) B -> nocap_form rho f.
Proof.
  induction f as [p a|p a|a b|a b|c l r|l IH|l IH|v ty b IH] using form_ind'; intros rho B H Hi; simpl; auto.
  - induction l as [|x r IHr]; [exact I|]. inversion IH as [|? ? Hx Hr]; subst. split.
    + apply (Hx rho B H). intros y Hy. apply Hi. simpl. apply in_or_app. left. exact Hy.
    + apply IHr; [exact Hr|]. intros y Hy. apply Hi. simpl. apply in_or_app. right. exact Hy.
  - induction l as [|x r IHr]; [exact I|]. inversion IH as [|? ? Hx Hr]; subst. split.
    + apply (Hx rho B H). intros y Hy. apply Hi. simpl. apply in_or_app. left. exact Hy.
    + apply IHr; [exact Hr|]. intros y Hy. apply Hi. simpl. apply in_or_app. right. exact Hy.
  - split.
    + apply (lands_outside_nocap_step rho B v _ H). apply Hi. simpl. left. reflexivity.
    + apply (IH (upd rho v) B).
      * apply lands_outside_upd. exact H.
      * intros y Hy. apply Hi. simpl. right. exact Hy.
Qed.

Lemma nocap_eff_of_lands_outside ef rho B :
  lands_outside rho B -> incl (bound_eff ef) B -> nocap_eff rho ef.
Proof.
  destruct ef as [es|c es|v ty c es]; simpl; intros H Hi.
  - exact I.
  - apply (nocap_of_lands_outside c rho B H Hi).
  - split.
    + apply (lands_outside_nocap_step rho B v _ H). apply Hi. left. reflexivity.
    + apply (nocap_of_lands_outside c (upd rho v) B).
      * apply lands_outside_upd. exact H.
      * intros y Hy. apply Hi. right. exact Hy.
Qed.

(* ---------- the argument binding ---------- *)
Lemma lookup_combine_ren (rho : ren) : forall (ps : list name) (args : list name) (n : name),
  inj_on rho (n :: ps) ->
  lookup (rho n) (combine (map rho ps) args) = lookup n (combine ps args).
Proof.
  induction ps as [|p r IH]; intros args n Hinj; simpl; [reflexivity|].
  destruct args as [|a rest]; simpl; [reflexivity|].
  destruct (String.eqb n p) eqn:E.
  - apply String.eqb_eq in E. subst p. rewrite String.eqb_refl. reflexivity.
  - destruct (String.eqb (rho n) (rho p)) eqn:E2.
    + apply String.eqb_eq in E2. apply Hinj in E2; [|left; reflexivity|right; left; reflexivity].
      subst p. rewrite String.eqb_refl in E. discriminate.
    + apply IH. intros x y Hx Hy. apply Hinj; simpl in *; tauto.
Qed.

Lemma lookup_combine_none {V} (ps : list name) (args : list V) (n : name) :
  ~ In n ps -> lookup n (combine ps args) = None.
Proof.
  revert args. induction ps as [|p r IH]; intros args Hn; simpl; [reflexivity|].
  destruct args as [|a rest]; simpl; [reflexivity|].
  destruct (String.eqb n p) eqn:E.
  - apply String.eqb_eq in E. subst p. exfalso. apply Hn. left. reflexivity.
  - apply IH. intros H. apply Hn. right. exact H.
Qed.

Lemma lookup_combine_some (ps : list name) (args : list name) (n : name) :
  In n ps -> List.length args = List.length ps -> exists o, lookup n (combine ps args) = Some o.
Proof.
  revert args. induction ps as [|p r IH]; intros args Hn Hlen; [contradiction|].
  destruct args as [|a rest]; [discriminate|]. simpl.
  destruct (String.eqb n p) eqn:E; [eauto|].
  apply IH; [|simpl in Hlen; congruence].
  destruct Hn as [->|Hn]; [rewrite String.eqb_refl in E; discriminate|exact Hn].
Qed.

Lemma bind_args_agree (rho : ren) (ps fr args : list name) :
  (forall n, ~ In n ps -> rho n = n) ->
  inj_on rho (ps ++ fr) ->
  List.length args = List.length ps ->
  agree_on rho (combine ps args) (combine (map rho ps) args) (ps ++ fr).
Proof.
  intros Hmove Hinj Hlen n Hn. unfold subst.
  destruct (in_dec string_dec n ps) as [Hin|Hnot].
  - rewrite lookup_combine_ren.
    + destruct (lookup_combine_some ps args n Hin Hlen) as [o Ho]. rewrite Ho. reflexivity.
    + intros x y Hx Hy. apply Hinj; apply in_or_app; left.
      * destruct Hx as [<-|Hx]; assumption.
      * destruct Hy as [<-|Hy]; assumption.
  - rewrite (Hmove n Hnot). rewrite (lookup_combine_none ps args n Hnot).
    rewrite lookup_combine_none; [reflexivity|].
    intros Hin. apply in_map_iff in Hin. destruct Hin as [p [Hp Hpin]].
    assert (p = n).
    { apply Hinj; [apply in_or_app; left; exact Hpin|exact Hn|]. rewrite Hp. symmetry. apply Hmove. exact Hnot. }
    subst p. contradiction.
Qed.

(* ---------- the action ---------- *)
Lemma admissible_lands_outside rho a : admissible rho a -> lands_outside rho (bound_action a).
Proof.
  intros [Hmove [_ Havoid]] n Hn.
  destruct (in_dec string_dec n (params a)) as [Hin|Hnot].
  - apply Havoid; assumption.
  - exfalso. apply Hn. apply Hmove. exact Hnot.
Qed.

Lemma params_ren rho a : map fst (a_params (ren_action rho a)) = map rho (params a).
Proof. unfold params. simpl. rewrite !map_map. reflexivity. Qed.

Section Action.
  Variable eps : float.
  Variable tt : tytree.
  Variable objs : objects.

  Theorem alpha_applicable rho a args s :
    admissible rho a -> List.length args = List.length (a_params a) ->
    applicable eps tt objs (ren_action rho a) args s = applicable eps tt objs a args s.
  Proof.
    intros Hadm Hlen. unfold applicable, bind_args. rewrite params_ren.
    change (a_pre (ren_action rho a)) with (ren_form rho (a_pre a)).
    destruct Hadm as [Hmove [Hinj Havoid]].
    apply holds_ren.
    - eapply agree_on_incl.
      + apply (bind_args_agree rho (params a) (free_action a) args Hmove Hinj).
        unfold params. rewrite map_length. exact Hlen.
      + apply incl_appr. unfold free_action. apply incl_appl. apply incl_refl.
    - apply (nocap_of_lands_outside _ rho (bound_action a)).
      + apply admissible_lands_outside. repeat split; assumption.
      + unfold bound_action. apply incl_appl. apply incl_refl.
  Qed.

  Theorem alpha_groups rho a args s :
    admissible rho a -> List.length args = List.length (a_params a) ->
    all_groups eps tt objs (ren_action rho a) args s = all_groups eps tt objs a args s.
  Proof.
    intros Hadm Hlen. unfold all_groups, bind_args. rewrite params_ren.
    change (a_effs (ren_action rho a)) with (map (ren_eff rho) (a_effs a)).
    pose proof (admissible_lands_outside rho a Hadm) as Hout.
    destruct Hadm as [Hmove [Hinj Havoid]].
    assert (Hag : agree_on rho (combine (params a) args) (combine (map rho (params a)) args)
                           (params a ++ free_action a)).
    { apply bind_args_agree; [exact Hmove|exact Hinj|]. unfold params. rewrite map_length. exact Hlen. }
    apply flat_map_map_ext. intros ef Hef. apply fires_ren.
    - eapply agree_on_incl; [exact Hag|]. apply incl_appr. unfold free_action. apply incl_appr.
      apply (incl_flat_map_in free_eff (a_effs a) ef Hef).
    - apply (nocap_eff_of_lands_outside ef rho (bound_action a) Hout).
      unfold bound_action. apply incl_appr. apply (incl_flat_map_in bound_eff (a_effs a) ef Hef).
  Qed.

  Theorem alpha_successor rho a args s :
    admissible rho a -> List.length args = List.length (a_params a) ->
    successor eps tt objs (ren_action rho a) args s = successor eps tt objs a args s.
  Proof.
    intros Hadm Hlen. unfold successor. rewrite alpha_groups by assumption. reflexivity.
  Qed.
End Action.
