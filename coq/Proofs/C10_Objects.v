(* C10: the object table deduced from the first state names every object that occurs in it. *)
From Coq Require Import List Ascii String Bool Arith Lia PrimFloat.
From Verif Require Import Base.Result Base.Str Base.Sexp Base.PyDict Base.Float Model.Tokenizer Model.Types Model.Domain
  Model.State Model.Trajectory Spec.Pddl Spec.State
  Proofs.C14_Text Proofs.C14_Spec Proofs.C14_Eq Proofs.C14_Main Proofs.C14_Serialize Proofs.C10_State Proofs.C10_Main.
Import ListNotations.
Open Scope string_scope.
Open Scope list_scope.

Lemma dmem_dset_same {V} (d : pydict V) k v : dmem (dset d k v) k = true.
Proof. unfold dmem. rewrite dget_dset_same. reflexivity. Qed.

Lemma dmem_dset_keep {V} (d : pydict V) k k' v : dmem d k = true -> dmem (dset d k' v) k = true.
Proof.
  intros H. destruct (String.eqb k k') eqn:E.
  - apply String.eqb_eq in E. subst. apply dmem_dset_same.
  - unfold dmem in *. rewrite dget_dset_other; [exact H|]. intros ->. rewrite String.eqb_refl in E. discriminate.
Qed.

Lemma fold_dset_covers (items : list string) : forall (tys : list string) (acc : pydict string),
  List.length items = List.length tys ->
  let acc' := fold_left (fun a ot => dset a (fst ot) (snd ot)) (combine items tys) acc in
  (forall k, dmem acc k = true -> dmem acc' k = true) /\ (forall o, In o items -> dmem acc' o = true).
Proof.
  induction items as [|o items IH]; intros [|t tys] acc Hl; simpl in Hl; try discriminate.
  - split; [auto|intros o []].
  - cbn [combine fold_left fst snd].
    destruct (IH tys (dset acc o t)) as [K C]; [lia|]. cbv zeta in *. split.
    + intros k Hk. apply K. apply dmem_dset_keep. exact Hk.
    + intros o' [<-|Ho]; [apply K; apply dmem_dset_same|apply C; exact Ho].
Qed.

Section Deduce.
  Variable dom : mdomain.
  Variable num_text : float -> string.
  Variable problem : option (pydict string).

  Lemma deduce_fluents_cover l : forall acc acc',
    Forall (fluent_ok dom problem) (map fst l) ->
    foldM (deduce_component dom) (map (fun kv => valued_sexp (fst kv) (num_text (snd kv))) l) acc = Ok acc' ->
    (forall k, dmem acc k = true -> dmem acc' k = true) /\
    (forall a o, In a (map fst l) -> In o (snd a) -> dmem acc' o = true).
  Proof.
    induction l as [|[a v] l IH]; intros acc acc' F E.
    - simpl in E. injection E as <-. split; [auto|intros a o []].
    - inversion F as [|? ? (lifted & Hd & Hl & _) F']; subst. cbn [map foldM fst snd] in E.
      destruct a as [fname args]. unfold deduce_component at 1, valued_sexp, atom_sexp in E. cbn [fst snd] in *.
      rewrite String.eqb_refl, Hd, atoms_of_atoms in E. cbn [bind] in E.
      destruct (fold_dset_covers args (dvalues lifted) acc) as [K C].
      { unfold dvalues. rewrite map_length. symmetry. exact Hl. }
      cbv zeta in K, C. destruct (IH _ _ F' E) as [K' C']. split.
      + intros k Hk. apply K', K, Hk.
      + intros a o [<-|Ha] Ho; [apply K', C; exact Ho|exact (C' a o Ha Ho)].
  Qed.

  Lemma deduce_facts_cover l : forall acc acc',
    Forall (fact_ok dom problem) l -> Forall (fun a => String.eqb (fst a) "=" = false) l ->
    foldM (deduce_component dom) (map atom_sexp l) acc = Ok acc' ->
    (forall k, dmem acc k = true -> dmem acc' k = true) /\
    (forall a o, In a l -> In o (snd a) -> dmem acc' o = true).
  Proof.
    induction l as [|a l IH]; intros acc acc' F N E.
    - simpl in E. injection E as <-. split; [auto|intros a o []].
    - inversion F as [|? ? (lifted & Hd & Hl & _) F']; subst. inversion N as [|? ? Na N']; subst.
      destruct a as [p args]. cbn [map foldM] in E. unfold deduce_component at 1, atom_sexp in E. cbn [fst snd] in *.
      rewrite Na, Hd, atoms_of_atoms in E. cbn [bind] in E.
      destruct (fold_dset_covers args (dvalues lifted) acc) as [K C].
      { unfold dvalues. rewrite map_length. symmetry. exact Hl. }
      cbv zeta in K, C. destruct (IH _ _ F' N' E) as [K' C']. split.
      + intros k Hk. apply K', K, Hk.
      + intros a o [<-|Ha] Ho; [apply K', C; exact Ho|exact (C' a o Ha Ho)].
  Qed.

  (* every object named by a fact or a fluent of the state is a key of the deduced table *)
  Theorem deduce_covers s objs :
    state_ok s = true -> parseable dom problem s ->
    deduce_objects dom (fluent_sexps num_text s ++ fact_sexps s) = Ok objs ->
    (forall a o, In a (den_facts s) -> In o (snd a) -> dmem objs o = true) /\
    (forall a o, In a (map fst (den_fluents s)) -> In o (snd a) -> dmem objs o = true).
  Proof.
    intros Hs (Pf & Pl & _) E. unfold deduce_objects, fluent_sexps, fact_sexps in E. rewrite foldM_app in E.
    destruct (foldM (deduce_component dom) (map (fun kv => valued_sexp (fst kv) (num_text (snd kv))) (den_fluents s)) [])
      as [acc1|] eqn:E1; [|discriminate]. cbn [bind] in E.
    assert (Ne : Forall (fun a => String.eqb (fst a) "=" = false) (den_facts s)).
    { unfold state_ok in Hs. apply andb_true_iff in Hs as [Hs1 _]. rewrite forallb_forall in Hs1.
      apply Forall_forall. intros a Ha. apply in_map_iff in Ha as (g & <- & Hg).
      specialize (Hs1 g Hg). unfold gp_ok in Hs1. apply andb_true_iff in Hs1 as [_ H]. apply negb_true_iff in H. exact H. }
    destruct (deduce_fluents_cover _ _ _ Pl E1) as [_ C1].
    destruct (deduce_facts_cover _ _ _ Pf Ne E) as [K2 C2].
    split; [exact C2|]. intros a o Ha Ho. apply K2. exact (C1 a o Ha Ho).
  Qed.
End Deduce.

Lemma parse_trajectory_deduced dom num_text parse_num agents strict t0 ts O :
  parse_trajectory dom parse_num None agents strict (traj_sexp num_text t0 ts) = Ok O ->
  deduce_objects dom (fluent_sexps num_text (t_pre t0) ++ fact_sexps (t_pre t0)) = Ok (ob_objects O).
Proof.
  unfold parse_trajectory, traj_sexp. unfold state_sexp at 1.
  destruct (negb (String.eqb (head_tok (t_pre t0)) ":init") && strict); [discriminate|].
  destruct (deduce_objects dom (fluent_sexps num_text (t_pre t0) ++ fact_sexps (t_pre t0))) as [objs|]; [|discriminate].
  cbn [bind]. destruct (parse_state dom parse_num None _) as [s0|]; [|discriminate]. cbn [bind].
  destruct (parse_steps dom parse_num None agents _ s0) as [cs|]; [|discriminate]. cbn [bind].
  intros E. injection E as <-. reflexivity.
Qed.

(* C10: with no object table, the observation's table names every object of the first state *)
Theorem roundtrip_deduced_objects dom num_text parse_num agents strict t0 ts O :
  state_ok (t_pre t0) = true -> parseable dom None (t_pre t0) ->
  parse_trajectory dom parse_num None agents strict (traj_sexp num_text t0 ts) = Ok O ->
  (forall a o, In a (den_facts (t_pre t0)) -> In o (snd a) -> dmem (ob_objects O) o = true) /\
  (forall a o, In a (map fst (den_fluents (t_pre t0))) -> In o (snd a) -> dmem (ob_objects O) o = true).
Proof.
  intros Hs Hp E. apply parse_trajectory_deduced in E. exact (deduce_covers dom num_text None _ _ Hs Hp E).
Qed.
