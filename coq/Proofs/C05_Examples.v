(* C05: concrete problems (non-vacuity of the definitions; witnesses of the deviations of the pinned tree). *)
From Coq Require Import List Ascii String Bool Arith PrimFloat.
From Verif Require Import Base.Result Base.Str Base.Sexp Base.PyDict Base.Float
  Model.Tokenizer Model.Types Model.Domain Model.NumExpr Model.Problem Model.ProblemObs
  Spec.Pddl Spec.Grammar Spec.Problem.
Import ListNotations.
Open Scope string_scope.
Open Scope list_scope.

(* float() on the numerals used below *)
Definition ex_num (s : string) : option float :=
  if String.eqb s "3.5" then Some 3.5%float else if String.eqb s "2" then Some 2%float
  else if String.eqb s "-1e3" then Some (-1000)%float else if String.eqb s "1" then Some 1%float else None.

(* types: t1 < t0 < object, t2 < object; constant c0 : t1 *)
Definition ex_dom : mdomain :=
  {| d_name := "dom"; d_reqs := [];
     d_types := [("t0", "object"); ("t1", "t0"); ("t2", "object")];
     d_consts := [("c0", "t1")];
     d_preds := [("p0", [("?a", "t0")]); ("p1", [("?a", "t0"); ("?b", "t0")]); ("z", []); ("q", [("?a", "t2")])];
     d_funcs := [("f0", [("?a", "t0")]); ("f2", [("?a", "t0"); ("?b", "t0")]);
                 ("k3", [("?a", "t0"); ("?b", "t0"); ("?c", "t2")]); ("h", [])];
     d_actions := [] |}.

Definition tok (s : string) : sexp :=
  match parse_string MStr s with Ok e => e | Err _ => Atom "" end.

Definition ex_problem : sexp := tok
  "(define (problem pr) (:domain dom) (:objects o0 o1 - t1 o2 - t2 o3)
     (:init (p0 o0) (p1 o0 o0) (p1 o1 c0) (z) (= (f0 o0) 3.5) (= (f2 o0 o1) -1e3) (= (h) 2))
     (:goal (and (p0 o1) (>= (f0 o0) 2) (< (+ (f0 c0) 1) (h)))))".
