(* C06: the hypotheses of the theorems are satisfiable by non-trivial sections. *)
From Coq Require Import List String Bool Arith Relations Permutation.
From Verif Require Import Base.Result Base.Str Base.Sexp Base.PyDict Model.Types Spec.Types
  Proofs.C06_Walk Proofs.C06_Parse Proofs.C06_Main.
Import ListNotations.
Open Scope string_scope.
Open Scope list_scope.

(* children declared BEFORE their parents, a group of two, a parent that is never on a left-hand side (d),
   a trailing untyped name: a < b < c < d < object (depth 4), c2 < d, e < object *)
Definition ex_groups : list group := [(["a"], "b"); (["b"], "c"); (["c"; "c2"], "d")].
Definition ex_trailing : list tname := ["e"].

Lemma ex_wf : wf_section ex_groups ex_trailing.
Proof.
  split; [|split].
  - split; repeat constructor; discriminate.
  - unfold one_parent. simpl. repeat constructor; simpl; intuition discriminate.
  - unfold object_is_root. simpl. intuition discriminate.
Qed.

Lemma ex_parse : parse_types (render ex_groups ex_trailing) =
  Ok [("a", "b"); ("b", "c"); ("c", "d"); ("c2", "d"); ("e", "object"); ("d", "object")].
Proof. vm_compute. reflexivity. Qed.

Lemma ex_forest : forest (decls ex_groups ex_trailing).
Proof.
  destruct ex_wf as [Hp [H1 Hr]]. split; [exact H1|split; [exact Hr|]].
  eapply ok_acyclic; [exact ex_wf|exact ex_parse].
Qed.

Lemma ex_subtype_deep : subtype (decls ex_groups ex_trailing) "a" "d".
Proof. eapply closure_lemma; [exact ex_wf|exact ex_parse|vm_compute; reflexivity]. Qed.

Lemma ex_not_subtype : ~ subtype (decls ex_groups ex_trailing) "d" "a".
Proof.
  intros H. eapply closure_lemma in H; [|exact ex_wf|exact ex_parse]. vm_compute in H. discriminate.
Qed.

(* the same declarations, parents first, regrouped, the trailing name as an explicit group *)
Definition ex_groups' : list group := [(["c2"], "d"); (["c"], "d"); (["b"], "c"); (["a"], "b"); (["e"], "object")].

Lemma ex_wf' : wf_section ex_groups' [].
Proof.
  split; [|split].
  - split; repeat constructor; discriminate.
  - unfold one_parent. simpl. repeat constructor; simpl; intuition discriminate.
  - unfold object_is_root. simpl. intuition discriminate.
Qed.

Lemma ex_same : same_decls (decls ex_groups ex_trailing) (decls ex_groups' []).
Proof. intros c p. simpl. intuition. Qed.

(* a cyclic section satisfying the hypotheses of the rejection theorem *)
Definition ex_cyclic : list group := [(["a"], "b"); (["b"], "c"); (["c"], "a")].
Lemma ex_cyclic_wf : wf_section ex_cyclic [].
Proof.
  split; [|split].
  - split; repeat constructor; discriminate.
  - unfold one_parent. simpl. repeat constructor; simpl; intuition discriminate.
  - unfold object_is_root. simpl. intuition discriminate.
Qed.
Lemma ex_cyclic_cyclic : cyclic (decls ex_cyclic []).
Proof.
  exists "a". apply t_trans with "b"; [apply t_step; unfold declared; simpl; auto|].
  apply t_trans with "c"; apply t_step; unfold declared; simpl; auto.
Qed.
