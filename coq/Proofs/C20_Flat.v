(* C20, layer (A) spelled out on flat lists: the grounded precondition literals, numeric conditions, add / delete
   effects and numeric effects of a grounded action are [map (subst sigma)] of the schema's, in the same order --
   hence equally many: nothing added, nothing omitted.  (Quantified conditions are kept lifted by Operator.ground();
   their bodies are the subject of Proofs/C20_Report.v and of C02's evaluation theorem.) *)
From Coq Require Import List Ascii String Bool Arith PrimFloat.
From Verif Require Import Base.Result Base.Str Base.PyDict Model.Types Model.Domain Model.Exec Spec.Pddl
  Proofs.C20_Defs Proofs.C20_Subst.
Import ListNotations.
Open Scope string_scope.
Open Scope list_scope.

Definition subst_flat_lit (sigma : string -> string) (l : bool * (string * list string)) : bool * atom :=
  (fst l, (fst (snd l), map sigma (snd (snd l)))).

Section Flat.
  Variable sigma : string -> string.

  Definition gconds_lits : list gcond -> list (bool * atom) :=
    fix go (l : list gcond) : list (bool * atom) := match l with [] => [] | c :: r => gcond_lits c ++ go r end.
  Definition mconds_lits : list mcond -> list (bool * (string * list string)) :=
    fix go (l : list mcond) := match l with [] => [] | c :: r => mcond_lits c ++ go r end.
  Definition gconds_trees : list gcond -> list gtree :=
    fix go (l : list gcond) : list gtree := match l with [] => [] | c :: r => gcond_trees c ++ go r end.
  Definition mconds_trees : list mcond -> list mtree :=
    fix go (l : list mcond) := match l with [] => [] | c :: r => mcond_trees c ++ go r end.

  Lemma gpre_lits_eq op os eqs neqs : gpre_lits (GPre op os eqs neqs) = gconds_lits os.
  Proof. reflexivity. Qed.
  Lemma mpre_lits_eq op os eqs neqs : mpre_lits (MPre op os eqs neqs) = mconds_lits os.
  Proof. reflexivity. Qed.
  Lemma gpre_trees_eq op os eqs neqs : gpre_trees (GPre op os eqs neqs) = gconds_trees os.
  Proof. reflexivity. Qed.
  Lemma mpre_trees_eq op os eqs neqs : mpre_trees (MPre op os eqs neqs) = mconds_trees os.
  Proof. reflexivity. Qed.

  Lemma subst_pre_flat (pm : pmap) (p : mpre) :
    gpre_lits (subst_pre sigma pm p) = map (subst_flat_lit sigma) (mpre_lits p) /\
    gpre_trees (subst_pre sigma pm p) = map (subst_tree sigma) (mpre_trees p).
  Proof.
    apply (mpre_ind'
             (fun p => gpre_lits (subst_pre sigma pm p) = map (subst_flat_lit sigma) (mpre_lits p) /\
                       gpre_trees (subst_pre sigma pm p) = map (subst_tree sigma) (mpre_trees p))
             (fun c => gcond_lits (subst_cond sigma pm c) = map (subst_flat_lit sigma) (mcond_lits c) /\
                       gcond_trees (subst_cond sigma pm c) = map (subst_tree sigma) (mcond_trees c))).
    - intros op os eqs neqs Hos. rewrite subst_pre_eq, gpre_lits_eq, mpre_lits_eq, gpre_trees_eq, mpre_trees_eq.
      induction Hos as [|c r [Hc1 Hc2] Hr [IH1 IH2]]; [split; reflexivity|].
      rewrite subst_conds_cons.
      change (gconds_lits (subst_cond sigma pm c :: subst_conds sigma pm r))
        with (gcond_lits (subst_cond sigma pm c) ++ gconds_lits (subst_conds sigma pm r)).
      change (gconds_trees (subst_cond sigma pm c :: subst_conds sigma pm r))
        with (gcond_trees (subst_cond sigma pm c) ++ gconds_trees (subst_conds sigma pm r)).
      change (mconds_lits (c :: r)) with (mcond_lits c ++ mconds_lits r).
      change (mconds_trees (c :: r)) with (mcond_trees c ++ mconds_trees r).
      rewrite !map_app, Hc1, Hc2, IH1, IH2. split; reflexivity.
    - intros pos p0 args. split; reflexivity.
    - intros t. split; reflexivity.
    - intros q [H1 H2]. split; [exact H1|exact H2].
    - intros v ty q _. split; reflexivity.
  Qed.
End Flat.

(* the statement on a call *)
Theorem C20_flat_lemma (d : mdomain) (a : maction) (args : list string) (ga : gaction) :
  let sigma := combine (dkeys (ma_sig a)) args in
  ground_action d a args = Ok ga ->
  no_shadow (d_consts d) (dkeys sigma) = true ->
  (* precondition *)
  gpre_lits (ga_pre ga) = map (subst_flat_lit (subst sigma)) (mpre_lits (ma_pre a)) /\
  gpre_trees (ga_pre ga) = map (subst_tree (subst sigma)) (mpre_trees (ma_pre a)) /\
  List.length (gpre_lits (ga_pre ga)) = List.length (mpre_lits (ma_pre a)) /\
  List.length (gpre_trees (ga_pre ga)) = List.length (mpre_trees (ma_pre a)) /\
  (* one effect group per schema group: the unconditional one first, then one per 'when', in order *)
  map gg_disc (ga_groups ga) =
    map (subst_lit (subst sigma)) (ma_disc a) :: map (fun ce => map (subst_lit (subst sigma)) (ce_disc ce)) (ma_cond a) /\
  map gg_num (ga_groups ga) =
    map (subst_tree (subst sigma)) (ma_num a) :: map (fun ce => map (subst_tree (subst sigma)) (ce_num ce)) (ma_cond a) /\
  List.length (ga_groups ga) = S (List.length (ma_cond a)).
Proof.
  intros sigma Hg Hns. rewrite (ground_action_ok d a args ga Hg). unfold call_map. fold sigma.
  assert (Hs : forall t, gname (d_consts d) sigma t = subst sigma t) by (intros t; apply gname_subst; exact Hns).
  assert (Hpre : subst_pre (gname (d_consts d) sigma) sigma (ma_pre a) = subst_pre (subst sigma) sigma (ma_pre a)).
  { apply (mpre_ind'
             (fun p => subst_pre (gname (d_consts d) sigma) sigma p = subst_pre (subst sigma) sigma p)
             (fun c => subst_cond (gname (d_consts d) sigma) sigma c = subst_cond (subst sigma) sigma c)).
    - intros op os eqs neqs Hos. rewrite !subst_pre_eq. f_equal.
      induction Hos as [|c r Hc Hr IH]; [reflexivity|]. rewrite !subst_conds_cons, Hc, IH. reflexivity.
    - intros pos p args0.
      change (subst_cond (gname (d_consts d) sigma) sigma (MLit pos p args0)) with (GLit pos (p, map (gname (d_consts d) sigma) args0)).
      rewrite (map_ext _ _ Hs). reflexivity.
    - intros t.
      change (subst_cond (gname (d_consts d) sigma) sigma (MNum t)) with (GNum (subst_tree (gname (d_consts d) sigma) t)).
      change (subst_cond (subst sigma) sigma (MNum t)) with (GNum (subst_tree (subst sigma) t)).
      f_equal. induction t as [x|f args0|op l IHl r IHr]; cbn [subst_tree];
        [reflexivity|rewrite (map_ext _ _ Hs); reflexivity|rewrite IHl, IHr; reflexivity].
    - intros q IHq.
      change (subst_cond (gname (d_consts d) sigma) sigma (MNested q)) with (GNested (subst_pre (gname (d_consts d) sigma) sigma q)).
      change (subst_cond (subst sigma) sigma (MNested q)) with (GNested (subst_pre (subst sigma) sigma q)).
      rewrite IHq. reflexivity.
    - intros v ty q _. reflexivity. }
  assert (Htree : forall t, subst_tree (gname (d_consts d) sigma) t = subst_tree (subst sigma) t).
  { induction t as [x|f args0|op l IHl r IHr]; cbn [subst_tree];
      [reflexivity|rewrite (map_ext _ _ Hs); reflexivity|rewrite IHl, IHr; reflexivity]. }
  assert (Hlit : forall l, subst_lit (gname (d_consts d) sigma) l = subst_lit (subst sigma) l).
  { intros l. unfold subst_lit. rewrite (map_ext _ _ Hs). reflexivity. }
  simpl. rewrite Hpre.
  destruct (subst_pre_flat (subst sigma) sigma (ma_pre a)) as [H1 H2].
  rewrite H1, H2, !map_length.
  repeat split; try reflexivity.
  - f_equal; [apply map_ext; exact Hlit|]. rewrite map_map. apply map_ext. intros ce. simpl. apply map_ext. exact Hlit.
  - f_equal; [apply map_ext; exact Htree|]. rewrite map_map. apply map_ext. intros ce. simpl. apply map_ext. exact Htree.
Qed.
