(* C06: the ancestor walk on an abstract table.  A table T (name -> parent name) "represents" a declaration
   list ds when its entries are declared pairs or (p, object), and every declared pair is an entry.
   Then walk decides the closure, needs at most |T|+1 steps on an acyclic table and never ends on a cyclic one. *)
From Coq Require Import List String Bool Arith Lia Relations.
From Verif Require Import Base.Result Base.Str Base.Sexp Base.PyDict Model.Types Spec.Types.
Import ListNotations.
Open Scope string_scope.
Open Scope list_scope.

(* ---------- dict facts ---------- *)
Lemma dget_In {V} (d : pydict V) k v : dget d k = Some v -> In (k, v) d.
Proof.
  induction d as [|[k' v'] r IH]; simpl; [discriminate|].
  destruct (String.eqb k k') eqn:E.
  - apply String.eqb_eq in E. subst k'. intros H. injection H as ->. left. reflexivity.
  - intros H. right. apply IH, H.
Qed.

Lemma dget_In_key {V} (d : pydict V) k v : dget d k = Some v -> In k (map fst d).
Proof. intros H. apply dget_In in H. apply in_map_iff. exists (k, v). split; [reflexivity|exact H]. Qed.

Lemma dget_None_notin {V} (d : pydict V) k : dget d k = None <-> ~ In k (map fst d).
Proof.
  induction d as [|[k' v'] r IH]; simpl.
  - split; [intros _ []|reflexivity].
  - destruct (String.eqb k k') eqn:E.
    + apply String.eqb_eq in E. subst k'. split; [discriminate|]. intros H. exfalso. apply H. left. reflexivity.
    + apply String.eqb_neq in E. rewrite IH. split.
      * intros H [H1|H1]; [congruence|apply H, H1].
      * intros H H1. apply H. right. exact H1.
Qed.

Lemma In_dget_nodup {V} (d : pydict V) k v : NoDup (map fst d) -> In (k, v) d -> dget d k = Some v.
Proof.
  induction d as [|[k' v'] r IH]; simpl; intros Hnd Hin; [contradiction|].
  inversion Hnd as [|a l Hnotin Hnd']; subst.
  destruct Hin as [Heq|Hin].
  - injection Heq as -> ->. rewrite String.eqb_refl. reflexivity.
  - destruct (String.eqb k k') eqn:E.
    + apply String.eqb_eq in E. subst k'. exfalso. apply Hnotin. apply in_map_iff. exists (k, v). split; [reflexivity|exact Hin].
    + apply IH; assumption.
Qed.

Lemma dmem_In {V} (d : pydict V) k : dmem d k = true <-> In k (map fst d).
Proof.
  unfold dmem. destruct (dget d k) as [v|] eqn:E.
  - split; [intros _; eapply dget_In_key; exact E|reflexivity].
  - split; [discriminate|]. intros H. apply dget_None_notin in E. contradiction.
Qed.

(* ---------- the table relation ---------- *)
Definition tedge (T : typetable) (x y : string) : Prop := dget T x = Some y.

Section Table.
  Variable T : typetable.
  Variable ds : list decl.

  (* every entry is a declared pair or hangs under object *)
  Definition entries_sound : Prop := forall x p, dget T x = Some p -> declared ds x p \/ p = "object".
  (* every declared pair is an entry *)
  Definition entries_complete : Prop := forall x p, declared ds x p -> dget T x = Some p.
  Definition no_object_key : Prop := dget T "object" = None.

  Lemma walk_sound (Hs : entries_sound) : forall fuel x y,
    walk fuel T x y = Ok true -> subtype ds x y.
  Proof.
    induction fuel as [|f IH]; intros x y; simpl.
    - destruct (String.eqb x y) eqn:E; [|discriminate]. apply String.eqb_eq in E. subst y. intros _. apply rt_refl.
    - destruct (String.eqb x y) eqn:E.
      + apply String.eqb_eq in E. subst y. intros _. apply rt_refl.
      + destruct (String.eqb x "object"); [discriminate|].
        destruct (dget T x) as [p|] eqn:Eg; intros H.
        * apply rt_trans with p; [apply rt_step|apply IH, H].
          destruct (Hs x p Eg) as [Hd|Hp]; [left; exact Hd|right; exact Hp].
        * apply rt_trans with "object"; [apply rt_step; right; reflexivity|apply IH, H].
  Qed.

  Lemma subtype_from_object (Hroot : object_is_root ds) y : subtype ds "object" y -> y = "object".
  Proof.
    intros H. apply clos_rt_rt1n in H.
    assert (Hgen : forall o y', clos_refl_trans_1n tname (edge ds) o y' -> o = "object" -> y' = "object").
    { clear H. intros o y' H. induction H as [o|o z y' Hxz Hzy IH]; intros Ho; [exact Ho|]. subst o.
      destruct Hxz as [Hd|Hz].
      - exfalso. apply Hroot. apply in_map_iff. exists ("object", z). split; [reflexivity|exact Hd].
      - apply IH, Hz. }
    apply (Hgen _ _ H). reflexivity.
  Qed.

  Lemma subtype_to_object x : subtype ds x "object".
  Proof. apply rt_step. right. reflexivity. Qed.

  Lemma subtype_unfold x y : subtype ds x y -> x = y \/ exists z, edge ds x z /\ subtype ds z y.
  Proof.
    intros H. apply clos_rt_rt1n in H. destruct H as [|z y Hxz Hzy]; [left; reflexivity|].
    right. exists z. split; [exact Hxz|apply clos_rt1n_rt, Hzy].
  Qed.

  (* if the chain from x reaches object within the fuel, every supertype of x is found with the same fuel *)
  Lemma walk_complete (Hc : entries_complete) (Hroot : object_is_root ds) : forall fuel x y,
    walk fuel T x "object" = Ok true -> subtype ds x y -> walk fuel T x y = Ok true.
  Proof.
    induction fuel as [|f IH]; intros x y Hreach Hsub.
    - simpl in *. destruct (String.eqb x y) eqn:E; [reflexivity|].
      destruct (String.eqb x "object") eqn:Eo; [|discriminate].
      apply String.eqb_eq in Eo. subst x. apply subtype_from_object in Hsub; [|exact Hroot].
      subst y. discriminate E.
    - simpl in *. destruct (String.eqb x y) eqn:E; [reflexivity|].
      destruct (String.eqb x "object") eqn:Eo.
      + apply String.eqb_eq in Eo. subst x. apply subtype_from_object in Hsub; [|exact Hroot].
        subst y. discriminate E.
      + apply String.eqb_neq in E.
        destruct (subtype_unfold x y Hsub) as [Heq|[z [Hxz Hzy]]]; [contradiction|].
        destruct Hxz as [Hd|Hz].
        * rewrite (Hc x z Hd) in *. apply IH; assumption.
        * subst z. apply subtype_from_object in Hzy; [|exact Hroot]. subst y.
          destruct (dget T x) as [p|]; apply IH; try assumption; apply subtype_to_object.
  Qed.

  (* with one more unit of fuel the walk towards any target ends without running out *)
  Lemma walk_total_S : forall fuel x y,
    walk fuel T x "object" = Ok true -> exists b, walk (S fuel) T x y = Ok b.
  Proof.
    induction fuel as [|f IH]; intros x y Hreach.
    - simpl in Hreach. destruct (String.eqb x "object") eqn:Eo; [|discriminate].
      simpl. destruct (String.eqb x y); [eexists; reflexivity|]. rewrite Eo. eexists; reflexivity.
    - change (walk (S (S f)) T x y) with
        (if String.eqb x y then Ok true else
           if String.eqb x "object" then Ok false else
             match dget T x with Some p => walk (S f) T p y | None => walk (S f) T "object" y end).
      simpl in Hreach.
      destruct (String.eqb x y); [eexists; reflexivity|].
      destruct (String.eqb x "object") eqn:Eo; [eexists; reflexivity|].
      destruct (dget T x) as [p|]; apply IH; exact Hreach.
  Qed.

  (* ---------- cycles never reach object ---------- *)
  Lemma cycle_step (Hno : no_object_key) z :
    clos_trans string (tedge T) z z -> z <> "object" /\ exists p, dget T z = Some p /\ clos_trans string (tedge T) p p.
  Proof.
    intros H. apply clos_trans_t1n in H.
    assert (Hgen : forall a b, clos_trans_1n string (tedge T) a b ->
                     a <> "object" /\ exists p, dget T a = Some p /\ (p = b \/ clos_trans string (tedge T) p b)).
    { intros a b Hab. destruct Hab as [b Hab|p b Hap Hpb].
      - split; [intros ->; unfold tedge in Hab; rewrite Hno in Hab; discriminate|].
        exists b. split; [exact Hab|left; reflexivity].
      - split; [intros ->; unfold tedge in Hap; rewrite Hno in Hap; discriminate|].
        exists p. split; [exact Hap|right; apply clos_t1n_trans, Hpb]. }
    destruct (Hgen z z H) as [Hne [p [Hp Hor]]]. split; [exact Hne|]. exists p. split; [exact Hp|].
    destruct Hor as [->|Hpz].
    - apply t_step. exact Hp.
    - apply t_trans with z; [exact Hpz|apply t_step; exact Hp].
  Qed.

  Lemma cycle_never_reaches (Hno : no_object_key) : forall fuel z,
    clos_trans string (tedge T) z z -> walk fuel T z "object" = Err ERecursion.
  Proof.
    induction fuel as [|f IH]; intros z Hc; destruct (cycle_step Hno z Hc) as [Hne [p [Hp Hcp]]];
      apply String.eqb_neq in Hne; simpl; rewrite Hne; [reflexivity|].
    rewrite Hp. apply IH, Hcp.
  Qed.

  (* ---------- an acyclic table reaches object within |T|+1 steps (pigeonhole on the visited keys) ---------- *)
  Definition tacyclic : Prop := forall z, ~ clos_trans string (tedge T) z z.

  Lemma reach_visited (Hac : tacyclic) : forall fuel vis x,
    NoDup vis ->
    (forall v, In v vis -> In v (map fst T) /\ clos_trans string (tedge T) v x) ->
    List.length vis + fuel >= S (List.length T) ->
    walk fuel T x "object" = Ok true.
  Proof.
    induction fuel as [|f IH]; intros vis x Hnd Hvis Hlen.
    - exfalso.
      assert (Hincl : incl vis (map fst T)) by (intros v Hv; apply Hvis, Hv).
      pose proof (NoDup_incl_length Hnd Hincl) as Hle. rewrite map_length in Hle. lia.
    - simpl. destruct (String.eqb x "object") eqn:Eo; [reflexivity|].
      destruct (dget T x) as [p|] eqn:Eg.
      + assert (Hxnot : ~ In x vis).
        { intros Hin. apply (Hac x). apply Hvis, Hin. }
        apply (IH (x :: vis)).
        * constructor; assumption.
        * intros v [Hv|Hv].
          -- subst v. split; [eapply dget_In_key; exact Eg|apply t_step; exact Eg].
          -- destruct (Hvis v Hv) as [Hk Hvx]. split; [exact Hk|].
             apply t_trans with x; [exact Hvx|apply t_step; exact Eg].
        * simpl. lia.
      + destruct f as [|f']; reflexivity.
  Qed.

  Lemma acyclic_reaches (Hac : tacyclic) x : walk (S (List.length T)) T x "object" = Ok true.
  Proof.
    apply (reach_visited Hac (S (List.length T)) [] x).
    - constructor.
    - intros v [].
    - simpl. lia.
  Qed.

  Lemma acyclic_total (Hac : tacyclic) x y : exists b, walk (S (S (List.length T))) T x y = Ok b.
  Proof. apply walk_total_S, acyclic_reaches, Hac. Qed.

  (* a cycle of table edges that does not end in object is a cycle of declared pairs *)
  Lemma tedge_declared (Hs : entries_sound) (Hno : no_object_key) x y :
    clos_trans string (tedge T) x y -> y <> "object" -> clos_trans string (declared ds) x y.
  Proof.
    intros H Hy. apply clos_trans_t1n in H.
    induction H as [x y Hxy|x z y Hxz Hzy IH].
    - apply t_step. destruct (Hs x y Hxy) as [Hd|Ho]; [exact Hd|contradiction].
    - assert (Hz : z <> "object").
      { intros ->. destruct Hzy as [y Hzy|w y Hzw _]; unfold tedge in *; rewrite Hno in *; discriminate. }
      apply t_trans with z; [apply t_step|apply IH, Hy].
      destruct (Hs x z Hxz) as [Hd|Ho]; [exact Hd|contradiction].
  Qed.

  Lemma acyclic_table (Hs : entries_sound) (Hno : no_object_key) : acyclic ds -> tacyclic.
  Proof.
    intros Hac z Hz. destruct (cycle_step Hno z Hz) as [Hne _].
    apply (Hac z). apply tedge_declared; assumption.
  Qed.

  Lemma declared_tedge (Hc : entries_complete) x y :
    clos_trans string (declared ds) x y -> clos_trans string (tedge T) x y.
  Proof.
    intros H. induction H as [x y Hxy|x z y _ IH1 _ IH2].
    - apply t_step. apply Hc, Hxy.
    - apply t_trans with z; assumption.
  Qed.
End Table.

(* reaching object with the fuel of the parser's check means: not on a cycle *)
Lemma reaches_not_cyclic (T : typetable) (Hno : no_object_key T) z :
  reaches_object T z = true -> ~ clos_trans string (tedge T) z z.
Proof.
  unfold reaches_object. intros H Hc. rewrite (cycle_never_reaches T Hno _ z Hc) in H. discriminate.
Qed.
