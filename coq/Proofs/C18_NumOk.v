(* C18, part 14: the hypothesis num_ok of C18_parser_well_formed / C18_rename_parsed_domain (no numeral accepted by float()
   starts with '<' or '>') is decidable for the finite float() table that a correspondence case carries: Corr.C18 checks
   num_okb on every case, so that every judged case lies inside those theorems as well. *)
From Coq Require Import List String Bool PrimFloat.
From Verif Require Import Base.Str Model.Domain Spec.Pddl Proofs.C18_Parser.
Import ListNotations.
Open Scope string_scope.
Open Scope list_scope.

Definition num_okb (table : list (string * float)) : bool :=
  forallb (fun kv => match fst kv with
                     | EmptyString => true
                     | String c _ => negb (str_in (String c EmptyString) comparison_ops)
                     end) table.

Lemma lookup_In {V} (k : name) (l : list (name * V)) x : lookup k l = Some x -> In (k, x) l.
Proof.
  induction l as [|[k' v] r IH]; simpl; intros H; [discriminate|].
  destruct (String.eqb k k') eqn:E.
  - apply String.eqb_eq in E. inversion H; subst. left. reflexivity.
  - right. apply IH. exact H.
Qed.

Theorem num_okb_sound (table : list (string * float)) :
  num_okb table = true -> num_ok (fun s => lookup s table).
Proof.
  unfold num_okb, num_ok. rewrite forallb_forall. intros H s x Hs c r E.
  specialize (H (s, x) (lookup_In s table x Hs)). simpl in H. rewrite E in H.
  apply negb_true_iff in H. exact H.
Qed.
