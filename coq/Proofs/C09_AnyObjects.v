(* C09: the round trip for EVERY accepted text whose normal form (object section rewritten as "n1 - t1 n2 - t2 ...",
   Spec/ProblemObjects.v: a name declared again has its first place and its last type, nested lists are spliced) is in
   the grammar of Spec/Problem.v: the parser returns for the text what it returns for its normal form
   (Proofs/C05_AnyObjects.v), so C09_roundtrip_t_lemma applies.  The exporter writes the normal form itself. *)
From Coq Require Import List Ascii String Bool Arith PrimFloat.
From Verif Require Import Base.Result Base.Str Base.Sexp Base.PyDict Base.Float
  Model.Types Model.Domain Model.NumExpr Model.Problem Model.ProblemObs Model.ProblemExporter
  Spec.Pddl Spec.Grammar Spec.Problem Spec.ProblemObjects
  Proofs.C05_Items Proofs.C05_Parse Proofs.C05_Main Proofs.C05_AnyObjects Proofs.C09_Export Proofs.C09_Round Proofs.C09_Main.
Import ListNotations.
Open Scope string_scope.
Open Scope list_scope.

Theorem C09_roundtrip_any_objects_lemma num repr_text dom (Hdom : dom_ok dom) (Hnum : num_ok num) gt e sp pb :
  parse_problem (cfg_gt gt) num dom e = Ok pb ->
  read_problem num (normal_objects e) = Some sp -> repr_ok num repr_text sp -> safe_repeats sp = true -> sp_name sp <> "" ->
  exists pb', parse_problem (cfg_gt gt) num dom (export_problem repr_text None (d_name dom) pb) = Ok pb' /\
              same_obs pb' pb /\
  exists pb'', parse_problem (cfg_gt gt) num dom (export_problem repr_text None (d_name dom) pb') = Ok pb'' /\
               same_obs pb'' pb.
Proof.
  intros Hp Hr Hrepr Hs Hn.
  apply (C09_roundtrip_t_lemma num repr_text dom Hdom Hnum gt (normal_objects e) sp pb Hr Hrepr Hs Hn).
  apply parse_problem_normal_objects. exact Hp.
Qed.

(* the object section the exporter writes is the normal form of the table *)
Lemma export_objects_normal (objs : pydict string) : export_objects objs = objects_text objs.
Proof. reflexivity. Qed.
