(* C15: the outcome theorem.  For a valid sequential plan, the converter's joint actions (with the repaired
   interference test [insertion_ok]) group only actions that are applicable in the step's pre-state, and executing
   the joint plan with the library's apply_actions ends in the state of the sequential execution (as a set of facts
   and a map of fluents).  Induction on the greedy loop; two members commute because the test makes their effects
   compatible. *)
From Coq Require Import List Ascii String Bool Arith Lia PrimFloat Permutation.
From Verif Require Import Base.Result Base.Str Base.PyDict Model.Types Model.Domain Model.Exec Spec.Pddl
  Spec.JointPlan Model.PlanConverter Proofs.C15_Loop Proofs.C15_Views Proofs.C15_Effect.
Import ListNotations.
Open Scope string_scope.
Open Scope list_scope.

(* ---------- folds of commuting steps ---------- *)
Lemma fold_step_commute {A O} (step : A -> O -> A) (o : O) (l : list O) :
  (forall o2 v, In o2 l -> step (step v o) o2 = step (step v o2) o) ->
  forall v, step (fold_left step l v) o = fold_left step l (step v o).
Proof.
  induction l as [|o2 l IH]; intros H v; [reflexivity|]. cbn [fold_left].
  rewrite IH; [|intros o3 v3 H3; apply H; right; exact H3].
  rewrite (H o2 v (or_introl eq_refl)). reflexivity.
Qed.

Lemma fold_commute {A O} (step : A -> O -> A) (l1 l2 : list O) :
  (forall o1 o2 v, In o1 l1 -> In o2 l2 -> step (step v o1) o2 = step (step v o2) o1) ->
  forall v, fold_left step l1 (fold_left step l2 v) = fold_left step l2 (fold_left step l1 v).
Proof.
  induction l1 as [|o1 l1 IH]; intros H v; [reflexivity|]. cbn [fold_left].
  rewrite (fold_step_commute step o1 l2); [|intros o2 v2 H2; apply H; [left; reflexivity|exact H2]].
  apply IH. intros o1' o2 v' H1 H2. apply H; [right; exact H1|exact H2].
Qed.

Lemma not_in_false x l : ~ In x l -> atom_in x l = false.
Proof. intros H. destruct (atom_in x l) eqn:E; [apply atom_in_In in E; contradiction|reflexivity]. Qed.

(* the effects of two lists of fired groups commute when no atom is added by one and deleted by the other and no
   fluent is assigned by both *)
Lemma gops_commute (Oa Ob : list gop) (c : state) :
  (forall oa ob x, In oa Oa -> In ob Ob -> In x (o_adds oa) -> In x (o_dels ob) -> False) ->
  (forall oa ob x, In oa Oa -> In ob Ob -> In x (o_dels oa) -> In x (o_adds ob) -> False) ->
  (forall oa ob k, In oa Oa -> In ob Ob -> In k (map fst (o_vals oa)) -> In k (map fst (o_vals ob)) -> False) ->
  seqv (apply_gops (apply_gops c Ob) Oa) (apply_gops (apply_gops c Oa) Ob).
Proof.
  intros H1 H2 H3. split.
  - intros x. rewrite !apply_gops_facts. unfold fact_after. apply fold_commute.
    intros oa ob v Ha Hb.
    destruct (atom_in x (o_adds oa)) eqn:Eaa, (atom_in x (o_dels ob)) eqn:Edb;
      try (apply atom_in_In in Eaa; apply atom_in_In in Edb; exfalso; exact (H1 oa ob x Ha Hb Eaa Edb));
      destruct (atom_in x (o_dels oa)) eqn:Eda, (atom_in x (o_adds ob)) eqn:Eab;
      try (apply atom_in_In in Eda; apply atom_in_In in Eab; exfalso; exact (H2 oa ob x Ha Hb Eda Eab));
      destruct v; reflexivity.
  - intros k. rewrite !apply_gops_fluents. unfold fluent_after. apply fold_commute.
    intros oa ob v Ha Hb.
    destruct (assigned k (o_vals oa)) as [wa|] eqn:Ea; [|reflexivity].
    destruct (assigned k (o_vals ob)) as [wb|] eqn:Eb; [|reflexivity].
    exfalso. apply (H3 oa ob k Ha Hb).
    + destruct (in_dec (fun a b => match Bool.bool_dec (atom_eqb a b) true with left e => left (proj1 (aeq_eq a b) e)
                                  | right n => right (fun e => n (proj2 (aeq_eq a b) e)) end) k (map fst (o_vals oa))) as [i|n]; [exact i|].
      rewrite (assigned_none k (o_vals oa)) in Ea; [discriminate| |exact n].
      intros w Hw. apply n. apply in_map_iff. exists (k, w). auto.
    + destruct (in_dec (fun a b => match Bool.bool_dec (atom_eqb a b) true with left e => left (proj1 (aeq_eq a b) e)
                                  | right n => right (fun e => n (proj2 (aeq_eq a b) e)) end) k (map fst (o_vals ob))) as [i|n]; [exact i|].
      rewrite (assigned_none k (o_vals ob)) in Eb; [discriminate| |exact n].
      intros w Hw. apply n. apply in_map_iff. exists (k, w). auto.
Qed.

(* a list of fired groups leaves alone what it does not touch *)
Lemma gops_agree (Os : list gop) (c : state) (A F : list atom) :
  (forall o x, In o Os -> In x A -> ~ In x (o_dels o) /\ ~ In x (o_adds o)) ->
  (forall o k, In o Os -> In k F -> ~ In k (map fst (o_vals o))) ->
  agree_on A F c (apply_gops c Os).
Proof.
  intros H1 H2. split.
  - intros x Hx. rewrite apply_gops_facts, fact_after_untouched; [reflexivity|]. intros o Ho. apply H1; assumption.
  - intros k Hk. rewrite apply_gops_fluents, fluent_after_untouched; [reflexivity|]. intros o Ho. apply H2; assumption.
Qed.

Lemma agree_on_trans A F s1 s2 s3 : agree_on A F s1 s2 -> agree_on A F s2 s3 -> agree_on A F s1 s3.
Proof. intros [A1 F1] [A2 F2]. split; intros; [rewrite A1, A2|rewrite F1, F2]; auto. Qed.
Lemma agree_on_sym A F s1 s2 : agree_on A F s1 s2 -> agree_on A F s2 s1.
Proof. intros [A1 F1]. split; intros; symmetry; auto. Qed.

(* ---------- compatibility of two actions' collected sets (what insertion_ok establishes) ---------- *)
Record compat (Sa Sb : esets) : Prop := {
  c_ad : forall x, In x (s_add Sa) -> In x (s_del Sb) -> False;
  c_da : forall x, In x (s_del Sa) -> In x (s_add Sb) -> False;
  c_ea : forall x, In x (s_effatoms Sa) -> In x (s_add Sb ++ s_del Sb) -> False;
  c_eb : forall x, In x (s_effatoms Sb) -> In x (s_add Sa ++ s_del Sa) -> False;
  c_nn : forall k, In k (s_num Sa) -> In k (s_num Sb) -> False;
  c_fa : forall k, In k (s_efffl Sa) -> In k (s_num Sb) -> False;
  c_fb : forall k, In k (s_efffl Sb) -> In k (s_num Sa) -> False
}.

Definition sets_incl (S acc : esets) : Prop :=
  incl (s_add S) (s_add acc) /\ incl (s_del S) (s_del acc) /\ incl (s_num S) (s_num acc) /\
  incl (s_effatoms S) (s_effatoms acc) /\ incl (s_efffl S) (s_efffl acc).

Lemma sets_incl_refl S : sets_incl S S.
Proof. repeat split; apply incl_refl. Qed.
Lemma sets_incl_union_l S acc T : sets_incl S acc -> sets_incl S (esets_union acc T).
Proof. intros (A & B & C & D & E). repeat split; cbn; apply incl_appl; assumption. Qed.
Lemma sets_incl_union_r S acc : sets_incl S (esets_union acc S).
Proof. repeat split; cbn; apply incl_appr; apply incl_refl. Qed.

Lemma insertion_ok_compat acc Sa Sb : sets_incl Sa acc -> insertion_ok acc Sb = true -> compat Sa Sb.
Proof.
  intros (IA & ID & IN & IE & IF) H. unfold insertion_ok in H. apply negb_true_iff in H.
  apply orb_false_iff in H; destruct H as [H HJ].
  apply orb_false_iff in H; destruct H as [H HI].
  apply orb_false_iff in H; destruct H as [H HH].
  apply orb_false_iff in H; destruct H as [H HG].
  apply orb_false_iff in H; destruct H as [H HF].
  apply orb_false_iff in H; destruct H as [H HE].
  apply orb_false_iff in H; destruct H as [H HD].
  apply orb_false_iff in H; destruct H as [H HC].
  apply orb_false_iff in H; destruct H as [HA HB].
  constructor.
  - intros x Hx Hy. exact (intersects_false _ _ HA x (IA x Hx) Hy).
  - intros x Hx Hy. exact (intersects_false _ _ HB x (ID x Hx) Hy).
  - intros x Hx Hy. exact (intersects_false _ _ HG x (IE x Hx) Hy).
  - intros x Hx Hy. apply (intersects_false _ _ HH x Hx). apply in_app_or in Hy. apply in_or_app.
    destruct Hy; [left; apply IA|right; apply ID]; assumption.
  - intros k Hx Hy. exact (intersects_false _ _ HD k (IN k Hx) Hy).
  - intros k Hx Hy. exact (intersects_false _ _ HI k (IF k Hx) Hy).
  - intros k Hx Hy. exact (intersects_false _ _ HJ k Hx (IN k Hy)).
Qed.

Section Sound.
  Variable dom : mdomain.
  Variable eps : float.
  Variable agents : list string.
  Variable flag : bool.

  Notation mk := (mk_op dom).
  Notation isapp := (is_applicable dom eps None).
  Notation applyA := (apply_actions dom eps).
  Notation checksC := (checks dom eps flag insertion_ok).

  (* the precondition of the grounded action evaluates in every state (no division by a fluent that may be 0) *)
  Definition pre_total (c : call) : Prop :=
    forall ga, mk c = Ok ga -> forall st, exists b, isapp ga st = Ok b.

  (* one member of apply_actions' loop: applicability in [pre], effects on [acc] *)
  Definition member_step (pre acc : state) (c : call) : result state :=
    do ga <- mk c; do b <- isapp ga pre;
    if b then apply_op dom eps ga None true false (group_ids ga) [] acc else Err EValue.

  Lemma members_one c : is_nop c = false -> members [c] = [c].
  Proof. intros H. unfold members. cbn. rewrite H. reflexivity. Qed.
  Lemma members_two c1 c2 : is_nop c1 = false -> is_nop c2 = false -> members [c1; c2] = [c1; c2].
  Proof. intros H1 H2. unfold members. cbn. rewrite H1, H2. reflexivity. Qed.

  Lemma apply_actions_two pre c1 c2 :
    is_nop c1 = false -> is_nop c2 = false ->
    applyA pre [c1; c2] = do a1 <- member_step pre pre c1; member_step pre a1 c2.
  Proof.
    intros H1 H2. unfold apply_actions. rewrite (members_two c1 c2 H1 H2). unfold member_step. cbn [foldM].
    destruct (mk c1) as [g1|]; cbn [bind]; [|reflexivity].
    destruct (isapp g1 pre) as [[|]|]; cbn [bind]; try reflexivity.
    destruct (apply_op dom eps g1 None true false (group_ids g1) [] pre) as [a1|]; cbn [bind]; [|reflexivity].
    destruct (mk c2) as [g2|]; cbn [bind]; [|reflexivity].
    destruct (isapp g2 pre) as [[|]|]; cbn [bind]; try reflexivity.
    destruct (apply_op dom eps g2 None true false (group_ids g2) [] a1); reflexivity.
  Qed.

  (* what a successful single application tells *)
  Lemma single_inv s c s1 :
    is_nop c = false -> applyA s [c] = Ok s1 ->
    exists ga Oa, mk c = Ok ga /\ isapp ga s = Ok true /\ ops_of dom eps ga s = Ok Oa /\ s1 = apply_gops s Oa.
  Proof.
    intros Hn. unfold apply_actions. rewrite (members_one c Hn).
    destruct (mk c) as [ga|] eqn:E1; cbn [bind]; [|discriminate].
    rewrite apply_op_unfold. destruct (isapp ga s) as [[|]|] eqn:E2; cbn [bind negb andb]; try discriminate.
    destruct (ops_of dom eps ga s) as [Oa|] eqn:E3; cbn [bind]; [|discriminate].
    intros H. inversion H. exists ga, Oa. auto.
  Qed.

  Lemma single_fwd s c ga Oa :
    is_nop c = false ->
    mk c = Ok ga -> isapp ga s = Ok true -> ops_of dom eps ga s = Ok Oa -> applyA s [c] = Ok (apply_gops s Oa).
  Proof.
    intros Hn E1 E2 E3. unfold apply_actions. rewrite (members_one c Hn), E1. cbn [bind]. rewrite apply_op_unfold, E2. cbn [bind negb andb].
    rewrite E3. reflexivity.
  Qed.

  (* a member applied on [acc] when its precondition evaluates there *)
  Lemma member_fwd pre acc c ga Oa b :
    mk c = Ok ga -> isapp ga pre = Ok true -> isapp ga acc = Ok b ->
    ops_of dom eps ga acc = Ok Oa -> member_step pre acc c = Ok (apply_gops acc Oa).
  Proof.
    intros E1 E2 E3 E4. unfold member_step. rewrite E1. cbn [bind]. rewrite E2. cbn [bind].
    rewrite apply_op_unfold, E3. cbn [bind]. rewrite andb_false_r, E4. reflexivity.
  Qed.

  (* ---------- the sets accumulated for a joint action under construction ---------- *)
  Lemma accumulate_incl ja acc :
    accumulate dom ja = Ok acc ->
    forall c, In c ja -> is_nop c = false ->
    exists ga S, mk c = Ok ga /\ action_sets ga = Ok S /\ sets_incl S acc.
  Proof.
    unfold accumulate. generalize esets_empty as a0. revert acc.
    induction ja as [|c0 ja IH]; intros acc a0 H c Hc Hn; [destruct Hc|].
    cbn [foldM] in H. destruct (is_nop c0) eqn:E0; cbn [bind] in H.
    - destruct Hc as [<-|Hc]; [congruence|]. apply (IH acc a0 H c Hc Hn).
    - destruct (mk c0) as [g0|] eqn:Eg; cbn [bind] in H; [|discriminate].
      destruct (action_sets g0) as [S0|] eqn:ES; cbn [bind] in H; [|discriminate].
      destruct Hc as [<-|Hc].
      + exists g0, S0. split; [exact Eg|split; [exact ES|]].
        clear -H. assert (G : forall l a acc, foldM (fun acc c => if is_nop c then Ok acc else do ga <- mk c; do s <- action_sets ga; Ok (esets_union acc s)) l a = Ok acc ->
                               forall S, sets_incl S a -> sets_incl S acc).
        { induction l as [|c l IHl]; intros a acc' Hf S HS; cbn [foldM] in Hf; [inversion Hf; subst; exact HS|].
          destruct (is_nop c); cbn [bind] in Hf; [apply (IHl a acc' Hf S HS)|].
          destruct (mk c) as [gc|]; cbn [bind] in Hf; [|discriminate]. destruct (action_sets gc); cbn [bind] in Hf; [|discriminate].
          apply (IHl _ acc' Hf S). apply sets_incl_union_l. exact HS. }
        apply (G ja _ acc H). apply sets_incl_union_r.
      + apply (IH acc _ H c Hc Hn).
  Qed.

  (* ---------- two members: the joint application equals the sequential one ---------- *)
  Lemma two_members s s' a b s2 Sa Sb ga gb :
    seqv s' s ->
    is_nop a = false -> is_nop b = false ->
    run_sequential dom eps s [a; b] = Ok s2 ->
    mk a = Ok ga -> mk b = Ok gb -> action_sets ga = Ok Sa -> action_sets gb = Ok Sb ->
    compat Sa Sb -> isapp gb s' = Ok true -> pre_total a ->
    forall l, (l = [a; b] \/ l = [b; a]) -> exists r, applyA s' l = Ok r /\ seqv r s2.
  Proof.
    intros Heq Hna Hnb Hseq Ega Egb ESa ESb Hc Happb Htot l Hl.
    unfold run_sequential in Hseq. cbn [foldM] in Hseq.
    destruct (applyA s [a]) as [s1|] eqn:E1; cbn [bind] in Hseq; [|discriminate].
    destruct (applyA s1 [b]) as [s2'|] eqn:E2; cbn [bind] in Hseq; [|discriminate].
    inversion Hseq; subst s2'. clear Hseq.
    apply (single_inv _ _ _ Hna) in E1. destruct E1 as (ga' & Oa & Ea1 & Ea2 & Ea3 & ->). rewrite Ega in Ea1. inversion Ea1; subst ga'. clear Ea1.
    apply (single_inv _ _ _ Hnb) in E2. destruct E2 as (gb' & Ob & Eb1 & Eb2 & Eb3 & ->). rewrite Egb in Eb1. inversion Eb1; subst gb'. clear Eb1.
    (* what the fired groups touch *)
    assert (Ta := ops_touch dom eps ga Sa s Oa ESa Ea3).
    assert (Tb := ops_touch dom eps gb Sb (apply_gops s Oa) Ob ESb Eb3).
    assert (Happa : isapp ga s' = Ok true) by (rewrite (is_applicable_eqv dom eps ga s' s Heq); exact Ea2).
    assert (Hopa : ops_of dom eps ga s' = Ok Oa).
    { rewrite (ops_frame dom eps ga Sa s' s ESa); [exact Ea3|apply seqv_agree; exact Heq]. }
    (* b's effect dependencies are not touched by a's fired groups *)
    assert (Hagb : agree_on (s_effatoms Sb) (s_efffl Sb ++ s_num Sb) s (apply_gops s Oa)).
    { apply gops_agree.
      - intros o x Ho Hx. destruct (Ta o Ho) as (A1 & A2 & _). split; intros Hin.
        + apply (c_eb Sa Sb Hc x Hx). apply in_or_app. right. apply A2. exact Hin.
        + apply (c_eb Sa Sb Hc x Hx). apply in_or_app. left. apply A1. exact Hin.
      - intros o k Ho Hk Hin. destruct (Ta o Ho) as (_ & _ & A3). apply in_app_or in Hk. destruct Hk as [Hk|Hk].
        + exact (c_fb Sa Sb Hc k Hk (A3 k Hin)).
        + exact (c_nn Sa Sb Hc k (A3 k Hin) Hk). }
    assert (Hopb : ops_of dom eps gb s' = Ok Ob).
    { rewrite (ops_frame dom eps gb Sb s' (apply_gops s Oa) ESb); [exact Eb3|].
      eapply agree_on_trans; [apply seqv_agree; exact Heq|exact Hagb]. }
    destruct Hl as [-> | ->]; rewrite apply_actions_two by assumption.
    - (* slot order = plan order *)
      rewrite (member_fwd s' s' a ga Oa true Ega Happa Happa Hopa). cbn [bind].
      assert (Heq1 : seqv (apply_gops s' Oa) (apply_gops s Oa)) by (apply apply_gops_eqv; exact Heq).
      rewrite (member_fwd s' (apply_gops s' Oa) b gb Ob true Egb Happb).
      + eexists. split; [reflexivity|]. apply apply_gops_eqv. exact Heq1.
      + rewrite (is_applicable_eqv dom eps gb _ _ Heq1). exact Eb2.
      + rewrite (ops_frame dom eps gb Sb _ (apply_gops s Oa) ESb); [exact Eb3|apply seqv_agree; exact Heq1].
    - (* slot order = reverse plan order *)
      rewrite (member_fwd s' s' b gb Ob true Egb Happb Happb Hopb). cbn [bind].
      destruct (Htot ga Ega (apply_gops s' Ob)) as [ba Hba].
      assert (Tb' := ops_touch dom eps gb Sb s' Ob ESb Hopb).
      assert (Hopa' : ops_of dom eps ga (apply_gops s' Ob) = Ok Oa).
      { rewrite <- Hopa. symmetry. apply (ops_frame dom eps ga Sa s' (apply_gops s' Ob) ESa). apply gops_agree.
        - intros o x Ho Hx. destruct (Tb' o Ho) as (B1 & B2 & _). split; intros Hin.
          + apply (c_ea Sa Sb Hc x Hx). apply in_or_app. right. apply B2. exact Hin.
          + apply (c_ea Sa Sb Hc x Hx). apply in_or_app. left. apply B1. exact Hin.
        - intros o k Ho Hk Hin. destruct (Tb' o Ho) as (_ & _ & B3). apply in_app_or in Hk. destruct Hk as [Hk|Hk].
          + exact (c_fa Sa Sb Hc k Hk (B3 k Hin)).
          + exact (c_nn Sa Sb Hc k Hk (B3 k Hin)). }
      rewrite (member_fwd s' (apply_gops s' Ob) a ga Oa ba Ega Happa Hba Hopa').
      eexists. split; [reflexivity|].
      eapply seqv_trans; [apply gops_commute|].
      + intros oa ob x Ha Hb Hx Hy. destruct (Ta oa Ha) as (A1 & _ & _). destruct (Tb' ob Hb) as (_ & B2 & _).
        exact (c_ad Sa Sb Hc x (A1 x Hx) (B2 x Hy)).
      + intros oa ob x Ha Hb Hx Hy. destruct (Ta oa Ha) as (_ & A2 & _). destruct (Tb' ob Hb) as (B1 & _ & _).
        exact (c_da Sa Sb Hc x (A2 x Hx) (B1 x Hy)).
      + intros oa ob k Ha Hb Hx Hy. destruct (Ta oa Ha) as (_ & _ & A3). destruct (Tb' ob Hb) as (_ & _ & B3).
        exact (c_nn Sa Sb Hc k (A3 k Hx) (B3 k Hy)).
      + apply apply_gops_eqv. apply apply_gops_eqv. exact Heq.
  Qed.

  (* ---------- the loop ---------- *)
  (* every member of every step is applicable (library's test) in the pre-state of its step in the joint run *)
  Fixpoint steps_applicable (cur : state) (js : list joint) : Prop :=
    match js with
    | [] => True
    | j :: r =>
        Forall (fun c => exists ga, mk c = Ok ga /\ isapp ga cur = Ok true) (members j) /\
        forall cur', applyA cur (members j) = Ok cur' -> steps_applicable cur' r
    end.

  Notation outerC := (outer state agents checksC applyA).

  Lemma run_joint_cons cur j js : run_joint dom eps cur (j :: js) = do c' <- applyA cur (members j); run_joint dom eps c' js.
  Proof. reflexivity. Qed.

  Theorem outer_sound fuel cur s plan js fin :
    Forall (wf_pcall agents) plan -> Forall (fun p => pre_total (fst p)) plan ->
    seqv cur s -> run_sequential dom eps s (map fst plan) = Ok fin ->
    outerC fuel cur plan = Ok js ->
    exists fin', run_joint dom eps cur js = Ok fin' /\ seqv fin' fin /\ steps_applicable cur js.
  Proof.
    revert cur s plan js. induction fuel as [|f IH]; intros cur s plan js Hwf Htot Heq Hseq H.
    - destruct plan as [|[a ag] rest]; cbn in H; [|discriminate]. inversion H; subst js.
      cbn in Hseq. inversion Hseq; subst fin. exists cur. cbn. auto.
    - destruct plan as [|[a ag] rest]; cbn [PlanConverter.outer] in H.
      { inversion H; subst js. cbn in Hseq. inversion Hseq; subst fin. exists cur. cbn. auto. }
      inversion Hwf as [|? ? [Hea Hna] Hwf']; subst. cbn [fst snd] in Hea, Hna.
      inversion Htot as [|? ? Hta Htot']; subst. cbn [fst] in Hta.
      destruct (index_of ag agents) as [idx|] eqn:Ei; [|discriminate].
      destruct (index_of_nth _ _ _ Ei) as [Hnth Hlt].
      set (ja0 := set_nth idx a (repeat nop (List.length agents))) in *.
      assert (Hmem0 : members ja0 = [a]).
      { destruct (members_set_nth (repeat nop (List.length agents)) idx nop a) as (l1 & l2 & E1 & E2);
          [apply nth_error_repeat; exact Hlt | reflexivity | exact Hna |].
        rewrite members_repeat_nop in E1. symmetry in E1. apply app_eq_nil in E1. destruct E1; subst. exact E2. }
      assert (Hja0a : nth_error ja0 idx = Some a).
      { apply nth_error_set_nth_same. rewrite repeat_length. exact Hlt. }
      (* the first action in the sequential run *)
      cbn [map fst] in Hseq. unfold run_sequential in Hseq. cbn [foldM] in Hseq.
      destruct (applyA s [a]) as [s1|] eqn:Es1; cbn [bind] in Hseq; [|discriminate].
      fold (run_sequential dom eps s1 (map fst rest)) in Hseq.
      destruct (single_inv s a s1 Hna Es1) as (ga & Oa & Ega & Eappa & Eopa & Es1').
      assert (Happa : isapp ga cur = Ok true) by (rewrite (is_applicable_eqv dom eps ga cur s Heq); exact Eappa).
      assert (Hsingle : exists r, applyA cur [a] = Ok r /\ seqv r s1).
      { exists (apply_gops cur Oa). split.
        - apply (single_fwd cur a ga Oa Hna Ega Happa).
          destruct (action_sets ga) as [Sa|] eqn:ESa.
          + rewrite (ops_frame dom eps ga Sa cur s ESa); [exact Eopa|apply seqv_agree; exact Heq].
          + (* without collected sets the frame argument is made directly on equivalent states *)
            unfold ops_of, ops_of_groups. unfold ops_of, ops_of_groups in Eopa. rewrite <- Eopa. f_equal.
            apply mapM_ext_in. intros g _. unfold group_op.
            assert (E1 : antecedents_hold dom eps None g cur = antecedents_hold dom eps None g s).
            { unfold antecedents_hold. destruct (gg_ante g); [|reflexivity]. apply eval_frame. apply seqv_agree. exact Heq. }
            rewrite E1. destruct (antecedents_hold dom eps None g s) as [[|]|]; cbn [bind]; try reflexivity.
            assert (E2 : mapM (eval_numeric_effect cur) (gg_num g) = mapM (eval_numeric_effect s) (gg_num g)).
            { apply mapM_ext_in. intros t _. destruct t as [x|x|op l r]; try reflexivity.
              destruct l as [x|x|op2 l1 r1]; try reflexivity.
              apply (eval_numeric_effect_frame (GTNode op (GTFn x) r) x r op cur s eq_refl). intros kk _. apply Heq. }
            rewrite E2. reflexivity.
        - rewrite Es1'. apply apply_gops_eqv. exact Heq. }
      clear Es1'.
      destruct rest as [|[next nagent] rest0].
      + (* the last action *)
        inversion H; subst js. cbn in Hseq. inversion Hseq; subst fin.
        destruct Hsingle as (r & Er & Hr). exists r. rewrite run_joint_cons, Hmem0, Er. cbn [bind].
        split; [reflexivity|split; [exact Hr|]]. cbn [steps_applicable]. rewrite Hmem0. split; [|intros; exact I].
        constructor; [|constructor]. exists ga. auto.
      + inversion Hwf' as [|? ? [Hen Hnn] Hwf'']; subst. cbn [fst snd] in Hen, Hnn.
        rewrite inner_spec in H; [|exact Hnn|cbn; lia].
        destruct (validate state agents checksC cur ja0 next nagent) as [[|]|k] eqn:Ev; cbn [bind] in H; try discriminate.
        * (* next joins the step *)
          destruct (index_of nagent agents) as [idx2|] eqn:Ei2; [|discriminate]. cbn [bind fst snd] in H.
          unfold PlanConverter.validate in Ev. rewrite Ei2 in Ev.
          destruct (nth_error ja0 idx2) as [c|] eqn:En2; [|discriminate].
          destruct (is_nop c) eqn:Ec; cbn [negb] in Ev; [|discriminate].
          set (ja1 := set_nth idx2 next ja0) in *.
          destruct (applyA cur (members ja1)) as [cur'|] eqn:Eap; cbn [bind] in H; [|discriminate].
          destruct (outerC f cur' rest0) as [js'|] eqn:Eo; cbn [bind] in H; [|discriminate].
          inversion H; subst js. clear H.
          destruct (members_set_nth ja0 idx2 c next En2 Ec Hnn) as (l1 & l2 & E1 & E2). fold ja1 in E2.
          rewrite Hmem0 in E1.
          assert (Hl : members ja1 = [a; next] \/ members ja1 = [next; a]).
          { destruct l1 as [|x l1]; cbn in E1.
            - subst l2. right. exact E2.
            - inversion E1; subst. destruct l1; [|discriminate]. cbn in *. subst l2. left. exact E2. }
          (* the second action in the sequential run *)
          cbn [map fst] in Hseq. unfold run_sequential in Hseq. cbn [foldM] in Hseq.
          destruct (applyA s1 [next]) as [s2|] eqn:Es2; cbn [bind] in Hseq; [|discriminate].
          fold (run_sequential dom eps s2 (map fst rest0)) in Hseq.
          (* what the checks established *)
          unfold checks in Ev.
          destruct (intersects String.eqb (joint_parameters ja0) (snd next) && flag); [discriminate|].
          destruct (mk next) as [gb|] eqn:Egb; cbn [bind] in Ev; [|discriminate].
          destruct (isapp gb cur) as [[|]|] eqn:Eappb; cbn [bind negb] in Ev; try discriminate.
          unfold validate_insertion in Ev.
          destruct (accumulate dom ja0) as [acc|] eqn:Eacc; cbn [bind] in Ev; [|discriminate].
          destruct (action_sets gb) as [Sb|] eqn:ESb; cbn [bind] in Ev; [|discriminate].
          inversion Ev as [Hins]. clear Ev.
          destruct (accumulate_incl ja0 acc Eacc a (nth_error_In _ _ Hja0a) Hna) as (ga' & Sa & Ega' & ESa & Hincl).
          rewrite Ega in Ega'. inversion Ega'; subst ga'. clear Ega'.
          assert (Hcompat := insertion_ok_compat acc Sa Sb Hincl Hins).
          assert (Hseq2 : run_sequential dom eps s [a; next] = Ok s2).
          { unfold run_sequential. cbn [foldM]. rewrite Es1. cbn [bind]. rewrite Es2. reflexivity. }
          destruct (two_members s cur a next s2 Sa Sb ga gb Heq Hna Hnn Hseq2 Ega Egb ESa ESb Hcompat Eappb Hta (members ja1) Hl)
            as (r & Er & Hr).
          rewrite Er in Eap. inversion Eap; subst r. clear Eap.
          inversion Htot' as [|? ? Htn Htot'']; subst.
          destruct (IH cur' s2 rest0 js' Hwf'' Htot'' Hr Hseq Eo) as (fin' & Ef & Hf & Hsa).
          exists fin'. rewrite run_joint_cons, Er. cbn [bind]. split; [exact Ef|split; [exact Hf|]].
          cbn [steps_applicable]. split.
          -- destruct Hl as [-> | ->].
             ++ constructor; [exists ga; auto|constructor; [exists gb; auto|constructor]].
             ++ constructor; [exists gb; auto|constructor; [exists ga; auto|constructor]].
          -- intros c' Hc'. rewrite Er in Hc'. inversion Hc'; subst c'. exact Hsa.
        * (* next opens the following step *)
          cbn [fst snd] in H.
          destruct (applyA cur (members ja0)) as [cur'|] eqn:Eap; cbn [bind] in H; [|discriminate].
          destruct (outerC f cur' ((next, nagent) :: rest0)) as [js'|] eqn:Eo; cbn [bind] in H; [|discriminate].
          inversion H; subst js. clear H.
          destruct Hsingle as (r & Er & Hr). rewrite Hmem0, Er in Eap. inversion Eap; subst r. clear Eap.
          destruct (IH cur' s1 ((next, nagent) :: rest0) js' Hwf' Htot' Hr Hseq Eo) as (fin' & Ef & Hf & Hsa).
          exists fin'. rewrite run_joint_cons, Hmem0, Er. cbn [bind]. split; [exact Ef|split; [exact Hf|]].
          cbn [steps_applicable]. rewrite Hmem0. split.
          -- constructor; [|constructor]. exists ga. auto.
          -- intros c' Hc'. rewrite Er in Hc'. inversion Hc'; subst c'. exact Hsa.
  Qed.
End Sound.
