(* C05: the object section.  parse_objects (repaired configuration) returns exactly the declared objects with their
   declared types, in order, iff every type is declared. *)
From Coq Require Import List Ascii String Bool Arith Lia.
From Verif Require Import Base.Result Base.Str Base.Sexp Base.PyDict
  Model.Types Model.Domain Model.NumExpr Model.Problem Spec.Pddl Spec.Grammar Spec.Problem Proofs.C05_Lemmas.
Import ListNotations.
Open Scope string_scope.
Open Scope list_scope.

Lemma NoDup_app_iff {A} (a b : list A) :
  NoDup (a ++ b) <-> NoDup a /\ NoDup b /\ (forall x, In x a -> ~ In x b).
Proof.
  induction a as [|x xs IH]; simpl.
  - split; [intros H; repeat split; [constructor | exact H | intros ? []] | intros (_ & H & _); exact H].
  - split.
    + intros H. inversion H as [|? ? Hx Hnd]; subst. apply IH in Hnd. destruct Hnd as (Ha & Hb & Hd).
      repeat split; [constructor; [intros Hin; apply Hx, in_or_app; left; exact Hin | exact Ha] | exact Hb |].
      intros y [->|Hy]; [intros Hin; apply Hx, in_or_app; right; exact Hin | apply Hd; exact Hy].
    + intros (Ha & Hb & Hd). inversion Ha as [|? ? Hx Ha']; subst. constructor.
      * intros Hin. apply in_app_or in Hin. destruct Hin as [Hin|Hin]; [contradiction | apply (Hd x); [left; reflexivity | exact Hin]].
      * apply IH. repeat split; [exact Ha' | exact Hb | intros y Hy; apply Hd; right; exact Hy].
Qed.

Section Objs.
  Variable gt : bool.                        (* any value of fix_goal_types: parse_objects does not read it *)
  Variable tt : typetable.
  Variable rec : sexp -> result (pydict string).

  Definition types_ok (os : list (string * string)) : bool := forallb (fun o => type_known tt (snd o)) os.

  Lemma types_ok_app a b : types_ok (a ++ b) = types_ok a && types_ok b.
  Proof. apply forallb_app. Qed.

  Lemma types_ok_group (names : list string) ty :
    types_ok (map (fun p => (p, ty)) names) = match names with [] => true | _ => type_known tt ty end.
  Proof.
    unfold types_ok. induction names as [|n ns IH]; simpl; [reflexivity|].
    rewrite IH. destruct ns; [apply andb_true_r | apply andb_diag].
  Qed.

  Lemma types_ok_untyped (names : list string) : types_ok (map (fun p => (p, "object")) names) = true.
  Proof. rewrite types_ok_group. destruct names; reflexivity. Qed.

  Lemma map_fst_group (names : list string) (ty : string) : map fst (map (fun p => (p, ty)) names) = names.
  Proof. rewrite map_map. simpl. apply map_id. Qed.

  (* the private groups of [l] are parsed by [rec] as the spec reads them *)
  Definition rec_ok (l : list sexp) : Prop :=
    forall k inner toks a, In (SList (Atom k :: inner)) l -> atom_names inner = Some toks ->
      read_names toks [] = Some a -> NoDup (map fst a) ->
      res_rel (rec (SList (Atom k :: inner))) (if types_ok a then Some a else None).

  Lemma po_list_read n : forall l pending os acc,
    List.length l <= n ->
    read_objs l pending = Some os -> rec_ok l -> NoDup (dkeys acc ++ map fst os) ->
    res_rel (po_list (cfg_gt gt) tt rec false l pending acc) (if types_ok os then Some (acc ++ os) else None).
  Proof.
    induction n as [|n IH]; intros l pending os acc Hlen Hread Hrec Hnd.
    - destruct l; [|simpl in Hlen; lia]. simpl in Hread. injection Hread as <-.
      rewrite types_ok_untyped.
      unfold res_rel. simpl. rewrite map_fst_group in Hnd. apply NoDup_app_iff in Hnd. destruct Hnd as (_ & Hp & Hd).
      rewrite add_typed_fresh; [reflexivity | exact Hp | intros m Hm Hin; apply (Hd m); assumption].
    - destruct l as [|x rest].
      { simpl in Hread. injection Hread as <-.
        rewrite types_ok_untyped.
        unfold res_rel. simpl. rewrite map_fst_group in Hnd. apply NoDup_app_iff in Hnd. destruct Hnd as (_ & Hp & Hd).
        rewrite add_typed_fresh; [reflexivity | exact Hp | intros m Hm Hin; apply (Hd m); assumption]. }
      simpl in Hlen. destruct x as [t|sub].
      + (* a token *)
        cbn [read_objs] in Hread. cbn [po_list]. destruct (String.eqb t "-") eqn:Et.
        * destruct pending as [|p ps]; [discriminate|].
          destruct rest as [|[ty|] rest']; try discriminate.
          destruct (read_objs rest' []) as [r|] eqn:Er; [|discriminate]. injection Hread as <-.
          change ((p, ty) :: map (fun p0 : name => (p0, ty)) ps ++ r)
            with (map (fun p0 : name => (p0, ty)) (p :: ps) ++ r) in *.
          rewrite types_ok_app, types_ok_group.
          destruct (type_known tt ty) eqn:Ety; cbn [negb andb].
          -- rewrite map_app, map_fst_group in Hnd. rewrite app_assoc in Hnd.
             assert (Hnd2 := Hnd). apply NoDup_app_iff in Hnd2. destruct Hnd2 as (Hap & _ & _).
             apply NoDup_app_iff in Hap. destruct Hap as (_ & Hp & Hd).
             rewrite add_typed_fresh; [| exact Hp | intros m Hm Hin; apply (Hd m); assumption].
             specialize (IH rest' [] r (acc ++ map (fun n0 => (n0, ty)) (p :: ps))).
             rewrite dkeys_app in IH. unfold dkeys at 2 in IH. rewrite map_fst_group in IH.
             assert (Hl : List.length rest' <= n) by (simpl in Hlen; lia).
             specialize (IH Hl Er).
             assert (Hrec' : rec_ok rest').
             { intros k inner toks a Hin. apply Hrec. right. right. exact Hin. }
             specialize (IH Hrec' Hnd). rewrite <- app_assoc in IH. exact IH.
          -- exists EValue. reflexivity.
        * apply IH; [lia | exact Hread | | exact Hnd].
          intros k inner toks a Hin. apply Hrec. right. exact Hin.
      + (* a (:private ...) group *)
        cbn [read_objs] in Hread. destruct sub as [|[k|] inner]; try discriminate.
        destruct pending; [|discriminate].
        destruct (String.eqb k ":private") eqn:Ek; [|discriminate].
        destruct (atom_names inner) as [toks|] eqn:Etoks; [|discriminate].
        destruct (read_names toks []) as [a|] eqn:Ea; [|discriminate].
        destruct (read_objs rest []) as [b|] eqn:Eb; [|discriminate]. injection Hread as <-.
        cbn [po_list]. rewrite map_app, app_assoc in Hnd.
        assert (Hnd2 := Hnd). apply NoDup_app_iff in Hnd2. destruct Hnd2 as (Hap & _ & _).
        apply NoDup_app_iff in Hap. destruct Hap as (_ & Ha & Hd).
        pose proof (Hrec k inner toks a (or_introl eq_refl) Etoks Ea Ha) as Hr.
        rewrite types_ok_app. destruct (types_ok a) eqn:Eta; cbn [andb].
        * simpl in Hr. rewrite Hr. cbn [bind].
          rewrite dupdate_fresh; [| exact Ha | intros m Hm Hin; apply (Hd m); assumption].
          specialize (IH rest [] b (acc ++ a)). rewrite dkeys_app in IH.
          assert (Hl : List.length rest <= n) by lia.
          assert (Hrec' : rec_ok rest).
          { intros k' inner' toks' a' Hin. apply Hrec. right. exact Hin. }
          specialize (IH Hl Eb Hrec' Hnd). rewrite <- app_assoc in IH. exact IH.
        * destruct Hr as [kk Hr]. rewrite Hr. exists kk. reflexivity.
  Qed.
End Objs.

(* a flat list of tokens is read alike by read_names and read_objs *)
Lemma read_objs_flat n : forall toks pending, List.length toks <= n ->
  read_objs (map Atom toks) pending = read_names toks pending.
Proof.
  induction n as [|n IH]; intros toks pending Hlen.
  - destruct toks; [reflexivity | simpl in Hlen; lia].
  - destruct toks as [|t rest]; [reflexivity|]. simpl in Hlen. simpl.
    destruct (String.eqb t "-").
    + destruct pending; [reflexivity|]. destruct rest as [|ty rest']; [reflexivity|]. simpl.
      rewrite IH by (simpl in Hlen; lia). reflexivity.
    + apply IH. lia.
Qed.

Lemma rec_ok_flat tt rec toks : rec_ok tt rec (map Atom toks).
Proof.
  intros k inner ts a Hin. exfalso. apply in_map_iff in Hin. destruct Hin as (x & Hx & _). discriminate.
Qed.

(* parse_objects_sx on the whole section *)
Lemma parse_objects_private gt tt : forall l, rec_ok tt (parse_objects_sx (cfg_gt gt) tt) l.
Proof.
  intros l k inner toks a _ Htoks Ha Hnd.
  apply atom_names_map in Htoks. subst inner.
  cbn [parse_objects_sx po_list].
  pose proof (po_list_read gt tt (parse_objects_sx (cfg_gt gt) tt) (List.length (map Atom toks)) (map Atom toks) [] a []
                (le_n _)) as H.
  rewrite (read_objs_flat (List.length toks)) in H by apply le_n.
  specialize (H Ha (rec_ok_flat _ _ _)). simpl in H. exact (H Hnd).
Qed.

Theorem parse_objects_read gt tt k toks os :
  read_objs toks [] = Some os -> NoDup (map fst os) ->
  res_rel (parse_objects_sx (cfg_gt gt) tt (SList (Atom k :: toks))) (if types_ok tt os then Some os else None).
Proof.
  intros Hread Hnd. cbn [parse_objects_sx po_list].
  exact (po_list_read gt tt _ (List.length toks) toks [] os [] (le_n _) Hread (parse_objects_private gt tt toks) Hnd).
Qed.
