(* C03: Model.Exec.apply_op, visited in any order, returns [succ s M] where M is a permutation of the spec's firing
   groups [all_groups]: the refinement step between the model and Spec.Pddl. *)
From Coq Require Import List String Bool PrimFloat Arith Lia Permutation.
From Verif Require Import Base.Result Base.Str Base.PyDict Model.Types Model.Domain Model.Exec Spec.Pddl
  Proofs.C03_Spec Proofs.C03_Defs Proofs.C03_Eval.
Import ListNotations.
Open Scope string_scope.
Open Scope list_scope.

(* ---------- lists ---------- *)
Lemma flat_map_nil_fun : forall (A B : Type) (l : list A), flat_map (fun _ : A => @nil B) l = [].
Proof. intros A B l. induction l; simpl; auto. Qed.

Lemma flat_map_app_fun : forall (A B : Type) (g h : A -> list B) l,
  Permutation (flat_map (fun y => g y ++ h y) l) (flat_map g l ++ flat_map h l).
Proof.
  intros A B g h l. induction l as [|y r IH]; simpl; [constructor|].
  rewrite <- !app_assoc. apply Permutation_app_head.
  eapply Permutation_trans; [apply Permutation_app_head; exact IH|].
  rewrite !app_assoc. apply Permutation_app_tail. apply Permutation_app_comm.
Qed.

Lemma flat_map_swap : forall (A B C : Type) (f : A -> B -> list C) xs ys,
  Permutation (flat_map (fun x => flat_map (f x) ys) xs) (flat_map (fun y => flat_map (fun x => f x y) xs) ys).
Proof.
  intros A B C f xs ys. induction xs as [|x r IH]; simpl.
  - rewrite flat_map_nil_fun. constructor.
  - eapply Permutation_trans; [apply Permutation_app_head; exact IH|].
    apply Permutation_sym. apply (flat_map_app_fun B C (f x) (fun y => flat_map (fun x0 => f x0 y) r)).
Qed.

Lemma flat_map_perm_pointwise : forall (A B : Type) (f g : A -> list B) l,
  (forall x, In x l -> Permutation (f x) (g x)) -> Permutation (flat_map f l) (flat_map g l).
Proof.
  intros A B f g l H. induction l as [|x r IH]; simpl; [constructor|].
  apply Permutation_app; [apply H; left; reflexivity | apply IH; intros y Hy; apply H; right; exact Hy].
Qed.

Lemma flat_map_ext_in' : forall (A B : Type) (f g : A -> list B) l,
  (forall x, In x l -> f x = g x) -> flat_map f l = flat_map g l.
Proof.
  intros A B f g l H. induction l as [|x r IH]; simpl; [reflexivity|].
  rewrite (H x (or_introl eq_refl)), IH; [reflexivity|]. intros y Hy. apply H. right. exact Hy.
Qed.

Lemma flat_map_filter_fst : forall (A B C : Type) (P : A * B -> bool) (f : A -> list C) l,
  flat_map f (map fst (filter P l)) = flat_map (fun o => if P o then f (fst o) else []) l.
Proof.
  intros A B C P f l. induction l as [|o r IH]; simpl; [reflexivity|].
  destruct (P o); simpl; rewrite IH; reflexivity.
Qed.

(* ---------- visiting orders ---------- *)
Lemma reorder_seq_app : forall (A : Type) (l2 l1 : list A),
  reorder (l1 ++ l2) (seq (List.length l1) (List.length l2)) = l2.
Proof.
  intros A l2. induction l2 as [|x r IH]; intros l1; simpl; [reflexivity|].
  unfold reorder in *. simpl. rewrite nth_error_app2 by lia. rewrite Nat.sub_diag. simpl. f_equal.
  specialize (IH (l1 ++ [x])). rewrite <- app_assoc in IH. simpl in IH. rewrite app_length in IH. simpl in IH.
  rewrite Nat.add_1_r in IH. exact IH.
Qed.

Lemma reorder_seq : forall (A : Type) (l : list A), reorder l (seq 0 (List.length l)) = l.
Proof. intros A l. apply (reorder_seq_app A l []). Qed.

Lemma reorder_perm : forall (A : Type) (l : list A) order, is_order order (List.length l) -> Permutation (reorder l order) l.
Proof.
  intros A l order H. unfold is_order in H. rewrite <- (reorder_seq A l) at 2. unfold reorder.
  apply Permutation_flat_map. exact H.
Qed.

Lemma reorder_In : forall (A : Type) (l : list A) order x, In x (reorder l order) -> In x l.
Proof.
  intros A l order x H. unfold reorder in H. apply in_flat_map in H. destruct H as [i [_ Hi]].
  destruct (nth_error l i) eqn:E; simpl in Hi; [|contradiction]. destruct Hi as [Hi|[]]. subst.
  eapply nth_error_In. exact E.
Qed.

(* ---------- states ---------- *)
Lemma state_ext : forall s t : state, facts s = facts t -> fluents s = fluents t -> s = t.
Proof. intros [f1 l1] [f2 l2]; simpl; intros; subst; reflexivity. Qed.

Lemma succ_app : forall s g h, succ (succ s g) h = succ s (g ++ h).
Proof. intros. unfold succ. rewrite fold_left_app. reflexivity. Qed.

(* ---------- one group of the model = one group of the spec ---------- *)
Lemma fold_map_dels : forall l s,
  fold_left apply_gprim (map GDel l) s =
  {| facts := fold_left (fun fs a => remove_atom a fs) l (facts s); fluents := fluents s |}.
Proof.
  induction l as [|a r IH]; intros s; simpl.
  - apply state_ext; reflexivity.
  - rewrite IH. reflexivity.
Qed.

Lemma fold_map_adds : forall l s,
  fold_left apply_gprim (map GAdd l) s =
  {| facts := fold_left (fun fs a => add_atom a fs) l (facts s); fluents := fluents s |}.
Proof.
  induction l as [|a r IH]; intros s; simpl.
  - apply state_ext; reflexivity.
  - rewrite IH. reflexivity.
Qed.

Lemma fold_map_sets : forall (l : list (atom * float)) s,
  fold_left apply_gprim (map (fun av => GSet (fst av) (snd av)) l) s =
  {| facts := facts s; fluents := fold_left (fun fl av => fluent_set (fst av) (snd av) fl) l (fluents s) |}.
Proof.
  induction l as [|a r IH]; intros s; simpl.
  - apply state_ext; reflexivity.
  - rewrite IH. reflexivity.
Qed.

Lemma filter_del_disc : forall l : list (bool * atom),
  filter is_del (map disc_prim l) = map GDel (flat_map (fun pa : bool * atom => if fst pa then [] else [snd pa]) l).
Proof.
  induction l as [|[b a] r IH]; simpl; [reflexivity|]. unfold disc_prim at 1. simpl.
  destruct b; simpl; rewrite IH; reflexivity.
Qed.

Lemma filter_nondel_disc : forall l : list (bool * atom),
  filter (fun x => negb (is_del x)) (map disc_prim l) =
  map GAdd (flat_map (fun pa : bool * atom => if fst pa then [snd pa] else []) l).
Proof.
  induction l as [|[b a] r IH]; simpl; [reflexivity|]. unfold disc_prim at 1. simpl.
  destruct b; simpl; rewrite IH; reflexivity.
Qed.

Lemma filter_sets : forall (P : gprim -> bool) (l : list (atom * float)),
  (forall a v, P (GSet a v) = true) ->
  filter P (map (fun av => GSet (fst av) (snd av)) l) = map (fun av => GSet (fst av) (snd av)) l.
Proof. intros P l H. induction l as [|a r IH]; simpl; [reflexivity|]. rewrite H, IH. reflexivity. Qed.

Lemma filter_sets_none : forall (l : list (atom * float)),
  filter is_del (map (fun av => GSet (fst av) (snd av)) l) = [].
Proof. induction l as [|a r IH]; simpl; [reflexivity|]. exact IH. Qed.

Lemma apply_group_m_spec : forall prev cur g,
  apply_group_m prev cur g = do ps <- gprims_of prev g; Ok (apply_group cur ps).
Proof.
  intros prev cur g. unfold apply_group_m, gprims_of.
  destruct (mapM (eval_numeric_effect prev) (gg_num g)) as [vals|k]; simpl; [|reflexivity].
  f_equal. unfold apply_group. rewrite !filter_app, filter_del_disc, filter_nondel_disc, filter_sets_none.
  rewrite (filter_sets _ vals) by reflexivity. rewrite app_nil_r, fold_left_app.
  rewrite fold_map_dels, fold_map_adds, fold_map_sets. simpl. reflexivity.
Qed.

Section Refine.
  Variable dom : mdomain.
  Variable eps : float.
  Variable objs : objects.

  (* visiting one group *)
  Lemma step_fire : forall prev cur g,
    (do h <- antecedents_hold dom eps (Some objs) g prev; if h then apply_group_m prev cur g else Ok cur) =
    (do gs <- fire dom eps objs prev g; Ok (succ cur gs)).
  Proof.
    intros prev cur g. unfold fire. destruct (antecedents_hold dom eps (Some objs) g prev) as [h|k]; simpl; [|reflexivity].
    destruct h; [|reflexivity]. rewrite apply_group_m_spec.
    destruct (gprims_of prev g); reflexivity.
  Qed.

  (* a loop whose body is "compute some groups, apply them" *)
  Lemma foldM_fire : forall (A : Type) (F : A -> result (list (list gprim))) (step : state -> A -> result state) l s,
    (forall cur x, step cur x = do gs <- F x; Ok (succ cur gs)) ->
    foldM step l s = do gss <- mapM F l; Ok (succ s (List.concat gss)).
  Proof.
    intros A F step l. induction l as [|x r IH]; intros s Hstep; simpl; [reflexivity|].
    rewrite Hstep. destruct (F x) as [gs|k]; simpl; [|reflexivity].
    rewrite (IH _ Hstep). destruct (mapM F r) as [gss|k]; simpl; [|reflexivity].
    rewrite succ_app. reflexivity.
  Qed.

  Lemma mapM_total : forall (A B : Type) (F : A -> result (list B)) l,
    (forall x, In x l -> is_ok (F x) = true) -> mapM F l = Ok (map (fun x => res_or_nil (F x)) l).
  Proof.
    intros A B F l. induction l as [|x r IH]; intros H; simpl; [reflexivity|].
    pose proof (H x (or_introl eq_refl)) as Hx. destruct (F x) as [y|k]; simpl in *; [|discriminate].
    rewrite IH; [reflexivity|]. intros z Hz. apply H. right. exact Hz.
  Qed.

  Lemma concat_map_flat_map : forall (A B : Type) (f : A -> list B) l, List.concat (map f l) = flat_map f l.
  Proof. intros. symmetry. apply flat_map_concat_map. Qed.

  (* ---------- apply_op as "succ of what fires" ---------- *)
  Definition fired (prev : state) (g : ggroup) : list (list gprim) := res_or_nil (fire dom eps objs prev g).
  Definition fired_univ (pm0 : pmap) (prev : state) (o : string * string) (ue : muniveff) : list (list gprim) :=
    res_or_nil (fire_univ dom eps objs pm0 prev o ue).

  Definition model_groups (ga : gaction) (order uorder : list nat) (s : state) : list (list gprim) :=
    flat_map (fired s) (reorder (ga_groups ga) order) ++
    flat_map (fun o => flat_map (fired_univ (ga_pm ga) s o) (reorder (ma_univ (ga_action ga)) uorder)) objs.

  Lemma apply_universal_fire : forall ga uorder prev cur,
    (forall o ue, In o objs -> In ue (ma_univ (ga_action ga)) -> is_ok (fire_univ dom eps objs (ga_pm ga) prev o ue) = true) ->
    apply_universal dom eps ga (Some objs) uorder prev cur =
    Ok (succ cur (flat_map (fun o => flat_map (fired_univ (ga_pm ga) prev o) (reorder (ma_univ (ga_action ga)) uorder)) objs)).
  Proof.
    intros ga uorder prev cur Hok. unfold apply_universal.
    set (L := reorder (ma_univ (ga_action ga)) uorder).
    rewrite (foldM_fire _ (fun o => do gss <- mapM (fire_univ dom eps objs (ga_pm ga) prev o) L; Ok (List.concat gss))).
    - assert (HF : forall o, In o objs ->
                (do gss <- mapM (fire_univ dom eps objs (ga_pm ga) prev o) L; Ok (List.concat gss)) =
                Ok (flat_map (fired_univ (ga_pm ga) prev o) L)).
      { intros o Ho. rewrite (mapM_total _ _ _ L).
        - simpl. rewrite concat_map_flat_map. reflexivity.
        - intros ue Hue. apply Hok; [exact Ho | eapply reorder_In; exact Hue]. }
      rewrite (mapM_total _ _ _ objs).
      + simpl. f_equal. f_equal. rewrite concat_map_flat_map. apply flat_map_ext_in'.
        intros o Ho. rewrite (HF o Ho). reflexivity.
      + intros o Ho. rewrite (HF o Ho). reflexivity.
    - intros cur1 o. rewrite (foldM_fire _ (fire_univ dom eps objs (ga_pm ga) prev o)).
      + destruct (mapM (fire_univ dom eps objs (ga_pm ga) prev o) L); reflexivity.
      + intros cur2 ue. unfold fire_univ. destruct (is_sub_type (d_types dom) (snd o) (ue_ty ue)); [|reflexivity].
        destruct (ground_group dom (dset (ga_pm ga) (ue_var ue) (fst o)) (Some (ce_ante (ue_ce ue)))
                    (ce_disc (ue_ce ue)) (ce_num (ue_ce ue))) as [g|k]; simpl; [|reflexivity].
        apply step_fire.
  Qed.

  Theorem apply_op_fire : forall ga allow order uorder s b,
    is_applicable dom eps (Some objs) ga s = Ok b -> (b = true \/ allow = true) ->
    evaluates dom eps objs ga s ->
    apply_op dom eps ga (Some objs) allow false order uorder s = Ok (succ s (model_groups ga order uorder s)).
  Proof.
    intros ga allow order uorder s b Happ Hb [Hg Hu]. unfold apply_op. rewrite Happ. cbn [bind].
    assert (Hgo : negb b && negb allow = false) by (destruct Hb; subst; [reflexivity | apply andb_false_r]).
    rewrite Hgo.
    rewrite (foldM_fire _ (fire dom eps objs s)) by (intros cur g; apply step_fire).
    rewrite (mapM_total _ _ _ (reorder (ga_groups ga) order))
      by (intros g Hin; apply Hg; eapply reorder_In; exact Hin).
    cbn [bind]. rewrite (apply_universal_fire _ _ _ _ Hu). rewrite succ_app, concat_map_flat_map. reflexivity.
  Qed.

  (* the groups the model visits, in whatever order, are the groups in the canonical order, permuted *)
  Definition canon_groups (ga : gaction) (s : state) : list (list gprim) :=
    flat_map (fired s) (ga_groups ga) ++
    flat_map (fun ue => flat_map (fun o => fired_univ (ga_pm ga) s o ue) objs) (ma_univ (ga_action ga)).

  Lemma model_groups_perm : forall ga order uorder s,
    is_order order (List.length (ga_groups ga)) -> is_order uorder (List.length (ma_univ (ga_action ga))) ->
    Permutation (model_groups ga order uorder s) (canon_groups ga s).
  Proof.
    intros ga order uorder s Ho Hu. unfold model_groups, canon_groups. apply Permutation_app.
    - apply Permutation_flat_map. apply reorder_perm. exact Ho.
    - eapply Permutation_trans; [|apply flat_map_swap].
      apply flat_map_perm_pointwise. intros o _. apply Permutation_flat_map. apply reorder_perm. exact Hu.
  Qed.
End Refine.

(* ---------- the model's groups are the spec's groups ---------- *)
Lemma opt_all_cons : forall (A : Type) (o : option A) r l,
  opt_all (o :: r) = Some l -> exists x xs, o = Some x /\ opt_all r = Some xs /\ l = x :: xs.
Proof.
  intros A o r l H. simpl in H. destruct o as [x|]; [|discriminate].
  destruct (opt_all r) as [xs|]; [|discriminate]. inversion H. exists x, xs. auto.
Qed.

Lemma lookup_Some_In : forall (V : Type) k (l : list (string * V)) v, lookup k l = Some v -> In k (map fst l).
Proof.
  intros V k l v. induction l as [|[k' v'] r IH]; simpl; [discriminate|].
  destruct (String.eqb k k') eqn:E; [apply String.eqb_eq in E; subst; left; reflexivity | intros H; right; apply IH; exact H].
Qed.

Section Groups.
  Variable dom : mdomain.
  Variable eps : float.
  Variable objs : objects.
  Variable s : state.

  Section OneEnv.
    Variable pm : pmap.
    Variable e : env.
    Hypothesis Hag : env_agree pm e.
    Hypothesis Hcu : consts_unbound dom e.

    Lemma num_effect_spec : forall t g p av,
      ground_tree dom pm t = Ok g -> denote_num t = Some p -> eval_numeric_effect s g = Ok av ->
      GSet (fst av) (snd av) = ground_prim e s p.
    Proof.
      intros t g p av Hg Hd He. destruct t as [x|f args|op l r]; simpl in Hd; try discriminate.
      destruct l as [x|f args|op2 l2 r2]; try discriminate.
      destruct (assignop_of op) as [k|] eqn:Ek; [|discriminate].
      destruct (denote_tree r) as [n|] eqn:En; [|discriminate]. inversion Hd; subst p.
      simpl in Hg. inv_bind Hg gl Hgl. inv_bind Hgl os Hos. inversion Hgl; subst gl.
      inv_bind Hg gr Hgr. inversion Hg; subst g. simpl in He. rewrite Ek in He.
      inv_bind He v Hv. inversion He; subst av. simpl.
      rewrite (ground_names_subst dom pm e Hag Hcu _ _ Hos).
      rewrite (calc_neval dom pm e Hag Hcu _ _ _ _ _ Hgr En Hv). reflexivity.
    Qed.

    Lemma num_effects_spec : forall nums gn ns vals,
      mapM (ground_tree dom pm) nums = Ok gn -> opt_all (map denote_num nums) = Some ns ->
      mapM (eval_numeric_effect s) gn = Ok vals ->
      map (fun av : atom * float => GSet (fst av) (snd av)) vals = map (ground_prim e s) ns.
    Proof.
      induction nums as [|t r IH]; intros gn ns vals Hg Hd He.
      - simpl in *. inversion Hg; subst. inversion Hd; subst. simpl in He. inversion He. reflexivity.
      - simpl in Hg. inv_bind Hg g Hgt. inv_bind Hg gr Hgr. inversion Hg; subst gn.
        simpl map in Hd. apply opt_all_cons in Hd. destruct Hd as [p [ps [Hp [Hps Hns]]]]. subst ns.
        simpl in He. inv_bind He av Hav. inv_bind He vr Hvr. inversion He; subst vals. simpl.
        f_equal; [eapply num_effect_spec; eauto | eapply IH; eauto].
    Qed.

    Lemma gprims_spec : forall ante disc nums g ps x,
      ground_group dom pm ante disc nums = Ok g -> denote_prims disc nums = Some ps ->
      gprims_of s g = Ok x -> x = map (ground_prim e s) ps.
    Proof.
      intros ante disc nums g ps x Hg Hd Hx. unfold ground_group in Hg.
      inv_bind Hg ga Hga. inv_bind Hg gd Hgd. inv_bind Hg gn Hgn. inversion Hg; subst g. clear Hg.
      unfold denote_prims in Hd. destruct (opt_all (map denote_num nums)) as [ns|] eqn:Ens; [|discriminate].
      inversion Hd; subst ps. unfold gprims_of in Hx. simpl in Hx. inv_bind Hx vals Hvals. inversion Hx; subst x.
      rewrite map_app. f_equal; [|eapply num_effects_spec; eauto].
      assert (E : gd = map (fun l => (l_pos l, (l_name l, map (subst e) (l_args l)))) disc).
      { eapply mapM_map; [|exact Hgd]. intros l y _ Hy. inv_bind Hy a Ha. inversion Hy; subst y.
        rewrite (ground_lit_subst dom pm e Hag Hcu _ _ _ Ha). reflexivity. }
      subst gd. rewrite !map_map. apply map_ext. intros l. unfold disc_prim, denote_lit. simpl.
      destruct (l_pos l); reflexivity.
    Qed.

    Lemma fired_uncond : forall disc nums g ps,
      ground_group dom pm None disc nums = Ok g -> denote_prims disc nums = Some ps ->
      is_ok (fire dom eps objs s g) = true -> fired dom eps objs s g = [map (ground_prim e s) ps].
    Proof.
      intros disc nums g ps Hg Hd Hok. unfold fired.
      assert (Ha : gg_ante g = None).
      { unfold ground_group in Hg. inv_bind Hg ga Hga. inv_bind Hg gd Hgd. inv_bind Hg gn Hgn. inversion Hg; subst.
        simpl. inversion Hga. reflexivity. }
      unfold fire, antecedents_hold in *. rewrite Ha in *. cbn [bind] in *.
      destruct (gprims_of s g) as [x|k] eqn:Ex; [|discriminate]. simpl.
      rewrite (gprims_spec _ _ _ _ _ _ Hg Hd Ex). reflexivity.
    Qed.

    Lemma fired_cond : forall p disc nums g c ps,
      ground_group dom pm (Some p) disc nums = Ok g -> denote_pre p = Some c -> denote_prims disc nums = Some ps ->
      qvars_ok dom (qvars_pre p) ->
      is_ok (fire dom eps objs s g) = true ->
      fired dom eps objs s g = if holds eps (d_types dom) objs e s c then [map (ground_prim e s) ps] else [].
    Proof.
      intros p disc nums g c ps Hg Hc Hd Hqv Hok. unfold fired.
      assert (Ha : exists gp, gg_ante g = Some gp /\ ground_pre dom pm p = Ok gp).
      { unfold ground_group in Hg. inv_bind Hg ga Hga. inv_bind Hg gd Hgd. inv_bind Hg gn Hgn. inversion Hg; subst.
        simpl. inv_bind Hga gp Hgp. inversion Hga. exists gp. auto. }
      destruct Ha as [gp [Ha Hgp]].
      unfold fire, antecedents_hold in *. rewrite Ha in *.
      destruct (eval_g dom eps (Some objs) s gp) as [h|k] eqn:Eh; [|discriminate]. cbn [bind] in *.
      rewrite (eval_g_holds dom eps objs (Some objs) s p pm e gp c h Hag Hcu Hqv eq_refl Hgp Hc Eh) in *.
      destruct (holds eps (d_types dom) objs e s c); [|reflexivity].
      destruct (gprims_of s g) as [x|k] eqn:Ex; [|discriminate]. simpl.
      rewrite (gprims_spec _ _ _ _ _ _ Hg Hd Ex). reflexivity.
    Qed.
  End OneEnv.

  (* the conditional groups *)
  Lemma fired_whens : forall pm e conds gs ws,
    env_agree pm e -> consts_unbound dom e ->
    mapM (fun ce => ground_group dom pm (Some (ce_ante ce)) (ce_disc ce) (ce_num ce)) conds = Ok gs ->
    opt_all (map denote_when conds) = Some ws ->
    qvars_ok dom (flat_map (fun ce => qvars_pre (ce_ante ce)) conds) ->
    (forall g, In g gs -> is_ok (fire dom eps objs s g) = true) ->
    flat_map (fired dom eps objs s) gs = flat_map (fires eps (d_types dom) objs e s) ws.
  Proof.
    intros pm e conds. induction conds as [|ce r IH]; intros gs ws Hag Hcu Hg Hd Hqv Hok.
    - simpl in *. inversion Hg; subst. inversion Hd; subst. reflexivity.
    - simpl in Hg. inv_bind Hg g Hgg. inv_bind Hg gr Hgr. inversion Hg; subst gs. clear Hg.
      simpl map in Hd. apply opt_all_cons in Hd. destruct Hd as [w [wr [Hw [Hwr Hws]]]]. subst ws.
      unfold denote_when, denote_ce in Hw.
      destruct (denote_pre (ce_ante ce)) as [c|] eqn:Ec; [|discriminate].
      destruct (denote_prims (ce_disc ce) (ce_num ce)) as [ps|] eqn:Eps; [|discriminate].
      inversion Hw; subst w. simpl.
      f_equal.
      + eapply fired_cond; eauto.
        * intros v Hv. apply Hqv. simpl. apply in_or_app. left. exact Hv.
        * apply Hok. left. reflexivity.
      + apply IH; auto.
        * intros v Hv. apply Hqv. simpl. apply in_or_app. right. exact Hv.
        * intros g' Hg'. apply Hok. right. exact Hg'.
  Qed.

  (* one universal effect, all objects *)
  Lemma fired_univ_spec : forall pm e ue u,
    env_agree pm e -> consts_unbound dom e ->
    denote_univ ue = Some u ->
    qvars_ok dom (ue_var ue :: qvars_pre (ce_ante (ue_ce ue))) ->
    (forall o, In o objs -> is_ok (fire_univ dom eps objs pm s o ue) = true) ->
    flat_map (fun o => fired_univ dom eps objs pm s o ue) objs = fires eps (d_types dom) objs e s u.
  Proof.
    intros pm e ue u Hag Hcu Hd Hqv Hok. unfold denote_univ, denote_ce in Hd.
    destruct (denote_pre (ce_ante (ue_ce ue))) as [c|] eqn:Ec; [|discriminate].
    destruct (denote_prims (ce_disc (ue_ce ue)) (ce_num (ue_ce ue))) as [ps|] eqn:Eps; [|discriminate].
    inversion Hd; subst u. simpl. unfold objects_of_type.
    rewrite (flat_map_filter_fst _ _ _ (fun o => subtypeb (d_types dom) (snd o) (ue_ty ue))).
    apply flat_map_ext_in'. intros o Ho. specialize (Hok o Ho). unfold fired_univ, fire_univ in *.
    rewrite is_sub_type_subtypeb in *. cbv beta. unfold name in *.
    destruct (subtypeb (d_types dom) (snd o) (ue_ty ue)); [|reflexivity].
    destruct (ground_group dom (dset pm (ue_var ue) (fst o)) (Some (ce_ante (ue_ce ue))) (ce_disc (ue_ce ue))
                (ce_num (ue_ce ue))) as [g|k] eqn:Eg; [|discriminate].
    cbn [bind] in *.
    apply (fired_cond (dset pm (ue_var ue) (fst o)) ((ue_var ue, fst o) :: e)) with (p := ce_ante (ue_ce ue)) (disc := ce_disc (ue_ce ue)) (nums := ce_num (ue_ce ue)); auto.
    - apply env_agree_ext. exact Hag.
    - apply consts_unbound_ext; [exact Hcu|]. apply Hqv. left. reflexivity.
    - intros v Hv. apply Hqv. right. exact Hv.
  Qed.

  Lemma fired_univs : forall pm e univs us,
    env_agree pm e -> consts_unbound dom e ->
    opt_all (map denote_univ univs) = Some us ->
    qvars_ok dom (flat_map (fun ue => ue_var ue :: qvars_pre (ce_ante (ue_ce ue))) univs) ->
    (forall o ue, In o objs -> In ue univs -> is_ok (fire_univ dom eps objs pm s o ue) = true) ->
    flat_map (fun ue => flat_map (fun o => fired_univ dom eps objs pm s o ue) objs) univs =
    flat_map (fires eps (d_types dom) objs e s) us.
  Proof.
    intros pm e univs. induction univs as [|ue r IH]; intros us Hag Hcu Hd Hqv Hok.
    - simpl in *. inversion Hd; subst. reflexivity.
    - simpl map in Hd. apply opt_all_cons in Hd. destruct Hd as [u [ur [Hu [Hur Hus]]]]. subst us.
      simpl. f_equal.
      + eapply fired_univ_spec; eauto.
        * intros v Hv. apply Hqv. simpl. simpl in Hv. destruct Hv as [Hv|Hv]; [left; exact Hv | right; apply in_or_app; left; exact Hv].
        * intros o Ho. apply Hok; [exact Ho | left; reflexivity].
      + apply IH; auto.
        * intros v Hv. apply Hqv. simpl. right. apply in_or_app. right. exact Hv.
        * intros o ue' Ho Hue. apply Hok; [exact Ho | right; exact Hue].
  Qed.

  (* the whole action *)
  Theorem canon_groups_spec : forall a args ga effs,
    ground_action dom a args = Ok ga -> denote_effs a = Some effs -> names_ok dom a = true ->
    evaluates dom eps objs ga s ->
    canon_groups dom eps objs ga s = all_groups eps (d_types dom) objs (spec_action a effs) args s.
  Proof.
    intros a args ga effs Hg Hd Hn [Hokg Hoku]. unfold ground_action in Hg.
    set (pm := combine (dkeys (ma_sig a)) args) in *.
    inv_bind Hg gp Hgp. inv_bind Hg g0 Hg0. inv_bind Hg gs Hgs. inversion Hg; subst ga. clear Hg.
    unfold denote_effs in Hd.
    destruct (denote_prims (ma_disc a) (ma_num a)) as [ps|] eqn:Eps; [|discriminate].
    destruct (opt_all (map denote_when (ma_cond a))) as [ws|] eqn:Ews; [|discriminate].
    destruct (opt_all (map denote_univ (ma_univ a))) as [us|] eqn:Eus; [|discriminate].
    inversion Hd; subst effs. clear Hd.
    unfold names_ok in Hn. rewrite forallb_forall in Hn.
    assert (Hb : forall v, In v (bound_names a) -> dmem (d_consts dom) v = false).
    { intros v Hv. apply Hn in Hv. apply negb_true_iff in Hv. exact Hv. }
    assert (Hag : env_agree pm pm) by apply env_agree_self.
    assert (Hcu : consts_unbound dom pm).
    { intros t Ht. destruct (lookup t pm) eqn:El; [|exact El].
      apply lookup_Some_In in El. unfold pm in El. 
      assert (Hin : In t (dkeys (ma_sig a))).
      { clear -El. revert args El. induction (dkeys (ma_sig a)) as [|k r IH]; intros args El; simpl in El; [contradiction|].
        destruct args as [|x xs]; simpl in El; [contradiction|]. destruct El as [E|El]; [left; exact E | right; eapply IH; exact El]. }
      rewrite (Hb t) in Ht; [discriminate|]. unfold bound_names. apply in_or_app. left. exact Hin. }
    unfold canon_groups, all_groups, spec_action, bind_args. simpl.
    change (map fst (ma_sig a)) with (dkeys (ma_sig a)). fold pm.
    rewrite flat_map_app. simpl in Hokg, Hoku. fold pm.
    rewrite (fired_uncond pm pm Hag Hcu _ _ _ _ Hg0 Eps) by (apply Hokg; left; reflexivity).
    rewrite <- app_assoc. simpl. f_equal.
    assert (E1 : flat_map (fired dom eps objs s) gs = flat_map (fires eps (d_types dom) objs pm s) ws).
    { apply (fired_whens pm pm (ma_cond a) gs ws Hag Hcu Hgs Ews).
      - intros v Hv. apply Hb. unfold bound_names. apply in_or_app. right. apply in_or_app. left. exact Hv.
      - intros g Hin. apply Hokg. right. exact Hin. }
    assert (E2 : flat_map (fun ue => flat_map (fun o => fired_univ dom eps objs pm s o ue) objs) (ma_univ a) =
                 flat_map (fires eps (d_types dom) objs pm s) us).
    { apply (fired_univs pm pm (ma_univ a) us Hag Hcu Eus).
      - intros v Hv. apply Hb. unfold bound_names. apply in_or_app. right. apply in_or_app. right. exact Hv.
      - exact Hoku. }
    rewrite E1, E2. reflexivity.
  Qed.
End Groups.
