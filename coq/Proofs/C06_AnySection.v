(* C06 on EVERY section the parser reads as groups + trailing names - a child with several declared parents, 'object'
   on a left-hand side included.  What the code (and the model) does there:
     * the LAST declaration of a child wins (declared_parents[child] = parent overwrites);
     * a declaration 'object - p' is dropped (the key 'object' is filtered out), p still becomes a type;
     * a parent that occurs only in an overwritten declaration is no type at all.
   effective ds = the declarations that count.  On a well-formed section effective ds = ds, so these theorems contain
   the ones of C06_Main.v. *)
From Coq Require Import List String Bool Arith Lia Relations.
From Verif Require Import Base.Result Base.Str Base.Sexp Base.PyDict Model.Types Spec.Types
  Proofs.C06_Walk Proofs.C06_Parse Proofs.C06_Main Proofs.C06_Extra Proofs.C06_Constants.
Import ListNotations.
Open Scope string_scope.
Open Scope list_scope.

(* the dict the first pass builds: every child once, at the position of its first declaration, with the parent of its last *)
Definition last_wins (ds : list decl) : list decl := dupdate [] ds.
Definition effective (ds : list decl) : list decl := filter not_object (last_wins ds).

(* ---------- keys of a dict stay distinct ---------- *)
Lemma dset_keys_nodup {V} (d : pydict V) k v : NoDup (map fst d) -> NoDup (map fst (dset d k v)).
Proof.
  intros Hnd. destruct (dget d k) as [v0|] eqn:E.
  - assert (Hk : map fst (dset d k v) = map fst d).
    { clear Hnd. revert E. induction d as [|[k' v'] r IH]; cbn [dget dset map fst]; [discriminate|].
      destruct (String.eqb k k'); intros E; cbn [map fst]; [reflexivity|]. f_equal. apply IH, E. }
    rewrite Hk. exact Hnd.
  - apply dget_None_notin in E. rewrite (dset_absent d k v E). rewrite map_app. cbn [map fst].
    clear -Hnd E. induction (map fst d) as [|x l IH]; cbn [app].
    + constructor; [intros []|constructor].
    + inversion Hnd as [|y l' Hx Hl]; subst. constructor.
      * intros Hin. apply in_app_iff in Hin. destruct Hin as [Hin|[Heq|[]]]; [exact (Hx Hin)|].
        subst x. apply E. left. reflexivity.
      * apply IH; [exact Hl|]. intros Hin. apply E. right. exact Hin.
Qed.

Lemma dupdate_keys_nodup {V} (kvs : list (string * V)) : forall d,
  NoDup (map fst d) -> NoDup (map fst (dupdate d kvs)).
Proof.
  unfold dupdate. induction kvs as [|[k v] r IH]; intros d Hnd; cbn [fold_left fst snd]; [exact Hnd|].
  apply IH, dset_keys_nodup, Hnd.
Qed.

Lemma last_wins_nodup ds : NoDup (map fst (last_wins ds)).
Proof. apply dupdate_keys_nodup. constructor. Qed.

Lemma filter_keys_nodup {V} (f : string * V -> bool) (d : pydict V) :
  NoDup (map fst d) -> NoDup (map fst (filter f d)).
Proof.
  induction d as [|kv r IH]; cbn [filter map]; intros Hnd; [constructor|].
  inversion Hnd as [|x l Hx Hl]; subst. destruct (f kv); [|apply IH, Hl].
  cbn [map]. constructor; [|apply IH, Hl]. intros Hin. apply Hx.
  apply in_map_iff in Hin. destruct Hin as [kv' [Hf Hin]]. apply filter_In in Hin. destruct Hin as [Hin _].
  apply in_map_iff. exists kv'. split; assumption.
Qed.

(* ---------- the effective declarations: one parent per child, object nobody's child, last declaration wins ---------- *)
Lemma effective_one_parent ds : one_parent (effective ds).
Proof. apply filter_keys_nodup, last_wins_nodup. Qed.

Lemma effective_object_is_root ds : object_is_root (effective ds).
Proof.
  intros Hin. apply in_map_iff in Hin. destruct Hin as [[c p] [Hc Hin]]. cbn [fst] in Hc. subst c.
  apply filter_In in Hin. destruct Hin as [_ Hf]. discriminate Hf.
Qed.

Lemma last_wins_dget ds c : dget (last_wins ds) c = dget (rev ds) c.
Proof.
  unfold last_wins. rewrite dget_dupdate_c06.
  match goal with |- match ?X with _ => _ end = ?Y => change Y with X; destruct X; reflexivity end.
Qed.

Lemma effective_last_wins_lemma ds c p :
  In (c, p) (effective ds) <-> c <> "object" /\ dget (rev ds) c = Some p.
Proof.
  unfold effective. rewrite filter_In. unfold not_object. cbn [fst]. rewrite negb_true_iff, String.eqb_neq.
  rewrite <- last_wins_dget. split.
  - intros [Hin Hne]. split; [exact Hne|]. apply In_dget_nodup; [apply last_wins_nodup|exact Hin].
  - intros [Hne Hg]. split; [apply dget_In, Hg|exact Hne].
Qed.

(* on a section with one parent per child and object on no left-hand side nothing is overwritten or dropped *)
Lemma effective_wf_lemma ds : one_parent ds -> object_is_root ds -> effective ds = ds.
Proof.
  intros H1 Hr. unfold effective, last_wins. rewrite (dupdate_nodup ds []) by exact H1. cbn [app].
  clear H1. induction ds as [|[c p] r IH]; [reflexivity|]. cbn [filter]. unfold not_object at 1. cbn [fst].
  destruct (String.eqb c "object") eqn:E.
  - exfalso. apply Hr. left. cbn [fst]. apply String.eqb_eq, E.
  - cbn [negb]. f_equal. apply IH. intros Hin. apply Hr. right. exact Hin.
Qed.

(* ---------- what parse_types does on ANY plain section ---------- *)
Section AnySection.
  Variables (gs : list group) (tr : list tname).
  Let ds := decls gs tr.
  Hypothesis Hplain : plain_section gs tr.

  Definition any_table : typetable := final_table (last_wins ds).

  Lemma parse_any :
    parse_types (render gs tr) =
    if forallb (fun kv => reaches_object any_table (fst kv)) any_table then Ok any_table else Err ESyntax.
  Proof.
    unfold parse_types. rewrite collect_render by exact Hplain. rewrite trailing_update.
    fold (dupdate (dupdate [] (flat_map group_decls gs)) (map (fun c => (c, "object")) tr)).
    rewrite <- dupdate_app. reflexivity.
  Qed.

  Lemma any_sound : entries_sound any_table (effective ds).
  Proof.
    intros x p H. unfold any_table, final_table in H. rewrite dget_filter_object in H.
    destruct (String.eqb x "object") eqn:Eo; [discriminate|].
    rewrite add_parent_only_fold in H. apply apo_new in H. destruct H as [H|[Hv _]]; [|right; exact Hv].
    left. unfold declared, effective. apply filter_In. split; [apply dget_In, H|].
    unfold not_object. cbn [fst]. rewrite Eo. reflexivity.
  Qed.

  Lemma any_complete : entries_complete any_table (effective ds).
  Proof.
    intros x p Hd. unfold declared, effective in Hd. apply filter_In in Hd. destruct Hd as [Hin Hne].
    unfold not_object in Hne. cbn [fst] in Hne. apply negb_true_iff in Hne.
    unfold any_table, final_table. rewrite dget_filter_object, Hne.
    rewrite add_parent_only_fold. apply apo_preserve. apply In_dget_nodup; [apply last_wins_nodup|exact Hin].
  Qed.

  Lemma any_ok_table T : parse_types (render gs tr) = Ok T -> T = any_table.
  Proof. rewrite parse_any. destruct (forallb _ _); intros H; [injection H as <-; reflexivity|discriminate]. Qed.

  (* closure: is_sub_type on the returned table is the closure of the EFFECTIVE declarations *)
  Lemma any_closure_lemma T :
    parse_types (render gs tr) = Ok T ->
    forall x y, is_sub_type T x y = true <-> subtype (effective ds) x y.
  Proof.
    intros H x y. pose proof (any_ok_table _ H) as HT. unfold is_sub_type. split.
    - intros Hb. destruct (walk _ T x y) as [b|k] eqn:E; [|discriminate]. subst b.
      apply (walk_sound T (effective ds)) with (fuel := S (S (List.length T))); [|exact E].
      rewrite HT. apply any_sound.
    - intros Hs. rewrite (walk_complete T (effective ds)); [reflexivity| | | |exact Hs].
      + rewrite HT. apply any_complete.
      + apply effective_object_is_root.
      + apply (parsed_reaches _ _ x H).
  Qed.

  Lemma any_accepts_lemma : acyclic (effective ds) -> exists T, parse_types (render gs tr) = Ok T.
  Proof.
    intros Hac. rewrite parse_any.
    assert (Hta : tacyclic any_table).
    { apply (acyclic_table _ (effective ds)); [apply any_sound|apply final_no_object_key|exact Hac]. }
    assert (Hall : forallb (fun kv => reaches_object any_table (fst kv)) any_table = true).
    { apply forallb_forall. intros kv _. unfold reaches_object.
      rewrite (walk_mono_object _ _ _ (acyclic_reaches _ Hta (fst kv))). reflexivity. }
    rewrite Hall. eexists. reflexivity.
  Qed.

  Lemma any_cyclic_rejected_lemma : cyclic (effective ds) -> parse_types (render gs tr) = Err ESyntax.
  Proof.
    intros [x Hx]. rewrite parse_any.
    assert (Hc : clos_trans string (tedge any_table) x x).
    { apply (declared_tedge _ (effective ds)); [apply any_complete|exact Hx]. }
    destruct (cycle_step _ (final_no_object_key _) x Hc) as [_ [p [Hp' _]]].
    destruct (forallb _ _) eqn:E; [|reflexivity].
    rewrite forallb_forall in E. specialize (E (x, p) (dget_In _ _ _ Hp')). cbn [fst] in E.
    exfalso. revert Hc. apply reaches_not_cyclic; [apply final_no_object_key|exact E].
  Qed.

  Lemma any_accepted_iff_lemma : (exists T, parse_types (render gs tr) = Ok T) <-> acyclic (effective ds).
  Proof.
    split; [|apply any_accepts_lemma].
    intros [T H] x Hx. rewrite any_cyclic_rejected_lemma in H; [discriminate|]. exists x. exact Hx.
  Qed.

  (* the keys of Domain.types: object, every child that has a declaration, every parent of a declaration that counts
     (for 'object - p' that is p; a parent named only in an overwritten declaration is NOT a type) *)
  Lemma any_type_names_lemma T :
    parse_types (render gs tr) = Ok T ->
    forall n, In n (type_names T) <-> is_type_name (last_wins ds) n.
  Proof.
    intros H n. rewrite (any_ok_table _ H). unfold type_names, dkeys, is_type_name. rewrite in_app_iff. cbn [In].
    assert (Hk : In n (map fst any_table) <-> n <> "object" /\ (In n (map fst (last_wins ds)) \/ In n (map snd (last_wins ds)))).
    { split.
      - intros Hin. apply dmem_In in Hin. unfold dmem in Hin.
        destruct (dget any_table n) as [v|] eqn:E; [clear Hin|discriminate Hin].
        unfold any_table, final_table in E. rewrite dget_filter_object in E.
        destruct (String.eqb n "object") eqn:Eo; [discriminate E|]. apply String.eqb_neq in Eo.
        split; [exact Eo|]. rewrite add_parent_only_fold in E. apply apo_new in E. destruct E as [E|[_ [Hin _]]].
        + left. eapply dget_In_key. exact E.
        + right. exact Hin.
      - intros [Hne [Hk|Hv]]; apply dmem_In; unfold dmem, any_table, final_table; rewrite dget_filter_object;
          rewrite (proj2 (String.eqb_neq _ _) Hne); rewrite add_parent_only_fold.
        + apply dmem_In in Hk. unfold dmem in Hk. destruct (dget (last_wins ds) n) as [v|] eqn:E; [|discriminate Hk].
          rewrite (apo_preserve _ _ _ _ E). reflexivity.
        + apply (apo_covers (dvalues (last_wins ds)) (last_wins ds) n Hv Hne). }
    rewrite Hk. destruct (String.eqb n "object") eqn:E.
    - apply String.eqb_eq in E. subst n. split; intros _; [left; reflexivity|right; left; reflexivity].
    - apply String.eqb_neq in E. split.
      + intros [[_ H2]|[H2|[]]]; [right; exact H2|left; symmetry; exact H2].
      + intros [H2|H2]; [contradiction|left; split; assumption].
  Qed.
End AnySection.

(* ---------- order / grouping independence for ANY two plain sections whose effective declarations agree ---------- *)
Theorem any_order_lemma : forall gs tr gs' tr' T,
  plain_section gs tr -> plain_section gs' tr' ->
  same_decls (effective (decls gs tr)) (effective (decls gs' tr')) ->
  parse_types (render gs tr) = Ok T ->
  exists T', parse_types (render gs' tr') = Ok T' /\ (forall x y, is_sub_type T x y = is_sub_type T' x y).
Proof.
  intros gs tr gs' tr' T Hp Hp' Hs H.
  assert (Hac : acyclic (effective (decls gs tr))) by (apply (any_accepted_iff_lemma gs tr Hp); exists T; exact H).
  assert (Hac' : acyclic (effective (decls gs' tr'))).
  { intros x Hx. apply (Hac x). apply (same_decls_clos_trans _ _ _ _ (same_decls_sym _ _ Hs) Hx). }
  destruct (any_accepts_lemma gs' tr' Hp' Hac') as [T' H']. exists T'. split; [exact H'|]. intros x y.
  pose proof (any_closure_lemma gs tr Hp T H x y) as C1.
  pose proof (any_closure_lemma gs' tr' Hp' T' H' x y) as C2.
  destruct (is_sub_type T x y) eqn:E1; destruct (is_sub_type T' x y) eqn:E2; try reflexivity.
  - assert (Hsub : subtype (effective (decls gs' tr')) x y) by (apply (same_decls_subtype _ _ _ _ Hs), C1; reflexivity).
    apply C2 in Hsub. discriminate.
  - assert (Hsub : subtype (effective (decls gs tr)) x y)
      by (apply (same_decls_subtype _ _ _ _ (same_decls_sym _ _ Hs)), C2; reflexivity).
    apply C1 in Hsub. discriminate.
Qed.

(* ---------- examples: two parents (last wins, the first parent is no type), object on a left-hand side ---------- *)
Definition ex_two_parents : list group := [(["a"], "b"); (["a"], "c"); (["c"], "d")].
Lemma ex_two_parents_lemma :
  plain_section ex_two_parents [] /\ ~ one_parent (decls ex_two_parents []) /\
  effective (decls ex_two_parents []) = [("a", "c"); ("c", "d")] /\
  parse_types (render ex_two_parents []) = Ok [("a", "c"); ("c", "d"); ("d", "object")] /\
  subtype (effective (decls ex_two_parents [])) "a" "d" /\ ~ subtype (effective (decls ex_two_parents [])) "a" "b".
Proof.
  split; [|split; [|split; [|split; [|split]]]].
  - split; [|constructor]. repeat constructor; unfold plain; discriminate.
  - unfold one_parent. cbn. intros H. inversion H as [|x l Hx _]. apply Hx. left. reflexivity.
  - vm_compute. reflexivity.
  - vm_compute. reflexivity.
  - apply rt_trans with "c"; apply rt_step; left; cbn; auto.
  - intros H. apply (any_closure_lemma ex_two_parents []) with (T := [("a", "c"); ("c", "d"); ("d", "object")]) in H.
    + vm_compute in H. discriminate.
    + split; [|constructor]. repeat constructor; unfold plain; discriminate.
    + vm_compute. reflexivity.
Qed.

Definition ex_object_child : list group := [(["object"], "foo"); (["a"], "foo")].
Lemma ex_object_child_lemma :
  plain_section ex_object_child [] /\ ~ object_is_root (decls ex_object_child []) /\
  effective (decls ex_object_child []) = [("a", "foo")] /\
  parse_types (render ex_object_child []) = Ok [("a", "foo"); ("foo", "object")].
Proof.
  split; [|split; [|split]].
  - split; [|constructor]. repeat constructor; unfold plain; discriminate.
  - intros H. apply H. cbn. left. reflexivity.
  - vm_compute. reflexivity.
  - vm_compute. reflexivity.
Qed.

(* ---------- every token list made of names and dashes that the parser accepts IS such a section ---------- *)
Definition names_only (toks : list sexp) : Prop :=
  Forall (fun e => match e with Atom _ => True | SList _ => False end) toks.

Lemma split_names : forall toks, names_only toks ->
  exists cs rest, toks = map Atom cs ++ rest /\ Forall plain cs /\
                  (rest = [] \/ exists rest', rest = Atom "-" :: rest').
Proof.
  induction toks as [|[t|sub] r IH]; intros H.
  - exists [], []. split; [reflexivity|]. split; [constructor|left; reflexivity].
  - inversion H as [|x l _ Hr]. subst x l. destruct (IH Hr) as (cs & rest & Heq & Hp & Hrest).
    destruct (String.eqb t "-") eqn:E.
    + apply String.eqb_eq in E. subst t. exists [], (Atom "-" :: r).
      split; [reflexivity|]. split; [constructor|right; eexists; reflexivity].
    + exists (t :: cs), rest. split; [cbn [map app]; rewrite Heq; reflexivity|].
      split; [constructor; [apply String.eqb_neq, E|exact Hp]|exact Hrest].
  - inversion H as [|x l Hx _]. destruct Hx.
Qed.

Lemma names_only_app a b : names_only (a ++ b) -> names_only b.
Proof. unfold names_only. rewrite Forall_app. intros [_ H]. exact H. Qed.

Lemma names_are_sections_n : forall n toks, List.length toks <= n -> names_only toks ->
  (exists gs tr, plain_section gs tr /\ toks = render gs tr) \/
  (forall same d, collect_decls toks same d = Err EIndex).
Proof.
  induction n as [|n IH]; intros toks Hlen Hat.
  - destruct toks; [|cbn [List.length] in Hlen; lia]. left. exists [], []. split; [split; constructor|reflexivity].
  - destruct (split_names toks Hat) as (cs & rest & Heq & Hp & [Hr|[rest' Hr]]); subst rest.
    + left. exists [], cs. split; [split; [constructor|exact Hp]|]. rewrite Heq, app_nil_r. reflexivity.
    + subst toks. apply names_only_app in Hat. destruct rest' as [|[p|sub] rest''].
      * right. intros same d. rewrite collect_children by exact Hp. reflexivity.
      * assert (Hat' : names_only rest'').
        { inversion Hat as [|x l _ H1]. inversion H1 as [|x' l' _ H2]. exact H2. }
        assert (Hl : List.length rest'' <= n).
        { rewrite app_length, map_length in Hlen. cbn [List.length] in Hlen. lia. }
        destruct (IH rest'' Hl Hat') as [(gs' & tr' & Hps & Hrr)|Herr].
        -- left. exists ((cs, p) :: gs'), tr'. split.
           ++ destruct Hps as [Hg Ht]. split; [constructor; [exact Hp|exact Hg]|exact Ht].
           ++ unfold render. cbn [flat_map]. unfold render_group at 1. cbn [fst snd]. rewrite Hrr. unfold render.
              rewrite <- !app_assoc. reflexivity.
        -- right. intros same d. rewrite collect_children by exact Hp. cbn [collect_decls String.eqb Ascii.eqb Bool.eqb].
           apply Herr.
      * exfalso. inversion Hat as [|x l _ H1]. inversion H1 as [|x' l' Hx _]. destruct Hx.
Qed.

Theorem accepted_names_are_sections_lemma : forall toks T,
  names_only toks -> parse_types toks = Ok T ->
  exists gs tr, plain_section gs tr /\ toks = render gs tr.
Proof.
  intros toks T Hat H. destruct (names_are_sections_n _ toks (Nat.le_refl _) Hat) as [Hs|Herr]; [exact Hs|].
  unfold parse_types in H. rewrite Herr in H. discriminate.
Qed.
