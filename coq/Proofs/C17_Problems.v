(* C17: combining per-agent problems = union of objects, facts, fluent values, goals; each once;
   independent of the discovery order. *)
From Coq Require Import List String Bool Permutation.
From Verif Require Import Base.Result Base.Str Model.Combine Spec.Combine Proofs.C17_Dict.
Import ListNotations.
Open Scope string_scope.
Open Scope list_scope.

(* ---------------------------------------------------------------- facts *)
Lemma facts_at_merge_key k c k1 l1 :
  facts_at k (merge_key c (k1, l1)) =
  if String.eqb k k1
  then facts_at k1 c ++ filter (fun g => negb (str_in g (facts_at k1 c))) l1
  else facts_at k c.
Proof.
  unfold merge_key, facts_at at 1. simpl. rewrite lookup_set_item.
  destruct (String.eqb k k1); reflexivity.
Qed.

Lemma In_app_filter_new (ex l : list string) x :
  In x (ex ++ filter (fun g => negb (str_in g ex)) l) <-> In x ex \/ In x l.
Proof.
  rewrite in_app_iff, filter_In. split.
  - intros [H|[H _]]; auto.
  - intros [H|H]; [now left|]. destruct (str_in x ex) eqn:E.
    + left. now apply str_in_In.
    + right. split; [assumption|reflexivity].
Qed.

Lemma NoDup_app_filter_new (ex l : list string) :
  NoDup ex -> NoDup l -> NoDup (ex ++ filter (fun g => negb (str_in g ex)) l).
Proof.
  intros He Hl. apply NoDup_app_disjoint; [assumption|now apply NoDup_filter|].
  intros x Hx Hin. apply filter_In in Hx. destruct Hx as [_ Hx].
  apply str_in_In in Hin. rewrite Hin in Hx. discriminate.
Qed.

Lemma In_facts_at_merge_facts a : forall c k x,
  In x (facts_at k (merge_facts c a)) <-> In x (facts_at k c) \/ fact_in a k x.
Proof.
  unfold merge_facts. induction a as [|[k1 l1] a IH]; simpl; intros c k x.
  - split; [now left|]. intros [H|[l [[] _]]]. assumption.
  - rewrite IH, facts_at_merge_key. unfold fact_in. simpl. destruct (String.eqb k k1) eqn:E.
    + apply String.eqb_eq in E. subst k1. rewrite In_app_filter_new. split.
      * intros [[H|H]|[l [H1 H2]]]; [now left|right; exists l1; auto|right; exists l; auto].
      * intros [H|[l [[H1|H1] H2]]]; [left; now left|inversion H1; subst; left; now right|right; exists l; auto].
    + apply String.eqb_neq in E. split.
      * intros [H|[l [H1 H2]]]; [now left|right; exists l; auto].
      * intros [H|[l [[H1|H1] H2]]]; [now left|inversion H1; congruence|right; exists l; auto].
Qed.

Lemma NoDup_facts_at_merge_facts a : forall c k,
  (forall k' l, In (k', l) a -> NoDup l) ->
  NoDup (facts_at k c) -> (forall k', NoDup (facts_at k' c)) ->
  NoDup (facts_at k (merge_facts c a)).
Proof.
  unfold merge_facts. induction a as [|[k1 l1] a IH]; simpl; intros c k Hwf Hk Hall; [assumption|].
  assert (Hall' : forall k', NoDup (facts_at k' (merge_key c (k1, l1)))).
  { intros k'. rewrite facts_at_merge_key. destruct (String.eqb k' k1); [|apply Hall].
    apply NoDup_app_filter_new; [apply Hall|]. apply (Hwf k1). now left. }
  apply IH; [|apply Hall'|apply Hall']. intros k' l H. apply (Hwf k'). now right.
Qed.

Lemma NoDup_keys_merge_facts a : forall c, NoDup (keys c) -> NoDup (keys (merge_facts c a)).
Proof.
  unfold merge_facts. induction a as [|[k1 l1] a IH]; simpl; intros c H; [assumption|].
  apply IH. unfold merge_key. now apply NoDup_set_item.
Qed.

Lemma fold_merge_facts_In (fs : list flist) : forall c k x,
  In x (facts_at k (fold_left merge_facts fs c)) <->
  In x (facts_at k c) \/ exists f, In f fs /\ fact_in f k x.
Proof.
  induction fs as [|f fs IH]; simpl; intros c k x.
  - split; [now left|]. intros [H|[f [[] _]]]. assumption.
  - rewrite IH, In_facts_at_merge_facts. split.
    + intros [[H|H]|[g [H1 H2]]]; [now left|right; exists f; auto|right; exists g; auto].
    + intros [H|[g [[H1|H1] H2]]]; [left; now left|subst; left; now right|right; exists g; auto].
Qed.

Lemma fold_merge_facts_NoDup (fs : list flist) : forall c,
  (forall f k l, In f fs -> In (k, l) f -> NoDup l) ->
  (forall k, NoDup (facts_at k c)) -> forall k, NoDup (facts_at k (fold_left merge_facts fs c)).
Proof.
  induction fs as [|f fs IH]; simpl; intros c Hwf Hall k; [apply Hall|].
  apply IH.
  - intros g k' l Hg. apply (Hwf g k' l). now right.
  - intros k'. apply NoDup_facts_at_merge_facts; [|apply Hall|apply Hall].
    intros k'' l. apply (Hwf f k'' l). now left.
Qed.

Lemma fold_merge_facts_keys (fs : list flist) : forall c,
  NoDup (keys c) -> NoDup (keys (fold_left merge_facts fs c)).
Proof.
  induction fs as [|f fs IH]; simpl; intros c H; [assumption|]. apply IH. now apply NoDup_keys_merge_facts.
Qed.

Lemma fact_in_facts_at (c : flist) k x : NoDup (keys c) -> (fact_in c k x <-> In x (facts_at k c)).
Proof.
  intros Hnd. unfold fact_in, facts_at. split.
  - intros [l [H1 H2]]. apply (In_lookup _ _ _ Hnd) in H1. now rewrite H1.
  - destruct (lookup k c) as [l|] eqn:E; [|intros []]. intros H. exists l. split; [|assumption].
    now apply (In_lookup _ _ _ Hnd).
Qed.

(* ---------------------------------------------------------------- projections of the fold *)
Lemma cp_objs files : p_objs (combine_problems files) = fold_left update (map p_objs files) [].
Proof. unfold combine_problems. now rewrite (fold_proj merge_problem p_objs p_objs update). Qed.
Lemma cp_fluents files : p_fluents (combine_problems files) = fold_left update (map p_fluents files) [].
Proof. unfold combine_problems. now rewrite (fold_proj merge_problem p_fluents p_fluents update). Qed.
Lemma cp_facts files : p_facts (combine_problems files) = fold_left merge_facts (map p_facts files) [].
Proof. unfold combine_problems. now rewrite (fold_proj merge_problem p_facts p_facts merge_facts). Qed.
Lemma cp_ngoals files : p_ngoals (combine_problems files) = fold_left add_new (map p_ngoals files) [].
Proof. unfold combine_problems. now rewrite (fold_proj merge_problem p_ngoals p_ngoals add_new). Qed.
Lemma cp_goals files :
  p_goals (combine_problems files) = fold_left (fun c a => add_new [] (c ++ a)) (map p_goals files) [].
Proof.
  unfold combine_problems.
  now rewrite (fold_proj merge_problem p_goals p_goals (fun c a => add_new [] (c ++ a))).
Qed.

Lemma fold_goals_In (ls : list (list string)) : forall c y,
  In y (fold_left (fun c a => add_new [] (c ++ a)) ls c) <-> In y c \/ exists l, In l ls /\ In y l.
Proof.
  induction ls as [|l ls IH]; simpl; intros c y.
  - split; [now left|]. intros [H|[l [[] _]]]. assumption.
  - rewrite IH, In_add_new, in_app_iff. simpl. split.
    + intros [[[]|[H|H]]|[l' [H1 H2]]]; [now left|right; exists l; auto|right; exists l'; auto].
    + intros [H|[l' [[H1|H1] H2]]]; [left; right; now left|subst; left; right; now right|right; exists l'; auto].
Qed.

Lemma fold_goals_NoDup (ls : list (list string)) : forall c,
  NoDup c -> NoDup (fold_left (fun c a => add_new [] (c ++ a)) ls c).
Proof.
  induction ls as [|l ls IH]; simpl; intros c H; [assumption|].
  apply IH. apply NoDup_add_new. constructor.
Qed.

Lemma fold_merge_problem_name files : forall c,
  p_name (fold_left merge_problem files c) = last (map p_name files) (p_name c).
Proof.
  induction files as [|f files IH]; simpl; intros c; [reflexivity|].
  rewrite IH. simpl. destruct (map p_name files) as [|o l]; [reflexivity|].
  clear. revert o. induction l as [|y l IHl]; intros o; [reflexivity|].
  change (last (y :: l) (p_name f) = last (y :: l) (p_name c)). apply IHl.
Qed.

(* ---------------------------------------------------------------- the statements *)
Definition problem_files_ok (files : list problemv) : Prop :=
  agree (map p_objs files) /\ agree (map p_fluents files) /\
  (forall f k l, In f files -> In (k, l) (p_facts f) -> NoDup l).

Definition problem_is_union (files : list problemv) (c : problemv) : Prop :=
  union_of (map p_objs files) (p_objs c) /\
  union_of (map p_fluents files) (p_fluents c) /\
  facts_union_of (map p_facts files) (p_facts c) /\
  set_union_of (map p_goals files) (p_goals c) /\
  set_union_of (map p_ngoals files) (p_ngoals c).

Lemma facts_union files :
  (forall f k l, In f files -> In (k, l) (p_facts f) -> NoDup l) ->
  facts_union_of (map p_facts files) (p_facts (combine_problems files)).
Proof.
  intros Hwf. rewrite cp_facts.
  assert (N0 : NoDup (keys (@nil (string * list string)))) by constructor.
  assert (Nk := fold_merge_facts_keys (map p_facts files) [] N0).
  assert (Hwf' : forall f k l, In f (map p_facts files) -> In (k, l) f -> NoDup l).
  { intros f k l Hf. apply in_map_iff in Hf. destruct Hf as [g [E Hg]]. subst f. now apply Hwf. }
  split; [exact Nk|split].
  - intros k l H. apply (In_lookup _ _ _ Nk) in H.
    pose proof (fold_merge_facts_NoDup (map p_facts files) [] Hwf' (fun _ => NoDup_nil _) k) as Hn.
    unfold facts_at in Hn. now rewrite H in Hn.
  - intros k x. rewrite (fact_in_facts_at _ _ _ Nk), fold_merge_facts_In. split.
    + intros [[]|H]. exact H.
    + intros H. now right.
Qed.

Lemma C17_union_problems_lemma : forall files,
  problem_files_ok files -> problem_is_union files (combine_problems files).
Proof.
  intros files (Ao & Af & Hwf). unfold problem_is_union.
  rewrite cp_objs, cp_fluents.
  split; [now apply union_of_intro_nil|]. split; [now apply union_of_intro_nil|].
  split; [now apply facts_union|]. split.
  - rewrite cp_goals. split; [apply fold_goals_NoDup; constructor|].
    intros x. rewrite fold_goals_In. split; [intros [[]|H]; exact H|intros H; now right].
  - rewrite cp_ngoals. split; [apply NoDup_fold_add_new; constructor|].
    intros x. rewrite In_fold_add_new. split; [intros [[]|H]; exact H|intros H; now right].
Qed.

(* goals and numeric goals never occur twice, whatever the files contain (D27 after the repair) *)
Lemma C17_goals_once_lemma : forall files,
  NoDup (p_goals (combine_problems files)) /\ NoDup (p_ngoals (combine_problems files)).
Proof.
  intros files. rewrite cp_goals, cp_ngoals. split.
  - apply fold_goals_NoDup; constructor.
  - apply NoDup_fold_add_new; constructor.
Qed.

(* ---------------------------------------------------------------- order independence *)
(* equal in what the property speaks about: objects and fluent values as maps, facts, goals and numeric
   goals as sets *)
Definition problem_equiv (a b : problemv) : Prop :=
  map_equiv (p_objs a) (p_objs b) /\ map_equiv (p_fluents a) (p_fluents b) /\
  facts_equiv (p_facts a) (p_facts b) /\ set_equiv (p_goals a) (p_goals b) /\
  set_equiv (p_ngoals a) (p_ngoals b).

Lemma problem_files_ok_perm files files' :
  Permutation files files' -> problem_files_ok files -> problem_files_ok files'.
Proof.
  intros P (Ao & Af & Hwf). split; [|split].
  - apply (agree_incl (map p_objs files)); [|assumption]. intros d. now apply (perm_map_In p_objs _ _ P).
  - apply (agree_incl (map p_fluents files)); [|assumption]. intros d. now apply (perm_map_In p_fluents _ _ P).
  - intros f k l Hf. apply (Hwf f k l). now apply (Permutation_in _ (Permutation_sym P)).
Qed.

Lemma last_In' {A} (l : list A) (d : A) : l <> [] -> In (last l d) l.
Proof.
  induction l as [|x l IH]; [congruence|]. intros _. destruct l as [|y l]; [now left|].
  right. apply IH. discriminate.
Qed.

Lemma C17_order_problems_lemma : forall files files',
  problem_files_ok files -> Permutation files files' ->
  problem_equiv (combine_problems files) (combine_problems files').
Proof.
  intros files files' Hok P.
  pose proof (C17_union_problems_lemma files Hok) as (Uo & Uf & (_ & _ & Ux) & Ug & Un).
  pose proof (C17_union_problems_lemma files' (problem_files_ok_perm _ _ P Hok)) as (Uo' & Uf' & (_ & _ & Ux') & Ug' & Un').
  unfold problem_equiv. split; [|split; [|split; [|split]]].
  - apply (union_of_equiv _ _ _ _ (perm_map_In p_objs _ _ P) Uo Uo').
  - apply (union_of_equiv _ _ _ _ (perm_map_In p_fluents _ _ P) Uf Uf').
  - intros k x. rewrite Ux, Ux'. split; intros [f [Hf H]]; exists f; split; try assumption;
      now apply (perm_map_In p_facts _ _ P).
  - apply (set_union_of_equiv _ _ _ _ (perm_map_In p_goals _ _ P) Ug Ug').
  - apply (set_union_of_equiv _ _ _ _ (perm_map_In p_ngoals _ _ P) Un Un').
Qed.

(* ---------------------------------------------------------------- non-vacuity *)
Definition ex_pa : problemv :=
  {| p_name := "pp"; p_objs := [("l1", "loc"); ("l2", "loc"); ("t1", "truck")];
     p_facts := [("(at ?a ?l)", ["(at t1 l1)"]); ("(free ?l)", ["(free l2)"])];
     p_fluents := [("(fuel t1)", "(= (fuel t1) 5.0)"); ("(dist l1 l2)", "(= (dist l1 l2) 3.0)")];
     p_goals := ["(at t1 - agent l2 - loc)"; "(free l2 - loc)"];
     p_ngoals := ["(>= (fuel t1) 2)"; "(>= (dist l1 l2) 2)"] |}.
Definition ex_pb : problemv :=
  {| p_name := "pp"; p_objs := [("l1", "loc"); ("l2", "loc"); ("p1", "plane")];
     p_facts := [("(at ?a ?l)", ["(at p1 l1)"]); ("(free ?l)", ["(free l2)"]); ("(sky ?l)", ["(sky l2)"])];
     p_fluents := [("(fuel p1)", "(= (fuel p1) 7.0)"); ("(dist l1 l2)", "(= (dist l1 l2) 3.0)")];
     p_goals := ["(at p1 - agent l2 - loc)"; "(free l2 - loc)"];
     p_ngoals := ["(>= (dist l1 l2) 2)"] |}.

Lemma nodup_of_b l : nodup_b l = true -> NoDup l.
Proof.
  induction l as [|x l IH]; simpl; intros H; [constructor|].
  apply andb_true_iff in H. destruct H as [H1 H2]. constructor; [|now apply IH].
  intros Hin. apply str_in_In in Hin. rewrite Hin in H1. discriminate.
Qed.

Lemma agree_of_b' (ds : list alist) : agree_b ds = true -> agree ds.
Proof.
  unfold agree_b. intros H. apply agree_functional. intros k v w H1 H2.
  rewrite forallb_forall in H. specialize (H _ H1). rewrite forallb_forall in H. specialize (H _ H2).
  simpl in H. apply orb_true_iff in H. destruct H as [H|H].
  - rewrite String.eqb_refl in H. discriminate.
  - now apply String.eqb_eq.
Qed.

Lemma ex_problem_files_ok : problem_files_ok [ex_pa; ex_pb].
Proof.
  split; [apply agree_of_b'; vm_compute; reflexivity|]. split; [apply agree_of_b'; vm_compute; reflexivity|].
  intros f k l [H|[H|[]]]; subst f; simpl; intros Hin;
    repeat (destruct Hin as [Hin|Hin]; [inversion Hin; subst; apply nodup_of_b; reflexivity|]); destruct Hin.
Qed.

(* the name is the one of the file found last *)
Lemma C17_pname_last_lemma : forall files,
  p_name (combine_problems files) = last (map p_name files) "".
Proof. intros. unfold combine_problems. now rewrite fold_merge_problem_name. Qed.

(* D27: with identity-hashed expression trees (the code before the repair) a numeric goal shared by two
   files is kept twice *)
Lemma C17_ngoals_twice_before_repair_lemma :
  exists files, problem_files_ok files /\ ~ NoDup (p_ngoals (combine_problems_identity files)).
Proof.
  exists [ex_pa; ex_pb]. split; [exact ex_problem_files_ok|].
  intros H. vm_compute in H. inversion H as [|x l H1 H2]; subst. inversion H2 as [|y l' H3 H4]; subst.
  apply H3. now left.
Qed.

(* the shared fact, goal and numeric goal are kept once; the private ones are all there *)
Lemma ex_problem_shape :
  facts_at "(free ?l)" (p_facts (combine_problems [ex_pa; ex_pb])) = ["(free l2)"] /\
  facts_at "(at ?a ?l)" (p_facts (combine_problems [ex_pa; ex_pb])) = ["(at t1 l1)"; "(at p1 l1)"] /\
  p_ngoals (combine_problems [ex_pa; ex_pb]) = ["(>= (fuel t1) 2)"; "(>= (dist l1 l2) 2)"] /\
  List.length (p_goals (combine_problems [ex_pa; ex_pb])) = 3 /\
  List.length (p_objs (combine_problems [ex_pa; ex_pb])) = 4.
Proof. vm_compute. repeat split. Qed.
