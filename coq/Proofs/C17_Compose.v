(* C17 composed with C08: the combination of well-formed parsed agent domains is well-formed (C08's wf_mdomain), so
   C08's export / re-parse theorem applies to it without any hypothesis about the combination itself.

   Hypotheses about the FILES only:
     - every file satisfies wf_mdomain (what the parser establishes: C08_range_domain);
     - the files agree on the parent of every shared type (otherwise the combination mixes two hierarchies: see
       Corr/C17.v, [lenient]);
     - a function declared by two files has the same number of parameters in both.
   Nothing is assumed about constants, predicates or actions declared by several files (the last file found wins,
   and whatever wins is well-formed in the combination). *)
From Coq Require Import List Ascii String Bool Arith Lia PrimFloat.
From Verif Require Import Base.Result Base.Str Base.Sexp Base.PyDict Base.Float
  Model.Tokenizer Model.Types Model.NumExpr Model.Domain Model.DomainExporter Model.Combine Model.CombineDomains
  Spec.Combine Corr.Core
  Proofs.C17_Dict Proofs.C17_Domains Proofs.C17_Structured
  Proofs.C08_Defs Proofs.C08_Trees Proofs.C08_Pre Proofs.C08_Tables Proofs.C08_Domain Proofs.C08_Range Proofs.C08_RangeDom
  Proofs.C08_Vocab Proofs.C08_Main.
Import ListNotations.
Open Scope string_scope.
Open Scope list_scope.

(* ---------------------------------------------------------------- pydict = adict *)
Lemma dset_set_item {V} (d : pydict V) k v : dset d k v = set_item k v d.
Proof.
  induction d as [|[k' v'] r IH]; simpl; [reflexivity|].
  destruct (String.eqb k k') eqn:E.
  - apply String.eqb_eq in E. subst k'. reflexivity.
  - now rewrite IH.
Qed.

Lemma dupdate_update {V} (e : pydict V) : forall d, dupdate d e = update d e.
Proof.
  unfold dupdate, update. induction e as [|[k v] e IH]; simpl; intros d; [reflexivity|].
  now rewrite IH, dset_set_item.
Qed.

Lemma dget_lookup {V} (d : pydict V) k : dget d k = lookup k d.
Proof. induction d as [|[k' v'] r IH]; simpl; [reflexivity|]. now rewrite IH. Qed.

Lemma fold_dupdate_update {V} (secs : list (pydict V)) : forall d,
  fold_left (fun acc x => dupdate acc x) secs d = fold_left update secs d.
Proof. induction secs as [|x secs IH]; simpl; intros d; [reflexivity|]. now rewrite IH, dupdate_update. Qed.

(* the sections of the structured combination as folds of dict updates *)
Lemma cm_section {A} (sec : mdomain -> pydict A)
  (Hsec : forall c a, sec (merge_mdomain c a) = dupdate (sec c) (sec a)) (H0 : sec empty_domain = [])
  (files : list mdomain) :
  sec (combine_mdomains files) = fold_left update (map sec files) [].
Proof.
  unfold combine_mdomains. rewrite (fold_merge_m_proj sec Hsec files empty_domain), H0.
  rewrite <- fold_dupdate_update. generalize (@nil (string * A)).
  induction files as [|x files IH]; simpl; intros d; [reflexivity|]. apply IH.
Qed.

Lemma cm_types files : Domain.d_types (combine_mdomains files) = fold_left update (map Domain.d_types files) [].
Proof. now apply cm_section. Qed.
Lemma cm_consts files : Domain.d_consts (combine_mdomains files) = fold_left update (map Domain.d_consts files) [].
Proof. now apply cm_section. Qed.
Lemma cm_preds files : Domain.d_preds (combine_mdomains files) = fold_left update (map Domain.d_preds files) [].
Proof. now apply cm_section. Qed.
Lemma cm_funcs files : Domain.d_funcs (combine_mdomains files) = fold_left update (map Domain.d_funcs files) [].
Proof. now apply cm_section. Qed.
Lemma cm_actions files : Domain.d_actions (combine_mdomains files) = fold_left update (map Domain.d_actions files) [].
Proof. now apply cm_section. Qed.

(* what holds of a fold of updates without any agreement: keys once, every entry is some file's, every file's key
   is a key *)
Lemma fold_update_weak {V} (secs : list (adict V)) :
  NoDup (keys (fold_left update secs [])) /\
  (forall k v, In (k, v) (fold_left update secs []) -> exists d, In d secs /\ In (k, v) d) /\
  (forall d k v, In d secs -> In (k, v) d -> In k (keys (fold_left update secs []))).
Proof.
  assert (H0 : NoDup (keys (@nil (string * V)))) by constructor.
  destruct (weak_union_of_intro [] secs H0) as (W1 & W2 & W3). split; [exact W1|]. split.
  - intros k v H. destruct (W2 k v H) as [d [[Hd|Hd] Hin]]; [subst; contradiction|eauto].
  - intros d k v Hd Hin. apply (W3 d k v); [now right|assumption].
Qed.

Lemma In_dget {V} (d : pydict V) k v : NoDup (dkeys d) -> In (k, v) d -> dget d k = Some v.
Proof. intros Hnd H. now apply (dget_in d k v Hnd). Qed.

Lemma dmem_keys {V} (d : pydict V) k : dmem d k = true <-> In k (dkeys d).
Proof.
  unfold dmem. induction d as [|[k' v'] r IH]; simpl.
  - split; [discriminate|contradiction].
  - destruct (String.eqb k k') eqn:E.
    + apply String.eqb_eq in E. subst. split; [now left|reflexivity].
    + rewrite IH. split; [now right|]. intros [H|H]; [subst; rewrite String.eqb_refl in E; discriminate|assumption].
Qed.

Lemma dget_some_in {V} (d : pydict V) k v : dget d k = Some v -> In (k, v) d.
Proof.
  induction d as [|[k' v'] r IH]; simpl; [discriminate|].
  destruct (String.eqb k k') eqn:E.
  - apply String.eqb_eq in E. subst. intros H. injection H as ->. now left.
  - intros H. right. now apply IH.
Qed.

(* ---------------------------------------------------------------- well-formedness is monotone in the tables *)
Section Mono.
  Variable num : numparser.
  Variables tyk tyk' ck ck' : string -> bool.
  Variables preds preds' funcs funcs' : pydict signature.
  Hypothesis Htyk : forall t, tyk t = true -> tyk' t = true.
  Hypothesis Hck : forall c, ck c = true -> ck' c = true.
  Hypothesis Hpreds : forall p, dmem preds p = true -> dmem preds' p = true.
  Hypothesis Hfuncs : forall f sg, dget funcs f = Some sg ->
    exists sg', dget funcs' f = Some sg' /\ List.length sg' = List.length sg.

  Lemma wf_tree_mono d t : wf_tree num funcs d t = true -> wf_tree num funcs' d t = true.
  Proof.
    induction t as [x|f args|op l IHl r IHr]; cbn [wf_tree]; intros H; [exact H| |].
    - apply andb_true_iff in H. destruct H as [H1 H2]. rewrite H1. cbn [andb].
      destruct (dget funcs f) as [sg|] eqn:E; [|discriminate].
      destruct (Hfuncs f sg E) as [sg' [E' L]]. rewrite E', L. exact H2.
    - apply andb_true_iff in H. destruct H as [H H3]. apply andb_true_iff in H. destruct H as [H1 H2].
      rewrite (IHl H1), (IHr H2), H3. reflexivity.
  Qed.

  Lemma wf_numcond_mono d t : wf_numcond num funcs d t = true -> wf_numcond num funcs' d t = true.
  Proof.
    destruct t as [x|f args|op l r]; cbn [wf_numcond]; intros H; try discriminate.
    apply andb_true_iff in H. destruct H as [H1 H2]. rewrite (wf_tree_mono d _ H1), H2. reflexivity.
  Qed.

  Lemma wf_numeff_mono d t : wf_numeff num funcs d t = true -> wf_numeff num funcs' d t = true.
  Proof.
    destruct t as [x|f args|op l r]; cbn [wf_numeff]; intros H; try discriminate.
    apply andb_true_iff in H. destruct H as [H1 H2]. rewrite (wf_tree_mono d _ H1), H2. reflexivity.
  Qed.

  Lemma forallb_mono {A} (f g : A -> bool) l : (forall x, In x l -> f x = true -> g x = true) ->
    forallb f l = true -> forallb g l = true.
  Proof.
    induction l as [|x xs IH]; intros H Hf; [reflexivity|]. cbn [forallb] in *.
    apply andb_true_iff in Hf. destruct Hf as [Hx Hxs].
    rewrite (H x (or_introl eq_refl) Hx). cbn [andb]. apply IH; [|exact Hxs]. intros y Hy. apply H. now right.
  Qed.

  Lemma wf_args_mono sg args : wf_args ck sg args = true -> wf_args ck' sg args = true.
  Proof.
    unfold wf_args. intros H. apply andb_true_iff in H. destruct H as [H1 H2]. rewrite H2, andb_true_r.
    revert H1. apply forallb_mono. intros a _ Ha. apply orb_true_iff in Ha. apply orb_true_iff.
    destruct Ha as [Ha|Ha]; [now left|right; now apply Hck].
  Qed.

  Lemma wf_pre_mono d : forall p sg,
    wf_pre num tyk ck preds funcs d sg p = true -> wf_pre num tyk' ck' preds' funcs' d sg p = true.
  Proof.
    apply (mpre_ind'
      (fun p => forall sg, wf_pre num tyk ck preds funcs d sg p = true -> wf_pre num tyk' ck' preds' funcs' d sg p = true)
      (fun c => forall sg, wf_cond num tyk ck preds funcs d sg c = true -> wf_cond num tyk' ck' preds' funcs' d sg c = true)).
    - intros op os eqs neqs HQ sg H.
      change (forallb (wf_cond num tyk ck preds funcs d sg) os = true) in H.
      change (forallb (wf_cond num tyk' ck' preds' funcs' d sg) os = true).
      rewrite Forall_forall in HQ. revert H. apply forallb_mono. intros c Hc. apply HQ. exact Hc.
    - intros pos p args sg H. destruct pos; cbn [wf_cond] in *.
      + apply andb_true_iff in H. destruct H as [H H3]. apply andb_true_iff in H. destruct H as [H1 H2].
        rewrite H1, (Hpreds p H2), (wf_args_mono sg args H3). reflexivity.
      + apply andb_true_iff in H. destruct H as [H1 H2]. rewrite H1, (wf_args_mono sg args H2). reflexivity.
    - intros t sg H. cbn [wf_cond] in *. now apply wf_numcond_mono.
    - intros q HP sg H.
      change (is_connective (pre_op q) && wf_pre num tyk ck preds funcs d sg q = true) in H.
      change (is_connective (pre_op q) && wf_pre num tyk' ck' preds' funcs' d sg q = true).
      apply andb_true_iff in H. destruct H as [H1 H2]. rewrite H1, (HP sg H2). reflexivity.
    - intros v ty q HP sg H.
      change (negb (vacuous_body q) && is_connective (pre_op q) && tyk ty &&
              wf_pre num tyk ck preds funcs d (dset sg v ty) q = true) in H.
      change (negb (vacuous_body q) && is_connective (pre_op q) && tyk' ty &&
              wf_pre num tyk' ck' preds' funcs' d (dset sg v ty) q = true).
      apply andb_true_iff in H. destruct H as [H H4]. apply andb_true_iff in H. destruct H as [H H3].
      rewrite H, (Htyk ty H3), (HP _ H4). reflexivity.
  Qed.

  Lemma wf_efflit_mono sg l : wf_efflit ck preds sg l = true -> wf_efflit ck' preds' sg l = true.
  Proof.
    unfold wf_efflit. intros H. apply andb_true_iff in H. destruct H as [H1 H2].
    rewrite (wf_args_mono sg _ H2), andb_true_r. destruct (l_pos l); [now apply Hpreds|reflexivity].
  Qed.

  Lemma wf_reslit_mono sg l : wf_reslit ck sg l = true -> wf_reslit ck' sg l = true.
  Proof.
    unfold wf_reslit. intros H. apply andb_true_iff in H. destruct H as [H1 H2].
    rewrite H1, (wf_args_mono sg _ H2). reflexivity.
  Qed.

  Lemma wf_condeff_mono dpre deff sg ce :
    wf_condeff num tyk ck preds funcs dpre deff sg ce = true -> wf_condeff num tyk' ck' preds' funcs' dpre deff sg ce = true.
  Proof.
    unfold wf_condeff. intros H.
    apply andb_true_iff in H. destruct H as [H H4]. apply andb_true_iff in H. destruct H as [H H3].
    apply andb_true_iff in H. destruct H as [H1 H2].
    rewrite H1, (wf_pre_mono dpre _ sg H2). cbn [andb].
    rewrite (forallb_mono _ (wf_reslit ck' sg) _ (fun l _ => wf_reslit_mono sg l) H3).
    rewrite (forallb_mono _ (wf_numeff num funcs' deff) _ (fun t _ => wf_numeff_mono deff t) H4). reflexivity.
  Qed.

  Lemma wf_univeff_mono dpre deff sg ue :
    wf_univeff num tyk ck preds funcs dpre deff sg ue = true -> wf_univeff num tyk' ck' preds' funcs' dpre deff sg ue = true.
  Proof.
    unfold wf_univeff. intros H. apply andb_true_iff in H. destruct H as [H1 H2].
    rewrite (Htyk _ H1), (wf_condeff_mono dpre deff _ _ H2). reflexivity.
  Qed.

  Lemma wf_sig_mono sg : wf_sig tyk sg = true -> wf_sig tyk' sg = true.
  Proof.
    unfold wf_sig. intros H. apply andb_true_iff in H. destruct H as [H1 H2]. rewrite H1. cbn [andb].
    revert H2. apply forallb_mono. intros pt _ Hp. apply andb_true_iff in Hp. destruct Hp as [P1 P2].
    rewrite P1, (Htyk _ P2). reflexivity.
  Qed.

  Lemma wf_action_mono dpre deff a :
    wf_action num tyk ck preds funcs dpre deff a = true -> wf_action num tyk' ck' preds' funcs' dpre deff a = true.
  Proof.
    unfold wf_action. intros H.
    apply andb_true_iff in H. destruct H as [H H8]. apply andb_true_iff in H. destruct H as [H H7].
    apply andb_true_iff in H. destruct H as [H H6]. apply andb_true_iff in H. destruct H as [H H5].
    apply andb_true_iff in H. destruct H as [H H4]. apply andb_true_iff in H. destruct H as [H H3].
    apply andb_true_iff in H. destruct H as [H1 H2].
    rewrite H1, (wf_sig_mono _ H2), H3, (wf_pre_mono dpre _ _ H4). cbn [andb].
    rewrite (forallb_mono _ (wf_efflit ck' preds' (ma_sig a)) _ (fun l _ => wf_efflit_mono _ l) H5).
    rewrite (forallb_mono _ (wf_numeff num funcs' deff) _ (fun t _ => wf_numeff_mono deff t) H6).
    rewrite (forallb_mono _ (wf_condeff num tyk' ck' preds' funcs' dpre deff (ma_sig a)) _
               (fun ce _ => wf_condeff_mono dpre deff _ ce) H7).
    rewrite (forallb_mono _ (wf_univeff num tyk' ck' preds' funcs' dpre deff (ma_sig a)) _
               (fun ue _ => wf_univeff_mono dpre deff _ ue) H8).
    reflexivity.
  Qed.
End Mono.

(* ---------------------------------------------------------------- the type table of the combination *)
Lemma walk_chain (F T : typetable) :
  (forall k p, In (k, p) F -> type_known F p = true) ->
  (forall k v, dget F k = Some v -> dget T k = Some v) ->
  forall fuel t, walk fuel F t "object" = Ok true -> (t = "object" \/ In t (dkeys F)) ->
  forall n, fuel <= n -> walk n T t "object" = Ok true.
Proof.
  intros Hclosed Hincl. induction fuel as [|f IH]; intros t Hw Ht n Hn.
  - destruct n; cbn [walk] in *; destruct (String.eqb t "object"); try reflexivity; discriminate.
  - destruct n as [|n']; [lia|]. cbn [walk] in *.
    destruct (String.eqb t "object") eqn:E; [reflexivity|].
    destruct Ht as [Ht|Ht]; [subst; discriminate|].
    apply dmem_keys in Ht. unfold dmem in Ht. destruct (dget F t) as [p|] eqn:G; [|discriminate].
    rewrite (Hincl t p G). apply (IH p Hw); [|lia].
    pose proof (Hclosed t p (dget_some_in F t p G)) as Hk. unfold type_known in Hk.
    apply orb_true_iff in Hk. destruct Hk as [Hk|Hk]; [left; now apply String.eqb_eq|right; now apply dmem_keys].
Qed.

Lemma wf_mdomain_parts num dpre deff m : wf_mdomain num dpre deff m = true ->
  wf_types (Domain.d_types m) = true /\ wf_consts (Domain.d_types m) (Domain.d_consts m) = true /\
  wf_preds (Domain.d_types m) (Domain.d_preds m) = true /\ wf_funcs (Domain.d_types m) (Domain.d_funcs m) = true /\
  has_dup (dkeys (Domain.d_actions m)) = false /\
  forallb (fun na => String.eqb (fst na) (ma_name (snd na)) &&
                     wf_action num (type_known (Domain.d_types m)) (dmem (Domain.d_consts m)) (Domain.d_preds m)
                               (Domain.d_funcs m) dpre deff (snd na)) (Domain.d_actions m) = true.
Proof.
  unfold wf_mdomain, wf_mdomain_gen. intros H.
  apply andb_true_iff in H. destruct H as [H H6]. apply andb_true_iff in H. destruct H as [H H5].
  apply andb_true_iff in H. destruct H as [H H4]. apply andb_true_iff in H. destruct H as [H H3].
  apply andb_true_iff in H. destruct H as [H1 H2]. apply negb_true_iff in H5. repeat split; assumption.
Qed.

Lemma wf_types_parts tt : wf_types tt = true ->
  NoDup (dkeys tt) /\
  (forall k p, In (k, p) tt -> k <> "object" /\ not_dash k = true /\ type_known tt p = true) /\
  (forall k p, In (k, p) tt -> reaches_object tt k = true).
Proof.
  unfold wf_types. intros H. apply andb_true_iff in H. destruct H as [H H3].
  apply andb_true_iff in H. destruct H as [H1 H2]. apply negb_true_iff in H1.
  split; [now apply has_dup_false_nodup|]. rewrite forallb_forall in H2, H3. split.
  - intros k p Hin. specialize (H2 (k, p) Hin). cbn [fst snd] in H2.
    apply andb_true_iff in H2. destruct H2 as [H2 Hc]. apply andb_true_iff in H2. destruct H2 as [Ha Hb].
    split; [|split; assumption]. intros ->. discriminate.
  - intros k p Hin. exact (H3 (k, p) Hin).
Qed.

Definition same_arity (secs : list (pydict signature)) : Prop :=
  forall d e k sg sg', In d secs -> In e secs -> In (k, sg) d -> In (k, sg') e -> List.length sg = List.length sg'.

Lemma NoDup_incl_len (a b : list string) : NoDup a -> incl a b -> List.length a <= List.length b.
Proof. intros Ha Hi. now apply NoDup_incl_length. Qed.

Section Combine.
  Variable num : numparser.
  Variables dpre deff : nat.
  Variable files : list mdomain.
  Hypothesis Hwf : forall f, In f files -> wf_mdomain num dpre deff f = true.
  Hypothesis Hagree : agree (map Domain.d_types files).
  Hypothesis Harity : same_arity (map Domain.d_funcs files).

  Let c := combine_mdomains files.

  (* types: exact union (agreement) *)
  Lemma c_types_union : union_of (map Domain.d_types files) (Domain.d_types c).
  Proof. unfold c. rewrite cm_types. now apply union_of_intro_nil. Qed.

  Lemma c_types_nodup : NoDup (dkeys (Domain.d_types c)).
  Proof. exact (proj1 c_types_union). Qed.

  Lemma c_types_incl f k v : In f files -> dget (Domain.d_types f) k = Some v -> dget (Domain.d_types c) k = Some v.
  Proof.
    intros Hf Hg. apply In_dget; [exact c_types_nodup|]. apply (proj2 c_types_union).
    exists (Domain.d_types f). split; [now apply in_map|now apply dget_some_in].
  Qed.

  Lemma c_type_known f t : In f files -> type_known (Domain.d_types f) t = true -> type_known (Domain.d_types c) t = true.
  Proof.
    intros Hf. unfold type_known. intros H. apply orb_true_iff in H. apply orb_true_iff.
    destruct H as [H|H]; [now left|right]. unfold dmem in *.
    destruct (dget (Domain.d_types f) t) as [p|] eqn:G; [|discriminate]. now rewrite (c_types_incl f t p Hf G).
  Qed.

  Lemma c_types_from k p : In (k, p) (Domain.d_types c) -> exists f, In f files /\ In (k, p) (Domain.d_types f).
  Proof.
    intros H. apply (proj2 c_types_union) in H. destruct H as [d [Hd Hin]].
    apply in_map_iff in Hd. destruct Hd as [f [<- Hf]]. eauto.
  Qed.

  Lemma c_wf_types : wf_types (Domain.d_types c) = true.
  Proof.
    unfold wf_types. rewrite (nodup_has_dup _ c_types_nodup). cbn [negb andb].
    apply andb_true_iff. split; apply forallb_forall; intros [k p] Hin; cbn [fst snd].
    - destruct (c_types_from k p Hin) as [f [Hf Hinf]].
      destruct (wf_mdomain_parts _ _ _ _ (Hwf f Hf)) as (Ht & _).
      destruct (wf_types_parts _ Ht) as (_ & Hall & _). destruct (Hall k p Hinf) as (Hne & Hd & Hk).
      rewrite Hd, (c_type_known f p Hf Hk). apply String.eqb_neq in Hne. rewrite Hne. reflexivity.
    - destruct (c_types_from k p Hin) as [f [Hf Hinf]].
      destruct (wf_mdomain_parts _ _ _ _ (Hwf f Hf)) as (Ht & _).
      destruct (wf_types_parts _ Ht) as (Hnd & Hall & Hreach).
      pose proof (Hreach k p Hinf) as Hr. unfold reaches_object in *.
      destruct (walk (S (S (List.length (Domain.d_types f)))) (Domain.d_types f) k "object") as [[|]|] eqn:W; try discriminate.
      rewrite (walk_chain (Domain.d_types f) (Domain.d_types c)
                 (fun k' p' H' => proj2 (proj2 (Hall k' p' H'))) (fun k' v' => c_types_incl f k' v' Hf)
                 _ k W); [reflexivity| |].
      + right. unfold dkeys. apply in_map_iff. exists (k, p). split; [reflexivity|assumption].
      + apply le_n_S, le_n_S. rewrite <- (map_length fst (Domain.d_types f)), <- (map_length fst (Domain.d_types c)).
        apply NoDup_incl_len; [exact Hnd|]. intros x Hx. apply in_map_iff in Hx. destruct Hx as [[k' p'] [<- Hx]].
        cbn [fst]. apply dmem_keys. unfold dmem. rewrite (c_types_incl f k' p' Hf (In_dget _ _ _ Hnd Hx)). reflexivity.
  Qed.

  (* the other sections: whatever entry wins comes from some file; every file's name is a name of the combination *)
  Lemma c_section_weak {A} (sec : mdomain -> pydict A)
    (Hc : sec c = fold_left update (map sec files) []) :
    NoDup (dkeys (sec c)) /\
    (forall k v, In (k, v) (sec c) -> exists f, In f files /\ In (k, v) (sec f)) /\
    (forall f k, In f files -> dmem (sec f) k = true -> dmem (sec c) k = true).
  Proof.
    rewrite Hc. destruct (fold_update_weak (map sec files)) as (W1 & W2 & W3). split; [exact W1|]. split.
    - intros k v H. destruct (W2 k v H) as [d [Hd Hin]]. apply in_map_iff in Hd. destruct Hd as [f [<- Hf]]. eauto.
    - intros f k Hf Hm. unfold dmem in Hm. destruct (dget (sec f) k) as [v|] eqn:G; [|discriminate].
      apply dmem_keys. apply (W3 (sec f) k v); [now apply in_map|now apply dget_some_in].
  Qed.

  Lemma c_wf_consts : wf_consts (Domain.d_types c) (Domain.d_consts c) = true.
  Proof.
    destruct (c_section_weak Domain.d_consts (cm_consts files)) as (Hnd & Hfrom & _).
    unfold wf_consts. rewrite (nodup_has_dup _ Hnd). cbn [negb andb].
    apply forallb_forall. intros [k t] Hin. cbn [fst snd].
    destruct (Hfrom k t Hin) as [f [Hf Hinf]].
    destruct (wf_mdomain_parts _ _ _ _ (Hwf f Hf)) as (_ & Hcs & _).
    unfold wf_consts in Hcs. apply andb_true_iff in Hcs. destruct Hcs as [_ Hall].
    rewrite forallb_forall in Hall. specialize (Hall (k, t) Hinf). cbn [fst snd] in Hall.
    apply andb_true_iff in Hall. destruct Hall as [H1 H2]. rewrite H1, (c_type_known f t Hf H2). reflexivity.
  Qed.

  Lemma c_wf_preds : wf_preds (Domain.d_types c) (Domain.d_preds c) = true.
  Proof.
    destruct (c_section_weak Domain.d_preds (cm_preds files)) as (Hnd & Hfrom & _).
    unfold wf_preds. rewrite (nodup_has_dup _ Hnd). cbn [negb andb].
    apply forallb_forall. intros [k sg] Hin. cbn [fst snd].
    destruct (Hfrom k sg Hin) as [f [Hf Hinf]].
    destruct (wf_mdomain_parts _ _ _ _ (Hwf f Hf)) as (_ & _ & Hps & _).
    unfold wf_preds in Hps. apply andb_true_iff in Hps. destruct Hps as [_ Hall].
    rewrite forallb_forall in Hall. specialize (Hall (k, sg) Hinf). cbn [fst snd] in Hall.
    apply andb_true_iff in Hall. destruct Hall as [H1 H2]. rewrite H1. cbn [andb].
    exact (wf_sig_mono _ _ (fun t => c_type_known f t Hf) sg H2).
  Qed.

  Lemma c_wf_funcs : wf_funcs (Domain.d_types c) (Domain.d_funcs c) = true.
  Proof.
    destruct (c_section_weak Domain.d_funcs (cm_funcs files)) as (Hnd & Hfrom & _).
    unfold wf_funcs. rewrite (nodup_has_dup _ Hnd). cbn [negb andb].
    apply forallb_forall. intros [k sg] Hin. cbn [fst snd].
    destruct (Hfrom k sg Hin) as [f [Hf Hinf]].
    destruct (wf_mdomain_parts _ _ _ _ (Hwf f Hf)) as (_ & _ & _ & Hfs & _).
    unfold wf_funcs in Hfs. apply andb_true_iff in Hfs. destruct Hfs as [_ Hall].
    rewrite forallb_forall in Hall. specialize (Hall (k, sg) Hinf). cbn [fst snd] in Hall.
    exact (wf_sig_mono _ _ (fun t => c_type_known f t Hf) sg Hall).
  Qed.

  (* a function known to a file is known to the combination with the same number of parameters *)
  Lemma c_funcs_arity f k sg : In f files -> dget (Domain.d_funcs f) k = Some sg ->
    exists sg', dget (Domain.d_funcs c) k = Some sg' /\ List.length sg' = List.length sg.
  Proof.
    intros Hf Hg. destruct (c_section_weak Domain.d_funcs (cm_funcs files)) as (Hnd & Hfrom & Hkeys).
    assert (Hm : dmem (Domain.d_funcs c) k = true) by (apply (Hkeys f k Hf); unfold dmem; now rewrite Hg).
    unfold dmem in Hm. destruct (dget (Domain.d_funcs c) k) as [sg'|] eqn:G; [|discriminate].
    exists sg'. split; [reflexivity|].
    destruct (Hfrom k sg' (dget_some_in _ _ _ G)) as [g [Hgf Hing]].
    apply (Harity (Domain.d_funcs g) (Domain.d_funcs f) k sg' sg); try (now apply in_map); [assumption|].
    now apply dget_some_in.
  Qed.

  Lemma c_wf_actions :
    forallb (fun na => String.eqb (fst na) (ma_name (snd na)) &&
                       wf_action num (type_known (Domain.d_types c)) (dmem (Domain.d_consts c)) (Domain.d_preds c)
                                 (Domain.d_funcs c) dpre deff (snd na)) (Domain.d_actions c) = true.
  Proof.
    destruct (c_section_weak Domain.d_actions (cm_actions files)) as (_ & Hfrom & _).
    destruct (c_section_weak Domain.d_consts (cm_consts files)) as (_ & _ & Hck).
    destruct (c_section_weak Domain.d_preds (cm_preds files)) as (_ & _ & Hpk).
    apply forallb_forall. intros [n a] Hin. cbn [fst snd].
    destruct (Hfrom n a Hin) as [f [Hf Hinf]].
    destruct (wf_mdomain_parts _ _ _ _ (Hwf f Hf)) as (_ & _ & _ & _ & _ & Hall).
    rewrite forallb_forall in Hall. specialize (Hall (n, a) Hinf). cbn [fst snd] in Hall.
    apply andb_true_iff in Hall. destruct Hall as [H1 H2]. rewrite H1. cbn [andb].
    revert H2. apply wf_action_mono.
    - intros t. now apply c_type_known.
    - intros k. now apply Hck.
    - intros p. now apply Hpk.
    - intros k sg. now apply c_funcs_arity.
  Qed.

  Theorem wf_combine : wf_mdomain num dpre deff c = true.
  Proof.
    destruct (c_section_weak Domain.d_actions (cm_actions files)) as (Hnd & _).
    unfold wf_mdomain, wf_mdomain_gen.
    rewrite c_wf_types, c_wf_consts, c_wf_preds, c_wf_funcs, (nodup_has_dup _ Hnd), c_wf_actions. reflexivity.
  Qed.
End Combine.

(* ---------------------------------------------------------------- the dummy actions keep well-formedness *)
Lemma dset_nodup {V} (d : pydict V) k v : NoDup (dkeys d) -> NoDup (dkeys (dset d k v)).
Proof. intros H. rewrite dset_set_item. exact (NoDup_set_item k v d H). Qed.

Lemma dset_in {V} (d : pydict V) k v k' v' : NoDup (dkeys d) ->
  In (k', v') (dset d k v) -> (k' = k /\ v' = v) \/ In (k', v') d.
Proof.
  intros Hnd H. rewrite dset_set_item in H. apply (In_set_item k' v' k v d Hnd) in H.
  destruct H as [H|[_ H]]; [now left|now right].
Qed.

Lemma dmem_dset {V} (d : pydict V) k v k' : dmem d k' = true -> dmem (dset d k v) k' = true.
Proof.
  unfold dmem. intros H. destruct (String.eqb k' k) eqn:E.
  - apply String.eqb_eq in E. subst. now rewrite dget_dset_same.
  - apply String.eqb_neq in E. now rewrite (dget_dset_other d k k' v E).
Qed.

Lemma wf_dummy_action num tt ck (preds funcs : pydict signature) dpre deff name pos :
  String.eqb (lower_string name) name = true -> dmem preds M_DUMMY_PRED = true ->
  wf_action num (type_known tt) ck preds funcs dpre deff (dummy_action name pos) = true.
Proof.
  intros Hname Hp. unfold wf_action, dummy_action. cbn [ma_name ma_sig ma_pre ma_disc ma_num ma_cond ma_univ].
  rewrite Hname. cbn [andb]. unfold wf_sig, wf_efflit, wf_args.
  cbn [dkeys map fst snd has_dup str_in negb forallb andb starts_with_q l_pos l_name l_args pre_op wf_pre].
  unfold type_known. rewrite String.eqb_refl. cbn [orb andb].
  destruct pos; [rewrite Hp|]; reflexivity.
Qed.

Theorem wf_add_dummy num dpre deff (c : mdomain) :
  wf_mdomain num dpre deff c = true -> wf_mdomain num dpre deff (add_dummy_m c) = true.
Proof.
  intros H. destruct (wf_mdomain_parts _ _ _ _ H) as (Ht & Hc & Hp & Hf & Hd & Ha).
  pose proof (has_dup_false_nodup _ Hd) as Hnd.
  assert (Hpnd : NoDup (dkeys (Domain.d_preds c))).
  { unfold wf_preds in Hp. apply andb_true_iff in Hp. destruct Hp as [Hp _]. apply negb_true_iff in Hp.
    now apply has_dup_false_nodup. }
  unfold wf_mdomain, wf_mdomain_gen, add_dummy_m.
  cbn [Domain.d_types Domain.d_consts Domain.d_preds Domain.d_funcs Domain.d_actions].
  rewrite Ht, Hc, Hf. cbn [andb].
  assert (Hp' : wf_preds (Domain.d_types c) (dset (Domain.d_preds c) M_DUMMY_PRED []) = true).
  { unfold wf_preds. apply andb_true_iff. split.
    { apply negb_true_iff, nodup_has_dup. now apply dset_nodup. }
    apply forallb_forall. intros [k sg] Hin. destruct (dset_in _ _ _ _ _ Hpnd Hin) as [[-> ->]|Hold].
    - reflexivity.
    - unfold wf_preds in Hp. apply andb_true_iff in Hp. destruct Hp as [_ Hall]. rewrite forallb_forall in Hall.
      exact (Hall (k, sg) Hold). }
  rewrite Hp'. cbn [andb].
  pose proof (dset_nodup _ M_DUMMY_ADD (dummy_action M_DUMMY_ADD true) Hnd) as Hnd1.
  apply andb_true_iff. split.
  { apply negb_true_iff, nodup_has_dup. now apply dset_nodup. }
  assert (Hdp : dmem (dset (Domain.d_preds c) M_DUMMY_PRED []) M_DUMMY_PRED = true)
    by (unfold dmem; now rewrite dget_dset_same).
  apply forallb_forall. intros [n a] Hin. cbn [fst snd].
  destruct (dset_in _ _ _ _ _ Hnd1 Hin) as [[-> ->]|Hin1].
  - apply andb_true_iff. split; [reflexivity|]. apply wf_dummy_action; [reflexivity|exact Hdp].
  - destruct (dset_in _ _ _ _ _ Hnd Hin1) as [[-> ->]|Hold].
    + apply andb_true_iff. split; [reflexivity|]. apply wf_dummy_action; [reflexivity|exact Hdp].
    + rewrite forallb_forall in Ha. specialize (Ha (n, a) Hold). cbn [fst snd] in Ha.
      apply andb_true_iff in Ha. destruct Ha as [H1 H2]. rewrite H1. cbn [andb].
      revert H2. apply wf_action_mono; try (intros; assumption).
      * intros p. apply dmem_dset.
      * intros k sg Hk. exists sg. split; [assumption|reflexivity].
Qed.

(* ---------------------------------------------------------------- C17_roundtrip: composed with C08 *)
Theorem C17_wellformed_structured_lemma : forall (num : numparser) (dpre deff : nat) (dummy : bool) (files : list mdomain),
  (forall f, In f files -> wf_mdomain num dpre deff f = true) ->
  agree (map Domain.d_types files) -> same_arity (map Domain.d_funcs files) ->
  wf_mdomain num dpre deff (locate_mdomains dummy files) = true.
Proof.
  intros num dpre deff dummy files Hwf Hag Har. unfold locate_mdomains.
  pose proof (wf_combine num dpre deff files Hwf Hag Har) as Hc.
  destruct dummy; [now apply wf_add_dummy|exact Hc].
Qed.

Theorem C17_roundtrip_lemma : forall (num : numparser) (dpre deff : nat) (dummy : bool) (files : list mdomain),
  (forall f, In f files -> wf_mdomain num dpre deff f = true) ->
  agree (map Domain.d_types files) -> same_arity (map Domain.d_funcs files) ->
  let c := locate_mdomains dummy files in
  parse_domain num (export_domain dpre deff c) = Ok (rr_domain num dpre deff c) /\
  model_vocab (rr_domain num dpre deff c) = model_vocab c /\
  Domain.d_name (rr_domain num dpre deff c) = Domain.d_name c /\
  Domain.d_reqs (rr_domain num dpre deff c) = Domain.d_reqs c.
Proof.
  intros num dpre deff dummy files Hwf Hag Har c.
  pose proof (C17_wellformed_structured_lemma num dpre deff dummy files Hwf Hag Har) as Hc.
  split; [now apply domain_roundtrip|]. split; [apply vocab_same|]. split; reflexivity.
Qed.

(* from text to text: the per-agent files are texts the parser accepts (C08_range_domain discharges wf_mdomain) *)
Definition parsed_agent_file (num : numparser) (e : sexp) (m : mdomain) : Prop :=
  canonical e = true /\ no_vac e = true /\ parse_domain num e = Ok m /\
  forallb (fun kp => not_dash (fst kp)) (Domain.d_types m) = true /\
  forallb (fun ns => negb (str_in (fst ns) reserved_names)) (Domain.d_preds m) = true /\
  forallb (fun k => match dget (Domain.d_funcs m) k with None => true | Some _ => false end)
          ("=" :: comparison_ops ++ assignment_ops) = true.

Theorem C17_roundtrip_parsed_lemma : forall (num : numparser) (dpre deff : nat),
  (forall d, d = dpre \/ d = deff -> forall s x, num s = Some x -> num_ok num d x = true) ->
  (forall c r x, num (String c r) = Some x -> str_in (String c EmptyString) comparison_ops = false) ->
  forall (dummy : bool) (texts : list sexp) (files : list mdomain),
  Forall2 (parsed_agent_file num) texts files ->
  agree (map Domain.d_types files) -> same_arity (map Domain.d_funcs files) ->
  let c := locate_mdomains dummy files in
  wf_mdomain num dpre deff c = true /\
  parse_domain num (export_domain dpre deff c) = Ok (rr_domain num dpre deff c) /\
  model_vocab (rr_domain num dpre deff c) = model_vocab c.
Proof.
  intros num dpre deff Hnum Hcmp dummy texts files Hall Hag Har c.
  assert (Hwf : forall f, In f files -> wf_mdomain num dpre deff f = true).
  { clear Hag Har c. induction Hall as [|e m texts files Hem _ IH]; intros f Hf; [contradiction|].
    destruct Hf as [<-|Hf]; [|now apply IH].
    destruct Hem as (H1 & H2 & H3 & H4 & H5 & H6).
    apply (parse_domain_wf num dpre deff Hnum Hcmp e m H1 H2 H3 H4 H5).
    intros k Hk. apply str_in_In in Hk. rewrite forallb_forall in H6. specialize (H6 k Hk).
    destruct (dget (Domain.d_funcs m) k); [discriminate|reflexivity]. }
  split; [now apply C17_wellformed_structured_lemma|].
  destruct (C17_roundtrip_lemma num dpre deff dummy files Hwf Hag Har) as (R1 & R2 & _). split; assumption.
Qed.

(* the dump-level agreement of Props/C17.v (rows) gives the agreement on type parents used here *)
Lemma rows_types_agree (files : list mdomain) :
  agree (map (fun m => Combine.d_types (rows_of m)) files) -> agree (map Domain.d_types files).
Proof.
  intros H d e k v w Hd He H1 H2.
  apply in_map_iff in Hd. destruct Hd as [f [<- Hf]]. apply in_map_iff in He. destruct He as [g [<- Hg]].
  apply (H (Combine.d_types (rows_of f)) (Combine.d_types (rows_of g)) k v w).
  - apply in_map_iff. exists f. split; [reflexivity|assumption].
  - apply in_map_iff. exists g. split; [reflexivity|assumption].
  - unfold rows_of, mapv. cbn [Combine.d_types]. apply in_map_iff. exists (k, v). split; [reflexivity|assumption].
  - unfold rows_of, mapv. cbn [Combine.d_types]. apply in_map_iff. exists (k, w). split; [reflexivity|assumption].
Qed.

(* ---------------------------------------------------------------- non-vacuity: the two agent files of
   Proofs/C17_Structured.v (overlapping, :private block, differing requirements) satisfy every hypothesis *)
Definition agree_sigs_b (secs : list (pydict signature)) : bool :=
  let all := List.concat secs in
  forallb (fun a => forallb (fun b => negb (String.eqb (fst a) (fst b)) ||
                                      Nat.eqb (List.length (snd a)) (List.length (snd b))) all) all.

Lemma agree_sigs_sound secs : agree_sigs_b secs = true -> same_arity secs.
Proof.
  unfold agree_sigs_b. intros H d e k sg sg' Hd He H1 H2. rewrite forallb_forall in H.
  assert (I1 : In (k, sg) (List.concat secs)) by (apply in_concat; eauto).
  assert (I2 : In (k, sg') (List.concat secs)) by (apply in_concat; eauto).
  pose proof (H (k, sg) I1) as Ha. rewrite forallb_forall in Ha.
  specialize (Ha (k, sg') I2). cbn [fst snd] in Ha. rewrite String.eqb_refl in Ha. cbn [negb orb] in Ha.
  now apply Nat.eqb_eq.
Qed.

(* two per-agent files: overlapping types / predicates, a :private block, differing requirements, the shared
   function declared with different parameter names (same arity, not the same signature), numeric conditions and
   effects, a constant of a declared type and a constant of the root type written bare at the end of the list *)
Definition exc_text_a : string :=
  "(define (domain lg) (:requirements :typing) (:types loc agent - object truck - agent) (:constants hq - loc tok)
   (:predicates (at ?a - agent ?l - loc) (:private (free ?l - loc)) (marked ?o - object))
   (:functions (fuel ?t - truck))
   (:action move :parameters (?a - truck ?x - loc ?y - loc)
    :precondition (and (at ?a ?x) (free ?y) (marked tok) (>= (fuel ?a) 1))
    :effect (and (at ?a ?y) (not (at ?a ?x)) (decrease (fuel ?a) 0.5))))".
Definition exc_text_b : string :=
  "(define (domain lg) (:requirements ) (:types agent loc - object plane truck - agent) (:constants tok - object hq - loc)
   (:predicates (at ?a - agent ?l - loc) (sky ?l - loc))
   (:functions (fuel ?x - truck) (height ?p - plane))
   (:action fly :parameters (?a - plane ?x - loc) :precondition (and (at ?a ?x) (not (sky ?x)) (<= (height ?a) 10))
    :effect (and (sky ?x) (at ?a hq) (increase (height ?a) 1))))".

Definition exc_sexp (s : string) : sexp := match parse MFile (s2t s) with Ok e => e | Err _ => Atom "" end.
Definition exc_file (s : string) : mdomain :=
  match parse_domain ex_num (exc_sexp s) with Ok m => m | Err _ => empty_domain end.

Lemma exc_compose :
  Forall2 (parsed_agent_file ex_num) [exc_sexp exc_text_a; exc_sexp exc_text_b] [exc_file exc_text_a; exc_file exc_text_b] /\
  agree (map Domain.d_types [exc_file exc_text_a; exc_file exc_text_b]) /\
  same_arity (map Domain.d_funcs [exc_file exc_text_a; exc_file exc_text_b]) /\
  dget (Domain.d_funcs (exc_file exc_text_a)) "fuel" <> dget (Domain.d_funcs (exc_file exc_text_b)) "fuel" /\
  Domain.d_consts (locate_mdomains true [exc_file exc_text_a; exc_file exc_text_b]) = [("hq", "loc"); ("tok", "object")] /\
  Domain.d_consts (locate_mdomains true [exc_file exc_text_b; exc_file exc_text_a]) = [("tok", "object"); ("hq", "loc")] /\
  dkeys (Domain.d_actions (locate_mdomains true [exc_file exc_text_a; exc_file exc_text_b])) =
    ["move"; "fly"; M_DUMMY_ADD; M_DUMMY_DEL].
Proof.
  split; [|split; [|split; [|split]]].
  - repeat constructor; vm_compute; reflexivity.
  - apply agree_of_b. vm_compute. reflexivity.
  - apply agree_sigs_sound. vm_compute. reflexivity.
  - vm_compute. discriminate.
  - vm_compute. repeat split.
Qed.
