(* C14: independence of a copy, stated in the store model of C07 (Model/Store.v: State.copy allocates the copy's dict,
   set and value cells in a fresh region).  Reuses Proofs/C07_Sep. *)
From Coq Require Import List Bool Arith PeanoNat Lia.
From Verif Require Import Model.Store Proofs.C07_Frame Proofs.C07_Sep.
Import ListNotations.
Open Scope list_scope.

Lemma copy_fresh_region m src :
  Forall (fun l => fst l = OSt (length (sts m))) (st_cells (fst (ev_copy_state m src))).
Proof. apply copy_state_cells. intros i. reflexivity. Qed.

(* in a store where every state owns its cells, the copy shares no cell with any state created before (the original
   included), and copying writes no cell of theirs *)
Lemma copy_independent m s src :
  StInv own_region m -> s < length (sts m) -> src = nth s (sts m) dflt_s ->
  (forall l, In l (st_cells (fst (ev_copy_state m src))) -> forall s', s' < length (sts m) ->
             ~ In l (st_cells (nth s' (sts m) dflt_s))) /\
  (forall l, In l (writes (snd (ev_copy_state m src))) -> fst l = OSt (length (sts m))).
Proof.
  intros Inv Hs ->. split.
  - intros l Hl s' Hs' Hin.
    pose proof (copy_fresh_region m (nth s (sts m) dflt_s)) as F. rewrite Forall_forall in F.
    specialize (F l Hl). specialize (Inv s'). rewrite Forall_forall in Inv. specialize (Inv l Hin).
    unfold own_region in Inv. rewrite Inv in F. injection F as F. lia.
  - intros l Hl. unfold ev_copy_state in Hl. cbn [snd] in Hl. unfold writes in Hl.
    rewrite !flat_map_app in Hl. rewrite !in_app_iff in Hl.
    assert (NoW : forall (f : loc -> event) ls, (forall x, match f x with Write _ => False | _ => True end) ->
                  ~ In l (flat_map (fun e => match e with Write l' => [l'] | _ => [] end) (map f ls))).
    { intros f ls Hf. induction ls as [|x ls IH]; [intros []|]. simpl. specialize (Hf x).
      destruct (f x); try exact IH. destruct Hf. }
    destruct Hl as [Hl|[Hl|[Hl|Hl]]].
    + exfalso. revert Hl. apply NoW. intros x. exact I.
    + exfalso. revert Hl. apply NoW. intros x. exact I.
    + pose proof (copy_fresh_region m (nth s (sts m) dflt_s)) as F. rewrite Forall_forall in F. apply F.
      unfold ev_copy_state. cbn [fst].
      clear - Hl. induction (st_cells (fresh_state (length (sts m)) 2 (map fst (s_vals (nth s (sts m) dflt_s))))) as [|x ls IH];
        [destruct Hl|]. simpl in Hl. destruct Hl as [<-|Hl]; [left; reflexivity|right; apply IH; exact Hl].
    + exfalso. revert Hl. apply NoW. intros x. exact I.
Qed.
