(* C08: when every constant is representable at the printed precision the re-read actions ARE the original
   actions, and the re-read domain differs from the original only in the order of its type and constant tables,
   which no behaviour depends on: grounding, applicability and successor are identical for every call, state,
   object table and visiting order. *)
From Coq Require Import List Ascii String Bool Arith Lia Permutation PrimFloat.
From Verif Require Import Base.Result Base.Str Base.Sexp Base.PyDict Base.Float
  Model.Types Model.NumExpr Model.Domain Model.Exec Model.DomainExporter Spec.Pddl
  Proofs.C08_Defs Proofs.C08_Trees Proofs.C08_Pre Proofs.C08_Tables.
Import ListNotations.
Open Scope string_scope.
Open Scope list_scope.

(* ---------- representable constants: re-reading is the identity on actions ---------- *)
Section Repr.
  Variable num : numparser.

  Lemma rr_tree_id d t : (forall x, In x (tree_nums t) -> representable num (d, x)) -> rr_tree num d t = t.
  Proof.
    induction t as [x|f a|op l IHl r IHr]; intros H; cbn [rr_tree].
    - unfold rnd. rewrite (H x (or_introl eq_refl)). reflexivity.
    - reflexivity.
    - cbn [tree_nums] in H. rewrite IHl, IHr; [reflexivity| |]; intros x Hx; apply H; apply in_or_app; auto.
  Qed.

  Lemma map_id_in {A} (f : A -> A) l : (forall x, In x l -> f x = x) -> map f l = l.
  Proof.
    induction l as [|x xs IH]; intros H; simpl; [reflexivity|].
    rewrite (H x (or_introl eq_refl)), IH; [reflexivity|]. intros y Hy. apply H. right. exact Hy.
  Qed.

  Lemma rr_pre_id d : forall p, (forall x, In x (pre_nums p) -> representable num (d, x)) -> rr_pre num d p = p.
  Proof.
    apply (mpre_ind' (fun p => (forall x, In x (pre_nums p) -> representable num (d, x)) -> rr_pre num d p = p)
                     (fun c => (forall x, In x (cond_nums c) -> representable num (d, x)) -> rr_cond num d c = c)).
    - intros op os eqs neqs HQ H. change (rr_pre num d (MPre op os eqs neqs)) with (MPre op (map (rr_cond num d) os) eqs neqs).
      f_equal. change (pre_nums (MPre op os eqs neqs)) with (flat_map cond_nums os) in H.
      apply map_id_in. intros c Hc. rewrite Forall_forall in HQ. apply (HQ c Hc).
      intros x Hx. apply H. apply in_flat_map. exists c. split; assumption.
    - reflexivity.
    - intros t H. change (rr_cond num d (MNum t)) with (MNum (rr_tree num d t)). rewrite rr_tree_id; [reflexivity|exact H].
    - intros q HP H. change (rr_cond num d (MNested q)) with (MNested (rr_pre num d q)). rewrite HP; [reflexivity|exact H].
    - intros v ty q HP H. change (rr_cond num d (MUniv v ty q)) with (MUniv v ty (rr_pre num d q)). rewrite HP; [reflexivity|exact H].
  Qed.

  Lemma rr_condeff_id dpre deff ce :
    (forall dx, In dx (condeff_nums dpre deff ce) -> representable num dx) -> rr_condeff num dpre deff ce = ce.
  Proof.
    intros H. destruct ce as [ante disc nums]. unfold rr_condeff, condeff_nums in *. cbn [ce_ante ce_disc ce_num] in *.
    f_equal.
    - apply rr_pre_id. intros x Hx. apply (H (dpre, x)). apply in_or_app. left. apply in_map. exact Hx.
    - apply map_id_in. intros t Ht. apply rr_tree_id. intros x Hx. apply (H (deff, x)). apply in_or_app. right.
      apply in_map. apply in_flat_map. exists t. split; assumption.
  Qed.

  Lemma rr_action_id dpre deff a :
    (forall dx, In dx (action_nums dpre deff a) -> representable num dx) -> rr_action num dpre deff a = a.
  Proof.
    intros H. destruct a as [n sg pre disc nums conds univs]. unfold rr_action, action_nums in *.
    cbn [ma_name ma_sig ma_pre ma_disc ma_num ma_cond ma_univ] in *. f_equal.
    - apply rr_pre_id. intros x Hx. apply (H (dpre, x)). apply in_or_app. left. apply in_map. exact Hx.
    - apply map_id_in. intros t Ht. apply rr_tree_id. intros x Hx. apply (H (deff, x)).
      apply in_or_app. right. apply in_or_app. left. apply in_map. apply in_flat_map. exists t. split; assumption.
    - apply map_id_in. intros ce Hce. apply rr_condeff_id. intros dx Hdx. apply H.
      apply in_or_app. right. apply in_or_app. right. apply in_or_app. left. apply in_flat_map. exists ce. split; assumption.
    - apply map_id_in. intros ue Hue. destruct ue as [v ty ce]. unfold rr_univeff. cbn [ue_var ue_ty ue_ce]. f_equal.
      apply rr_condeff_id. intros dx Hdx. apply H.
      apply in_or_app. right. apply in_or_app. right. apply in_or_app. right. apply in_flat_map.
      exists {| ue_var := v; ue_ty := ty; ue_ce := ce |}. split; [exact Hue|exact Hdx].
  Qed.

  Lemma rr_actions_id dpre deff m :
    (forall dx, In dx (domain_nums dpre deff m) -> representable num dx) ->
    d_actions (rr_domain num dpre deff m) = d_actions m.
  Proof.
    intros H. unfold rr_domain. cbn [d_actions]. unfold domain_nums in H.
    apply map_id_in. intros [k a] Hka. cbn [fst snd]. f_equal. apply rr_action_id. intros dx Hdx. apply H.
    apply in_flat_map. exists (k, a). split; [exact Hka|exact Hdx].
  Qed.
End Repr.

(* ---------- behaviour depends on the tables only through lookups ---------- *)
Lemma mapM_ext {A B} (f g : A -> result B) l : (forall x, f x = g x) -> mapM f l = mapM g l.
Proof. intros H. induction l as [|x xs IH]; simpl; [reflexivity|]. rewrite H, IH. reflexivity. Qed.

Lemma foldM_ext {A S} (f g : S -> A -> result S) l : (forall s x, f s x = g s x) -> forall s, foldM f l s = foldM g l s.
Proof.
  intros H. induction l as [|x xs IH]; intros s; simpl; [reflexivity|]. rewrite H.
  destruct (g s x); simpl; [apply IH|reflexivity].
Qed.

Section GpreInd.
  Variable P : gpre -> Prop.
  Variable Q : gcond -> Prop.
  Hypothesis HPre : forall op os eqs neqs, Forall Q os -> P (GPre op os eqs neqs).
  Hypothesis HLit : forall pos a, Q (GLit pos a).
  Hypothesis HNum : forall t, Q (GNum t).
  Hypothesis HNested : forall g, P g -> Q (GNested g).
  Hypothesis HUniv : forall v ty body pm, Q (GUniv v ty body pm).
  Fixpoint gpre_ind' (g : gpre) : P g :=
    match g with
    | GPre op os eqs neqs =>
        HPre op os eqs neqs
          ((fix go (l : list gcond) : Forall Q l :=
              match l with [] => Forall_nil _ | c :: r => Forall_cons _ (gcond_ind' c) (go r) end) os)
    end
  with gcond_ind' (c : gcond) : Q c :=
    match c with
    | GLit pos a => HLit pos a
    | GNum t => HNum t
    | GNested g => HNested g (gpre_ind' g)
    | GUniv v ty body pm => HUniv v ty body pm
    end.
End GpreInd.

(* unfolding of the mutual fixpoints with the inner loops written over the named functions *)
Lemma ground_pre_unfold dom pm op os eqs neqs :
  ground_pre dom pm (MPre op os eqs neqs) =
  (do geqs <- ground_pairs pm eqs;
   do gneqs <- ground_pairs pm neqs;
   do gos <- (fix go (l : list mcond) : result (list gcond) :=
                match l with [] => Ok [] | c :: r => do gc <- ground_cond dom pm c; do gr <- go r; Ok (gc :: gr) end) os;
   Ok (GPre op gos geqs gneqs)).
Proof. reflexivity. Qed.

Lemma eval_lifted_unfold dom eps objs s pm op os eqs neqs :
  eval_lifted dom eps objs s pm (MPre op os eqs neqs) =
  (do geqs <- ground_pairs pm eqs;
   do gneqs <- ground_pairs pm neqs;
   (fix go (l : list mcond) (acc : bool) : result bool :=
      match l with
      | [] => Ok acc
      | c :: r => do b <- eval_lifted_cond dom eps objs s pm c; go r (fold_op op acc b)
      end) os (seed_of op geqs gneqs)).
Proof. reflexivity. Qed.

Lemma eval_lifted_cond_univ dom eps os s pm v ty body :
  eval_lifted_cond dom eps (Some os) s pm (MUniv v ty body) =
  (fix over (l : objects) (acc : bool) : result bool :=
     match l with
     | [] => Ok acc
     | (o, oty) :: r =>
         if is_sub_type (d_types dom) oty ty
         then do b <- eval_lifted dom eps (Some os) s (dset pm v o) body; over r (acc && b)
         else over r acc
     end) os true.
Proof. reflexivity. Qed.

Lemma eval_g_unfold dom eps objs s op os eqs neqs :
  eval_g dom eps objs s (GPre op os eqs neqs) =
  (fix go (l : list gcond) (acc : bool) : result bool :=
     match l with
     | [] => Ok acc
     | c :: r => do b <- eval_gcond dom eps objs s c; go r (fold_op op acc b)
     end) os (seed_of op eqs neqs).
Proof. reflexivity. Qed.

Section Ext.
  Variable d1 d2 : mdomain.
  Hypothesis Ht : forall a b, is_sub_type (d_types d1) a b = is_sub_type (d_types d2) a b.
  Hypothesis Hc : forall k, dmem (d_consts d1) k = dmem (d_consts d2) k.
  Hypothesis Hp : d_preds d1 = d_preds d2.

  Lemma ground_name_ext pm t : ground_name d1 pm t = ground_name d2 pm t.
  Proof. unfold ground_name. rewrite Hc. reflexivity. Qed.

  Lemma ground_lit_ext pm p args : ground_lit d1 pm p args = ground_lit d2 pm p args.
  Proof. unfold ground_lit. rewrite Hp. rewrite (mapM_ext _ _ args (ground_name_ext pm)). reflexivity. Qed.

  Lemma ground_tree_ext pm t : ground_tree d1 pm t = ground_tree d2 pm t.
  Proof.
    induction t as [x|f a|op l IHl r IHr]; cbn [ground_tree].
    - reflexivity.
    - rewrite (mapM_ext _ _ a (ground_name_ext pm)). reflexivity.
    - rewrite IHl, IHr. reflexivity.
  Qed.

  Lemma ground_pre_ext : forall p pm, ground_pre d1 pm p = ground_pre d2 pm p.
  Proof.
    apply (mpre_ind' (fun p => forall pm, ground_pre d1 pm p = ground_pre d2 pm p)
                     (fun c => forall pm, ground_cond d1 pm c = ground_cond d2 pm c)).
    - intros op os eqs neqs HQ pm. rewrite !ground_pre_unfold.
      destruct (ground_pairs pm eqs); [|reflexivity]. cbn [bind].
      destruct (ground_pairs pm neqs); [|reflexivity]. cbn [bind].
      assert (Hgo : (fix go (l : list mcond) : result (list gcond) :=
                       match l with [] => Ok [] | c :: r => do gc <- ground_cond d1 pm c; do gr <- go r; Ok (gc :: gr) end) os =
                    (fix go (l : list mcond) : result (list gcond) :=
                       match l with [] => Ok [] | c :: r => do gc <- ground_cond d2 pm c; do gr <- go r; Ok (gc :: gr) end) os).
      { induction HQ as [|c r Hcq _ IH]; [reflexivity|]. rewrite Hcq, IH. reflexivity. }
      rewrite Hgo. reflexivity.
    - intros pos p args pm. change (ground_cond d1 pm (MLit pos p args)) with (do a <- ground_lit d1 pm p args; Ok (GLit pos a)).
      rewrite ground_lit_ext. reflexivity.
    - intros t pm. change (ground_cond d1 pm (MNum t)) with (do g <- ground_tree d1 pm t; Ok (GNum g)).
      rewrite ground_tree_ext. reflexivity.
    - intros q HP pm. change (ground_cond d1 pm (MNested q)) with (do g <- ground_pre d1 pm q; Ok (GNested g)).
      rewrite HP. reflexivity.
    - intros v ty q HP pm. reflexivity.
  Qed.

  Lemma ground_group_ext pm ante disc nums : ground_group d1 pm ante disc nums = ground_group d2 pm ante disc nums.
  Proof.
    unfold ground_group. destruct ante as [a|]; [rewrite ground_pre_ext|].
    - rewrite (mapM_ext _ _ disc (fun l => f_equal (fun r => do a <- r; Ok (l_pos l, a)) (ground_lit_ext pm (l_name l) (l_args l)))).
      rewrite (mapM_ext _ _ nums (ground_tree_ext pm)). reflexivity.
    - rewrite (mapM_ext _ _ disc (fun l => f_equal (fun r => do a <- r; Ok (l_pos l, a)) (ground_lit_ext pm (l_name l) (l_args l)))).
      rewrite (mapM_ext _ _ nums (ground_tree_ext pm)). reflexivity.
  Qed.

  Lemma ground_action_ext a args : ground_action d1 a args = ground_action d2 a args.
  Proof.
    unfold ground_action. rewrite ground_pre_ext, ground_group_ext.
    rewrite (mapM_ext _ _ (ma_cond a) (fun ce => ground_group_ext _ (Some (ce_ante ce)) (ce_disc ce) (ce_num ce))).
    reflexivity.
  Qed.

  Variable eps : float.

  Lemma eval_lifted_ext objs : forall p s pm, eval_lifted d1 eps objs s pm p = eval_lifted d2 eps objs s pm p.
  Proof.
    apply (mpre_ind' (fun p => forall s pm, eval_lifted d1 eps objs s pm p = eval_lifted d2 eps objs s pm p)
                     (fun c => forall s pm, eval_lifted_cond d1 eps objs s pm c = eval_lifted_cond d2 eps objs s pm c)).
    - intros op os eqs neqs HQ s pm. rewrite !eval_lifted_unfold.
      destruct (ground_pairs pm eqs) as [geqs|]; [|reflexivity]. cbn [bind].
      destruct (ground_pairs pm neqs) as [gneqs|]; [|reflexivity]. cbn [bind].
      generalize (seed_of op geqs gneqs). induction HQ as [|c r Hcq _ IH]; intros acc; [reflexivity|].
      rewrite Hcq. destruct (eval_lifted_cond d2 eps objs s pm c); cbn [bind]; [apply IH|reflexivity].
    - intros pos p args s pm.
      change (eval_lifted_cond d1 eps objs s pm (MLit pos p args)) with
        (do a <- ground_lit d1 pm p args; Ok (if pos then atom_in a (facts s) else negb (atom_in a (facts s)))).
      rewrite ground_lit_ext. reflexivity.
    - intros t s pm.
      change (eval_lifted_cond d1 eps objs s pm (MNum t)) with (do g <- ground_tree d1 pm t; eval_cmp eps s g).
      rewrite ground_tree_ext. reflexivity.
    - intros q HP s pm. apply HP.
    - intros v ty q HP s pm. destruct objs as [os|]; [|reflexivity].
      rewrite !eval_lifted_cond_univ. generalize true. generalize os at 2 4.
      intros l. induction l as [|[o oty] r IH]; intros acc; [reflexivity|].
      rewrite Ht. destruct (is_sub_type (d_types d2) oty ty); [|apply IH].
      rewrite HP. destruct (eval_lifted d2 eps (Some os) s (dset pm v o) q); cbn [bind]; [apply IH|reflexivity].
  Qed.

  Lemma eval_lifted_cond_ext objs c s pm : eval_lifted_cond d1 eps objs s pm c = eval_lifted_cond d2 eps objs s pm c.
  Proof.
    destruct c as [pos p args|t|q|v ty q].
    - change (eval_lifted_cond d1 eps objs s pm (MLit pos p args)) with
        (do a <- ground_lit d1 pm p args; Ok (if pos then atom_in a (facts s) else negb (atom_in a (facts s)))).
      rewrite ground_lit_ext. reflexivity.
    - change (eval_lifted_cond d1 eps objs s pm (MNum t)) with (do g <- ground_tree d1 pm t; eval_cmp eps s g).
      rewrite ground_tree_ext. reflexivity.
    - apply eval_lifted_ext.
    - destruct objs as [os|]; [|reflexivity].
      rewrite !eval_lifted_cond_univ. generalize true. generalize os at 2 4.
      intros l. induction l as [|[o oty] r IH]; intros acc; [reflexivity|].
      rewrite Ht. destruct (is_sub_type (d_types d2) oty ty); [|apply IH].
      rewrite eval_lifted_ext. destruct (eval_lifted d2 eps (Some os) s (dset pm v o) q); cbn [bind]; [apply IH|reflexivity].
  Qed.

  Lemma eval_g_ext objs : forall g s, eval_g d1 eps objs s g = eval_g d2 eps objs s g.
  Proof.
    apply (gpre_ind' (fun g => forall s, eval_g d1 eps objs s g = eval_g d2 eps objs s g)
                     (fun c => forall s, eval_gcond d1 eps objs s c = eval_gcond d2 eps objs s c)).
    - intros op os eqs neqs HQ s. rewrite !eval_g_unfold. generalize (seed_of op eqs neqs).
      induction HQ as [|c r Hcq _ IH]; intros acc; [reflexivity|].
      rewrite Hcq. destruct (eval_gcond d2 eps objs s c); cbn [bind]; [apply IH|reflexivity].
    - reflexivity.
    - reflexivity.
    - intros g HP s. apply HP.
    - intros v ty body pm s. apply eval_lifted_cond_ext.
  Qed.

  Lemma is_applicable_ext objs ga s : is_applicable d1 eps objs ga s = is_applicable d2 eps objs ga s.
  Proof. unfold is_applicable. apply eval_g_ext. Qed.

  Lemma antecedents_hold_ext objs g s : antecedents_hold d1 eps objs g s = antecedents_hold d2 eps objs g s.
  Proof. unfold antecedents_hold. destruct (gg_ante g); [apply eval_g_ext|reflexivity]. Qed.

  Lemma apply_universal_ext ga objs uorder prev cur :
    apply_universal d1 eps ga objs uorder prev cur = apply_universal d2 eps ga objs uorder prev cur.
  Proof.
    unfold apply_universal. destruct objs as [os|]; [|reflexivity].
    apply foldM_ext. intros cur1 o. apply foldM_ext. intros cur2 ue.
    rewrite Ht. destruct (is_sub_type (d_types d2) (snd o) (ue_ty ue)); [|reflexivity].
    rewrite ground_group_ext. destruct (ground_group d2 _ _ _ _) as [g|]; [|reflexivity]. cbn [bind].
    rewrite antecedents_hold_ext. reflexivity.
  Qed.

  Lemma apply_op_ext ga objs allow skip order uorder prev :
    apply_op d1 eps ga objs allow skip order uorder prev = apply_op d2 eps ga objs allow skip order uorder prev.
  Proof.
    unfold apply_op. rewrite is_applicable_ext.
    destruct (if skip then Ok true else is_applicable d2 eps objs ga prev) as [okb|]; [|reflexivity]. cbn [bind].
    destruct (negb okb && negb allow); [reflexivity|].
    rewrite (foldM_ext _ (fun cur g => do h <- (if skip then Ok true else antecedents_hold d2 eps objs g prev);
                                       if h then apply_group_m prev cur g else Ok cur)).
    - destruct (foldM _ _ prev); [|reflexivity]. cbn [bind]. apply apply_universal_ext.
    - intros cur g. rewrite antecedents_hold_ext. reflexivity.
  Qed.
End Ext.

(* ---------- the re-read domain behaves like the original ---------- *)
Section Behaviour.
  Variable num : numparser.
  Variable dpre deff : nat.
  Variable m : mdomain.
  Hypothesis Hwf : wf_mdomain num dpre deff m = true.
  Hypothesis Hrep : forall dx, In dx (domain_nums dpre deff m) -> representable num dx.

  Let m' := rr_domain num dpre deff m.

  Lemma types_nodup : NoDup (dkeys (d_types m)).
  Proof.
    pose proof Hwf as H. unfold wf_mdomain in H. repeat (apply andb_true_iff in H; destruct H as [H _]).
    unfold wf_types in H. repeat (apply andb_true_iff in H; destruct H as [H _]).
    apply negb_true_iff in H. apply has_dup_false_nodup. exact H.
  Qed.

  Lemma consts_nodup : NoDup (dkeys (d_consts m)).
  Proof.
    pose proof Hwf as H. unfold wf_mdomain in H. do 4 (apply andb_true_iff in H; destruct H as [H _]).
    apply andb_true_iff in H. destruct H as [_ H].
    unfold wf_consts in H. apply andb_true_iff in H. destruct H as [H _].
    apply negb_true_iff in H. apply has_dup_false_nodup. exact H.
  Qed.

  Lemma sub_type_same a b : is_sub_type (d_types m') a b = is_sub_type (d_types m) a b.
  Proof.
    unfold m', rr_domain. cbn [d_types]. unfold is_sub_type. rewrite regroup_length.
    rewrite (walk_ext (regroup (d_types m)) (d_types m) (fun k => regroup_dget (d_types m) k types_nodup)).
    reflexivity.
  Qed.

  Lemma consts_same k : dmem (d_consts m') k = dmem (d_consts m) k.
  Proof. unfold m', rr_domain. cbn [d_consts]. apply regroup_dmem. exact consts_nodup. Qed.

  (* same action table: every action of the re-read domain is the original action *)
  Theorem actions_same : d_actions m' = d_actions m.
  Proof. apply rr_actions_id. exact Hrep. Qed.

  Theorem ground_same a args : ground_action m' a args = ground_action m a args.
  Proof. apply ground_action_ext; [exact consts_same|reflexivity]. Qed.

  Theorem applicable_same eps objs ga s : is_applicable m' eps objs ga s = is_applicable m eps objs ga s.
  Proof. apply is_applicable_ext; [exact sub_type_same|exact consts_same|reflexivity]. Qed.

  Theorem successor_same eps ga objs allow skip order uorder s :
    apply_op m' eps ga objs allow skip order uorder s = apply_op m eps ga objs allow skip order uorder s.
  Proof. apply apply_op_ext; [exact sub_type_same|exact consts_same|reflexivity]. Qed.
End Behaviour.
