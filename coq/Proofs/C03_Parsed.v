(* C03 for PARSED domains: the hypothesis "the action's effect representation denotes an effect list" of C03_successor
   is discharged for every action of a domain the model's parser accepted (by C01's faithfulness theorem), and the
   successor is stated against the INDEPENDENT reading of the domain text (Spec.Grammar), not against the effect list
   read off the object model. *)
From Coq Require Import List Ascii String Bool Arith PrimFloat Permutation.
From Verif Require Import Base.Result Base.Str Base.Sexp Base.PyDict Model.Types Model.Domain Model.Exec
  Spec.Pddl Spec.Grammar Spec.Faithful Proofs.C01_Defs Proofs.C01_Typed Proofs.C01_Domain
  Proofs.C03_Spec Proofs.C03_Defs Proofs.C03_Main Proofs.C03_Closed.
Import ListNotations.
Open Scope string_scope.
Open Scope list_scope.

(* ---------- the two denotations (C01's and C03's) are the same function ---------- *)
Lemma opt_all_all_some : forall (A : Type) (l : list (option A)), opt_all l = all_some l.
Proof. induction l as [|[x|] r IH]; simpl; [reflexivity | rewrite IH; reflexivity | reflexivity]. Qed.

Lemma denote_prims_group : forall disc nums, C03_Defs.denote_prims disc nums = C01_Defs.denote_group disc nums.
Proof. intros. unfold C03_Defs.denote_prims, C01_Defs.denote_group. rewrite opt_all_all_some. reflexivity. Qed.

Lemma denote_ce_condeff : forall ce, C03_Defs.denote_ce ce = C01_Defs.denote_condeff ce.
Proof. intros. unfold C03_Defs.denote_ce, C01_Defs.denote_condeff. rewrite denote_prims_group. reflexivity. Qed.

Lemma denote_whens : forall l,
  opt_all (map C03_Defs.denote_when l) =
  match all_some (map C01_Defs.denote_condeff l) with
  | Some cs => Some (map (fun cp : form * list prim => EWhen (fst cp) (snd cp)) cs)
  | None => None
  end.
Proof.
  induction l as [|ce r IH]; simpl; [reflexivity|].
  unfold C03_Defs.denote_when at 1. rewrite denote_ce_condeff.
  destruct (C01_Defs.denote_condeff ce) as [[c ps]|]; [|reflexivity].
  rewrite IH. destruct (all_some (map C01_Defs.denote_condeff r)); reflexivity.
Qed.

Lemma denote_univs : forall l, opt_all (map C03_Defs.denote_univ l) = all_some (map C01_Defs.denote_univeff l).
Proof.
  intros l. rewrite opt_all_all_some.
  assert (E : map C03_Defs.denote_univ l = map C01_Defs.denote_univeff l).
  { apply map_ext. intros u. unfold C03_Defs.denote_univ, C01_Defs.denote_univeff. rewrite denote_ce_condeff. reflexivity. }
  rewrite E. reflexivity.
Qed.

Theorem denote_effs_same : forall a, C03_Defs.denote_effs a = C01_Defs.denote_effs a.
Proof.
  intros a. unfold C03_Defs.denote_effs, C01_Defs.denote_effs, C01_Defs.denote_eff_parts.
  rewrite denote_prims_group, denote_whens, denote_univs.
  destruct (C01_Defs.denote_group (ma_disc a) (ma_num a)); [|reflexivity].
  destruct (all_some (map C01_Defs.denote_condeff (ma_cond a))); reflexivity.
Qed.

(* ---------- "the same effects" (Spec.Faithful.effs_rel: order of the groups, order inside a group, conditions
   equivalent) give the same firing groups up to rearrangement, hence the same successor ---------- *)
Lemma fires_eff_rel : forall eps tt objs e s x x', eff_rel x x' ->
  Forall2 (@Permutation gprim) (fires eps tt objs e s x) (fires eps tt objs e s x').
Proof.
  intros eps tt objs e s x x' H. destruct H as [ps ps' HP | c c' ps ps' HE HP | v ty c c' ps ps' HE HP]; simpl.
  - constructor; [apply Permutation_map; exact HP | constructor].
  - rewrite <- (HE eps tt objs e s).
    destruct (holds eps tt objs e s c); [constructor; [apply Permutation_map; exact HP | constructor] | constructor].
  - induction (objects_of_type tt objs ty) as [|o r IH]; simpl; [constructor|].
    apply Forall2_app'; [|exact IH].
    rewrite <- (HE eps tt objs ((v, o) :: e) s).
    destruct (holds eps tt objs ((v, o) :: e) s c); [constructor; [apply Permutation_map; exact HP | constructor] | constructor].
Qed.

Lemma all_groups_effs_rel : forall eps tt objs A A' args s,
  map fst (a_params A) = map fst (a_params A') -> effs_rel (a_effs A) (a_effs A') ->
  rearr (all_groups eps tt objs A args s) (all_groups eps tt objs A' args s).
Proof.
  intros eps tt objs A A' args s Hp [l1 [H1 H2]]. unfold all_groups, bind_args. rewrite <- Hp.
  exists (flat_map (fires eps tt objs (combine (map fst (a_params A)) args) s) l1). split.
  - apply Permutation_flat_map. exact H1.
  - clear H1. induction H2 as [|x x' l l' Hx HF IH]; simpl; [constructor|].
    apply Forall2_app'; [apply fires_eff_rel; exact Hx | exact IH].
Qed.

Lemma rearr_sym : forall gs gs', rearr gs gs' -> rearr gs' gs.
Proof.
  intros gs gs' [g1 [HP HF]].
  (* gs ~perm~ g1 ~pointwise perm~ gs': pull the permutation through the pointwise relation *)
  assert (HF' : Forall2 (@Permutation gprim) gs' g1).
  { clear HP. induction HF; constructor; [apply Permutation_sym; assumption | assumption]. }
  clear HF. apply Permutation_sym in HP. revert gs' HF'.
  induction HP as [| x l l' HP IH | x y l | l l' l'' HP1 IH1 HP2 IH2]; intros gs' HF.
  - inversion HF; subst. exists []. split; constructor.
  - inversion HF as [|a b la lb Hab Hl]; subst. destruct (IH _ Hl) as [g2 [P2 F2]].
    exists (a :: g2). split; [constructor; exact P2 | constructor; assumption].
  - inversion HF as [|a b la lb Hab Hl]; subst. inversion Hl as [|a2 b2 la2 lb2 Hab2 Hl2]; subst.
    exists (a2 :: a :: la2). split; [apply perm_swap | constructor; [assumption | constructor; assumption]].
  - destruct (IH1 _ HF) as [g2 [P2 F2]]. destruct (IH2 _ F2) as [g3 [P3 F3]].
    exists g3. split; [eapply Permutation_trans; eassumption | exact F3].
Qed.

Theorem successor_effs_rel : forall eps tt objs A A' args s,
  map fst (a_params A) = map fst (a_params A') -> effs_rel (a_effs A) (a_effs A') ->
  consistent (all_groups eps tt objs A' args s) = true ->
  state_eq (successor eps tt objs A args s) (successor eps tt objs A' args s) /\
  consistent (all_groups eps tt objs A args s) = true.
Proof.
  intros eps tt objs A A' args s Hp He Hc.
  pose proof (rearr_sym _ _ (all_groups_effs_rel eps tt objs A A' args s Hp He)) as HR.
  pose proof (consistent_rearr _ _ HR Hc) as Hc1.
  split; [apply state_eq_sym; apply succ_rearr; assumption | exact Hc1].
Qed.

(* ---------- every action of a parsed domain denotes its effects ---------- *)
Theorem parsed_denotes : forall num e m sd n ma,
  parse_domain num e = Ok m -> read_domain num e = Some sd -> sections_once e -> C01_Defs.names_ok sd ->
  dget (d_actions m) n = Some ma ->
  exists sa, In sa (sd_actions sd) /\ n = lower_string (a_name sa) /\
             (action_ok sa = true ->
              ma_sig ma = dict_of (a_params sa) /\
              exists effs, C03_Defs.denote_effs ma = Some effs /\ effs_rel effs (a_effs sa)).
Proof.
  intros num e m sd n ma Hp Hr Hs Hn Hg.
  destruct (faithful_action_ok num e m sd n ma Hp Hr Hs Hn Hg) as [sa [Hin [Hname Hf]]].
  exists sa. split; [exact Hin|]. split; [exact Hname|]. intros Hok.
  destruct (Hf Hok) as [_ [Hsig [_ [es [Hd Hrel]]]]].
  split; [exact Hsig|]. exists es. split; [rewrite denote_effs_same; exact Hd | exact Hrel].
Qed.

(* ---------- C03_successor without the denotation hypothesis, against the independent reading ---------- *)
Theorem successor_parsed : forall num e (m : mdomain) sd n (ma : maction),
  parse_domain num e = Ok m -> read_domain num e = Some sd -> sections_once e -> C01_Defs.names_ok sd ->
  dget (d_actions m) n = Some ma ->
  exists sa, In sa (sd_actions sd) /\ n = lower_string (a_name sa) /\
    (action_ok sa = true -> NoDup (map fst (a_params sa)) ->
     forall (eps : float) (args : list string) (ga : gaction) (objs : objects) (s : state),
       C03_Defs.names_ok m ma = true ->
       ground_action m ma args = Ok ga ->
       is_applicable m eps (Some objs) ga s = Ok true ->
       evaluates m eps objs ga s ->
       consistent (all_groups eps (d_types m) objs sa args s) = true ->
       forall order uorder, is_order order (List.length (ga_groups ga)) -> is_order uorder (List.length (ma_univ ma)) ->
       exists s', apply_op m eps ga (Some objs) false false order uorder s = Ok s' /\
                  state_eq s' (successor eps (d_types m) objs sa args s)).
Proof.
  intros num e m sd n ma Hp Hr Hs Hn Hg.
  destruct (parsed_denotes num e m sd n ma Hp Hr Hs Hn Hg) as [sa [Hin [Hname Hf]]].
  exists sa. split; [exact Hin|]. split; [exact Hname|].
  intros Hok Hnd eps args ga objs s Hnames Hgr Happ Hev Hc order uorder Ho Hu.
  destruct (Hf Hok) as [Hsig [effs [Hd Hrel]]].
  assert (Hparams : map fst (a_params (spec_action ma effs)) = map fst (a_params sa)).
  { simpl. rewrite Hsig. rewrite (C01_Typed.dict_of_nodup _ Hnd). reflexivity. }
  destruct (successor_effs_rel eps (d_types m) objs (spec_action ma effs) sa args s Hparams Hrel Hc) as [Heq Hc'].
  destruct (C03_successor_lemma m eps ma effs args ga objs s Hd Hnames Hgr Happ Hev Hc' order uorder Ho Hu) as [s' [Ha He]].
  exists s'. split; [exact Ha|]. eapply state_eq_trans; eassumption.
Qed.
