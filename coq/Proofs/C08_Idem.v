(* C08: a second export / parse round changes nothing.  The re-read domain is again well-formed (when the values
   read back are themselves representable: float(text(y)) = y for y = float(text(x))), and re-reading it is the
   identity. *)
From Coq Require Import List Ascii String Bool Arith Lia Permutation PrimFloat.
From Verif Require Import Base.Result Base.Str Base.Sexp Base.PyDict Base.Float
  Model.Types Model.NumExpr Model.Domain Model.DomainExporter
  Proofs.C08_Defs Proofs.C08_Trees Proofs.C08_Pre Proofs.C08_Eff Proofs.C08_Tables Proofs.C08_Domain.
Import ListNotations.
Open Scope string_scope.
Open Scope list_scope.

Lemma nodup_snoc {A} (l : list A) x : NoDup l -> ~ In x l -> NoDup (l ++ [x]).
Proof.
  induction l as [|y ys IH]; intros Hnd Hx; simpl.
  - constructor; [intros []|constructor].
  - inversion Hnd as [|? ? Hy Hys]; subst. constructor.
    + intros Hin. apply in_app_or in Hin. destruct Hin as [Hin|[Heq|[]]]; [contradiction|].
      subst. apply Hx. left. reflexivity.
    + apply IH; [exact Hys|]. intros Hin. apply Hx. right. exact Hin.
Qed.

(* ---------- grouping a grouped table again gives the same groups ---------- *)
Definition gkeys (g : list (string * list string)) : list string := map fst g.

Lemma group_add_new g key member :
  ~ In key (gkeys g) -> group_add g key member = g ++ [(key, [member])].
Proof.
  induction g as [|[k ms] r IH]; cbn [group_add gkeys map fst]; intros H; [reflexivity|].
  destruct (String.eqb key k) eqn:E.
  - apply String.eqb_eq in E. subst. exfalso. apply H. left. reflexivity.
  - cbn [app]. f_equal. apply IH. intros Hin. apply H. right. exact Hin.
Qed.

Lemma group_add_last g key ms member :
  ~ In key (gkeys g) -> group_add (g ++ [(key, ms)]) key member = g ++ [(key, ms ++ [member])].
Proof.
  induction g as [|[k l] r IH]; cbn [group_add gkeys map fst app]; intros H.
  - rewrite String.eqb_refl. reflexivity.
  - destruct (String.eqb key k) eqn:E.
    + apply String.eqb_eq in E. subst. exfalso. apply H. left. reflexivity.
    + f_equal. apply IH. intros Hin. apply H. right. exact Hin.
Qed.

Lemma fold_group_members key : forall ms g l,
  ~ In key (gkeys g) ->
  fold_left (fun g kv => group_add g (snd kv) (fst kv)) (map (fun c => (c, key)) ms) (g ++ [(key, l)]) =
  g ++ [(key, l ++ ms)].
Proof.
  induction ms as [|m r IH]; intros g l H; cbn [map fold_left fst snd].
  - rewrite app_nil_r. reflexivity.
  - rewrite group_add_last by exact H. rewrite IH by exact H. rewrite <- app_assoc. reflexivity.
Qed.

Lemma regroup_ungroup g : forall acc,
  NoDup (gkeys acc ++ gkeys g) -> (forall k ms, In (k, ms) g -> ms <> []) ->
  fold_left (fun g kv => group_add g (snd kv) (fst kv)) (ungroup g) acc = acc ++ g.
Proof.
  induction g as [|[k ms] r IH]; intros acc Hnd Hne.
  - cbn. rewrite app_nil_r. reflexivity.
  - unfold ungroup. cbn [flat_map fst snd]. rewrite fold_left_app.
    destruct ms as [|m mr]; [exfalso; apply (Hne k []); [left; reflexivity|reflexivity]|].
    cbn [map fold_left fst snd].
    assert (Hk : ~ In k (gkeys acc)).
    { cbn [gkeys map fst] in Hnd. apply NoDup_remove_2 in Hnd. intros Hin. apply Hnd. apply in_or_app. left. exact Hin. }
    rewrite group_add_new by exact Hk. rewrite fold_group_members by exact Hk. cbn [app].
    fold (ungroup r). rewrite IH.
    + rewrite <- app_assoc. reflexivity.
    + unfold gkeys in *. rewrite map_app. cbn [map fst]. rewrite <- app_assoc. exact Hnd.
    + intros k' ms' Hin. apply (Hne k' ms'). right. exact Hin.
Qed.

Lemma group_add_keys g key member :
  gkeys (group_add g key member) = if str_in key (gkeys g) then gkeys g else gkeys g ++ [key].
Proof.
  induction g as [|[k ms] r IH]; cbn [group_add gkeys map fst str_in]; [reflexivity|].
  destruct (String.eqb key k) eqn:E; cbn [orb map fst]; [reflexivity|].
  fold (gkeys (group_add r key member)) (gkeys r). rewrite IH. destruct (str_in key (gkeys r)); reflexivity.
Qed.

Lemma group_by_value_nodup_aux (d : pydict string) : forall g,
  NoDup (gkeys g) -> NoDup (gkeys (fold_left (fun g kv => group_add g (snd kv) (fst kv)) d g)).
Proof.
  induction d as [|[c v] r IH]; intros g H; cbn [fold_left fst snd]; [exact H|].
  apply IH. rewrite group_add_keys. destruct (str_in v (gkeys g)) eqn:E; [exact H|].
  apply nodup_snoc; [exact H|].
  intros Hin. apply str_in_In in Hin. congruence.
Qed.

Theorem regroup_idem d : regroup (regroup d) = regroup d.
Proof.
  unfold regroup at 1 2. unfold group_by_value at 1.
  rewrite (regroup_ungroup (group_by_value d) []).
  - reflexivity.
  - cbn [gkeys map app]. apply (group_by_value_nodup_aux d []). constructor.
  - intros k ms Hin. apply (group_nonempty_aux d [] (fun _ _ H => match H with end) k ms Hin).
Qed.

(* ---------- re-reading preserves well-formedness and is idempotent ---------- *)
Section Stable.
  Variable num : numparser.
  Variable tyk ck : string -> bool.
  Variable preds funcs : pydict signature.

  Notation st d := (fun x => stable num (d, x)).

  Lemma rnd_stable d x :
    num_ok num d x = true -> stable num (d, x) ->
    num_ok num d (rnd num d x) = true /\ rnd num d (rnd num d x) = rnd num d x.
  Proof.
    intros Hok Hst. pose proof (num_ok_some num d x Hok) as Hs.
    destruct (Hst (rnd num d x) Hs) as [H1 H2]. split; [exact H1|].
    unfold rnd at 1. cbn [fst snd] in H2. rewrite H2. reflexivity.
  Qed.

  Lemma is_tnum_rr d t : is_tnum (rr_tree num d t) = is_tnum t.
  Proof. destruct t; reflexivity. Qed.

  Lemma wf_tree_rr d t :
    wf_tree num funcs d t = true -> (forall x, In x (tree_nums t) -> stable num (d, x)) ->
    wf_tree num funcs d (rr_tree num d t) = true /\ rr_tree num d (rr_tree num d t) = rr_tree num d t.
  Proof.
    induction t as [x|f a|op l IHl r IHr]; intros Hwf Hst.
    - cbn [wf_tree rr_tree] in *. destruct (rnd_stable d x Hwf (Hst x (or_introl eq_refl))) as [H1 H2].
      split; [exact H1|rewrite H2; reflexivity].
    - split; [exact Hwf|reflexivity].
    - cbn [wf_tree rr_tree] in *. apply andb_true_iff in Hwf. destruct Hwf as [Hlr Hop].
      apply andb_true_iff in Hlr. destruct Hlr as [Hl Hr]. cbn [tree_nums] in Hst.
      destruct (IHl Hl (fun x Hx => Hst x (in_or_app _ _ _ (or_introl Hx)))) as [L1 L2].
      destruct (IHr Hr (fun x Hx => Hst x (in_or_app _ _ _ (or_intror Hx)))) as [R1 R2].
      rewrite L1, R1, L2, R2, !is_tnum_rr. split; [exact Hop|reflexivity].
  Qed.

  Lemma wf_numcond_rr d t :
    wf_numcond num funcs d t = true -> (forall x, In x (tree_nums t) -> stable num (d, x)) ->
    wf_numcond num funcs d (rr_tree num d t) = true /\ rr_tree num d (rr_tree num d t) = rr_tree num d t.
  Proof.
    intros Hwf Hst. destruct t as [x|f a|op l r]; try discriminate.
    cbn [wf_numcond] in Hwf. apply andb_true_iff in Hwf. destruct Hwf as [Hwt Hop].
    destruct (wf_tree_rr d (TNode op l r) Hwt Hst) as [W1 W2]. split; [|exact W2].
    cbn [rr_tree] in W1 |- *. cbn [wf_numcond]. rewrite W1, is_tnum_rr. exact Hop.
  Qed.

  Lemma wf_numeff_rr d t :
    wf_numeff num funcs d t = true -> (forall x, In x (tree_nums t) -> stable num (d, x)) ->
    wf_numeff num funcs d (rr_tree num d t) = true /\ rr_tree num d (rr_tree num d t) = rr_tree num d t.
  Proof.
    intros Hwf Hst. destruct t as [x|f a|op l r]; try discriminate.
    cbn [wf_numeff] in Hwf. apply andb_true_iff in Hwf. destruct Hwf as [Hwt Hop].
    destruct (wf_tree_rr d (TNode op l r) Hwt Hst) as [W1 W2]. split; [|exact W2].
    cbn [rr_tree] in W1 |- *. cbn [wf_numeff]. rewrite W1. exact Hop.
  Qed.

  Lemma pre_op_rr d q : pre_op (rr_pre num d q) = pre_op q.
  Proof. destruct q; reflexivity. Qed.
  Lemma vacuous_rr d q : vacuous_body (rr_pre num d q) = vacuous_body q.
  Proof. destruct q as [op [|c r] eqs neqs]; reflexivity. Qed.

  Lemma forallb_map_both {A} (f : A -> bool) (g : A -> A) l :
    (forall x, In x l -> f x = true -> f (g x) = true /\ g (g x) = g x) ->
    forallb f l = true -> forallb f (map g l) = true /\ map g (map g l) = map g l.
  Proof.
    induction l as [|x xs IH]; intros H Hf; [split; reflexivity|].
    cbn [forallb map] in *. apply andb_true_iff in Hf. destruct Hf as [Hx Hxs].
    destruct (H x (or_introl eq_refl) Hx) as [H1 H2].
    destruct (IH (fun y Hy => H y (or_intror Hy)) Hxs) as [I1 I2].
    rewrite H1, I1, H2, I2. split; reflexivity.
  Qed.

  Lemma wf_pre_rr d : forall p sg,
    wf_pre num tyk ck preds funcs d sg p = true -> (forall x, In x (pre_nums p) -> stable num (d, x)) ->
    wf_pre num tyk ck preds funcs d sg (rr_pre num d p) = true /\ rr_pre num d (rr_pre num d p) = rr_pre num d p.
  Proof.
    apply (mpre_ind'
      (fun p => forall sg, wf_pre num tyk ck preds funcs d sg p = true -> (forall x, In x (pre_nums p) -> stable num (d, x)) ->
                wf_pre num tyk ck preds funcs d sg (rr_pre num d p) = true /\ rr_pre num d (rr_pre num d p) = rr_pre num d p)
      (fun c => forall sg, wf_cond num tyk ck preds funcs d sg c = true -> (forall x, In x (cond_nums c) -> stable num (d, x)) ->
                wf_cond num tyk ck preds funcs d sg (rr_cond num d c) = true /\ rr_cond num d (rr_cond num d c) = rr_cond num d c)).
    - intros op os eqs neqs HQ sg Hwf Hst.
      change (rr_pre num d (MPre op os eqs neqs)) with (MPre op (map (rr_cond num d) os) eqs neqs).
      change (rr_pre num d (MPre op (map (rr_cond num d) os) eqs neqs))
        with (MPre op (map (rr_cond num d) (map (rr_cond num d) os)) eqs neqs).
      change (wf_pre num tyk ck preds funcs d sg (MPre op os eqs neqs))
        with (forallb (wf_cond num tyk ck preds funcs d sg) os) in Hwf.
      change (wf_pre num tyk ck preds funcs d sg (MPre op (map (rr_cond num d) os) eqs neqs))
        with (forallb (wf_cond num tyk ck preds funcs d sg) (map (rr_cond num d) os)).
      change (pre_nums (MPre op os eqs neqs)) with (flat_map cond_nums os) in Hst.
      rewrite Forall_forall in HQ.
      destruct (forallb_map_both (wf_cond num tyk ck preds funcs d sg) (rr_cond num d) os) as [F1 F2].
      + intros c Hc Hwc. apply (HQ c Hc sg Hwc). intros x Hx. apply Hst. apply in_flat_map. exists c. split; assumption.
      + exact Hwf.
      + rewrite F1, F2. split; reflexivity.
    - intros pos p args sg Hwf _. split; [exact Hwf|reflexivity].
    - intros t sg Hwf Hst.
      change (rr_cond num d (MNum t)) with (MNum (rr_tree num d t)).
      change (rr_cond num d (MNum (rr_tree num d t))) with (MNum (rr_tree num d (rr_tree num d t))).
      change (wf_cond num tyk ck preds funcs d sg (MNum t)) with (wf_numcond num funcs d t) in Hwf.
      change (wf_cond num tyk ck preds funcs d sg (MNum (rr_tree num d t))) with (wf_numcond num funcs d (rr_tree num d t)).
      destruct (wf_numcond_rr d t Hwf Hst) as [W1 W2]. rewrite W1, W2. split; reflexivity.
    - intros q HP sg Hwf Hst.
      change (rr_cond num d (MNested q)) with (MNested (rr_pre num d q)).
      change (rr_cond num d (MNested (rr_pre num d q))) with (MNested (rr_pre num d (rr_pre num d q))).
      change (wf_cond num tyk ck preds funcs d sg (MNested q))
        with (is_connective (pre_op q) && wf_pre num tyk ck preds funcs d sg q) in Hwf.
      change (wf_cond num tyk ck preds funcs d sg (MNested (rr_pre num d q)))
        with (is_connective (pre_op (rr_pre num d q)) && wf_pre num tyk ck preds funcs d sg (rr_pre num d q)).
      apply andb_true_iff in Hwf. destruct Hwf as [Hop Hwq].
      destruct (HP sg Hwq Hst) as [W1 W2]. rewrite pre_op_rr, Hop, W1, W2. split; reflexivity.
    - intros v ty q HP sg Hwf Hst.
      change (rr_cond num d (MUniv v ty q)) with (MUniv v ty (rr_pre num d q)).
      change (rr_cond num d (MUniv v ty (rr_pre num d q))) with (MUniv v ty (rr_pre num d (rr_pre num d q))).
      change (wf_cond num tyk ck preds funcs d sg (MUniv v ty q))
        with (negb (vacuous_body q) && is_connective (pre_op q) && tyk ty && wf_pre num tyk ck preds funcs d (dset sg v ty) q) in Hwf.
      change (wf_cond num tyk ck preds funcs d sg (MUniv v ty (rr_pre num d q)))
        with (negb (vacuous_body (rr_pre num d q)) && is_connective (pre_op (rr_pre num d q)) && tyk ty &&
              wf_pre num tyk ck preds funcs d (dset sg v ty) (rr_pre num d q)).
      apply andb_true_iff in Hwf. destruct Hwf as [Hwf Hwq].
      destruct (HP (dset sg v ty) Hwq Hst) as [W1 W2]. rewrite pre_op_rr, vacuous_rr, Hwf, W1, W2. split; reflexivity.
  Qed.

  Lemma in_map_pair {A B} (a : A) (b : B) l : In b l -> In (a, b) (map (pair a) l).
  Proof. intros H. apply in_map. exact H. Qed.

  Lemma wf_condeff_rr dpre deff sg ce :
    wf_condeff num tyk ck preds funcs dpre deff sg ce = true ->
    (forall dx, In dx (condeff_nums dpre deff ce) -> stable num dx) ->
    wf_condeff num tyk ck preds funcs dpre deff sg (rr_condeff num dpre deff ce) = true /\
    rr_condeff num dpre deff (rr_condeff num dpre deff ce) = rr_condeff num dpre deff ce.
  Proof.
    destruct ce as [ante disc nums]. unfold wf_condeff, rr_condeff, condeff_nums. cbn [ce_ante ce_disc ce_num].
    intros H Hst. apply andb_true_iff in H. destruct H as [H Hnums].
    apply andb_true_iff in H. destruct H as [H Hdisc]. apply andb_true_iff in H. destruct H as [Hop Hante].
    destruct (wf_pre_rr dpre ante sg Hante) as [A1 A2].
    { intros x Hx. apply (Hst (dpre, x)). apply in_or_app. left. apply in_map_pair. exact Hx. }
    destruct (forallb_map_both (wf_numeff num funcs deff) (rr_tree num deff) nums) as [N1 N2].
    { intros t Ht Hwt. apply (wf_numeff_rr deff t Hwt). intros x Hx. apply (Hst (deff, x)). apply in_or_app. right.
      apply in_map_pair. apply in_flat_map. exists t. split; assumption. }
    { exact Hnums. }
    rewrite pre_op_rr, Hop, A1, A2, Hdisc, N1, N2. split; reflexivity.
  Qed.

  Lemma wf_univeff_rr dpre deff sg ue :
    wf_univeff num tyk ck preds funcs dpre deff sg ue = true ->
    (forall dx, In dx (condeff_nums dpre deff (ue_ce ue)) -> stable num dx) ->
    wf_univeff num tyk ck preds funcs dpre deff sg (rr_univeff num dpre deff ue) = true /\
    rr_univeff num dpre deff (rr_univeff num dpre deff ue) = rr_univeff num dpre deff ue.
  Proof.
    destruct ue as [v ty ce]. unfold wf_univeff, rr_univeff. cbn [ue_var ue_ty ue_ce].
    intros H Hst. apply andb_true_iff in H. destruct H as [Hty Hce].
    destruct (wf_condeff_rr dpre deff (dset sg v ty) ce Hce Hst) as [C1 C2]. rewrite Hty, C1, C2. split; reflexivity.
  Qed.

  Lemma wf_action_rr dpre deff a :
    wf_action num tyk ck preds funcs dpre deff a = true ->
    (forall dx, In dx (action_nums dpre deff a) -> stable num dx) ->
    wf_action num tyk ck preds funcs dpre deff (rr_action num dpre deff a) = true /\
    rr_action num dpre deff (rr_action num dpre deff a) = rr_action num dpre deff a.
  Proof.
    destruct a as [n sg pre disc nums conds univs]. unfold wf_action, rr_action, action_nums.
    cbn [ma_name ma_sig ma_pre ma_disc ma_num ma_cond ma_univ].
    intros H Hst.
    apply andb_true_iff in H. destruct H as [H Hu]. apply andb_true_iff in H. destruct H as [H Hc].
    apply andb_true_iff in H. destruct H as [H Hn]. apply andb_true_iff in H. destruct H as [H Hd].
    apply andb_true_iff in H. destruct H as [H Hpre]. apply andb_true_iff in H. destruct H as [H Hop].
    destruct (wf_pre_rr dpre pre sg Hpre) as [P1 P2].
    { intros x Hx. apply (Hst (dpre, x)). apply in_or_app. left. apply in_map_pair. exact Hx. }
    destruct (forallb_map_both (wf_numeff num funcs deff) (rr_tree num deff) nums) as [N1 N2].
    { intros t Ht Hwt. apply (wf_numeff_rr deff t Hwt). intros x Hx. apply (Hst (deff, x)).
      apply in_or_app. right. apply in_or_app. left. apply in_map_pair. apply in_flat_map. exists t. split; assumption. }
    { exact Hn. }
    destruct (forallb_map_both (wf_condeff num tyk ck preds funcs dpre deff sg) (rr_condeff num dpre deff) conds) as [C1 C2].
    { intros ce Hce Hwc. apply (wf_condeff_rr dpre deff sg ce Hwc). intros dx Hdx. apply Hst.
      apply in_or_app. right. apply in_or_app. right. apply in_or_app. left. apply in_flat_map. exists ce. split; assumption. }
    { exact Hc. }
    destruct (forallb_map_both (wf_univeff num tyk ck preds funcs dpre deff sg) (rr_univeff num dpre deff) univs) as [U1 U2].
    { intros ue Hue Hwu. apply (wf_univeff_rr dpre deff sg ue Hwu). intros dx Hdx. apply Hst.
      apply in_or_app. right. apply in_or_app. right. apply in_or_app. right. apply in_flat_map. exists ue. split; assumption. }
    { exact Hu. }
    rewrite pre_op_rr, H, Hop, P1, P2, Hd, N1, N2, C1, C2, U1, U2. split; reflexivity.
  Qed.
End Stable.

(* ---------- the regrouped tables are well-formed ---------- *)
Lemma has_dup_perm l l' : Permutation l l' -> has_dup l = false -> has_dup l' = false.
Proof.
  intros Hp H. apply has_dup_false_nodup in H.
  assert (Hn : NoDup l') by (eapply Permutation_NoDup; eassumption).
  clear -Hn. induction Hn as [|x xs Hx _ IH]; [reflexivity|]. cbn [has_dup]. rewrite IH, orb_false_r.
  destruct (str_in x xs) eqn:E; [|reflexivity]. apply str_in_In in E. contradiction.
Qed.

Lemma dkeys_regroup_dup d : has_dup (dkeys d) = false -> has_dup (dkeys (regroup d)) = false.
Proof.
  apply has_dup_perm. unfold dkeys. apply Permutation_map. apply Permutation_sym. apply regroup_perm.
Qed.

Lemma wf_types_regroup tt : wf_types tt = true -> wf_types (regroup tt) = true.
Proof.
  unfold wf_types. intros H. apply andb_true_iff in H. destruct H as [H Hreach].
  apply andb_true_iff in H. destruct H as [Hdup Hall]. apply negb_true_iff in Hdup.
  pose proof (has_dup_false_nodup _ Hdup) as Hnd.
  rewrite (dkeys_regroup_dup tt Hdup). cbn [negb andb].
  rewrite !regroup_forallb.
  rewrite (forallb_ext8 _ (fun kp => negb (String.eqb (fst kp) "object") && not_dash (fst kp) && type_known tt (snd kp)))
    by (intros [k p]; rewrite type_known_regroup by exact Hnd; reflexivity).
  rewrite Hall. cbn [andb].
  rewrite (forallb_ext8 _ (fun kp => reaches_object tt (fst kp))); [exact Hreach|].
  intros [k p]. cbn [fst]. unfold reaches_object. rewrite regroup_length.
  rewrite (walk_ext (regroup tt) tt (fun k' => regroup_dget tt k' Hnd)). reflexivity.
Qed.

Lemma wf_consts_regroup tt cs : NoDup (dkeys tt) -> wf_consts tt cs = true -> wf_consts (regroup tt) (regroup cs) = true.
Proof.
  unfold wf_consts. intros Hnd H. apply andb_true_iff in H. destruct H as [Hdup Hall]. apply negb_true_iff in Hdup.
  rewrite (dkeys_regroup_dup cs Hdup). cbn [negb andb]. rewrite regroup_forallb.
  rewrite (forallb_ext8 _ (fun ct => not_dash (fst ct) && type_known tt (snd ct))); [exact Hall|].
  intros [c t]. rewrite type_known_regroup by exact Hnd. reflexivity.
Qed.

Lemma wf_preds_regroup tt ps : NoDup (dkeys tt) -> wf_preds tt ps = true -> wf_preds (regroup tt) ps = true.
Proof.
  unfold wf_preds. intros Hnd H. apply andb_true_iff in H. destruct H as [Hdup Hall]. rewrite Hdup. cbn [andb].
  rewrite <- Hall. apply forallb_ext8. intros [n sg]. f_equal. apply wf_sig_ext.
  intros t. apply type_known_regroup. exact Hnd.
Qed.

Lemma wf_funcs_regroup tt fs : NoDup (dkeys tt) -> wf_funcs tt fs = true -> wf_funcs (regroup tt) fs = true.
Proof.
  unfold wf_funcs. intros Hnd H. apply andb_true_iff in H. destruct H as [Hdup Hall]. rewrite Hdup. cbn [andb].
  rewrite <- Hall. apply forallb_ext8. intros [n sg]. apply wf_sig_ext.
  intros t. apply type_known_regroup. exact Hnd.
Qed.

(* ---------- the theorem ---------- *)
Section Idempotent.
  Variable num : numparser.
  Variable dpre deff : nat.
  Variable m : mdomain.
  Hypothesis Hwf : wf_mdomain num dpre deff m = true.
  Hypothesis Hst : forall dx, In dx (domain_nums dpre deff m) -> stable num dx.

  Let m' := rr_domain num dpre deff m.

  Lemma wf_parts :
    wf_types (d_types m) = true /\ wf_consts (d_types m) (d_consts m) = true /\ wf_preds (d_types m) (d_preds m) = true /\
    wf_funcs (d_types m) (d_funcs m) = true /\ negb (has_dup (dkeys (d_actions m))) = true /\
    forallb (fun na => String.eqb (fst na) (ma_name (snd na)) &&
                       wf_action num (type_known (d_types m)) (dmem (d_consts m)) (d_preds m) (d_funcs m) dpre deff (snd na))
            (d_actions m) = true.
  Proof.
    pose proof Hwf as H. unfold wf_mdomain, wf_mdomain_gen in H.
    apply andb_true_iff in H. destruct H as [H H6]. apply andb_true_iff in H. destruct H as [H H5].
    apply andb_true_iff in H. destruct H as [H H4]. apply andb_true_iff in H. destruct H as [H H3].
    apply andb_true_iff in H. destruct H as [H1 H2]. repeat split; assumption.
  Qed.

  Lemma actions_rr :
    forallb (fun na => String.eqb (fst na) (ma_name (snd na)) &&
                       wf_action num (type_known (d_types m)) (dmem (d_consts m)) (d_preds m) (d_funcs m) dpre deff (snd na))
            (d_actions m') = true /\
    map (fun na => (fst na, rr_action num dpre deff (snd na))) (d_actions m') = d_actions m'.
  Proof.
    destruct wf_parts as (_ & _ & _ & _ & _ & Hacts).
    unfold m', rr_domain. cbn [d_actions]. unfold domain_nums in Hst.
    revert Hacts Hst. generalize (d_actions m). intros acts Hacts Hs.
    induction acts as [|[k a] r IH]; [split; reflexivity|].
    cbn [forallb map fst snd] in *. apply andb_true_iff in Hacts. destruct Hacts as [Hka Hr].
    apply andb_true_iff in Hka. destruct Hka as [Hk Hwa].
    destruct (wf_action_rr num _ _ _ _ dpre deff a Hwa) as [A1 A2].
    { intros dx Hdx. apply Hs. apply in_or_app. left. exact Hdx. }
    destruct (IH Hr) as [I1 I2].
    { intros dx Hdx. apply Hs. apply in_or_app. right. exact Hdx. }
    change (ma_name (rr_action num dpre deff a)) with (ma_name a). rewrite Hk, A1, I1, A2, I2. split; reflexivity.
  Qed.

  Lemma types_nd : NoDup (dkeys (d_types m)).
  Proof.
    destruct wf_parts as (H & _). unfold wf_types in H. apply andb_true_iff in H. destruct H as [H _].
    apply andb_true_iff in H. destruct H as [H _]. apply negb_true_iff in H. apply has_dup_false_nodup. exact H.
  Qed.
  Lemma consts_nd : NoDup (dkeys (d_consts m)).
  Proof.
    destruct wf_parts as (_ & H & _). unfold wf_consts in H. apply andb_true_iff in H. destruct H as [H _].
    apply negb_true_iff in H. apply has_dup_false_nodup. exact H.
  Qed.

  (* the re-read domain satisfies the hypotheses of the round-trip theorem again *)
  Lemma wf_reread :
    wf_mdomain_gen num (type_known (d_types m)) (dmem (d_consts m)) dpre deff m' = true.
  Proof.
    destruct wf_parts as (H1 & H2 & H3 & H4 & H5 & H6). destruct actions_rr as [A1 _].
    unfold wf_mdomain_gen. unfold m' in *. unfold rr_domain in *. cbn [d_types d_consts d_preds d_funcs d_actions] in *.
    rewrite (wf_types_regroup _ H1), (wf_consts_regroup _ _ types_nd H2), (wf_preds_regroup _ _ types_nd H3),
      (wf_funcs_regroup _ _ types_nd H4), A1.
    assert (Hk : dkeys (map (fun na : string * maction => (fst na, rr_action num dpre deff (snd na))) (d_actions m)) = dkeys (d_actions m)).
    { unfold dkeys. rewrite map_map. reflexivity. }
    rewrite Hk, H5. reflexivity.
  Qed.

  (* exporting and parsing the re-read domain gives the re-read domain itself *)
  Theorem second_round : parse_domain num (export_domain dpre deff m') = Ok m'.
  Proof.
    rewrite (domain_roundtrip_gen num (type_known (d_types m)) (dmem (d_consts m)) dpre deff m').
    - f_equal. destruct actions_rr as [_ A2]. unfold m' in *. unfold rr_domain in *.
      cbn [d_name d_reqs d_types d_consts d_preds d_funcs d_actions] in *.
      rewrite !regroup_idem, A2. reflexivity.
    - intros t. unfold m', rr_domain. cbn [d_types]. apply type_known_regroup. exact types_nd.
    - intros a. unfold m', rr_domain. cbn [d_consts]. apply regroup_dmem. exact consts_nd.
    - exact wf_reread.
  Qed.

  (* hence the second exported text is the export of the same object *)
  Corollary second_export :
    forall m'', parse_domain num (export_domain dpre deff m') = Ok m'' ->
                export_domain dpre deff m'' = export_domain dpre deff m'.
  Proof. intros m'' H. rewrite second_round in H. injection H as <-. reflexivity. Qed.
End Idempotent.
