(* C15: states seen as a set of facts and a finite map of fluents; what the library's executor (Model/Exec.v) reads
   and writes.  Everything the soundness proof needs about is_applicable / apply_op:
   - evaluation depends only on the views of the atoms and fluents a condition mentions (frame);
   - the effect of a grounded action is a list of (deletes, adds, assigned values) computed from the state the
     action reads, applied to the state it changes. *)
From Coq Require Import List Ascii String Bool Arith Lia PrimFloat.
From Verif Require Import Base.Result Base.Str Base.PyDict Model.Types Model.Domain Model.Exec Spec.Pddl
  Spec.JointPlan Model.PlanConverter.
Import ListNotations.
Open Scope string_scope.
Open Scope list_scope.

(* ---------- atoms ---------- *)
Lemma list_eqb_str_eq (a b : list string) : list_eqb String.eqb a b = true <-> a = b.
Proof.
  revert b. induction a as [|x a IH]; intros [|y b]; cbn; try (split; [discriminate|congruence]); [tauto|].
  rewrite andb_true_iff, String.eqb_eq, IH. split; [intros [-> ->]; reflexivity|intros H; inversion H; auto].
Qed.

Lemma aeq_eq (a b : atom) : atom_eqb a b = true <-> a = b.
Proof.
  destruct a as [p x], b as [q y]. unfold atom_eqb. cbn. rewrite andb_true_iff, String.eqb_eq, list_eqb_str_eq.
  split; [intros [-> ->]; reflexivity|intros H; inversion H; auto].
Qed.

Lemma aeq_refl a : atom_eqb a a = true.
Proof. apply aeq_eq. reflexivity. Qed.

Lemma aeq_sym a b : atom_eqb a b = atom_eqb b a.
Proof.
  destruct (atom_eqb a b) eqn:E1, (atom_eqb b a) eqn:E2; try reflexivity.
  - apply aeq_eq in E1. subst. rewrite aeq_refl in E2. discriminate.
  - apply aeq_eq in E2. subst. rewrite aeq_refl in E1. discriminate.
Qed.

Lemma atom_in_In a l : atom_in a l = true <-> In a l.
Proof.
  unfold atom_in. rewrite existsb_exists. split.
  - intros [x [Hx E]]. apply aeq_eq in E. subst. exact Hx.
  - intros H. exists a. split; [exact H|apply aeq_refl].
Qed.

Lemma atom_in_app a x y : atom_in a (x ++ y) = atom_in a x || atom_in a y.
Proof. unfold atom_in. apply existsb_app. Qed.

Lemma intersects_false (x y : list atom) :
  intersects atom_eqb x y = false -> forall a, In a x -> In a y -> False.
Proof.
  intros H a Hx Hy. unfold intersects in H.
  assert (E : existsb (fun a0 => existsb (atom_eqb a0) y) x = true).
  { apply existsb_exists. exists a. split; [exact Hx|]. apply existsb_exists. exists a. split; [exact Hy|apply aeq_refl]. }
  congruence.
Qed.

(* ---------- views ---------- *)
Definition seqv (s1 s2 : state) : Prop :=
  (forall a, atom_in a (facts s1) = atom_in a (facts s2)) /\
  (forall k, fluent_get k (fluents s1) = fluent_get k (fluents s2)).

Lemma seqv_refl s : seqv s s.
Proof. split; reflexivity. Qed.
Lemma seqv_sym s1 s2 : seqv s1 s2 -> seqv s2 s1.
Proof. intros [A B]. split; intros; symmetry; auto. Qed.
Lemma seqv_trans s1 s2 s3 : seqv s1 s2 -> seqv s2 s3 -> seqv s1 s3.
Proof. intros [A B] [C D]. split; intros; [rewrite A|rewrite B]; auto. Qed.

(* the two states agree on the atoms of A and on the fluents of F *)
Definition agree_on (A F : list atom) (s1 s2 : state) : Prop :=
  (forall a, In a A -> atom_in a (facts s1) = atom_in a (facts s2)) /\
  (forall k, In k F -> fluent_get k (fluents s1) = fluent_get k (fluents s2)).

Lemma seqv_agree A F s1 s2 : seqv s1 s2 -> agree_on A F s1 s2.
Proof. intros [H1 H2]. split; intros; auto. Qed.

Lemma agree_on_sub A F A' F' s1 s2 :
  agree_on A F s1 s2 -> (forall a, In a A' -> In a A) -> (forall k, In k F' -> In k F) -> agree_on A' F' s1 s2.
Proof. intros [H1 H2] HA HF. split; intros; auto. Qed.

(* ---------- nested induction on grounded conditions ---------- *)
Section GpreInd.
  Variable P : gpre -> Prop.
  Variable Q : gcond -> Prop.
  Hypothesis HP : forall op os eqs neqs, Forall Q os -> P (GPre op os eqs neqs).
  Hypothesis HLit : forall pos a, Q (GLit pos a).
  Hypothesis HNum : forall t, Q (GNum t).
  Hypothesis HNested : forall g, P g -> Q (GNested g).
  Hypothesis HUniv : forall v ty body pm, Q (GUniv v ty body pm).
  Fixpoint gpre_ind' (g : gpre) : P g :=
    match g with
    | GPre op os eqs neqs =>
        HP op os eqs neqs ((fix go (l : list gcond) : Forall Q l :=
                              match l with
                              | [] => Forall_nil _
                              | c :: r => Forall_cons _ (gcond_ind' c) (go r)
                              end) os)
    end
  with gcond_ind' (c : gcond) : Q c :=
    match c with
    | GLit pos a => HLit pos a
    | GNum t => HNum t
    | GNested g => HNested g (gpre_ind' g)
    | GUniv v ty body pm => HUniv v ty body pm
    end.
End GpreInd.

(* ---------- frame: evaluation reads only what gpre_reads / gtree_fluents list ---------- *)
Section Frame.
  Variable dom : mdomain.
  Variable eps : float.

  Lemma calc_frame t s1 s2 :
    (forall k, In k (gtree_fluents t) -> fluent_get k (fluents s1) = fluent_get k (fluents s2)) ->
    calc s1 t = calc s2 t.
  Proof.
    induction t as [x|a|op l IHl r IHr]; intros H; cbn [calc].
    - reflexivity.
    - rewrite (H a); [reflexivity|left; reflexivity].
    - rewrite IHl, IHr; [reflexivity| |]; intros k Hk; apply H; cbn [gtree_fluents]; apply in_or_app; auto.
  Qed.

  Lemma eval_cmp_frame t s1 s2 :
    (forall k, In k (gtree_fluents t) -> fluent_get k (fluents s1) = fluent_get k (fluents s2)) ->
    eval_cmp eps s1 t = eval_cmp eps s2 t.
  Proof.
    intros H. destruct t as [x|a|op l r]; try reflexivity. cbn [eval_cmp].
    rewrite (calc_frame l s1 s2), (calc_frame r s1 s2); [reflexivity| |];
      intros k Hk; apply H; cbn [gtree_fluents]; apply in_or_app; auto.
  Qed.

  (* the operand fold of eval_g, named *)
  Fixpoint eval_operands (s : state) (op : string) (l : list gcond) (acc : bool) : result bool :=
    match l with
    | [] => Ok acc
    | c :: r => do b <- eval_gcond dom eps None s c; eval_operands s op r (fold_op op acc b)
    end.

  Lemma eval_g_unfold s op os eqs neqs :
    eval_g dom eps None s (GPre op os eqs neqs) = eval_operands s op os (seed_of op eqs neqs).
  Proof.
    cbn [eval_g]. generalize (seed_of op eqs neqs).
    match goal with |- forall b, ?f os b = _ => set (go := f) end.
    induction os as [|c r IH]; intros acc; [reflexivity|].
    change (go (c :: r) acc) with (do b <- eval_gcond dom eps None s c; go r (fold_op op acc b)).
    cbn [eval_operands]. destruct (eval_gcond dom eps None s c); cbn [bind]; [apply IH|reflexivity].
  Qed.

  Fixpoint operands_reads (l : list gcond) : list atom * list atom :=
    match l with
    | [] => ([], [])
    | c :: r => let x := gcond_reads c in let y := operands_reads r in (fst x ++ fst y, snd x ++ snd y)
    end.

  Lemma gpre_reads_unfold op os eqs neqs : gpre_reads (GPre op os eqs neqs) = operands_reads os.
  Proof.
    cbn [gpre_reads].
    match goal with |- ?f os = _ => set (go := f) end.
    induction os as [|c r IH]; [reflexivity|].
    change (go (c :: r)) with (let x := gcond_reads c in let y := go r in (fst x ++ fst y, snd x ++ snd y)).
    cbn [operands_reads]. cbv zeta. rewrite IH. reflexivity.
  Qed.

  Lemma eval_frame :
    (forall g s1 s2, agree_on (fst (gpre_reads g)) (snd (gpre_reads g)) s1 s2 ->
                     eval_g dom eps None s1 g = eval_g dom eps None s2 g).
  Proof.
    intros g. apply (gpre_ind'
      (fun g => forall s1 s2, agree_on (fst (gpre_reads g)) (snd (gpre_reads g)) s1 s2 ->
                              eval_g dom eps None s1 g = eval_g dom eps None s2 g)
      (fun c => forall s1 s2, agree_on (fst (gcond_reads c)) (snd (gcond_reads c)) s1 s2 ->
                              eval_gcond dom eps None s1 c = eval_gcond dom eps None s2 c)).
    - intros op os eqs neqs HF s1 s2 Hag. rewrite !eval_g_unfold. rewrite gpre_reads_unfold in Hag.
      generalize (seed_of op eqs neqs). induction HF as [|c r Hc HF IH]; intros acc; cbn [eval_operands]; [reflexivity|].
      cbn [operands_reads fst snd] in Hag.
      rewrite (Hc s1 s2).
      + destruct (eval_gcond dom eps None s2 c); cbn [bind]; [|reflexivity]. apply IH.
        eapply agree_on_sub; [exact Hag| |]; intros; apply in_or_app; auto.
      + eapply agree_on_sub; [exact Hag| |]; intros; apply in_or_app; auto.
    - intros pos a s1 s2 [Ha _]. cbn [eval_gcond]. cbn [gcond_reads fst] in Ha. rewrite (Ha a); [reflexivity|left; reflexivity].
    - intros t s1 s2 [_ Hf]. cbn [eval_gcond]. apply eval_cmp_frame. exact Hf.
    - intros g0 IH s1 s2 Hag. cbn [eval_gcond]. apply IH. exact Hag.
    - intros v ty body pm s1 s2 _. reflexivity.
  Qed.

  Lemma is_applicable_eqv ga s1 s2 : seqv s1 s2 -> is_applicable dom eps None ga s1 = is_applicable dom eps None ga s2.
  Proof. intros H. unfold is_applicable. apply eval_frame. apply seqv_agree. exact H. Qed.
End Frame.

(* ---------- what a group does to a state ---------- *)
Definition g_dels (g : ggroup) : list atom := flat_map (fun pa : bool * atom => if fst pa then [] else [snd pa]) (gg_disc g).
Definition g_adds (g : ggroup) : list atom := flat_map (fun pa : bool * atom => if fst pa then [snd pa] else []) (gg_disc g).

Lemma atom_in_remove x a l : atom_in x (remove_atom a l) = atom_in x l && negb (atom_eqb x a).
Proof.
  unfold remove_atom, atom_in. induction l as [|y l IH]; cbn; [reflexivity|].
  destruct (atom_eqb a y) eqn:E; cbn.
  - apply aeq_eq in E. subst y. rewrite IH. destruct (atom_eqb x a); cbn; [rewrite andb_false_r; reflexivity|reflexivity].
  - rewrite IH. destruct (atom_eqb x y) eqn:E2; cbn; [|reflexivity].
    apply aeq_eq in E2. subst y. rewrite (aeq_sym x a), E. reflexivity.
Qed.

Lemma atom_in_add x a l : atom_in x (add_atom a l) = atom_in x l || atom_eqb x a.
Proof.
  unfold add_atom. destruct (atom_in a l) eqn:E.
  - destruct (atom_eqb x a) eqn:E2; [|rewrite orb_false_r; reflexivity].
    apply aeq_eq in E2. subst. rewrite E. reflexivity.
  - rewrite atom_in_app. cbn. rewrite orb_false_r. reflexivity.
Qed.

Lemma atom_in_removes x dels l :
  atom_in x (fold_left (fun fs a => remove_atom a fs) dels l) = atom_in x l && negb (atom_in x dels).
Proof.
  revert l. induction dels as [|d dels IH]; intros l; cbn [fold_left].
  - cbn. rewrite andb_true_r. reflexivity.
  - rewrite IH, atom_in_remove. change (atom_in x (d :: dels)) with (atom_eqb x d || atom_in x dels).
    destruct (atom_in x l), (atom_eqb x d), (atom_in x dels); reflexivity.
Qed.

Lemma atom_in_adds x adds l :
  atom_in x (fold_left (fun fs a => add_atom a fs) adds l) = atom_in x l || atom_in x adds.
Proof.
  revert l. induction adds as [|d adds IH]; intros l; cbn [fold_left].
  - cbn. rewrite orb_false_r. reflexivity.
  - rewrite IH, atom_in_add. change (atom_in x (d :: adds)) with (atom_eqb x d || atom_in x adds).
    destruct (atom_in x l), (atom_eqb x d), (atom_in x adds); reflexivity.
Qed.

Lemma fluent_get_set k a v l : fluent_get k (fluent_set a v l) = if atom_eqb k a then Some v else fluent_get k l.
Proof.
  induction l as [|[k' w] l IH]; cbn [fluent_set fluent_get].
  - destruct (atom_eqb k a); reflexivity.
  - destruct (atom_eqb a k') eqn:E; cbn [fluent_get].
    + apply aeq_eq in E. subst k'. destruct (atom_eqb k a); reflexivity.
    + destruct (atom_eqb k k') eqn:E2.
      * apply aeq_eq in E2. subst k'. rewrite (aeq_sym k a), E. reflexivity.
      * exact IH.
Qed.

(* the value a list of assignments leaves for key k (the last one wins), if any *)
Fixpoint assigned (k : atom) (vals : list (atom * float)) : option float :=
  match vals with
  | [] => None
  | (a, v) :: r => match assigned k r with Some w => Some w | None => if atom_eqb k a then Some v else None end
  end.

Lemma fluent_get_sets k vals l :
  fluent_get k (fold_left (fun fl (av : atom * float) => fluent_set (fst av) (snd av) fl) vals l) =
  match assigned k vals with Some v => Some v | None => fluent_get k l end.
Proof.
  revert l. induction vals as [|[a v] vals IH]; intros l; cbn [fold_left assigned fst snd]; [reflexivity|].
  rewrite IH. destruct (assigned k vals); [reflexivity|]. rewrite fluent_get_set. destruct (atom_eqb k a); reflexivity.
Qed.

Lemma assigned_none k vals : (forall v, ~ In (k, v) vals) -> ~ In k (map fst vals) -> assigned k vals = None.
Proof.
  intros _ H. induction vals as [|[a v] vals IH]; cbn; [reflexivity|].
  rewrite IH; [|intros Hin; apply H; right; exact Hin].
  destruct (atom_eqb k a) eqn:E; [|reflexivity]. apply aeq_eq in E. subst. exfalso. apply H. left. reflexivity.
Qed.

(* one fired group as data *)
Record gop := { o_dels : list atom; o_adds : list atom; o_vals : list (atom * float) }.

Definition apply_gop (cur : state) (o : gop) : state :=
  {| facts := fold_left (fun fs a => add_atom a fs) (o_adds o) (fold_left (fun fs a => remove_atom a fs) (o_dels o) (facts cur));
     fluents := fold_left (fun fl (av : atom * float) => fluent_set (fst av) (snd av) fl) (o_vals o) (fluents cur) |}.

Definition apply_gops (cur : state) (os : list gop) : state := fold_left apply_gop os cur.

Lemma apply_gop_facts x cur o :
  atom_in x (facts (apply_gop cur o)) = (atom_in x (facts cur) && negb (atom_in x (o_dels o))) || atom_in x (o_adds o).
Proof. unfold apply_gop. cbn [facts]. rewrite atom_in_adds, atom_in_removes. reflexivity. Qed.

Lemma apply_gop_fluents k cur o :
  fluent_get k (fluents (apply_gop cur o)) =
  match assigned k (o_vals o) with Some v => Some v | None => fluent_get k (fluents cur) end.
Proof. unfold apply_gop. cbn [fluents]. apply fluent_get_sets. Qed.

Lemma apply_gop_eqv c1 c2 o : seqv c1 c2 -> seqv (apply_gop c1 o) (apply_gop c2 o).
Proof.
  intros [H1 H2]. split; intros x.
  - rewrite !apply_gop_facts, H1. reflexivity.
  - rewrite !apply_gop_fluents, H2. reflexivity.
Qed.

Lemma apply_gops_eqv c1 c2 os : seqv c1 c2 -> seqv (apply_gops c1 os) (apply_gops c2 os).
Proof.
  revert c1 c2. induction os as [|o os IH]; intros c1 c2 H; cbn; [exact H|]. apply IH. apply apply_gop_eqv. exact H.
Qed.

(* per-atom / per-key action of a list of gops *)
Definition fact_after (os : list gop) (x : atom) (v : bool) : bool :=
  fold_left (fun v o => (v && negb (atom_in x (o_dels o))) || atom_in x (o_adds o)) os v.
Definition fluent_after (os : list gop) (k : atom) (v : option float) : option float :=
  fold_left (fun v o => match assigned k (o_vals o) with Some w => Some w | None => v end) os v.

Lemma apply_gops_facts x os cur : atom_in x (facts (apply_gops cur os)) = fact_after os x (atom_in x (facts cur)).
Proof.
  revert cur. induction os as [|o os IH]; intros cur; [reflexivity|].
  change (apply_gops cur (o :: os)) with (apply_gops (apply_gop cur o) os).
  rewrite IH, apply_gop_facts. reflexivity.
Qed.

Lemma apply_gops_fluents k os cur :
  fluent_get k (fluents (apply_gops cur os)) = fluent_after os k (fluent_get k (fluents cur)).
Proof.
  revert cur. induction os as [|o os IH]; intros cur; [reflexivity|].
  change (apply_gops cur (o :: os)) with (apply_gops (apply_gop cur o) os).
  rewrite IH, apply_gop_fluents. reflexivity.
Qed.

(* an atom no gop mentions keeps its value; likewise a fluent no gop assigns *)
Lemma fact_after_untouched os x v :
  (forall o, In o os -> ~ In x (o_dels o) /\ ~ In x (o_adds o)) -> fact_after os x v = v.
Proof.
  revert v. induction os as [|o os IH]; intros v H; [reflexivity|].
  change (fact_after (o :: os) x v) with (fact_after os x ((v && negb (atom_in x (o_dels o))) || atom_in x (o_adds o))).
  destruct (H o (or_introl eq_refl)) as [Hd Ha].
  assert (E1 : atom_in x (o_dels o) = false) by (destruct (atom_in x (o_dels o)) eqn:E; [apply atom_in_In in E; contradiction|reflexivity]).
  assert (E2 : atom_in x (o_adds o) = false) by (destruct (atom_in x (o_adds o)) eqn:E; [apply atom_in_In in E; contradiction|reflexivity]).
  rewrite E1, E2. cbn. rewrite andb_true_r, orb_false_r. apply IH. intros o' Ho'. apply H. right. exact Ho'.
Qed.

Lemma fluent_after_untouched os k v :
  (forall o, In o os -> ~ In k (map fst (o_vals o))) -> fluent_after os k v = v.
Proof.
  revert v. induction os as [|o os IH]; intros v H; [reflexivity|].
  change (fluent_after (o :: os) k v) with (fluent_after os k (match assigned k (o_vals o) with Some w => Some w | None => v end)).
  rewrite (assigned_none k (o_vals o)); [|intros w Hin; apply (H o (or_introl eq_refl)); apply in_map_iff; exists (k, w); auto|apply H; left; reflexivity].
  apply IH. intros o' Ho'. apply H. right. exact Ho'.
Qed.
