(* C02, an Operator built without an object table (problem_objects=None): the evaluator computes [holds] of the precondition with
   every universal condition erased (Spec.EraseForall) -- for EVERY formula, which generalises C02_eval_g_none (forall-free formulas
   only).  Quantified bodies are never instantiated there, so nothing is assumed about them: only what Operator.ground() needs
   (pre_ok .. false ..) and "no constant is named like a parameter". *)
From Coq Require Import List Ascii String Bool Arith PrimFloat Lia.
From Verif Require Import Base.Result Base.Str Base.PyDict Model.Types Model.Domain Model.Exec Spec.Pddl Spec.Subst Spec.EraseForall
  Proofs.C02_Sub Proofs.C20_Defs Proofs.C20_Subst Proofs.C02_Eval Proofs.C02_Main.
Import ListNotations.
Open Scope string_scope.
Open Scope list_scope.

(* ---------- erasure ---------- *)
Lemma erase_forall_free (phi : form) : forall_free (erase_forall phi) = true.
Proof.
  induction phi as [p a|p a|a b|a b|c l r|l IH|l IH|v ty b IH] using form_ind'; simpl; try reflexivity.
  - induction IH as [|f r Hf Hr IHr]; simpl; [reflexivity|]. rewrite Hf. exact IHr.
  - induction IH as [|f r Hf Hr IHr]; simpl; [reflexivity|]. rewrite Hf. exact IHr.
Qed.

Lemma erase_forall_id (phi : form) : forall_free phi = true -> erase_forall phi = phi.
Proof.
  induction phi as [p a|p a|a b|a b|c l r|l IH|l IH|v ty b IH] using form_ind'; simpl; intros H; try reflexivity.
  - f_equal. induction IH as [|f r Hf Hr IHr]; simpl; [reflexivity|].
    simpl in H. apply andb_true_iff in H. destruct H as [H1 H2]. rewrite (Hf H1), (IHr H2). reflexivity.
  - f_equal. induction IH as [|f r Hf Hr IHr]; simpl; [reflexivity|].
    simpl in H. apply andb_true_iff in H. destruct H as [H1 H2]. rewrite (Hf H1), (IHr H2). reflexivity.
  - discriminate.
Qed.

Lemma erase_eq_forms eqs neqs : map erase_forall (eq_forms eqs neqs) = eq_forms eqs neqs.
Proof.
  unfold eq_forms. rewrite map_app, !map_map. reflexivity.
Qed.

Lemma denote_cmp_shape t phi : denote_cmp t = Some phi -> exists c l r, phi = FCmp c l r.
Proof.
  destruct t as [x|f args|op l r]; simpl; try discriminate.
  destruct (cmpop_of op) as [c|]; [|discriminate].
  destruct (denote_tree l) as [a|]; [|discriminate].
  destruct (denote_tree r) as [b|]; [|discriminate].
  intros H. injection H as <-. eauto.
Qed.

Section NoObj.
  Variable dom : mdomain.
  Variable eps : float.
  Variable s : state.
  Let consts := d_consts dom.
  Let tt : tytree := d_types dom.

  Definition spec_noobj (e : env) (phi : form) : result bool := spec_of dom eps s None e (erase_forall phi).

  Definition PN (p : mpre) : Prop :=
    forall phi pm e scope,
      denote_pre p = Some phi -> env_agree pm e -> nsh consts pm ->
      scope_of scope pm -> pre_ok dom false scope p = true ->
      eval_lifted dom eps None s pm p = spec_noobj e phi.
  Definition QN (c : mcond) : Prop :=
    forall phi pm e scope,
      denote_cond c = Some phi -> env_agree pm e -> nsh consts pm ->
      scope_of scope pm -> cond_ok dom false scope c = true ->
      eval_lifted_cond dom eps None s pm c = spec_noobj e phi.

  Lemma QN_lit pos p args : QN (MLit pos p args).
  Proof.
    intros phi pm e scope Hd He Hn Hs Hok. unfold spec_noobj.
    assert (Hff : forall_free phi = true).
    { rewrite denote_cond_lit in Hd. injection Hd as <-. destruct pos; reflexivity. }
    rewrite (erase_forall_id phi Hff).
    exact (QQ_lit dom eps s None pos p args phi pm e scope Hd Hff He Hn eq_refl Hs Hok).
  Qed.

  Lemma QN_num t : QN (MNum t).
  Proof.
    intros phi pm e scope Hd He Hn Hs Hok. unfold spec_noobj.
    assert (Hff : forall_free phi = true).
    { rewrite denote_cond_num in Hd. destruct (denote_cmp_shape t phi Hd) as [c [l [r ->]]]. reflexivity. }
    rewrite (erase_forall_id phi Hff).
    exact (QQ_num dom eps s None t phi pm e scope Hd Hff He Hn eq_refl Hs Hok).
  Qed.

  Lemma QN_nested q : PN q -> QN (MNested q).
  Proof.
    intros IH phi pm e scope Hd He Hn Hs Hok. rewrite denote_cond_nested in Hd.
    rewrite eval_lifted_cond_nested. exact (IH phi pm e scope Hd He Hn Hs Hok).
  Qed.

  (* the universal condition is not looked at *)
  Lemma QN_univ v ty body : PN body -> QN (MUniv v ty body).
  Proof.
    intros _ phi pm e scope Hd He Hn Hs Hok. rewrite denote_cond_univ in Hd.
    destruct (denote_pre body) as [f|]; [|discriminate]. injection Hd as <-.
    rewrite eval_lifted_cond_univ. reflexivity.
  Qed.

  Lemma PN_pre op os eqs neqs : Forall QN os -> PN (MPre op os eqs neqs).
  Proof.
    intros Hos phi pm e scope Hd He Hn Hs Hok.
    destruct (denote_pre_inv _ _ _ _ _ Hd) as [fs [HF ->]].
    rewrite pre_ok_eq in Hok. apply andb_true_iff in Hok. destruct Hok as [Hok Hoks].
    apply andb_true_iff in Hok. destruct Hok as [Hoke Hokn].
    rewrite (pairs_ok_scope scope pm eqs Hs), <- ground_pairs_is_ok in Hoke.
    rewrite (pairs_ok_scope scope pm neqs Hs), <- ground_pairs_is_ok in Hokn.
    rewrite eval_lifted_eq.
    destruct (ground_pairs pm eqs) as [geqs|] eqn:Ee; [|discriminate].
    destruct (ground_pairs pm neqs) as [gneqs|] eqn:En; [|discriminate]. simpl.
    rewrite (ground_pairs_ok _ _ _ Ee), (ground_pairs_ok _ _ _ En).
    set (fs' := map erase_forall fs).
    assert (Hall : Forall2 (fun (c : mcond) (db : bool * bool) => eval_lifted_cond dom eps None s pm c =
                                        if fst db then Err EOther else Ok (snd db))
                           os (combine (map (fdiv0 tt [] e s) fs') (map (holds eps tt [] e s) fs'))).
    { clear Hd Ee En Hoke Hokn. subst fs'.
      revert fs HF Hoks. induction Hos as [|c r Hq Hr IH]; intros fs HF Hoks.
      - inversion HF; subst. constructor.
      - inversion HF as [|? f ? fs0 Hcf Hrf]; subst. simpl.
        rewrite conds_ok_cons in Hoks. apply andb_true_iff in Hoks. destruct Hoks as [Hk1 Hk2].
        constructor.
        + simpl. exact (Hq f pm e scope Hcf He Hn Hs Hk1).
        + apply IH; assumption. }
    assert (Hlen : List.length fs' = List.length os).
    { subst fs'. rewrite map_length. symmetry. eapply Forall2_len. exact HF. }
    rewrite (fold_conds_spec _ op os _ _ Hall); [|rewrite map_length; exact Hlen|rewrite map_length; exact Hlen].
    unfold spec_noobj, spec_of. simpl objs_of.
    rewrite (seed_spec dom eps s [] pm e op eqs neqs He).
    destruct (String.eqb op "or") eqn:Eop.
    - cbn [erase_forall]. rewrite map_app, erase_eq_forms. fold fs'.
      cbn [fdiv0 holds]. rewrite !existsb_app, fdiv0_eq_forms. simpl.
      rewrite existsb_id_map. fold tt. destruct (existsb (fdiv0 tt [] e s) fs'); [reflexivity|].
      unfold conn. rewrite Eop. rewrite !existsb_id_map. reflexivity.
    - cbn [erase_forall]. rewrite map_app, erase_eq_forms. fold fs'.
      cbn [fdiv0 holds]. rewrite existsb_app, forallb_app, fdiv0_eq_forms. simpl.
      rewrite existsb_id_map. fold tt. destruct (existsb (fdiv0 tt [] e s) fs'); [reflexivity|].
      unfold conn. rewrite Eop. rewrite !forallb_id_map. reflexivity.
  Qed.

  Lemma eval_lifted_noobj (p : mpre) : PN p.
  Proof. exact (mpre_ind' PN QN PN_pre QN_lit QN_num QN_nested QN_univ p). Qed.
End NoObj.

(* the grounded precondition, evaluated without an object table, is [holds] of the erased formula -- on any table, since the
   erased formula has no quantifier left *)
Theorem C02_eval_g_noobj_lemma (dom : mdomain) (eps : float) (s : state) (objs : objects)
        (pm : pmap) (p : mpre) (g : gpre) (phi : form) :
  ground_pre dom pm p = Ok g ->
  denote_pre p = Some phi ->
  no_shadow (d_consts dom) (dkeys pm) = true ->
  eval_g dom eps None s g =
  if fdiv0 (d_types dom) objs pm s (erase_forall phi) then Err EOther
  else Ok (holds eps (d_types dom) objs pm s (erase_forall phi)).
Proof.
  intros Hg Hd Hns.
  rewrite (eval_g_lifted dom eps s None pm p g Hg).
  assert (Hok : pre_ok dom false (dkeys pm) p = true).
  { rewrite <- ground_pre_is_ok, Hg. reflexivity. }
  rewrite (eval_lifted_noobj dom eps s p phi pm pm (dkeys pm) Hd (env_agree_refl pm)
             (nsh_of_no_shadow _ _ Hns) (scope_of_dkeys pm) Hok).
  unfold spec_noobj, spec_of. simpl objs_of.
  rewrite (fdiv0_forall_free _ [] objs s _ pm (erase_forall_free phi)),
          (holds_forall_free eps _ [] objs s _ pm (erase_forall_free phi)). reflexivity.
Qed.

(* for the whole action *)
Theorem C02_applicable_noobj_lemma (d : mdomain) (eps : float) (a : maction) (args : list string) (objs : objects)
        (s : state) (phi : form) (ga : gaction) :
  denote_pre (ma_pre a) = Some phi ->
  ground_action d a args = Ok ga ->
  no_shadow (d_consts d) (dkeys (call_map a args)) = true ->
  is_applicable d eps None ga s =
  if fdiv0 (d_types d) objs (combine (dkeys (ma_sig a)) args) s (erase_forall phi) then Err EOther
  else Ok (holds eps (d_types d) objs (combine (dkeys (ma_sig a)) args) s (erase_forall phi)).
Proof.
  intros Hd Hg Hns. unfold ground_action in Hg.
  apply bind_ok_inv in Hg. destruct Hg as [gp [Hgp Hg]].
  apply bind_ok_inv in Hg. destruct Hg as [g0 [_ Hg]].
  apply bind_ok_inv in Hg. destruct Hg as [gs [_ Hg]]. injection Hg as <-.
  unfold is_applicable. simpl.
  exact (C02_eval_g_noobj_lemma d eps s objs _ (ma_pre a) gp phi Hgp Hd Hns).
Qed.

(* ---------- the hypotheses are satisfiable, and the two readings differ ---------- *)
(* the action of Proofs.C02_Main (and/or/not/=/comparison/forall), call (act o1 o2), state with (f o1) = 4: the forall is false for o1,
   so with the object table the call is inapplicable (C02_example_false); without one the forall is not looked at *)
Example C02_noobj_example :
  denote_pre (ma_pre ex_act) = Some ex_phi /\
  is_ok (ground_action ex_dom ex_act ["o1"; "o2"]) = true /\
  no_shadow (d_consts ex_dom) (dkeys (call_map ex_act ["o1"; "o2"])) = true /\
  holds 0x1p-10 (d_types ex_dom) ex_objs (combine (dkeys (ma_sig ex_act)) ["o1"; "o2"]) (ex_state 4) (erase_forall ex_phi) = true /\
  (do ga <- ground_action ex_dom ex_act ["o1"; "o2"]; is_applicable ex_dom 0x1p-10 None ga (ex_state 4)) = Ok true /\
  (do ga <- ground_action ex_dom ex_act ["o1"; "o2"]; is_applicable ex_dom 0x1p-10 (Some ex_objs) ga (ex_state 4)) = Ok false /\
  (* the empty table {} of a problem without objects is a different input: the forall then ranges over the constant c0 (its body holds) *)
  (do ga <- ground_action ex_dom ex_act ["o1"; "o2"];
   is_applicable ex_dom 0x1p-10 (Some (quantification_objects ex_dom [])) ga (ex_state 4)) = Ok true.
Proof. repeat split; vm_compute; reflexivity. Qed.

(* None and the empty table differ: one constant k - t, (forall (?v - t) (and (p ?v))), no fact -- an Operator for a problem without
   objects ranges over the constant (false), an Operator without a table does not look (true) *)
Definition nt_dom : mdomain :=
  {| d_name := "d"; d_reqs := []; d_types := [("t", "object")]; d_consts := [("k", "t")];
     d_preds := [("p", [("?a", "t")])]; d_funcs := []; d_actions := [] |}.
Definition nt_act : maction :=
  {| ma_name := "ship"; ma_sig := []; ma_pre := MPre "and" [MUniv "?v" "t" (MPre "and" [MLit true "p" ["?v"]] [] [])] [] [];
     ma_disc := []; ma_num := []; ma_cond := []; ma_univ := [] |}.
Example C02_none_is_not_the_empty_table :
  let s := {| facts := []; fluents := [] |} in
  (do ga <- ground_action nt_dom nt_act []; is_applicable nt_dom 0x1p-10 (Some (quantification_objects nt_dom [])) ga s) = Ok false /\
  (do ga <- ground_action nt_dom nt_act []; is_applicable nt_dom 0x1p-10 None ga s) = Ok true /\
  holds 0x1p-10 (d_types nt_dom) (quantification_objects nt_dom []) [] s (FAnd [FForall "?v" "t" (FAnd [FAtom "p" ["?v"]])]) = false.
Proof. repeat split; vm_compute; reflexivity. Qed.
