(* C09: the exported token tree of a parsed problem is a problem of the grammar that says what was parsed. *)
From Coq Require Import List Ascii String Bool Arith Lia PrimFloat.
From Verif Require Import Base.Result Base.Str Base.Sexp Base.PyDict Base.Float
  Model.Types Model.Domain Model.NumExpr Model.Problem Model.ProblemObs Model.ProblemExporter
  Spec.Pddl Spec.Grammar Spec.Problem
  Proofs.C05_Lemmas Proofs.C05_Objects Proofs.C05_Items Proofs.C05_Goal Proofs.C05_Parse Proofs.C05_Faithful.
Import ListNotations.
Open Scope string_scope.
Open Scope list_scope.

(* ---------- what every problem read from a token tree satisfies ---------- *)
Fixpoint nexp_names_ok (n : nexp) : bool :=
  match n with
  | Pddl.NNum _ => true
  | Pddl.NFl f _ => negb (str_in f keywords)
  | Pddl.NBin _ a b => nexp_names_ok a && nexp_names_ok b
  end.

Definition is_num (n : nexp) : bool := match n with Pddl.NNum _ => true | _ => false end.

Definition tokens_ok (sp : sproblem) : bool :=
  forallb (fun o : name * name => negb (String.eqb (fst o) "-")) (sp_objects sp)
  && negb (has_dup_name (map fst (sp_objects sp)))
  && forallb (fun a : atom => negb (String.eqb (fst a) "=")) (sp_facts sp)
  && forallb (fun a : atom => match read_cmpop (fst a) with None => true | Some _ => false end) (sp_goal sp)
  && forallb (fun g : cmpop * nexp * nexp => match g with (_, l, r) =>
                nexp_names_ok l && nexp_names_ok r && negb (is_num l && is_num r) end) (sp_goal_num sp).

Lemma all_some_Forall {A B} (f : A -> option B) (P : B -> Prop) l r :
  all_some (map f l) = Some r -> (forall x y, f x = Some y -> P y) -> Forall P r.
Proof.
  revert r. induction l as [|a l' IH]; intros r; simpl.
  - intros H _. injection H as <-. constructor.
  - destruct (f a) eqn:Ea; [|discriminate]. destruct (all_some (map f l')) eqn:E; [|discriminate].
    intros H HP. injection H as <-. constructor; [eapply HP; exact Ea | apply IH; [reflexivity | exact HP]].
Qed.

Lemma Forall_lefts {A B} (P : A -> Prop) (l : list (A + B)) :
  Forall (fun x => match x with inl a => P a | inr _ => True end) l -> Forall P (lefts l).
Proof.
  induction l as [|[a|b] r IH]; intros H; simpl; [constructor | |]; inversion H; subst; [constructor|]; auto.
Qed.
Lemma Forall_rights {A B} (P : B -> Prop) (l : list (A + B)) :
  Forall (fun x => match x with inl _ => True | inr b => P b end) l -> Forall P (rights l).
Proof.
  induction l as [|[a|b] r IH]; intros H; simpl; [constructor | |]; inversion H; subst; [|constructor]; auto.
Qed.

Lemma forallb_Forall {A} (f : A -> bool) l : Forall (fun x => f x = true) l -> forallb f l = true.
Proof. intros H. apply forallb_forall. apply Forall_forall. exact H. Qed.

Lemma Forall_app_intro {A} (P : A -> Prop) a b : Forall P a -> Forall P b -> Forall P (a ++ b).
Proof. intros Ha Hb. apply Forall_app. split; assumption. Qed.

Lemma read_names_dash toks : forall pending os,
  read_names toks pending = Some os -> Forall (fun p => p <> "-") pending -> Forall (fun o : name * name => fst o <> "-") os.
Proof.
  induction toks as [toks IH] using (well_founded_induction (Wf_nat.well_founded_ltof _ (@List.length string))).
  intros pending os. destruct toks as [|t rest]; simpl.
  - intros H Hp. injection H as <-. apply Forall_forall. intros [n ty] Hin. apply in_map_iff in Hin.
    destruct Hin as (p & Hp' & Hin). injection Hp' as <- <-. rewrite Forall_forall in Hp. apply Hp. exact Hin.
  - destruct (String.eqb t "-") eqn:Et.
    + destruct pending as [|p ps]; [discriminate|]. destruct rest as [|ty rest']; [discriminate|].
      destruct (read_names rest' []) as [r|] eqn:Er; [|discriminate]. intros H Hp. injection H as <-.
      change ((p, ty) :: map (fun p0 : name => (p0, ty)) ps ++ r) with (map (fun p0 : name => (p0, ty)) (p :: ps) ++ r).
      apply Forall_app_intro.
      * apply Forall_forall. intros [n ty'] Hin. apply in_map_iff in Hin. destruct Hin as (q & Hq & Hin).
        injection Hq as <- <-. rewrite Forall_forall in Hp. apply Hp. exact Hin.
      * apply (IH rest') with (pending := []); [unfold ltof; simpl; lia | exact Er | constructor].
    + intros H Hp. apply (IH rest) in H; [exact H | unfold ltof; simpl; lia |].
      apply Forall_app_intro; [exact Hp | constructor; [|constructor]].
      intros ->. rewrite String.eqb_refl in Et. discriminate.
Qed.

Lemma read_objs_dash l : forall pending os,
  read_objs l pending = Some os -> Forall (fun p => p <> "-") pending -> Forall (fun o : name * name => fst o <> "-") os.
Proof.
  induction l as [l IH] using (well_founded_induction (Wf_nat.well_founded_ltof _ (@List.length sexp))).
  intros pending os. destruct l as [|x rest]; simpl.
  - intros H Hp. injection H as <-. apply Forall_forall. intros [n ty] Hin. apply in_map_iff in Hin.
    destruct Hin as (p & Hp' & Hin). injection Hp' as <- <-. rewrite Forall_forall in Hp. apply Hp. exact Hin.
  - destruct x as [t|sub].
    + destruct (String.eqb t "-") eqn:Et.
      * destruct pending as [|p ps]; [discriminate|]. destruct rest as [|[ty|] rest']; try discriminate.
        destruct (read_objs rest' []) as [r|] eqn:Er; [|discriminate]. intros H Hp. injection H as <-.
        change ((p, ty) :: map (fun p0 : name => (p0, ty)) ps ++ r) with (map (fun p0 : name => (p0, ty)) (p :: ps) ++ r).
        apply Forall_app_intro.
        -- apply Forall_forall. intros [n ty'] Hin. apply in_map_iff in Hin. destruct Hin as (q & Hq & Hin).
           injection Hq as <- <-. rewrite Forall_forall in Hp. apply Hp. exact Hin.
        -- apply (IH rest') with (pending := []); [unfold ltof; simpl; lia | exact Er | constructor].
      * intros H Hp. apply (IH rest) in H; [exact H | unfold ltof; simpl; lia |].
        apply Forall_app_intro; [exact Hp | constructor; [|constructor]].
        intros ->. rewrite String.eqb_refl in Et. discriminate.
    + destruct sub as [|[k|] inner]; try discriminate. destruct pending; [|discriminate].
      destruct (String.eqb k ":private"); [|discriminate].
      destruct (atom_names inner) as [toks|]; [|discriminate].
      destruct (read_names toks []) as [a|] eqn:Ea; [|discriminate].
      destruct (read_objs rest []) as [b|] eqn:Eb; [|discriminate]. intros H _. injection H as <-.
      apply Forall_app_intro.
      * eapply read_names_dash; [exact Ea | constructor].
      * apply (IH rest) with (pending := []); [unfold ltof; simpl; lia | exact Eb | constructor].
Qed.

Section ReadNexp.
  Variable num : string -> option float.

  Lemma read_nexp_slist_not_num l x : read_nexp num (SList l) = Some x -> is_num x = false.
  Proof.
    destruct l as [|[h|] t]; [discriminate | | discriminate]. cbn [read_nexp].
    destruct t as [|a [|b [|c t']]].
    - destruct (str_in h keywords); [discriminate|]. destruct (atom_names []); [|discriminate]. intros H. injection H as <-. reflexivity.
    - destruct (str_in h keywords); [discriminate|]. destruct (atom_names [a]); [|discriminate]. intros H. injection H as <-. reflexivity.
    - destruct (read_binop h).
      + destruct (read_nexp num a); [|discriminate]. destruct (read_nexp num b); [|discriminate]. intros H. injection H as <-. reflexivity.
      + destruct (str_in h keywords); [discriminate|]. destruct (atom_names [a; b]); [|discriminate]. intros H. injection H as <-. reflexivity.
    - destruct (str_in h keywords); [discriminate|]. destruct (atom_names (a :: b :: c :: t')); [|discriminate].
      intros H. injection H as <-. reflexivity.
  Qed.

  Lemma read_nexp_names_ok e : forall x, read_nexp num e = Some x -> nexp_names_ok x = true.
  Proof.
    induction e as [s|l IH] using sexp_ind'; intros x Hx.
    - cbn [read_nexp] in Hx. destruct (num s); [|discriminate]. injection Hx as <-. reflexivity.
    - destruct l as [|[h|] t]; [discriminate | | discriminate]. cbn [read_nexp] in Hx.
      destruct t as [|a [|b [|c t']]].
      + destruct (str_in h keywords) eqn:Hk; [discriminate|]. destruct (atom_names []); [|discriminate].
        injection Hx as <-. cbn [nexp_names_ok]. rewrite Hk. reflexivity.
      + destruct (str_in h keywords) eqn:Hk; [discriminate|]. destruct (atom_names [a]); [|discriminate].
        injection Hx as <-. cbn [nexp_names_ok]. rewrite Hk. reflexivity.
      + destruct (read_binop h).
        * destruct (read_nexp num a) as [xa|] eqn:Ea; [|discriminate].
          destruct (read_nexp num b) as [xb|] eqn:Eb; [|discriminate]. injection Hx as <-.
          inversion IH as [|? ? _ IH1]; subst. inversion IH1 as [|? ? Ha IH2]; subst. inversion IH2 as [|? ? Hb _]; subst.
          cbn [nexp_names_ok]. rewrite (Ha xa Ea), (Hb xb Eb). reflexivity.
        * destruct (str_in h keywords) eqn:Hk; [discriminate|]. destruct (atom_names [a; b]); [|discriminate].
          injection Hx as <-. cbn [nexp_names_ok]. rewrite Hk. reflexivity.
      + destruct (str_in h keywords) eqn:Hk; [discriminate|]. destruct (atom_names (a :: b :: c :: t')); [|discriminate].
        injection Hx as <-. cbn [nexp_names_ok]. rewrite Hk. reflexivity.
  Qed.

  Lemma read_goal_item_tokens e g : read_goal_item num e = Some g ->
    match g with
    | inl a => read_cmpop (fst a) = None
    | inr (_, l, r) => nexp_names_ok l && nexp_names_ok r && negb (is_num l && is_num r) = true
    end.
  Proof.
    unfold read_goal_item. destruct e as [s|[|[h|] rest]]; try discriminate.
    destruct (read_cmpop h) as [c|] eqn:Ec.
    - destruct rest as [|l [|r [|]]]; try discriminate.
      destruct (is_atom l && is_atom r) eqn:Eat; [discriminate|].
      destruct (read_nexp num l) as [x|] eqn:El; [|discriminate].
      destruct (read_nexp num r) as [y|] eqn:Er; [|discriminate]. intros H. injection H as <-.
      rewrite (read_nexp_names_ok l x El), (read_nexp_names_ok r y Er). simpl.
      destruct l as [sl|ll]; [destruct r as [sr|lr]; [discriminate Eat|]|].
      + rewrite (read_nexp_slist_not_num lr y Er), andb_false_r. reflexivity.
      + rewrite (read_nexp_slist_not_num ll x El). reflexivity.
    - destruct (atom_names rest); [|discriminate]. intros H. injection H as <-. exact Ec.
  Qed.

  Lemma read_init_item_tokens e it : read_init_item e = Some it ->
    match it with inl a => String.eqb (fst a) "=" = false | inr _ => True end.
  Proof.
    unfold read_init_item. destruct e as [s|[|[h|] rest]]; try discriminate.
    destruct (String.eqb h "=") eqn:Eh.
    - destruct rest as [|[|[|[f|] fargs]] [|[tok|] [|]]]; try discriminate.
      destruct (atom_names fargs); [|discriminate]. intros H. injection H as <-. exact I.
    - destruct (atom_names rest); [|discriminate]. intros H. injection H as <-. exact Eh.
  Qed.

  Theorem read_problem_tokens_ok e sp : read_problem num e = Some sp -> tokens_ok sp = true.
  Proof.
    unfold read_problem. destruct e as [|[|[kd|] [|[|[|[kp|] [|[n|] [|]]]] [|[|[|[kdom|] [|[d|] [|]]]] rest]]]]; try discriminate.
    destruct (String.eqb kd "define" && String.eqb kp "problem" && String.eqb kdom ":domain"); [|discriminate].
    unfold read_body.
    set (ob := match rest with
               | SList (Atom k :: toks) :: r => if String.eqb k ":objects" then (read_objs toks [], r) else (Some [], rest)
               | _ => (Some [], rest) end).
    assert (Hob : forall os, fst ob = Some os -> Forall (fun o : name * name => fst o <> "-") os).
    { intros os. subst ob. destruct rest as [|[|[|[k|] toks]] r]; simpl; try (intros H; injection H as <-; constructor).
      destruct (String.eqb k ":objects"); simpl; [|intros H; injection H as <-; constructor].
      intros H. eapply read_objs_dash; [exact H | constructor]. }
    destruct ob as [objs rest1]. simpl in Hob.
    destruct objs as [os|]; [|discriminate].
    destruct rest1 as [|[|[|[ki|] items]] [|[|[|[kg|] [|[|[|[ka|] gitems]] [|]]]] tail]]; try discriminate.
    destruct (String.eqb ki ":init" && String.eqb kg ":goal" && String.eqb ka "and"); [|discriminate]. cbn [andb].
    destruct (has_dup_name (map fst os)) eqn:Edup; [discriminate|]. cbn [negb andb].
    destruct (match tail with [] => true | [SList (Atom km :: _)] => String.eqb km ":metric" | _ => false end); [|discriminate].
    destruct (all_some (map read_init_item items)) as [its|] eqn:Eits; [|discriminate].
    destruct (all_some (map (read_goal_item num) gitems)) as [gs|] eqn:Egs; [|discriminate].
    intros H. injection H as <-. unfold tokens_ok. cbn [sp_objects sp_facts sp_goal sp_goal_num].
    rewrite Edup. cbn [negb]. repeat (apply andb_true_iff; split); try reflexivity.
    - apply forallb_Forall. eapply Forall_impl; [|exact (Hob os eq_refl)].
      intros o Ho. simpl in Ho. rewrite eqb_neq_false by exact Ho. reflexivity.
    - apply forallb_Forall. apply Forall_lefts.
      eapply all_some_Forall; [exact Eits|]. intros x y Hxy. pose proof (read_init_item_tokens x y Hxy) as Ht.
      destruct y; [rewrite Ht; reflexivity | exact I].
    - apply forallb_Forall. apply Forall_lefts.
      eapply all_some_Forall; [exact Egs|]. intros x y Hxy. pose proof (read_goal_item_tokens x y Hxy) as Ht.
      destruct y; [rewrite Ht; reflexivity | exact I].
    - apply forallb_Forall. apply Forall_rights.
      eapply all_some_Forall; [exact Egs|]. intros x y Hxy. pose proof (read_goal_item_tokens x y Hxy) as Ht.
      destruct y as [|[[c l] r]]; [exact I | exact Ht].
  Qed.
End ReadNexp.
