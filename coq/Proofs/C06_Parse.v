(* C06: what parse_types builds from a section written as groups + trailing names. *)
From Coq Require Import List String Bool Arith Lia Relations.
From Verif Require Import Base.Result Base.Str Base.Sexp Base.PyDict Model.Types Spec.Types Proofs.C06_Walk.
Import ListNotations.
Open Scope string_scope.
Open Scope list_scope.

(* ---------- the first pass reads the rendering back ---------- *)
Lemma collect_children cs : forall rest same d,
  Forall plain cs ->
  collect_decls (map Atom cs ++ rest) same d = collect_decls rest (same ++ cs) d.
Proof.
  induction cs as [|c cs IH]; intros rest same d Hp; simpl.
  - rewrite app_nil_r. reflexivity.
  - inversion Hp as [|a l Hc Hcs]; subst.
    unfold plain in Hc. apply String.eqb_neq in Hc. rewrite Hc.
    rewrite IH by exact Hcs. rewrite <- app_assoc. reflexivity.
Qed.

Lemma fold_left_map {A B C} (f : A -> B -> A) (h : C -> B) l a :
  fold_left f (map h l) a = fold_left (fun acc x => f acc (h x)) l a.
Proof. revert a. induction l as [|x l IH]; intros a; simpl; [reflexivity|apply IH]. Qed.

Lemma dupdate_app {V} (d : pydict V) a b : dupdate d (a ++ b) = dupdate (dupdate d a) b.
Proof. unfold dupdate. apply fold_left_app. Qed.

Lemma dupdate_group (d : typetable) (g : group) :
  dupdate d (group_decls g) = fold_left (fun acc c => dset acc c (snd g)) (fst g) d.
Proof. unfold dupdate, group_decls. rewrite fold_left_map. reflexivity. Qed.

Lemma collect_group (g : group) rest d :
  Forall plain (fst g) ->
  collect_decls (render_group g ++ rest) [] d = collect_decls rest [] (dupdate d (group_decls g)).
Proof.
  intros Hp. unfold render_group. rewrite <- app_assoc. rewrite collect_children by exact Hp.
  simpl. rewrite dupdate_group. reflexivity.
Qed.

Lemma collect_render gs : forall tr d,
  plain_section gs tr ->
  collect_decls (render gs tr) [] d = Ok (dupdate d (flat_map group_decls gs), tr).
Proof.
  induction gs as [|g gs IH]; intros tr d [Hg Ht].
  - unfold render. simpl. rewrite <- (app_nil_r (map Atom tr)). rewrite collect_children by exact Ht.
    reflexivity.
  - inversion Hg as [|a l Hg1 Hgs]; subst.
    unfold render. simpl. rewrite <- app_assoc. rewrite collect_group by exact Hg1.
    change (flat_map render_group gs ++ map Atom tr) with (render gs tr).
    rewrite IH by (split; assumption). cbn [flat_map]. f_equal. f_equal. symmetry. apply dupdate_app.
Qed.

(* ---------- dict building ---------- *)
Lemma NoDup_app_l {A} (a b : list A) : NoDup (a ++ b) -> NoDup a.
Proof.
  induction a as [|x a IH]; simpl; intros H; [constructor|].
  inversion H as [|y l Hn Hr]; subst. constructor; [|apply IH, Hr].
  intros Hin. apply Hn. apply in_or_app. left. exact Hin.
Qed.

Lemma dset_absent {V} (d : pydict V) k v : ~ In k (map fst d) -> dset d k v = d ++ [(k, v)].
Proof.
  induction d as [|[k' v'] r IH]; simpl; intros H; [reflexivity|].
  destruct (String.eqb k k') eqn:E.
  - apply String.eqb_eq in E. exfalso. apply H. left. symmetry. exact E.
  - rewrite IH; [reflexivity|]. intros H1. apply H. right. exact H1.
Qed.

Lemma dupdate_nodup {V} (l : pydict V) : forall d, NoDup (map fst (d ++ l)) -> dupdate d l = d ++ l.
Proof.
  induction l as [|[k v] l IH]; intros d Hnd.
  - rewrite app_nil_r. reflexivity.
  - unfold dupdate. simpl. fold (dupdate (dset d k v) l).
    assert (Hk : ~ In k (map fst d)).
    { rewrite map_app in Hnd. simpl in Hnd. apply NoDup_remove_2 in Hnd. intros H. apply Hnd. apply in_or_app. left. exact H. }
    rewrite dset_absent by exact Hk. rewrite IH.
    + rewrite <- app_assoc. reflexivity.
    + rewrite <- app_assoc. exact Hnd.
Qed.

(* the trailing names are further declarations under object *)
Lemma trailing_update (d : typetable) tr :
  fold_left (fun acc c => dset acc c "object") tr d = dupdate d (map (fun c => (c, "object")) tr).
Proof. unfold dupdate. rewrite fold_left_map. reflexivity. Qed.

(* ---------- add_parent_only ---------- *)
Definition apo_step (acc : typetable) (p : string) : typetable :=
  if dmem acc p || String.eqb p "object" then acc else dset acc p "object".

Lemma add_parent_only_fold d : add_parent_only d = fold_left apo_step (dvalues d) d.
Proof. reflexivity. Qed.

Lemma apo_step_preserve acc p k v : dget acc k = Some v -> dget (apo_step acc p) k = Some v.
Proof.
  intros H. unfold apo_step. destruct (dmem acc p) eqn:Em; simpl; [exact H|].
  destruct (String.eqb p "object"); [exact H|].
  rewrite dget_dset_other; [exact H|]. intros ->. unfold dmem in Em. rewrite H in Em. discriminate.
Qed.

Lemma apo_preserve ps : forall acc k v,
  dget acc k = Some v -> dget (fold_left apo_step ps acc) k = Some v.
Proof.
  induction ps as [|p ps IH]; intros acc k v H; simpl; [exact H|]. apply IH, apo_step_preserve, H.
Qed.

Lemma apo_new ps : forall acc k v,
  dget (fold_left apo_step ps acc) k = Some v -> dget acc k = Some v \/ (v = "object" /\ In k ps /\ k <> "object").
Proof.
  induction ps as [|p ps IH]; intros acc k v H; simpl in H; [left; exact H|].
  destruct (IH _ _ _ H) as [H1|[Hv [Hin Hne]]].
  - unfold apo_step in H1. destruct (dmem acc p || String.eqb p "object") eqn:Ec; [left; exact H1|].
    apply orb_false_iff in Ec. destruct Ec as [_ Epo]. apply String.eqb_neq in Epo.
    destruct (String.eqb k p) eqn:E.
    + apply String.eqb_eq in E. subst k. rewrite dget_dset_same in H1. injection H1 as <-.
      right. split; [reflexivity|]. split; [left; reflexivity|exact Epo].
    + apply String.eqb_neq in E. rewrite dget_dset_other in H1 by exact E. left. exact H1.
  - right. split; [exact Hv|]. split; [right; exact Hin|exact Hne].
Qed.

Lemma apo_covers ps : forall acc p,
  In p ps -> p <> "object" -> dmem (fold_left apo_step ps acc) p = true.
Proof.
  induction ps as [|q ps IH]; intros acc p Hin Hne; [contradiction|]. simpl.
  destruct Hin as [->|Hin]; [|apply IH; assumption].
  assert (Hm : dmem (apo_step acc p) p = true).
  { unfold apo_step. destruct (dmem acc p) eqn:Em; simpl; [exact Em|].
    apply String.eqb_neq in Hne. rewrite Hne. unfold dmem. rewrite dget_dset_same. reflexivity. }
  unfold dmem in *. destruct (dget (apo_step acc p) p) as [v|] eqn:E; [|discriminate].
  rewrite (apo_preserve ps _ _ _ E). reflexivity.
Qed.

(* ---------- the filter that drops a key 'object' ---------- *)
Definition not_object (kv : string * string) : bool := negb (String.eqb (fst kv) "object").

Lemma dget_filter_object (d : typetable) k :
  dget (filter not_object d) k = if String.eqb k "object" then None else dget d k.
Proof.
  induction d as [|[k' v] r IH]; simpl.
  - destruct (String.eqb k "object"); reflexivity.
  - unfold not_object at 1. simpl. destruct (String.eqb k' "object") eqn:Eo; simpl.
    + rewrite IH. destruct (String.eqb k "object") eqn:Ek; [reflexivity|].
      apply String.eqb_eq in Eo. subst k'. rewrite Ek. reflexivity.
    + rewrite IH. destruct (String.eqb k k') eqn:Ekk.
      * apply String.eqb_eq in Ekk. subst k'. rewrite Eo. reflexivity.
      * reflexivity.
Qed.

(* ---------- parse_types unfolded ---------- *)
Definition final_table (d1 : typetable) : typetable := filter not_object (add_parent_only d1).

Lemma parse_types_shape toks T :
  parse_types toks = Ok T ->
  exists d tr, collect_decls toks [] [] = Ok (d, tr) /\
               T = final_table (fold_left (fun acc c => dset acc c "object") tr d) /\
               forallb (fun kv => reaches_object T (fst kv)) T = true.
Proof.
  unfold parse_types. destruct (collect_decls toks [] []) as [[d tr]|k]; [|discriminate].
  fold not_object. fold (final_table (fold_left (fun acc c => dset acc c "object") tr d)).
  destruct (forallb _ _) eqn:E; [|discriminate].
  intros H. injection H as <-. exists d, tr. split; [reflexivity|]. split; [reflexivity|exact E].
Qed.

Lemma final_no_object_key d1 : no_object_key (final_table d1).
Proof. unfold no_object_key, final_table. rewrite dget_filter_object. reflexivity. Qed.

Lemma parsed_no_object_key toks T : parse_types toks = Ok T -> no_object_key T.
Proof. intros H. destruct (parse_types_shape _ _ H) as [d [tr [_ [-> _]]]]. apply final_no_object_key. Qed.

Lemma parsed_tacyclic toks T : parse_types toks = Ok T -> tacyclic T.
Proof.
  intros H z Hz. pose proof (parsed_no_object_key _ _ H) as Hno.
  destruct (parse_types_shape _ _ H) as [d [tr [_ [_ Hall]]]].
  destruct (cycle_step T Hno z Hz) as [_ [p [Hp _]]].
  rewrite forallb_forall in Hall. specialize (Hall (z, p) (dget_In _ _ _ Hp)). simpl in Hall.
  revert Hz. apply reaches_not_cyclic; assumption.
Qed.

(* ---------- on a rendered section with one parent per child ---------- *)
Section Rendered.
  Variables (gs : list group) (tr : list tname).
  Let ds := decls gs tr.
  Hypothesis Hplain : plain_section gs tr.
  Hypothesis Hone : one_parent ds.
  Hypothesis Hroot : object_is_root ds.

  Lemma first_pass : collect_decls (render gs tr) [] [] = Ok (flat_map group_decls gs, tr) .
  Proof.
    rewrite collect_render by exact Hplain. f_equal. f_equal.
    apply (dupdate_nodup (flat_map group_decls gs) []). simpl.
    unfold one_parent, ds, decls in Hone. rewrite map_app in Hone. apply NoDup_app_l in Hone. exact Hone.
  Qed.

  Lemma with_trailing :
    fold_left (fun acc c => dset acc c "object") tr (flat_map group_decls gs) = ds.
  Proof. rewrite trailing_update. apply dupdate_nodup. exact Hone. Qed.

  Definition the_table : typetable := final_table ds.

  Lemma parse_rendered :
    parse_types (render gs tr) =
    if forallb (fun kv => reaches_object the_table (fst kv)) the_table then Ok the_table else Err ESyntax.
  Proof.
    unfold parse_types. rewrite first_pass. rewrite with_trailing. reflexivity.
  Qed.

  Lemma table_sound : entries_sound the_table ds.
  Proof.
    intros x p H. unfold the_table, final_table in H. rewrite dget_filter_object in H.
    destruct (String.eqb x "object"); [discriminate|].
    rewrite add_parent_only_fold in H. apply apo_new in H. destruct H as [H|[Hv _]].
    - left. apply dget_In, H.
    - right. exact Hv.
  Qed.

  Lemma table_complete : entries_complete the_table ds.
  Proof.
    intros x p Hd. unfold the_table, final_table. rewrite dget_filter_object.
    destruct (String.eqb x "object") eqn:Eo.
    - apply String.eqb_eq in Eo. subst x. exfalso. apply Hroot. apply in_map_iff. exists ("object", p). split; [reflexivity|exact Hd].
    - rewrite add_parent_only_fold. apply apo_preserve. apply In_dget_nodup; [exact Hone|exact Hd].
  Qed.

  Lemma table_keys n : In n (map fst the_table) <-> n <> "object" /\ (In n (map fst ds) \/ In n (map snd ds)).
  Proof.
    split.
    - intros H. apply dmem_In in H. unfold dmem in H.
      destruct (dget the_table n) as [v|] eqn:E; [clear H|discriminate H].
      unfold the_table, final_table in E. rewrite dget_filter_object in E.
      destruct (String.eqb n "object") eqn:Eo; [discriminate E|]. apply String.eqb_neq in Eo.
      split; [exact Eo|]. rewrite add_parent_only_fold in E. apply apo_new in E. destruct E as [E|[_ [Hin _]]].
      + left. eapply dget_In_key. exact E.
      + right. exact Hin.
    - intros [Hne [Hk|Hv]]; apply dmem_In; unfold dmem, the_table, final_table; rewrite dget_filter_object;
        rewrite (proj2 (String.eqb_neq _ _) Hne); rewrite add_parent_only_fold.
      + apply dmem_In in Hk. unfold dmem in Hk. destruct (dget ds n) as [v|] eqn:E; [|discriminate Hk].
        rewrite (apo_preserve _ _ _ _ E). reflexivity.
      + apply (apo_covers (dvalues ds) ds n Hv Hne).
  Qed.
End Rendered.
