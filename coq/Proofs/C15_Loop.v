(* C15: the greedy packing loop, for ANY state type, ANY further checks and ANY apply function:
   the fuel suffices; the result is a structurally faithful regrouping of the input. *)
From Coq Require Import List Ascii String Bool Arith Lia Permutation.
From Verif Require Import Base.Result Base.Str Spec.Pddl Spec.JointPlan Model.PlanConverter.
Import ListNotations.
Open Scope string_scope.
Open Scope list_scope.

(* ---------- list helpers ---------- *)
Lemma index_of_nth x l i : index_of x l = Some i -> nth_error l i = Some x /\ i < List.length l.
Proof.
  revert i. induction l as [|y r IH]; intros i H; cbn [index_of] in H; [discriminate|].
  destruct (String.eqb x y) eqn:E.
  - inversion H; subst. apply String.eqb_eq in E. subst. cbn. split; [reflexivity|lia].
  - destruct (index_of x r) as [n|] eqn:En; [|discriminate]. inversion H; subst.
    destruct (IH n eq_refl) as [A B]. cbn. split; [exact A|lia].
Qed.

Lemma set_nth_length {A} i (x : A) l : List.length (set_nth i x l) = List.length l.
Proof. revert i. induction l as [|y r IH]; intros [|i]; cbn; try reflexivity. rewrite IH. reflexivity. Qed.

Lemma nth_error_set_nth_same {A} i (x : A) l : i < List.length l -> nth_error (set_nth i x l) i = Some x.
Proof.
  revert i. induction l as [|y r IH]; intros [|i] H; cbn in *; try lia; [reflexivity|]. apply IH. lia.
Qed.

Lemma nth_error_set_nth_other {A} i j (x : A) l : i <> j -> nth_error (set_nth i x l) j = nth_error l j.
Proof.
  revert i j. induction l as [|y r IH]; intros [|i] [|j] H; cbn; try reflexivity; try congruence.
  apply IH. congruence.
Qed.

Lemma nth_error_repeat {A} (x : A) n i : i < n -> nth_error (repeat x n) i = Some x.
Proof. revert i. induction n as [|n IH]; intros [|i] H; cbn; try lia; [reflexivity|]. apply IH. lia. Qed.

Lemma Forall2_set_nth {A B} (R : A -> B -> Prop) l1 l2 i x y :
  Forall2 R l1 l2 -> nth_error l1 i = Some x -> R x y -> Forall2 R l1 (set_nth i y l2).
Proof.
  intros H. revert i. induction H as [|a b l1 l2 Hab H IH]; intros i Hn Hr.
  - destruct i; discriminate.
  - destruct i as [|i]; cbn in *.
    + inversion Hn; subst. constructor; assumption.
    + constructor; [assumption|]. apply IH; assumption.
Qed.

Lemma Forall2_repeat {A B} (R : A -> B -> Prop) l y : (forall a, R a y) -> Forall2 R l (repeat y (List.length l)).
Proof. intros H. induction l; cbn; constructor; auto. Qed.

(* ---------- members of a joint action under construction ---------- *)
Lemma members_repeat_nop n : members (repeat nop n) = [].
Proof. induction n; [reflexivity|]. cbn. exact IHn. Qed.

Lemma members_set_nth l i c x :
  nth_error l i = Some c -> is_nop c = true -> is_nop x = false ->
  exists l1 l2, members l = l1 ++ l2 /\ members (set_nth i x l) = l1 ++ x :: l2.
Proof.
  revert i. induction l as [|y r IH]; intros i Hn Hc Hx; [destruct i; discriminate|].
  destruct i as [|i]; cbn in Hn.
  - inversion Hn; subst. exists [], (members r). unfold members. cbn [set_nth filter]. rewrite Hc, Hx. cbn. split; reflexivity.
  - destruct (IH i Hn Hc Hx) as (l1 & l2 & E1 & E2).
    unfold members in *. cbn [set_nth filter]. destruct (negb (is_nop y)).
    + exists (y :: l1), l2. rewrite E1, E2. split; reflexivity.
    + exists l1, l2. split; assumption.
Qed.

(* ---------- executors ---------- *)
Lemma by_agent_app agents ag l1 l2 : by_agent agents ag (l1 ++ l2) = by_agent agents ag l1 ++ by_agent agents ag l2.
Proof. unfold by_agent. apply filter_app. Qed.

Lemma executed_by_iff agents ag c e : executor agents c = Some e -> executed_by agents ag c = String.eqb e ag.
Proof. intros H. unfold executed_by. rewrite H. reflexivity. Qed.

Section Loop.
  Variable St : Type.
  Variable agents : list string.
  Variable checks : St -> joint -> call -> result bool.
  Variable applyj : St -> list call -> result St.

  Notation validate := (validate St agents checks).
  Notation inner := (inner St agents checks).
  Notation outer := (outer St agents checks applyj).

  (* ---------- the fuel suffices ---------- *)
  Lemma inner_rest_len fuel cur ja next nagent rest ja' rest' :
    inner fuel cur ja next nagent rest = Ok (ja', rest') -> List.length rest' <= List.length rest.
  Proof.
    revert ja rest. induction fuel as [|f IH]; intros ja rest H; cbn [PlanConverter.inner] in H; [discriminate|].
    destruct (validate cur ja next nagent) as [[|]|k]; cbn [bind] in H; try discriminate.
    - destruct rest as [|[c ag] rest0]; [discriminate|].
      destruct (index_of nagent agents) as [idx|]; [|discriminate].
      apply IH in H. cbn. lia.
    - inversion H; subst. lia.
  Qed.

  Lemma inner_stable f1 f2 cur ja next nagent rest :
    List.length rest < f1 -> List.length rest < f2 ->
    inner f1 cur ja next nagent rest = inner f2 cur ja next nagent rest.
  Proof.
    revert f2 ja rest. induction f1 as [|f1 IH]; intros f2 ja rest H1 H2; [lia|].
    destruct f2 as [|f2]; [lia|]. cbn [PlanConverter.inner].
    destruct (validate cur ja next nagent) as [[|]|k]; cbn [bind]; try reflexivity.
    destruct rest as [|[c ag] rest0]; [reflexivity|].
    destruct (index_of nagent agents) as [idx|]; [|reflexivity].
    apply IH; cbn in *; lia.
  Qed.

  Lemma outer_stable f1 f2 cur plan :
    List.length plan <= f1 -> List.length plan <= f2 -> outer f1 cur plan = outer f2 cur plan.
  Proof.
    revert f2 cur plan. induction f1 as [|f1 IH]; intros f2 cur plan H1 H2.
    - destruct plan; [destruct f2; reflexivity|cbn in H1; lia].
    - destruct plan as [|[a ag] rest]; [destruct f2; reflexivity|].
      destruct f2 as [|f2]; [cbn in H2; lia|]. cbn [PlanConverter.outer].
      destruct (index_of ag agents) as [idx|]; [|reflexivity].
      destruct rest as [|[next nagent] rest0]; [reflexivity|].
      destruct (inner (S (List.length ((next, nagent) :: rest0))) cur
                  (set_nth idx a (repeat nop (List.length agents))) next nagent ((next, nagent) :: rest0))
        as [[ja' rest']|k] eqn:Ei; cbn [bind]; [|reflexivity].
      destruct (applyj cur (members (fst (ja', rest')))) as [cur'|k]; cbn [bind]; [|reflexivity].
      apply inner_rest_len in Ei. cbn [fst snd].
      rewrite (IH f2 cur' rest'); [reflexivity| |]; cbn in *; lia.
  Qed.

  (* more fuel than the length of the plan never changes the result *)
  Theorem fuel_suffices extra cur plan :
    outer (List.length plan + extra) cur plan = create_joint_actions St agents checks applyj cur plan.
  Proof. unfold create_joint_actions. apply outer_stable; lia. Qed.

  (* the loop's own fuel test is never the reason of an error, unless the parameters themselves report one *)
  Definition no_fuel_error {A} (r : result A) : Prop := r <> Err EFuel.

  Lemma inner_no_fuel fuel cur ja next nagent rest :
    (forall s j c, no_fuel_error (checks s j c)) ->
    List.length rest < fuel -> no_fuel_error (inner fuel cur ja next nagent rest).
  Proof.
    intros Hc. revert ja rest. induction fuel as [|f IH]; intros ja rest H; [lia|].
    cbn [PlanConverter.inner]. unfold no_fuel_error in *.
    destruct (validate cur ja next nagent) as [[|]|k] eqn:Ev; cbn [bind].
    - destruct rest as [|[c ag] rest0]; [discriminate|].
      destruct (index_of nagent agents) as [idx|]; [|discriminate].
      apply IH. cbn in H. lia.
    - discriminate.
    - unfold PlanConverter.validate in Ev.
      destruct (index_of nagent agents); [|inversion Ev; discriminate].
      destruct (nth_error ja n); [|inversion Ev; discriminate].
      destruct (negb (is_nop c)); [discriminate|]. intros Heq. inversion Heq; subst k. exact (Hc _ _ _ Ev).
  Qed.

  Theorem outer_no_fuel fuel cur plan :
    (forall s j c, no_fuel_error (checks s j c)) -> (forall s l, no_fuel_error (applyj s l)) ->
    List.length plan <= fuel -> no_fuel_error (outer fuel cur plan).
  Proof.
    intros Hc Ha. revert cur plan. induction fuel as [|f IH]; intros cur plan H.
    - destruct plan; [cbn; discriminate|cbn in H; lia].
    - destruct plan as [|[a ag] rest]; [cbn; discriminate|]. cbn [PlanConverter.outer]. unfold no_fuel_error in *.
      destruct (index_of ag agents) as [idx|]; [|discriminate].
      destruct rest as [|[next nagent] rest0]; [discriminate|].
      destruct (inner (S (List.length ((next, nagent) :: rest0))) cur
                  (set_nth idx a (repeat nop (List.length agents))) next nagent ((next, nagent) :: rest0))
        as [[ja' rest']|k] eqn:Ei; cbn [bind].
      + destruct (applyj cur (members (fst (ja', rest')))) as [cur'|k] eqn:Eap; cbn [bind].
        * apply inner_rest_len in Ei. cbn [fst snd].
          specialize (IH cur' rest'). destruct (outer f cur' rest'); cbn [bind]; [discriminate|].
          apply IH. cbn in *. lia.
        * intros Heq. inversion Heq; subst k. exact (Ha _ _ Eap).
      + intros Heq. inversion Heq; subst k. revert Ei. apply inner_no_fuel; [exact Hc|]. cbn. lia.
  Qed.

  (* ---------- what the inner loop does: at most one insertion (next_action is never refreshed) ---------- *)
  Lemma inner_spec fuel cur ja next nagent rest0 :
    is_nop next = false -> 2 <= fuel ->
    inner fuel cur ja next nagent ((next, nagent) :: rest0) =
      match validate cur ja next nagent with
      | Err k => Err k
      | Ok false => Ok (ja, (next, nagent) :: rest0)
      | Ok true =>
          match index_of nagent agents with
          | Some idx => Ok (set_nth idx next ja, rest0)
          | None => Err EValue
          end
      end.
  Proof.
    intros Hn Hf. destruct fuel as [|[|f]]; try lia. cbn [PlanConverter.inner].
    destruct (validate cur ja next nagent) as [[|]|k] eqn:Ev; cbn [bind]; try reflexivity.
    destruct (index_of nagent agents) as [idx|] eqn:Ei; [|reflexivity].
    unfold PlanConverter.validate in Ev. rewrite Ei in Ev.
    destruct (nth_error ja idx) as [c|] eqn:En; [|discriminate].
    assert (Hlt : idx < List.length ja) by (apply nth_error_Some; congruence).
    unfold PlanConverter.validate at 1. rewrite Ei, (nth_error_set_nth_same idx next ja Hlt), Hn. cbn. reflexivity.
  Qed.

  (* ---------- structure ---------- *)
  Definition wf_pcall (p : pcall) : Prop := executor agents (fst p) = Some (snd p) /\ is_nop (fst p) = false.

  Lemma slot_ok_nop ag : slot_ok agents ag nop.
  Proof. left. reflexivity. Qed.

  Lemma by_agent_two ag a b ea eb l :
    executor agents a = Some ea -> executor agents b = Some eb -> ea <> eb ->
    (l = [a; b] \/ l = [b; a]) -> by_agent agents ag l = by_agent agents ag [a; b] /\ List.length (by_agent agents ag l) <= 1.
  Proof.
    intros Ha Hb Hne Hl. unfold by_agent.
    assert (Ea := executed_by_iff agents ag a ea Ha). assert (Eb := executed_by_iff agents ag b eb Hb).
    destruct Hl; subst l; cbn [filter]; rewrite Ea, Eb;
      destruct (String.eqb ea ag) eqn:E1; destruct (String.eqb eb ag) eqn:E2; cbn; try (split; [reflexivity|lia]).
    all: apply String.eqb_eq in E1; apply String.eqb_eq in E2; congruence.
  Qed.

  Theorem outer_structure fuel cur plan js :
    Forall wf_pcall plan -> outer fuel cur plan = Ok js -> structure_ok agents (map fst plan) js.
  Proof.
    revert cur plan js. induction fuel as [|f IH]; intros cur plan js Hwf H.
    - destruct plan as [|[a ag] rest]; cbn in H; [|discriminate]. inversion H; subst.
      constructor; cbn; try constructor; try reflexivity.
    - destruct plan as [|[a ag] rest]; cbn [PlanConverter.outer] in H.
      { inversion H; subst. constructor; cbn; try constructor; try reflexivity. }
      inversion Hwf as [|? ? [Hea Hna] Hwf']; subst. cbn [fst snd] in Hea, Hna.
      destruct (index_of ag agents) as [idx|] eqn:Ei; [|discriminate].
      destruct (index_of_nth _ _ _ Ei) as [Hnth Hlt].
      set (ja0 := set_nth idx a (repeat nop (List.length agents))) in *.
      assert (Hslots0 : Forall2 (slot_ok agents) agents ja0).
      { apply Forall2_set_nth with (x := ag); [apply Forall2_repeat; intros; apply slot_ok_nop | exact Hnth |].
        right. split; assumption. }
      assert (Hmem0 : members ja0 = [a]).
      { destruct (members_set_nth (repeat nop (List.length agents)) idx nop a) as (l1 & l2 & E1 & E2);
          [apply nth_error_repeat; exact Hlt | reflexivity | exact Hna |].
        rewrite members_repeat_nop in E1. symmetry in E1. apply app_eq_nil in E1. destruct E1; subst.
        exact E2. }
      assert (Hja0a : nth_error ja0 idx = Some a).
      { apply nth_error_set_nth_same. rewrite repeat_length. exact Hlt. }
      destruct rest as [|[next nagent] rest0].
      + (* the last action *)
        inversion H; subst. constructor; cbn [map List.concat fst].
        * constructor; [exact Hslots0|constructor].
        * constructor; [|constructor]. intros ag'. rewrite Hmem0. unfold by_agent. cbn. destruct (executed_by agents ag' a); cbn; lia.
        * intros ag'. rewrite Hmem0. reflexivity.
        * rewrite Hmem0. cbn. apply Permutation_refl.
        * constructor; [rewrite Hmem0; discriminate|constructor].
      + inversion Hwf' as [|? ? [Hen Hnn] Hwf'']; subst. cbn [fst snd] in Hen, Hnn.
        rewrite inner_spec in H; [|exact Hnn|cbn; lia].
        destruct (validate cur ja0 next nagent) as [[|]|k] eqn:Ev; cbn [bind] in H; try discriminate.
        * (* next joins the step *)
          destruct (index_of nagent agents) as [idx2|] eqn:Ei2; [|discriminate]. cbn [bind fst snd] in H.
          destruct (index_of_nth _ _ _ Ei2) as [Hnth2 Hlt2].
          unfold PlanConverter.validate in Ev. rewrite Ei2 in Ev.
          destruct (nth_error ja0 idx2) as [c|] eqn:En2; [|discriminate].
          destruct (is_nop c) eqn:Ec; cbn [negb] in Ev; [|discriminate].
          assert (Hneq : idx <> idx2).
          { intros ->. rewrite Hja0a in En2. inversion En2; subst. congruence. }
          assert (Hage : ag <> nagent).
          { intros ->. rewrite Ei in Ei2. inversion Ei2. contradiction. }
          set (ja1 := set_nth idx2 next ja0) in *.
          destruct (applyj cur (members ja1)) as [cur'|]; cbn [bind] in H; [|discriminate].
          destruct (outer f cur' rest0) as [js'|] eqn:Eo; cbn [bind] in H; [|discriminate].
          inversion H; subst js. clear H.
          specialize (IH cur' rest0 js' Hwf'' Eo). destruct IH as [I1 I2 I3 I4 I5].
          destruct (members_set_nth ja0 idx2 c next En2 Ec Hnn) as (l1 & l2 & E1 & E2). fold ja1 in E2.
          rewrite Hmem0 in E1.
          assert (Hl : members ja1 = [a; next] \/ members ja1 = [next; a]).
          { destruct l1 as [|x l1]; cbn in E1.
            - subst l2. right. exact E2.
            - inversion E1; subst. destruct l1; [|discriminate]. cbn in *. subst l2. left. exact E2. }
          constructor; cbn [map List.concat fst].
          -- constructor; [|exact I1]. apply Forall2_set_nth with (x := nagent); [exact Hslots0|exact Hnth2|].
             right. split; assumption.
          -- constructor; [|exact I2]. intros ag'. apply (by_agent_two ag' a next ag nagent); assumption.
          -- intros ag'. rewrite by_agent_app, I3.
             destruct (by_agent_two ag' a next ag nagent (members ja1) Hea Hen Hage Hl) as [E _]. rewrite E.
             change (a :: next :: map fst rest0) with ([a; next] ++ map fst rest0). rewrite by_agent_app. reflexivity.
          -- change (a :: next :: map fst rest0) with ([a; next] ++ map fst rest0).
             apply Permutation_app; [|exact I4]. destruct Hl as [-> | ->]; [apply Permutation_refl|apply perm_swap].
          -- constructor; [|exact I5]. destruct Hl as [-> | ->]; discriminate.
        * (* next opens the following step *)
          cbn [fst snd] in H.
          destruct (applyj cur (members ja0)) as [cur'|]; cbn [bind] in H; [|discriminate].
          destruct (outer f cur' ((next, nagent) :: rest0)) as [js'|] eqn:Eo; cbn [bind] in H; [|discriminate].
          inversion H; subst js. clear H.
          specialize (IH cur' ((next, nagent) :: rest0) js' Hwf' Eo). destruct IH as [I1 I2 I3 I4 I5].
          constructor; cbn [map List.concat fst] in *.
          -- constructor; [exact Hslots0|exact I1].
          -- constructor; [|exact I2]. intros ag'. rewrite Hmem0. unfold by_agent. cbn. destruct (executed_by agents ag' a); cbn; lia.
          -- intros ag'. rewrite by_agent_app, I3, Hmem0. change (a :: next :: map fst rest0) with ([a] ++ next :: map fst rest0).
             rewrite by_agent_app. reflexivity.
          -- rewrite Hmem0. cbn. apply perm_skip. exact I4.
          -- constructor; [rewrite Hmem0; discriminate|exact I5].
  Qed.

  (* every step holds one or two actions: the first of the remaining plan and possibly its successor *)
  Theorem outer_step_sizes fuel cur plan js :
    Forall wf_pcall plan -> outer fuel cur plan = Ok js ->
    Forall (fun j => 1 <= List.length (members j) <= 2) js.
  Proof.
    revert cur plan js. induction fuel as [|f IH]; intros cur plan js Hwf H.
    - destruct plan as [|[a ag] rest]; cbn in H; [|discriminate]. inversion H; constructor.
    - destruct plan as [|[a ag] rest]; cbn [PlanConverter.outer] in H; [inversion H; constructor|].
      inversion Hwf as [|? ? [Hea Hna] Hwf']; subst. cbn [fst snd] in Hea, Hna.
      destruct (index_of ag agents) as [idx|] eqn:Ei; [|discriminate].
      destruct (index_of_nth _ _ _ Ei) as [Hnth Hlt].
      set (ja0 := set_nth idx a (repeat nop (List.length agents))) in *.
      assert (Hmem0 : members ja0 = [a]).
      { destruct (members_set_nth (repeat nop (List.length agents)) idx nop a) as (l1 & l2 & E1 & E2);
          [apply nth_error_repeat; exact Hlt | reflexivity | exact Hna |].
        rewrite members_repeat_nop in E1. symmetry in E1. apply app_eq_nil in E1. destruct E1; subst. exact E2. }
      destruct rest as [|[next nagent] rest0].
      + inversion H; subst. constructor; [rewrite Hmem0; cbn; lia|constructor].
      + inversion Hwf' as [|? ? [Hen Hnn] Hwf'']; subst. cbn [fst snd] in Hen, Hnn.
        rewrite inner_spec in H; [|exact Hnn|cbn; lia].
        destruct (validate cur ja0 next nagent) as [[|]|k] eqn:Ev; cbn [bind] in H; try discriminate.
        * destruct (index_of nagent agents) as [idx2|] eqn:Ei2; [|discriminate]. cbn [bind fst snd] in H.
          unfold PlanConverter.validate in Ev. rewrite Ei2 in Ev.
          destruct (nth_error ja0 idx2) as [c|] eqn:En2; [|discriminate].
          destruct (is_nop c) eqn:Ec; cbn [negb] in Ev; [|discriminate].
          destruct (applyj cur (members (set_nth idx2 next ja0))) as [cur'|]; cbn [bind] in H; [|discriminate].
          destruct (outer f cur' rest0) as [js'|] eqn:Eo; cbn [bind] in H; [|discriminate].
          inversion H; subst js. constructor; [|apply (IH cur' rest0 js' Hwf'' Eo)].
          destruct (members_set_nth ja0 idx2 c next En2 Ec Hnn) as (l1 & l2 & E1 & E2).
          rewrite E2. rewrite Hmem0 in E1. assert (L : List.length (l1 ++ l2) = 1) by (rewrite <- E1; reflexivity).
          rewrite app_length in *. cbn. lia.
        * cbn [fst snd] in H.
          destruct (applyj cur (members ja0)) as [cur'|]; cbn [bind] in H; [|discriminate].
          destruct (outer f cur' ((next, nagent) :: rest0)) as [js'|] eqn:Eo; cbn [bind] in H; [|discriminate].
          inversion H; subst js. constructor; [rewrite Hmem0; cbn; lia|apply (IH cur' _ js' Hwf' Eo)].
  Qed.
End Loop.

(* ---------- the scanner's output is well-formed: the recorded agent is the executor ---------- *)
Lemma extract_executor agents t pa :
  extract_plan_actions agents t = Ok pa -> Forall (fun p => executor agents (fst p) = Some (snd p)) pa.
Proof.
  unfold extract_plan_actions. generalize (scan t 0). intros gs. revert pa.
  induction gs as [|g gs IH]; intros pa H; cbn [mapM] in H.
  - inversion H. constructor.
  - destruct (action_of_group agents g) as [p|] eqn:Eg; cbn [bind] in H; [|discriminate].
    destruct (mapM (action_of_group agents) gs) as [ps|]; cbn [bind] in H; [|discriminate].
    inversion H; subst. constructor; [|apply IH; reflexivity].
    unfold action_of_group in Eg. destruct (map t2s (split_ws (lower_text g) [])) as [|n ps']; [discriminate|].
    destruct (find (fun p0 => str_in p0 agents) ps') as [ag|] eqn:Ef; [|discriminate].
    inversion Eg; subst. cbn. unfold executor. cbn. exact Ef.
Qed.
