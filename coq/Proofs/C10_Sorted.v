(* C10 (and the library-reader half of C14) for the sorting serializer (3ad2e15: State.serialize prints the facts of every
   predicate group in sorted order): the exporter with State.serialize is the exporter with the in-order printer on the
   trajectory whose states have their groups sorted ([sort_triplet]); every hypothesis of the round-trip theorems is
   invariant under that sorting and every conclusion speaks of the states up to [State_same].  So the theorems of
   Proofs/C10_State.v / C10_Main.v / C10_Objects.v carry over. *)
From Coq Require Import List Ascii String Bool Arith Lia PrimFloat Permutation.
From Verif Require Import Base.Result Base.Str Base.Sexp Base.PyDict Base.Float Model.Tokenizer Model.Types Model.Domain
  Model.State Model.Trajectory Spec.Pddl Spec.State
  Proofs.C14_Text Proofs.C14_Spec Proofs.C14_Eq Proofs.C14_Main Proofs.C14_Serialize Proofs.C14_Sorted
  Proofs.C10_State Proofs.C10_Main Proofs.C10_Objects.
Import ListNotations.
Open Scope string_scope.
Open Scope list_scope.

Definition sort_triplet (t : triplet) : triplet :=
  {| t_pre := sort_facts (t_pre t); t_act := t_act t; t_post := sort_facts (t_post t) |}.

Section Sorted.
  Variable dom : mdomain.
  Variable num_text : float -> string.
  Variable parse_num : string -> option float.
  Variable problem : option (pydict string).
  Variable agents : option (list string).

  (* ---------- the exporter ---------- *)
  Lemma export_lines_sorted l :
    flat_map (fun t => [action_line (t_act t); serialize num_text (t_post t)]) l =
    flat_map (fun t => [action_line (t_act t); serialize_in_order num_text (t_post t)]) (map sort_triplet l).
  Proof.
    induction l as [|t l IH]; [reflexivity|]. cbn [map flat_map app]. rewrite IH.
    cbn [sort_triplet t_post t_act]. rewrite serialize_sorted. reflexivity.
  Qed.

  Lemma export_sorted ts :
    export_text num_text ts = export_text_with (serialize_in_order num_text) (map sort_triplet ts).
  Proof.
    unfold export_text, export_text_with, export_with. destruct ts as [|t0 ts]; [reflexivity|].
    rewrite export_lines_sorted. cbn [map sort_triplet t_pre]. rewrite serialize_sorted. reflexivity.
  Qed.

  (* ---------- hypotheses are invariant under sorting ---------- *)
  Lemma parseable_sorted s : parseable dom problem s -> parseable dom problem (sort_facts s).
  Proof.
    intros (Pf & Pl & Nd). split; [|split; [exact Pl|exact Nd]].
    eapply Permutation_Forall; [apply Permutation_sym, den_facts_sorted|exact Pf].
  Qed.

  Lemma den_ok_sorted s : den_ok dom num_text parse_num problem s -> den_ok dom num_text parse_num problem (sort_facts s).
  Proof.
    intros (Hs & Hn & Hp). split; [rewrite state_ok_sorted; exact Hs|]. split; [exact Hn|apply parseable_sorted; exact Hp].
  Qed.

  Lemma step_text_ok_sorted t : step_text_ok num_text t -> step_text_ok num_text (sort_triplet t).
  Proof.
    intros (Hc & Hs & Hn). split; [exact Hc|]. split; [cbn [sort_triplet t_post]; rewrite state_ok_sorted; exact Hs|exact Hn].
  Qed.

  Lemma step_ok_sorted t : step_ok dom num_text parse_num problem agents t -> step_ok dom num_text parse_num problem agents (sort_triplet t).
  Proof.
    intros (Ha & Hi & Hd). split; [exact Ha|]. split; [exact Hi|apply den_ok_sorted; exact Hd].
  Qed.

  Lemma chain_from_sorted ts : forall p, chain_from p ts -> chain_from (sort_facts p) (map sort_triplet ts).
  Proof.
    induction ts as [|t ts IH]; intros p C; [exact I|]. destruct C as (S & C). cbn [map chain_from]. split.
    - cbn [sort_triplet t_pre]. eapply State_same_trans; [apply den_sorted|].
      eapply State_same_trans; [exact S|apply State_same_sym, den_sorted].
    - apply (IH (t_post t) C).
  Qed.

  (* ---------- C10_export_parses ---------- *)
  Theorem parse_export_sorted m t0 ts :
    state_ok (t_pre t0) = true -> nums_clean num_text (t_pre t0) -> Forall (step_text_ok num_text) (t0 :: ts) ->
    exists text, export_text num_text (t0 :: ts) = Ok text /\
                 parse m (s2t text) = Ok (traj_sexp num_text (sort_triplet t0) (map sort_triplet ts)).
  Proof.
    intros Hs Hn Hst. rewrite export_sorted. cbn [map]. apply parse_export.
    - cbn [sort_triplet t_pre]. rewrite state_ok_sorted. exact Hs.
    - exact Hn.
    - change (sort_triplet t0 :: map sort_triplet ts) with (map sort_triplet (t0 :: ts)).
      apply Forall_forall. intros t Ht. apply in_map_iff in Ht as (t' & <- & Ht'). apply step_text_ok_sorted.
      rewrite Forall_forall in Hst. exact (Hst t' Ht').
  Qed.

  (* ---------- C10_roundtrip ---------- *)
  Theorem roundtrip_sorted m t0 ts strict :
    (strict = true -> st_init (t_pre t0) = true) ->
    den_ok dom num_text parse_num problem (t_pre t0) -> nums_clean num_text (t_pre t0) ->
    Forall (step_text_ok num_text) (t0 :: ts) -> Forall (step_ok dom num_text parse_num problem agents) (t0 :: ts) ->
    chain_from (t_post t0) ts ->
    exists text tree O,
      export_text num_text (t0 :: ts) = Ok text /\ parse m (s2t text) = Ok tree /\
      parse_trajectory dom parse_num problem agents strict tree = Ok O /\
      List.length (ob_components O) = List.length (t0 :: ts) /\
      Forall2 (fun t c => ocall_calls (oc_call c) = tact_calls (t_act t) /\
                          State_same (den (oc_prev c)) (den (t_pre t)) /\
                          State_same (den (oc_next c)) (den (t_post t))) (t0 :: ts) (ob_components O) /\
      obs_chain num_text (ob_components O) /\
      (forall objs, problem = Some objs -> ob_objects O = objs).
  Proof.
    intros Hstrict Hd Hc Htxt Hst Hch.
    destruct (roundtrip dom num_text parse_num problem agents m (sort_triplet t0) (map sort_triplet ts) strict)
      as (text & tree & O & Et & Pt & PO & Len & F2 & Ch & Ob).
    - exact Hstrict.
    - apply den_ok_sorted. exact Hd.
    - exact Hc.
    - change (sort_triplet t0 :: map sort_triplet ts) with (map sort_triplet (t0 :: ts)).
      apply Forall_forall. intros t Ht. apply in_map_iff in Ht as (t' & <- & Ht'). apply step_text_ok_sorted.
      rewrite Forall_forall in Htxt. exact (Htxt t' Ht').
    - change (sort_triplet t0 :: map sort_triplet ts) with (map sort_triplet (t0 :: ts)).
      apply Forall_forall. intros t Ht. apply in_map_iff in Ht as (t' & <- & Ht'). apply step_ok_sorted.
      rewrite Forall_forall in Hst. exact (Hst t' Ht').
    - exact (chain_from_sorted ts (t_post t0) Hch).
    - exists text, tree, O. split; [rewrite export_sorted; exact Et|]. split; [exact Pt|]. split; [exact PO|].
      split; [rewrite Len; cbn [List.length]; rewrite map_length; reflexivity|]. split; [|split; [exact Ch|exact Ob]].
      change (sort_triplet t0 :: map sort_triplet ts) with (map sort_triplet (t0 :: ts)) in F2.
      clear - F2. revert F2. generalize (ob_components O) as cs. generalize (t0 :: ts) as l.
      induction l as [|t l IH]; intros cs F2; inversion F2 as [|? c ? cs' (E & Sp & Sn) F2']; subst; constructor.
      + split; [exact E|]. split.
        * eapply State_same_trans; [exact Sp|apply den_sorted].
        * eapply State_same_trans; [exact Sn|apply den_sorted].
      + apply IH. exact F2'.
  Qed.

  (* ---------- C10_roundtrip_deduced_objects ---------- *)
  Theorem roundtrip_deduced_objects_sorted strict t0 ts O :
    state_ok (t_pre t0) = true -> parseable dom None (t_pre t0) ->
    parse_trajectory dom parse_num None agents strict (traj_sexp num_text (sort_triplet t0) (map sort_triplet ts)) = Ok O ->
    (forall a o, In a (den_facts (t_pre t0)) -> In o (snd a) -> dmem (ob_objects O) o = true) /\
    (forall a o, In a (map fst (den_fluents (t_pre t0))) -> In o (snd a) -> dmem (ob_objects O) o = true).
  Proof.
    intros Hs Hp E.
    destruct (roundtrip_deduced_objects dom num_text parse_num agents strict (sort_triplet t0) (map sort_triplet ts) O) as (A & B).
    - cbn [sort_triplet t_pre]. rewrite state_ok_sorted. exact Hs.
    - cbn [sort_triplet t_pre]. destruct Hp as (Pf & Pl & Nd). split; [|split; [exact Pl|exact Nd]].
      eapply Permutation_Forall; [apply Permutation_sym, den_facts_sorted|exact Pf].
    - exact E.
    - split; [|exact B]. intros a o Ha Ho. apply (A a o); [|exact Ho].
      cbn [sort_triplet t_pre]. exact (Permutation_in _ (Permutation_sym (den_facts_sorted (t_pre t0))) Ha).
  Qed.

  (* ---------- the library's reader on State.serialize (C14_library_readback_partial) ---------- *)
  Theorem library_readback_sorted m s :
    state_ok s = true -> nums_clean num_text s -> (forall x, In x (values s) -> num_ok num_text parse_num x) ->
    parseable dom problem s ->
    exists e s', parse m (s2t (serialize num_text s)) = Ok (SList (Atom (head_tok s) :: e)) /\
                 parse_state dom parse_num problem e = Ok s' /\ State_same (den s') (den s).
  Proof.
    intros Hs Hc Hn Hp. rewrite serialize_sorted.
    destruct (library_readback dom num_text parse_num problem m (sort_facts s)) as (e & s' & P & Q & S);
      [rewrite state_ok_sorted; exact Hs|exact Hc|exact Hn|apply parseable_sorted; exact Hp|].
    exists e, s'. split; [exact P|]. split; [exact Q|]. eapply State_same_trans; [exact S|apply den_sorted].
  Qed.
End Sorted.
