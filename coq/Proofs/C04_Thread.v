(* The loop shared by TrajectoryExporter.parse_plan and MultiAgentTrajectoryExporter.parse_plan:
     previous = init; for line in lines: t = make(previous, line); out.append(t); previous = next(t)
   as the left fold the models use, its recursive reading, and the four facts every such loop satisfies:
   one element per line, the first starts from init, each starts where the preceding one ended, and the k-th element is
   what make returns for the k-th line.  Proved once, by induction on the list of lines (any length). *)
From Coq Require Import List Arith Lia.
From Verif Require Import Base.Result.
Import ListNotations.

Section Thread.
  Variables T L S : Type.
  Variable mk : nat -> S -> L -> result T.        (* line number, previous state, line *)
  Variable nxt : T -> S.
  Variable prv : T -> S.
  Hypothesis mk_prv : forall i s l t, mk i s l = Ok t -> prv t = s.

  Definition tstep (acc : list T * S * nat) (l : L) : result (list T * S * nat) :=
    let '(ts, prev, i) := acc in
    do t <- mk i prev l;
    Ok (ts ++ [t], nxt t, Datatypes.S i).

  Fixpoint thread (i : nat) (prev : S) (ls : list L) : result (list T) :=
    match ls with
    | [] => Ok []
    | l :: r => do t <- mk i prev l; do ts <- thread (Datatypes.S i) (nxt t) r; Ok (t :: ts)
    end.

  Lemma foldM_thread ls : forall acc prev i,
    (do r <- foldM tstep ls (acc, prev, i); Ok (fst (fst r))) = (do ts <- thread i prev ls; Ok (acc ++ ts)).
  Proof.
    induction ls as [|l r IH]; intros acc prev i; simpl.
    - rewrite app_nil_r. reflexivity.
    - destruct (mk i prev l) as [t|k] eqn:E; simpl; [|reflexivity].
      rewrite IH. destruct (thread (Datatypes.S i) (nxt t) r) as [ts|k]; simpl; [|reflexivity].
      rewrite <- app_assoc. reflexivity.
  Qed.

  Lemma foldM_thread0 ls prev :
    (do r <- foldM tstep ls ([], prev, 0); Ok (fst (fst r))) = thread 0 prev ls.
  Proof. rewrite foldM_thread. destruct (thread 0 prev ls); reflexivity. Qed.

  Inductive threaded : nat -> S -> list L -> list T -> Prop :=
  | th_nil : forall i s, threaded i s [] []
  | th_cons : forall i s l r t ts,
      mk i s l = Ok t -> threaded (Datatypes.S i) (nxt t) r ts -> threaded i s (l :: r) (t :: ts).

  Lemma thread_threaded ls : forall i prev ts, thread i prev ls = Ok ts <-> threaded i prev ls ts.
  Proof.
    induction ls as [|l r IH]; intros i prev ts; simpl.
    - split; intros H; [inversion H; constructor | inversion H; reflexivity].
    - split; intros H.
      + destruct (mk i prev l) as [t|k] eqn:E; simpl in H; [|discriminate].
        destruct (thread (Datatypes.S i) (nxt t) r) as [ts'|k] eqn:E2; simpl in H; [|discriminate].
        inversion H; subst. constructor; [exact E | apply IH; exact E2].
      + inversion H as [|i' s' l' r' t ts' Hmk Hth]; subst. rewrite Hmk. simpl.
        apply IH in Hth. rewrite Hth. reflexivity.
  Qed.

  (* the first failing line is the error of the whole loop *)
  Lemma thread_error_first i prev l r k : mk i prev l = Err k -> thread i prev (l :: r) = Err k.
  Proof. intros H. simpl. rewrite H. reflexivity. Qed.

  Lemma threaded_length i s ls ts : threaded i s ls ts -> List.length ts = List.length ls.
  Proof. induction 1; simpl; congruence. Qed.

  Lemma threaded_first i s ls ts t : threaded i s ls ts -> hd_error ts = Some t -> prv t = s.
  Proof. intros H. destruct H; simpl; intros E; [discriminate|]. inversion E; subst. eapply mk_prv; eassumption. Qed.

  Lemma threaded_chain i s ls ts : threaded i s ls ts ->
    forall k t u, nth_error ts k = Some t -> nth_error ts (Datatypes.S k) = Some u -> prv u = nxt t.
  Proof.
    induction 1 as [|i s l r t ts Hmk Hth IH]; intros k a b Ha Hb.
    - destruct k; discriminate.
    - destruct k as [|k]; simpl in Ha, Hb.
      + inversion Ha; subst. apply (threaded_first _ _ _ _ b Hth). destruct ts; simpl in *; [discriminate | exact Hb].
      + eapply IH; eassumption.
  Qed.

  Lemma threaded_step i s ls ts : threaded i s ls ts ->
    forall k t, nth_error ts k = Some t -> exists l, nth_error ls k = Some l /\ mk (i + k) (prv t) l = Ok t.
  Proof.
    induction 1 as [|i s l r t ts Hmk Hth IH]; intros k a Ha.
    - destruct k; discriminate.
    - destruct k as [|k]; simpl in Ha.
      + inversion Ha; subst. exists l. split; [reflexivity|]. rewrite Nat.add_0_r.
        rewrite (mk_prv _ _ _ _ Hmk). exact Hmk.
      + destruct (IH k a Ha) as [l' [Hl Hm]]. exists l'. split; [exact Hl|].
        replace (i + Datatypes.S k) with (Datatypes.S i + k) by lia. exact Hm.
  Qed.

  Lemma threaded_lines i s ls ts : threaded i s ls ts ->
    forall k l, nth_error ls k = Some l -> exists t, nth_error ts k = Some t.
  Proof.
    induction 1 as [|i s l r t ts Hmk Hth IH]; intros k a Ha.
    - destruct k; discriminate.
    - destruct k as [|k]; simpl in *; [eexists; reflexivity | eapply IH; eassumption].
  Qed.
End Thread.

(* ---------- the loop over a concatenation; the first failing line decides ---------- *)
Section ThreadApp.
  Variables T L S : Type.
  Variable mk : nat -> S -> L -> result T.
  Variable nxt : T -> S.

  Fixpoint end_state (s : S) (ts : list T) : S :=
    match ts with [] => s | t :: r => end_state (nxt t) r end.

  Lemma thread_app l1 : forall i s l2,
    thread T L S mk nxt i s (l1 ++ l2) =
    (do ts1 <- thread T L S mk nxt i s l1;
     do ts2 <- thread T L S mk nxt (i + List.length l1) (end_state s ts1) l2;
     Ok (ts1 ++ ts2)).
  Proof.
    induction l1 as [|l r IH]; intros i s l2; simpl.
    - rewrite Nat.add_0_r. destruct (thread T L S mk nxt i s l2); reflexivity.
    - destruct (mk i s l) as [t|k]; simpl; [|reflexivity].
      rewrite IH. destruct (thread T L S mk nxt (Datatypes.S i) (nxt t) r) as [ts1|k]; simpl; [|reflexivity].
      replace (i + Datatypes.S (List.length r)) with (Datatypes.S (i + List.length r)) by lia.
      change (Datatypes.S i + List.length r) with (Datatypes.S (i + List.length r)).
      destruct (thread T L S mk nxt (Datatypes.S (i + List.length r)) (end_state (nxt t) ts1) l2); reflexivity.
  Qed.

  (* lines before a failing one do not matter: the loop raises that line's error *)
  Lemma thread_fails_at l1 l l2 i s ts1 k :
    thread T L S mk nxt i s l1 = Ok ts1 ->
    mk (i + List.length l1) (end_state s ts1) l = Err k ->
    thread T L S mk nxt i s (l1 ++ l :: l2) = Err k.
  Proof. intros H1 H2. rewrite thread_app, H1. simpl. rewrite H2. reflexivity. Qed.
End ThreadApp.
