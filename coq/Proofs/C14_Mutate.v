(* C14, wave 3: a state changed IN PLACE through its public attributes (Model/State.v: discard_fact, add_fact) is, for
   the model's ==, the state with the new contents: removing a fact a state holds makes it unequal to what it was (and to
   every copy taken before), putting the fact back makes it equal again.  The model is a function of the contents at the
   moment of the call; that the implementation is one too is what the observe-mutate-observe groups of the
   correspondence check (harness/props/c14.py: omo_input). *)
From Coq Require Import List Ascii String Bool Arith PrimFloat Permutation.
From Verif Require Import Base.Result Base.Str Base.Sexp Base.PyDict Base.Float Model.State
  Proofs.C14_Text Proofs.C14_Eq Proofs.C14_Main.
Import ListNotations.
Open Scope string_scope.
Open Scope list_scope.

Definition keeps (t : string) (x : string) : bool := negb (String.eqb x t).

Lemma map_filter_texts t (l : list gpred) :
  map gp_untyped (filter (fun g => negb (String.eqb (gp_untyped g) t)) l) = filter (keeps t) (map gp_untyped l).
Proof.
  induction l as [|g l IH]; [reflexivity|]. cbn [filter map]. unfold keeps at 1.
  destruct (negb (String.eqb (gp_untyped g) t)); cbn [map]; rewrite IH; reflexivity.
Qed.

Lemma discard_all_preds t s :
  all_preds (discard_fact t s) = filter (fun g => negb (String.eqb (gp_untyped g) t)) (all_preds s).
Proof.
  unfold all_preds, discard_fact. cbn [st_preds]. induction (st_preds s) as [|kv d IH]; [reflexivity|].
  cbn [map flat_map fst snd]. rewrite IH, filter_app. reflexivity.
Qed.

Lemma discard_fact_texts t s : fact_texts (discard_fact t s) = filter (keeps t) (fact_texts s).
Proof. unfold fact_texts. rewrite discard_all_preds. apply map_filter_texts. Qed.

Lemma in_keeps t x l : In x (filter (keeps t) l) <-> In x l /\ x <> t.
Proof.
  rewrite filter_In. unfold keeps. rewrite negb_true_iff, String.eqb_neq. tauto.
Qed.

Section Mutate.
  Variable num_text : float -> string.

  Lemma discard_fluent_texts t s : fluent_texts num_text (discard_fact t s) = fluent_texts num_text s.
  Proof. reflexivity. Qed.

  (* removing a fact the state holds: unequal, both ways *)
  Theorem discard_unequal t s : In t (fact_texts s) ->
    state_eq num_text (discard_fact t s) s = false /\ state_eq num_text s (discard_fact t s) = false.
  Proof.
    intros Hin.
    assert (H : state_eq num_text (discard_fact t s) s = false).
    { destruct (state_eq num_text (discard_fact t s) s) eqn:E; [|reflexivity].
      apply state_eq_iff in E as [Hf _]. rewrite discard_fact_texts in Hf.
      apply Hf in Hin. apply in_keeps in Hin as [_ Hne]. congruence. }
    split; [exact H|]. rewrite state_eq_sym. exact H.
  Qed.

  (* removing a fact the state does not hold: nothing changes *)
  Theorem discard_absent t s : ~ In t (fact_texts s) -> state_eq num_text (discard_fact t s) s = true.
  Proof.
    intros Hn. apply state_eq_iff. split; [|tauto]. intros x. rewrite discard_fact_texts, in_keeps.
    split; [tauto|]. intros Hx. split; [exact Hx|]. intros ->. tauto.
  Qed.

  (* adding a fact the state does not hold: unequal *)
  Theorem add_unequal key g s : gp_wf g -> all_wf (all_preds s) -> ~ In (gp_untyped g) (fact_texts s) ->
    state_eq num_text (add_fact key g s) s = false /\ state_eq num_text s (add_fact key g s) = false.
  Proof.
    intros Wg Ws Hn.
    assert (H : state_eq num_text (add_fact key g s) s = false).
    { destruct (state_eq num_text (add_fact key g s) s) eqn:E; [|reflexivity].
      apply state_eq_iff in E as [Hf _]. exfalso. apply Hn. apply Hf.
      unfold fact_texts, all_preds, add_fact. cbn [st_preds].
      apply (proj1 (preds_add_texts key g (st_preds s) Wg Ws)). right. reflexivity. }
    split; [exact H|]. rewrite state_eq_sym. exact H.
  Qed.

  (* ... and putting a removed fact back (under whatever key) restores equality with what the state was *)
  Theorem discard_add_back key g s : gp_wf g -> all_wf (all_preds s) -> In (gp_untyped g) (fact_texts s) ->
    state_eq num_text (add_fact key g (discard_fact (gp_untyped g) s)) s = true /\
    state_eq num_text s (add_fact key g (discard_fact (gp_untyped g) s)) = true.
  Proof.
    intros Wg Ws Hin.
    assert (Wd : all_wf (all_preds (discard_fact (gp_untyped g) s))).
    { rewrite discard_all_preds. unfold all_wf in *. rewrite Forall_forall in *. intros y Hy.
      apply filter_In in Hy as [Hy _]. apply Ws, Hy. }
    assert (H : state_eq num_text (add_fact key g (discard_fact (gp_untyped g) s)) s = true).
    { apply state_eq_iff. split; [|tauto]. intros x.
      pose proof (proj1 (preds_add_texts key g (st_preds (discard_fact (gp_untyped g) s)) Wg Wd) x) as P.
      change (In x (fact_texts (add_fact key g (discard_fact (gp_untyped g) s))) <->
              In x (fact_texts (discard_fact (gp_untyped g) s)) \/ x = gp_untyped g) in P.
      rewrite P, discard_fact_texts, in_keeps. split.
      - intros [[Hx _]| ->]; assumption.
      - intros Hx. destruct (String.eqb x (gp_untyped g)) eqn:E.
        + right. apply String.eqb_eq, E.
        + left. split; [exact Hx|apply String.eqb_neq, E]. }
    split; [exact H|]. rewrite state_eq_sym. exact H.
  Qed.

  (* a copy taken before the change keeps the old value: it is unequal to the changed original *)
  Corollary copy_then_discard t s : In t (fact_texts s) ->
    state_eq num_text (discard_fact t s) (state_copy s) = false /\
    state_eq num_text (state_copy s) (discard_fact t (state_copy s)) = false.
  Proof. intros Hin. rewrite state_copy_id. apply discard_unequal, Hin. Qed.
End Mutate.

(* ---------- state_fluents[key].set_value(x) ---------- *)
Lemma nodup_map_inj {A B} (g : A -> B) (l : list A) a b :
  NoDup (map g l) -> In a l -> In b l -> g a = g b -> a = b.
Proof.
  induction l as [|y l IH]; intros N Ha Hb E; [destruct Ha|].
  cbn [map] in N. inversion N as [|? ? Hn N']; subst.
  destruct Ha as [->|Ha], Hb as [->|Hb]; [reflexivity| | |apply IH; assumption].
  - exfalso. apply Hn. rewrite E. apply in_map, Hb.
  - exfalso. apply Hn. rewrite <- E. apply in_map, Ha.
Qed.

Definition with_value (x : float) (f : pfun) : pfun :=
  {| pf_name := pf_name f; pf_sig := pf_sig f; pf_val := x; pf_rep := pf_rep f; pf_int := false |}.

Section SetValue.
  Variable num_text : float -> string.

  Lemma set_value_texts key x s :
    fluent_texts num_text (set_fluent_value key x s) =
    map (fun kv => pf_state_text num_text (if String.eqb (fst kv) key then with_value x (snd kv) else snd kv)) (st_fluents s).
  Proof.
    unfold fluent_texts, set_fluent_value, dvalues. cbn [st_fluents]. rewrite !map_map. apply map_ext. intros [k f].
    cbn [fst snd]. destruct (String.eqb k key); reflexivity.
  Qed.

  Lemma with_value_text x f : pf_state_text num_text (with_value x f) = valued_text (pf_atom f) (num_text x).
  Proof. rewrite pf_state_text_valued by reflexivity. reflexivity. Qed.

  (* the datum it already holds (the same printed value): nothing changes *)
  Theorem set_value_same key x s :
    (forall f, In (key, f) (st_fluents s) -> pf_int f = false /\ num_text x = num_text (pf_val f)) ->
    state_eq num_text (set_fluent_value key x s) s = true.
  Proof.
    intros H. apply state_eq_iff. split; [tauto|].
    assert (E : fluent_texts num_text (set_fluent_value key x s) = fluent_texts num_text s).
    { rewrite set_value_texts. unfold fluent_texts, dvalues. rewrite map_map. apply map_ext_in. intros [k f] Hin.
      cbn [fst snd]. destruct (String.eqb k key) eqn:Ek; [|reflexivity]. apply String.eqb_eq in Ek. subst k.
      destruct (H f Hin) as [Hi Ht]. rewrite with_value_text, Ht. symmetry. apply pf_state_text_valued, Hi. }
    rewrite E. tauto.
  Qed.

  (* a value that prints differently (the other zero included): the state is unequal to what it was, both ways --
     every fluent a clean float-valued one, no ground fluent held twice *)
  Theorem set_value_unequal key x f s :
    forallb pf_ok (dvalues (st_fluents s)) = true -> NoDup (map pf_atom (dvalues (st_fluents s))) ->
    In (key, f) (st_fluents s) -> num_text x <> num_text (pf_val f) ->
    state_eq num_text (set_fluent_value key x s) s = false /\ state_eq num_text s (set_fluent_value key x s) = false.
  Proof.
    intros Hok Nd Hin Hne.
    assert (Hf : In f (dvalues (st_fluents s))) by (unfold dvalues; apply in_map_iff; exists (key, f); auto).
    assert (H : state_eq num_text (set_fluent_value key x s) s = false).
    { destruct (state_eq num_text (set_fluent_value key x s) s) eqn:E; [|reflexivity]. exfalso.
      apply state_eq_iff in E as [_ E].
      assert (T : In (valued_text (pf_atom f) (num_text x)) (fluent_texts num_text (set_fluent_value key x s))).
      { rewrite set_value_texts. apply in_map_iff. exists (key, f). cbn [fst snd]. rewrite String.eqb_refl.
        split; [apply with_value_text|exact Hin]. }
      apply E in T. unfold fluent_texts in T. apply in_map_iff in T as (f2 & E2 & Hf2).
      rewrite forallb_forall in Hok.
      rewrite pf_state_text_valued in E2 by (apply pf_ok_float, Hok, Hf2).
      apply valued_text_inj in E2 as [Ea En]; [|apply pf_ok_atom, Hok, Hf2|apply pf_ok_atom, Hok, Hf].
      assert (f2 = f) by (eapply nodup_map_inj; eauto). subst f2. congruence. }
    split; [exact H|]. rewrite state_eq_sym. exact H.
  Qed.
End SetValue.

(* the hypotheses are satisfiable: a state with two facts in one group, one of them removed and put back *)
Definition ex_g1 : gpred := {| gp_name := "p"; gp_sig := [("?x", "a")]; gp_map := [("?x", "o1")]; gp_pos := true |}.
Definition ex_g2 : gpred := {| gp_name := "p"; gp_sig := [("?x", "a")]; gp_map := [("?x", "o2")]; gp_pos := true |}.
Definition ex_m : mstate := {| st_init := false; st_preds := [("(p ?x)", [ex_g1; ex_g2])]; st_fluents := [] |}.

Lemma ex_mutate_hypotheses :
  gp_wf ex_g1 /\ all_wf (all_preds ex_m) /\ In (gp_untyped ex_g1) (fact_texts ex_m) /\
  all_preds (discard_fact (gp_untyped ex_g1) ex_m) = [ex_g2] /\
  ~ In (gp_untyped ex_g1) (fact_texts (discard_fact (gp_untyped ex_g1) ex_m)).
Proof.
  assert (W1 : gp_wf ex_g1) by (split; [reflexivity|apply NoDup_cons; [simpl; tauto|apply NoDup_nil]]).
  assert (W2 : gp_wf ex_g2) by (split; [reflexivity|apply NoDup_cons; [simpl; tauto|apply NoDup_nil]]).
  split; [exact W1|]. split; [apply Forall_cons; [exact W1|apply Forall_cons; [exact W2|apply Forall_nil]]|]. split; [left; reflexivity|]. split; [reflexivity|].
  cbn. intros [H|[]]. discriminate H.
Qed.

(* set_value on Proofs/C14_Examples.ex_s: the fluent (g a a) = -0.0 is given the OTHER zero; the result is ex_u *)
From Verif Require Import Proofs.C14_Examples.

Lemma ex_set_value_hypotheses :
  forallb pf_ok (dvalues (st_fluents ex_s)) = true /\ NoDup (map pf_atom (dvalues (st_fluents ex_s))) /\
  In ("(g a)", ex_pf "g" [("a", "t")] (-0) [("a", 2)]) (st_fluents ex_s) /\
  ex_num_text 0 <> ex_num_text (-0) /\ set_fluent_value "(g a)" 0 ex_s = ex_u.
Proof.
  split; [vm_compute; reflexivity|]. split.
  { cbn. repeat constructor; cbn; intuition discriminate. }
  split; [right; left; reflexivity|]. split; [vm_compute; discriminate|reflexivity].
Qed.
