(* C14, wave 3: a state changed IN PLACE through its public attributes (Model/State.v: discard_fact, add_fact) is, for
   the model's ==, the state with the new contents: removing a fact a state holds makes it unequal to what it was (and to
   every copy taken before), putting the fact back makes it equal again.  The model is a function of the contents at the
   moment of the call; that the implementation is one too is what the observe-mutate-observe groups of the
   correspondence check (harness/props/c14.py: omo_input). *)
From Coq Require Import List Ascii String Bool Arith PrimFloat Permutation.
From Verif Require Import Base.Result Base.Str Base.Sexp Base.PyDict Base.Float Model.State
  Proofs.C14_Eq Proofs.C14_Main.
Import ListNotations.
Open Scope string_scope.
Open Scope list_scope.

Definition keeps (t : string) (x : string) : bool := negb (String.eqb x t).

Lemma map_filter_texts t (l : list gpred) :
  map gp_untyped (filter (fun g => negb (String.eqb (gp_untyped g) t)) l) = filter (keeps t) (map gp_untyped l).
Proof.
  induction l as [|g l IH]; [reflexivity|]. cbn [filter map]. unfold keeps at 1.
  destruct (negb (String.eqb (gp_untyped g) t)); cbn [map]; rewrite IH; reflexivity.
Qed.

Lemma discard_all_preds t s :
  all_preds (discard_fact t s) = filter (fun g => negb (String.eqb (gp_untyped g) t)) (all_preds s).
Proof.
  unfold all_preds, discard_fact. cbn [st_preds]. induction (st_preds s) as [|kv d IH]; [reflexivity|].
  cbn [map flat_map fst snd]. rewrite IH, filter_app. reflexivity.
Qed.

Lemma discard_fact_texts t s : fact_texts (discard_fact t s) = filter (keeps t) (fact_texts s).
Proof. unfold fact_texts. rewrite discard_all_preds. apply map_filter_texts. Qed.

Lemma in_keeps t x l : In x (filter (keeps t) l) <-> In x l /\ x <> t.
Proof.
  rewrite filter_In. unfold keeps. rewrite negb_true_iff, String.eqb_neq. tauto.
Qed.

Section Mutate.
  Variable num_text : float -> string.

  Lemma discard_fluent_texts t s : fluent_texts num_text (discard_fact t s) = fluent_texts num_text s.
  Proof. reflexivity. Qed.

  (* removing a fact the state holds: unequal, both ways *)
  Theorem discard_unequal t s : In t (fact_texts s) ->
    state_eq num_text (discard_fact t s) s = false /\ state_eq num_text s (discard_fact t s) = false.
  Proof.
    intros Hin.
    assert (H : state_eq num_text (discard_fact t s) s = false).
    { destruct (state_eq num_text (discard_fact t s) s) eqn:E; [|reflexivity].
      apply state_eq_iff in E as [Hf _]. rewrite discard_fact_texts in Hf.
      apply Hf in Hin. apply in_keeps in Hin as [_ Hne]. congruence. }
    split; [exact H|]. rewrite state_eq_sym. exact H.
  Qed.

  (* removing a fact the state does not hold: nothing changes *)
  Theorem discard_absent t s : ~ In t (fact_texts s) -> state_eq num_text (discard_fact t s) s = true.
  Proof.
    intros Hn. apply state_eq_iff. split; [|tauto]. intros x. rewrite discard_fact_texts, in_keeps.
    split; [tauto|]. intros Hx. split; [exact Hx|]. intros ->. tauto.
  Qed.

  (* adding a fact the state does not hold: unequal *)
  Theorem add_unequal key g s : gp_wf g -> all_wf (all_preds s) -> ~ In (gp_untyped g) (fact_texts s) ->
    state_eq num_text (add_fact key g s) s = false /\ state_eq num_text s (add_fact key g s) = false.
  Proof.
    intros Wg Ws Hn.
    assert (H : state_eq num_text (add_fact key g s) s = false).
    { destruct (state_eq num_text (add_fact key g s) s) eqn:E; [|reflexivity].
      apply state_eq_iff in E as [Hf _]. exfalso. apply Hn. apply Hf.
      unfold fact_texts, all_preds, add_fact. cbn [st_preds].
      apply (proj1 (preds_add_texts key g (st_preds s) Wg Ws)). right. reflexivity. }
    split; [exact H|]. rewrite state_eq_sym. exact H.
  Qed.

  (* ... and putting a removed fact back (under whatever key) restores equality with what the state was *)
  Theorem discard_add_back key g s : gp_wf g -> all_wf (all_preds s) -> In (gp_untyped g) (fact_texts s) ->
    state_eq num_text (add_fact key g (discard_fact (gp_untyped g) s)) s = true /\
    state_eq num_text s (add_fact key g (discard_fact (gp_untyped g) s)) = true.
  Proof.
    intros Wg Ws Hin.
    assert (Wd : all_wf (all_preds (discard_fact (gp_untyped g) s))).
    { rewrite discard_all_preds. unfold all_wf in *. rewrite Forall_forall in *. intros y Hy.
      apply filter_In in Hy as [Hy _]. apply Ws, Hy. }
    assert (H : state_eq num_text (add_fact key g (discard_fact (gp_untyped g) s)) s = true).
    { apply state_eq_iff. split; [|tauto]. intros x.
      pose proof (proj1 (preds_add_texts key g (st_preds (discard_fact (gp_untyped g) s)) Wg Wd) x) as P.
      change (In x (fact_texts (add_fact key g (discard_fact (gp_untyped g) s))) <->
              In x (fact_texts (discard_fact (gp_untyped g) s)) \/ x = gp_untyped g) in P.
      rewrite P, discard_fact_texts, in_keeps. split.
      - intros [[Hx _]| ->]; assumption.
      - intros Hx. destruct (String.eqb x (gp_untyped g)) eqn:E.
        + right. apply String.eqb_eq, E.
        + left. split; [exact Hx|apply String.eqb_neq, E]. }
    split; [exact H|]. rewrite state_eq_sym. exact H.
  Qed.

  (* a copy taken before the change keeps the old value: it is unequal to the changed original *)
  Corollary copy_then_discard t s : In t (fact_texts s) ->
    state_eq num_text (discard_fact t s) (state_copy s) = false /\
    state_eq num_text (state_copy s) (discard_fact t (state_copy s)) = false.
  Proof. intros Hin. rewrite state_copy_id. apply discard_unequal, Hin. Qed.
End Mutate.

(* the hypotheses are satisfiable: a state with two facts in one group, one of them removed and put back *)
Definition ex_g1 : gpred := {| gp_name := "p"; gp_sig := [("?x", "a")]; gp_map := [("?x", "o1")]; gp_pos := true |}.
Definition ex_g2 : gpred := {| gp_name := "p"; gp_sig := [("?x", "a")]; gp_map := [("?x", "o2")]; gp_pos := true |}.
Definition ex_m : mstate := {| st_init := false; st_preds := [("(p ?x)", [ex_g1; ex_g2])]; st_fluents := [] |}.

Lemma ex_mutate_hypotheses :
  gp_wf ex_g1 /\ all_wf (all_preds ex_m) /\ In (gp_untyped ex_g1) (fact_texts ex_m) /\
  all_preds (discard_fact (gp_untyped ex_g1) ex_m) = [ex_g2] /\
  ~ In (gp_untyped ex_g1) (fact_texts (discard_fact (gp_untyped ex_g1) ex_m)).
Proof.
  assert (W1 : gp_wf ex_g1) by (split; [reflexivity|apply NoDup_cons; [simpl; tauto|apply NoDup_nil]]).
  assert (W2 : gp_wf ex_g2) by (split; [reflexivity|apply NoDup_cons; [simpl; tauto|apply NoDup_nil]]).
  split; [exact W1|]. split; [apply Forall_cons; [exact W1|apply Forall_cons; [exact W2|apply Forall_nil]]|]. split; [left; reflexivity|]. split; [reflexivity|].
  cbn. intros [H|[]]. discriminate H.
Qed.
