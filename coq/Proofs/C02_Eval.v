(* C02 (reusable by C03/C04/C16): the model's evaluators of lifted and of grounded conditions compute [holds].

   Main results (section Eval):
     eval_lifted_spec   eval_lifted  d eps oo s pm p = if fdiv0 .. phi then Err EOther else Ok (holds .. e s phi)
     eval_g_lifted      ground_pre d pm p = Ok g -> eval_g d eps oo s g = eval_lifted d eps oo s pm p
     eval_g_spec        the two composed: the grounded condition evaluates to [holds] of the denoted formula
   where oo is the optional object table: with [Some objs] for every formula, with [None] (an operator built
   without problem objects) for forall-free formulas only; [eval_none_refuted] shows the latter restriction is needed. *)
From Coq Require Import List Ascii String Bool Arith PrimFloat Lia.
From Verif Require Import Base.Result Base.Str Base.PyDict Model.Types Model.Domain Model.Exec Spec.Pddl Spec.Subst
  Proofs.C02_Sub Proofs.C20_Defs Proofs.C20_Subst.
Import ListNotations.
Open Scope string_scope.
Open Scope list_scope.

Lemma Forall2_len {A B} (R : A -> B -> Prop) (l : list A) (l' : list B) :
  Forall2 R l l' -> List.length l = List.length l'.
Proof. intros H. induction H; simpl; [reflexivity|]. rewrite IHForall2. reflexivity. Qed.

(* ---------- environments ---------- *)
Definition env_agree (pm : pmap) (e : env) : Prop := forall k, dget pm k = lookup k e.

Lemma env_agree_refl (pm : pmap) : env_agree pm pm.
Proof. intros k. apply dget_lookup. Qed.

Lemma env_agree_subst pm e t : env_agree pm e -> subst pm t = subst e t.
Proof. intros H. rewrite subst_unfold. unfold subst. rewrite (H t). reflexivity. Qed.

Lemma env_agree_dset pm e v o : env_agree pm e -> env_agree (dset pm v o) ((v, o) :: e).
Proof.
  intros H k. simpl. destruct (String.eqb k v) eqn:E.
  - apply String.eqb_eq in E. subst k. apply dget_dset_same.
  - rewrite dget_dset_other; [apply H|]. intros ->. rewrite String.eqb_refl in E. discriminate.
Qed.

Lemma dmem_dset {V} (d : pydict V) v (o : V) t : dmem (dset d v o) t = String.eqb t v || dmem d t.
Proof.
  unfold dmem. destruct (String.eqb t v) eqn:E; simpl.
  - apply String.eqb_eq in E. subst t. rewrite dget_dset_same. reflexivity.
  - rewrite dget_dset_other; [reflexivity|]. intros ->. rewrite String.eqb_refl in E. discriminate.
Qed.

(* scopes are compared by membership only *)
Definition scope_of (scope : list string) (pm : pmap) : Prop := forall t, str_in t scope = dmem pm t.

Lemma scope_of_dkeys pm : scope_of (dkeys pm) pm.
Proof. intros t. apply str_in_dkeys. Qed.

Lemma scope_of_dset scope pm v o : scope_of scope pm -> scope_of (v :: scope) (dset pm v o).
Proof. intros H t. simpl. rewrite dmem_dset, (H t). reflexivity. Qed.

(* no constant is a key of the map *)
Definition nsh (consts : pydict string) (pm : pmap) : Prop := forall k, dmem consts k = true -> dget pm k = None.

Lemma nsh_dset consts pm v o : nsh consts pm -> dmem consts v = false -> nsh consts (dset pm v o).
Proof.
  intros H Hv k Hk. rewrite dget_dset_other; [apply H; exact Hk|].
  intros ->. rewrite Hv in Hk. discriminate.
Qed.

Lemma nsh_of_no_shadow consts pm : no_shadow consts (dkeys pm) = true -> nsh consts pm.
Proof.
  intros H k Hk. destruct (dget pm k) as [o|] eqn:E; [|reflexivity]. exfalso.
  assert (Hin : In k (dkeys pm)).
  { apply str_in_In. rewrite str_in_dkeys. unfold dmem. rewrite E. reflexivity. }
  rewrite (no_shadow_in _ _ _ H Hin) in Hk. discriminate.
Qed.

Lemma gname_nsh consts pm t : nsh consts pm -> gname consts pm t = subst pm t.
Proof.
  intros H. unfold gname. destruct (dmem consts t) eqn:E; [|reflexivity].
  symmetry. apply subst_dget_none. apply H. exact E.
Qed.

Lemma no_shadow_app consts a b : no_shadow consts (a ++ b) = no_shadow consts a && no_shadow consts b.
Proof. unfold no_shadow. apply forallb_app. Qed.

(* ---------- [ok] predicates only look at scope membership ---------- *)
Section OkExt.
  Variable dom : mdomain.

  Lemma resolvable_scope scope pm t : scope_of scope pm -> resolvable dom scope t = resolvable dom (dkeys pm) t.
  Proof. intros H. unfold resolvable. rewrite (H t), str_in_dkeys. reflexivity. Qed.

  Lemma lit_ok_scope scope pm p args : scope_of scope pm -> lit_ok dom scope p args = lit_ok dom (dkeys pm) p args.
  Proof.
    intros H. unfold lit_ok. destruct (dget (d_preds dom) p); [|reflexivity]. f_equal.
    apply forallb_ext_in. intros t _. apply resolvable_scope. exact H.
  Qed.

  Lemma tree_ok_scope scope pm t : scope_of scope pm -> tree_ok dom scope t = tree_ok dom (dkeys pm) t.
  Proof.
    intros H. induction t as [x|f args|op l IHl r IHr]; simpl; [reflexivity| |rewrite IHl, IHr; reflexivity].
    apply forallb_ext_in. intros t _. apply resolvable_scope. exact H.
  Qed.

  Lemma pairs_ok_scope scope pm l : scope_of scope pm -> pairs_ok scope l = pairs_ok (dkeys pm) l.
  Proof.
    intros H. unfold pairs_ok. apply forallb_ext_in. intros [a b] _. simpl.
    rewrite (H a), (H b), !str_in_dkeys. reflexivity.
  Qed.
End OkExt.

(* ---------- denotation: equation lemmas ---------- *)
Definition is_some {A} (o : option A) : bool := match o with Some _ => true | None => false end.
Definition opt_list {A} (o : option A) : list A := match o with Some x => [x] | None => [] end.

Definition denote_conds : list mcond -> list (option form) :=
  fix go (l : list mcond) : list (option form) :=
    match l with [] => [] | c :: r => denote_cond c :: go r end.

Lemma denote_conds_cons c r : denote_conds (c :: r) = denote_cond c :: denote_conds r.
Proof. reflexivity. Qed.

Definition eq_forms (eqs neqs : list (string * string)) : list form :=
  map (fun ab => FEq (fst ab) (snd ab)) eqs ++ map (fun ab => FNeq (fst ab) (snd ab)) neqs.

Lemma denote_pre_eq op os eqs neqs :
  denote_pre (MPre op os eqs neqs) =
  let parts := map (fun ab => Some (FEq (fst ab) (snd ab))) eqs ++
               map (fun ab => Some (FNeq (fst ab) (snd ab))) neqs ++ denote_conds os in
  if forallb is_some parts then
    Some (if String.eqb op "or" then FOr (flat_map opt_list parts) else FAnd (flat_map opt_list parts))
  else None.
Proof. reflexivity. Qed.

Lemma flat_map_some {A B} (g : A -> B) (l : list A) : flat_map opt_list (map (fun x => Some (g x)) l) = map g l.
Proof. induction l as [|x r IH]; simpl; [reflexivity|]. rewrite IH. reflexivity. Qed.

Lemma forallb_some {A B} (g : A -> B) (l : list A) : forallb is_some (map (fun x => Some (g x)) l) = true.
Proof. induction l as [|x r IH]; simpl; [reflexivity|exact IH]. Qed.

(* the operand forms, when every operand denotes *)
Lemma denote_conds_all os :
  forallb is_some (denote_conds os) = true ->
  exists fs, Forall2 (fun c f => denote_cond c = Some f) os fs /\ flat_map opt_list (denote_conds os) = fs.
Proof.
  induction os as [|c r IH]; intros H.
  - exists []. split; [constructor|reflexivity].
  - rewrite denote_conds_cons in H. simpl in H. apply andb_true_iff in H. destruct H as [Hc Hr].
    destruct (IH Hr) as [fs [HF Hfs]]. destruct (denote_cond c) as [f|] eqn:E; [|discriminate].
    exists (f :: fs). split; [constructor; assumption|]. rewrite denote_conds_cons, E. simpl. rewrite Hfs. reflexivity.
Qed.

Lemma denote_pre_inv op os eqs neqs phi :
  denote_pre (MPre op os eqs neqs) = Some phi ->
  exists fs, Forall2 (fun c f => denote_cond c = Some f) os fs /\
             phi = (if String.eqb op "or" then FOr (eq_forms eqs neqs ++ fs) else FAnd (eq_forms eqs neqs ++ fs)).
Proof.
  rewrite denote_pre_eq. cbv zeta. rewrite !forallb_app, !forallb_some. simpl.
  destruct (forallb is_some (denote_conds os)) eqn:E; [|discriminate].
  destruct (denote_conds_all os E) as [fs [HF Hfs]]. intros H. injection H as <-.
  exists fs. split; [exact HF|].
  rewrite !flat_map_app, !flat_map_some, Hfs. unfold eq_forms. rewrite <- app_assoc. reflexivity.
Qed.

Lemma denote_cond_lit pos p args : denote_cond (MLit pos p args) = Some (if pos then FAtom p args else FNotAtom p args).
Proof. destruct pos; reflexivity. Qed.
Lemma denote_cond_num t : denote_cond (MNum t) = denote_cmp t.
Proof. reflexivity. Qed.
Lemma denote_cond_nested q : denote_cond (MNested q) = denote_pre q.
Proof. reflexivity. Qed.
Lemma denote_cond_univ v ty body :
  denote_cond (MUniv v ty body) = match denote_pre body with Some f => Some (FForall v ty f) | None => None end.
Proof. reflexivity. Qed.

(* ---------- bound variables / ok: equation lemmas ---------- *)
Definition conds_bvars : list mcond -> list string :=
  fix go (l : list mcond) : list string := match l with [] => [] | c :: r => cond_bvars c ++ go r end.
Lemma conds_bvars_cons c r : conds_bvars (c :: r) = cond_bvars c ++ conds_bvars r.
Proof. reflexivity. Qed.
Lemma pre_bvars_eq op os eqs neqs : pre_bvars (MPre op os eqs neqs) = conds_bvars os.
Proof. reflexivity. Qed.

Section Eval.
  Variable dom : mdomain.
  Variable eps : float.
  Let consts := d_consts dom.
  Let tt : tytree := d_types dom.

  (* ---------- arithmetic ---------- *)
  Lemma calc_spec (s : state) (pm : pmap) (e : env) (t : mtree) : forall n g,
    denote_tree t = Some n -> env_agree pm e -> nsh consts pm ->
    ground_tree dom pm t = Ok g ->
    calc s g = if ndiv0 e s n then Err EOther else Ok (neval e s n).
  Proof.
    induction t as [x|f args|op l IHl r IHr]; intros n g Hd He Hn Hg; simpl in Hd.
    - injection Hd as <-. simpl in Hg. injection Hg as <-. reflexivity.
    - injection Hd as <-. rewrite (ground_tree_ok _ _ _ _ Hg). simpl.
      assert (Hm : map (gname (d_consts dom) pm) args = map (subst e) args).
      { apply map_ext. intros a. fold consts. rewrite (gname_nsh _ _ _ Hn). apply env_agree_subst. exact He. }
      rewrite Hm. reflexivity.
    - destruct (binop_of op) as [o|] eqn:Eo; [|discriminate].
      destruct (denote_tree l) as [a|] eqn:El; [|discriminate].
      destruct (denote_tree r) as [b|] eqn:Er; [|discriminate]. injection Hd as <-.
      simpl in Hg. apply bind_ok_inv in Hg. destruct Hg as [gl [Hgl Hg]].
      apply bind_ok_inv in Hg. destruct Hg as [gr [Hgr Hg]]. injection Hg as <-.
      simpl. rewrite (IHl _ _ eq_refl He Hn Hgl), (IHr _ _ eq_refl He Hn Hgr).
      destruct (ndiv0 e s a); simpl; [reflexivity|].
      destruct (ndiv0 e s b); simpl; [reflexivity|].
      rewrite Eo. destruct o; simpl; try reflexivity;
        try (unfold is_zero, fzero; destruct (neval e s b =? 0)%float; reflexivity).
  Qed.

  Lemma eval_cmp_spec (s : state) (pm : pmap) (e : env) (t : mtree) phi g :
    denote_cmp t = Some phi -> env_agree pm e -> nsh consts pm ->
    ground_tree dom pm t = Ok g ->
    forall objs, eval_cmp eps s g = if fdiv0 tt objs e s phi then Err EOther else Ok (holds eps tt objs e s phi).
  Proof.
    intros Hd He Hn Hg objs. destruct t as [x|f args|op l r]; simpl in Hd; try discriminate.
    destruct (cmpop_of op) as [c|] eqn:Ec; [|discriminate].
    destruct (denote_tree l) as [a|] eqn:El; [|discriminate].
    destruct (denote_tree r) as [b|] eqn:Er; [|discriminate]. injection Hd as <-.
    simpl in Hg. apply bind_ok_inv in Hg. destruct Hg as [gl [Hgl Hg]].
    apply bind_ok_inv in Hg. destruct Hg as [gr [Hgr Hg]]. injection Hg as <-.
    simpl. rewrite Ec.
    rewrite (calc_spec s pm e l a gl El He Hn Hgl), (calc_spec s pm e r b gr Er He Hn Hgr).
    destruct (ndiv0 e s a); simpl; [reflexivity|].
    destruct (ndiv0 e s b); reflexivity.
  Qed.

  (* ---------- folds ---------- *)
  Definition fold_conds (f : mcond -> result bool) (op : string) : list mcond -> bool -> result bool :=
    fix go (l : list mcond) (acc : bool) : result bool :=
      match l with
      | [] => Ok acc
      | c :: r => do b <- f c; go r (fold_op op acc b)
      end.

  Lemma fold_conds_cons f op c r acc :
    fold_conds f op (c :: r) acc = (do b <- f c; fold_conds f op r (fold_op op acc b)).
  Proof. reflexivity. Qed.

  Definition conn (op : string) (acc : bool) (bs : list bool) : bool :=
    if String.eqb op "or" then acc || existsb (fun b => b) bs else acc && forallb (fun b => b) bs.

  (* every operand is evaluated; an error anywhere is an error *)
  Lemma fold_conds_spec (f : mcond -> result bool) (op : string) (os : list mcond)
        (D B : list bool) :
    Forall2 (fun (c : mcond) (db : bool * bool) => f c = if fst db then Err EOther else Ok (snd db)) os (combine D B) ->
    List.length D = List.length os -> List.length B = List.length os ->
    forall acc, fold_conds f op os acc = if existsb (fun b => b) D then Err EOther else Ok (conn op acc B).
  Proof.
    revert D B. induction os as [|c r IH]; intros D B HF HD HB acc.
    - destruct D; [|discriminate]. destruct B; [|discriminate]. simpl. unfold conn.
      destruct (String.eqb op "or"); simpl; [rewrite orb_false_r|rewrite andb_true_r]; reflexivity.
    - destruct D as [|d D]; [discriminate|]. destruct B as [|b B]; [discriminate|].
      simpl in HF. inversion HF as [|? ? ? ? Hc Hr]; subst. simpl in Hc.
      rewrite fold_conds_cons, Hc. destruct d; simpl; [reflexivity|].
      rewrite (IH D B Hr); [|simpl in HD; lia|simpl in HB; lia].
      destruct (existsb (fun b0 => b0) D); [reflexivity|]. f_equal. unfold conn, fold_op.
      destruct (String.eqb op "or"); simpl; [rewrite orb_assoc|rewrite andb_assoc]; reflexivity.
  Qed.

  Variable s : state.

  Lemma eval_lifted_eq oo pm op os eqs neqs :
    eval_lifted dom eps oo s pm (MPre op os eqs neqs) =
    (do geqs <- ground_pairs pm eqs; do gneqs <- ground_pairs pm neqs;
     fold_conds (eval_lifted_cond dom eps oo s pm) op os (seed_of op geqs gneqs)).
  Proof. reflexivity. Qed.

  Definition over_objs (f : string -> result bool) (ty : string) : objects -> bool -> result bool :=
    fix over (l : objects) (acc : bool) : result bool :=
      match l with
      | [] => Ok acc
      | (o, oty) :: r =>
          if is_sub_type (d_types dom) oty ty
          then do b <- f o; over r (acc && b)
          else over r acc
      end.

  Lemma over_objs_cons f ty o oty r acc :
    over_objs f ty ((o, oty) :: r) acc =
    if is_sub_type (d_types dom) oty ty then do b <- f o; over_objs f ty r (acc && b) else over_objs f ty r acc.
  Proof. reflexivity. Qed.

  Lemma eval_lifted_cond_univ oo pm v ty body :
    eval_lifted_cond dom eps oo s pm (MUniv v ty body) =
    match oo with
    | None => Ok true
    | Some os => over_objs (fun o => eval_lifted dom eps oo s (dset pm v o) body) ty os true
    end.
  Proof. destruct oo; reflexivity. Qed.

  Lemma eval_lifted_cond_lit oo pm pos p args :
    eval_lifted_cond dom eps oo s pm (MLit pos p args) =
    (do a <- ground_lit dom pm p args; Ok (if pos then atom_in a (facts s) else negb (atom_in a (facts s)))).
  Proof. reflexivity. Qed.
  Lemma eval_lifted_cond_num oo pm t :
    eval_lifted_cond dom eps oo s pm (MNum t) = (do g <- ground_tree dom pm t; eval_cmp eps s g).
  Proof. reflexivity. Qed.
  Lemma eval_lifted_cond_nested oo pm q :
    eval_lifted_cond dom eps oo s pm (MNested q) = eval_lifted dom eps oo s pm q.
  Proof. reflexivity. Qed.

  Lemma over_objs_spec (f : string -> result bool) (ty : string) (Dv Hv : string -> bool) (l : objects) :
    (forall o, In o (map fst (filter (fun x => subtypeb tt (snd x) ty) l)) ->
               f o = if Dv o then Err EOther else Ok (Hv o)) ->
    forall acc,
      over_objs f ty l acc =
      if existsb Dv (map fst (filter (fun x => subtypeb tt (snd x) ty) l)) then Err EOther
      else Ok (acc && forallb Hv (map fst (filter (fun x => subtypeb tt (snd x) ty) l))).
  Proof.
    induction l as [|[o oty] r IH]; intros Hf acc.
    - simpl. rewrite andb_true_r. reflexivity.
    - rewrite over_objs_cons. rewrite is_sub_type_subtypeb. fold tt. simpl.
      destruct (subtypeb tt oty ty) eqn:Es; simpl.
      + simpl in Hf. rewrite Es in Hf. simpl in Hf.
        rewrite (Hf o (or_introl eq_refl)). destruct (Dv o); simpl; [reflexivity|].
        rewrite IH; [|intros o' Ho'; apply Hf; right; exact Ho'].
        destruct (existsb Dv (map fst (filter (fun x => subtypeb tt (snd x) ty) r))); [reflexivity|].
        rewrite andb_assoc. reflexivity.
      + simpl in Hf. rewrite Es in Hf. apply IH. exact Hf.
  Qed.

  (* ---------- the main induction ---------- *)
  (* [oo]: the optional object table; without one only forall-free formulas are covered *)
  Definition objs_of (oo : option objects) : objects := match oo with Some os => os | None => [] end.
  Definition covers (oo : option objects) (phi : form) : Prop :=
    match oo with Some _ => True | None => forall_free phi = true end.

  Lemma covers_list oo (isor : bool) fs f :
    covers oo (if isor then FOr fs else FAnd fs) -> In f fs -> covers oo f.
  Proof.
    unfold covers. destruct oo; [trivial|]. intros H Hin.
    assert (H' : forallb forall_free fs = true) by (destruct isor; exact H).
    rewrite forallb_forall in H'. apply H'. exact Hin.
  Qed.

  Definition spec_of (oo : option objects) (e : env) (phi : form) : result bool :=
    if fdiv0 tt (objs_of oo) e s phi then Err EOther else Ok (holds eps tt (objs_of oo) e s phi).

  Lemma seed_spec objs pm e op eqs neqs :
    env_agree pm e ->
    seed_of op (subst_pairs pm eqs) (subst_pairs pm neqs) =
    (if String.eqb op "or" then existsb (fun b => b) (map (holds eps tt objs e s) (eq_forms eqs neqs))
     else forallb (fun b => b) (map (holds eps tt objs e s) (eq_forms eqs neqs))).
  Proof.
    intros He. unfold seed_of, subst_pairs, eq_forms. rewrite map_app, !map_map. simpl. unfold name.
    assert (H1 : map (fun x : string * string => String.eqb (subst pm (fst x)) (subst pm (snd x))) eqs =
                 map (fun x : string * string => String.eqb (subst e (fst x)) (subst e (snd x))) eqs).
    { apply map_ext. intros [a b]. simpl. rewrite !(env_agree_subst pm e _ He). reflexivity. }
    assert (H2 : map (fun x : string * string => negb (String.eqb (subst pm (fst x)) (subst pm (snd x)))) neqs =
                 map (fun x : string * string => negb (String.eqb (subst e (fst x)) (subst e (snd x)))) neqs).
    { apply map_ext. intros [a b]. simpl. rewrite !(env_agree_subst pm e _ He). reflexivity. }
    rewrite H1, H2. reflexivity.
  Qed.

  Lemma holds_eq_forms_objs objs e eqs neqs :
    map (holds eps tt objs e s) (eq_forms eqs neqs) = map (holds eps tt [] e s) (eq_forms eqs neqs).
  Proof.
    unfold eq_forms. rewrite !map_app, !map_map. reflexivity.
  Qed.

  Lemma fdiv0_eq_forms objs e eqs neqs : existsb (fdiv0 tt objs e s) (eq_forms eqs neqs) = false.
  Proof.
    unfold eq_forms. rewrite existsb_app. apply orb_false_iff. split.
    - induction eqs as [|x r IH]; simpl; [reflexivity|exact IH].
    - induction neqs as [|x r IH]; simpl; [reflexivity|exact IH].
  Qed.

  Lemma forallb_id_map {A} (h : A -> bool) l : forallb (fun b => b) (map h l) = forallb h l.
  Proof. induction l as [|x r IH]; simpl; [reflexivity|]. rewrite IH. reflexivity. Qed.
  Lemma existsb_id_map {A} (h : A -> bool) l : existsb (fun b => b) (map h l) = existsb h l.
  Proof. induction l as [|x r IH]; simpl; [reflexivity|]. rewrite IH. reflexivity. Qed.

  Definition PP (oo : option objects) (p : mpre) : Prop :=
    forall phi pm e scope,
      denote_pre p = Some phi -> covers oo phi ->
      env_agree pm e -> nsh consts pm -> no_shadow consts (pre_bvars p) = true ->
      scope_of scope pm -> pre_ok dom true scope p = true ->
      eval_lifted dom eps oo s pm p = spec_of oo e phi.
  Definition QQ (oo : option objects) (c : mcond) : Prop :=
    forall phi pm e scope,
      denote_cond c = Some phi -> covers oo phi ->
      env_agree pm e -> nsh consts pm -> no_shadow consts (cond_bvars c) = true ->
      scope_of scope pm -> cond_ok dom true scope c = true ->
      eval_lifted_cond dom eps oo s pm c = spec_of oo e phi.

  Lemma QQ_lit oo pos p args : QQ oo (MLit pos p args).
  Proof.
    intros phi pm e scope Hd _ He Hn _ Hs Hok. rewrite denote_cond_lit in Hd. injection Hd as <-.
    change (cond_ok dom true scope (MLit pos p args)) with (lit_ok dom scope p args) in Hok.
    rewrite (lit_ok_scope dom scope pm p args Hs) in Hok.
    rewrite eval_lifted_cond_lit, (ground_lit_complete dom pm p args Hok). simpl.
    assert (Hm : map (gname (d_consts dom) pm) args = map (subst e) args).
    { apply map_ext. intros a. fold consts. rewrite (gname_nsh _ _ _ Hn). apply env_agree_subst. exact He. }
    rewrite Hm. unfold spec_of. destruct pos; reflexivity.
  Qed.

  Lemma QQ_num oo t : QQ oo (MNum t).
  Proof.
    intros phi pm e scope Hd _ He Hn _ Hs Hok. rewrite denote_cond_num in Hd.
    change (cond_ok dom true scope (MNum t)) with (tree_ok dom scope t) in Hok.
    rewrite (tree_ok_scope dom scope pm t Hs) in Hok.
    rewrite eval_lifted_cond_num, (ground_tree_complete dom pm t Hok). simpl.
    unfold spec_of. apply (eval_cmp_spec s pm e t phi _ Hd He Hn). apply ground_tree_complete. exact Hok.
  Qed.

  Lemma QQ_nested oo q : PP oo q -> QQ oo (MNested q).
  Proof.
    intros IH phi pm e scope Hd Hc He Hn Hb Hs Hok. rewrite denote_cond_nested in Hd.
    rewrite eval_lifted_cond_nested. eapply IH; eauto.
  Qed.

  Lemma QQ_univ oo v ty body : PP oo body -> QQ oo (MUniv v ty body).
  Proof.
    intros IH phi pm e scope Hd Hc He Hn Hb Hs Hok. rewrite denote_cond_univ in Hd.
    destruct (denote_pre body) as [f|] eqn:Ef; [|discriminate]. injection Hd as <-.
    destruct oo as [os|]; [|simpl in Hc; discriminate].
    rewrite eval_lifted_cond_univ.
    change (cond_bvars (MUniv v ty body)) with (v :: pre_bvars body) in Hb. simpl in Hb.
    apply andb_true_iff in Hb. destruct Hb as [Hv Hb].
    assert (Hv' : dmem consts v = false) by (destruct (dmem consts v); [discriminate|reflexivity]).
    change (cond_ok dom true scope (MUniv v ty body)) with (pre_ok dom true (v :: scope) body) in Hok.
    unfold spec_of. simpl objs_of. cbn [fdiv0 holds].
    rewrite (over_objs_spec _ ty (fun o => fdiv0 tt os ((v, o) :: e) s f) (fun o => holds eps tt os ((v, o) :: e) s f)).
    - unfold objects_of_type. reflexivity.
    - intros o _. apply (IH f (dset pm v o) ((v, o) :: e) (v :: scope) Ef I).
      + apply env_agree_dset. exact He.
      + apply nsh_dset; assumption.
      + exact Hb.
      + apply scope_of_dset. exact Hs.
      + exact Hok.
  Qed.

  Lemma PP_pre oo op os eqs neqs : Forall (QQ oo) os -> PP oo (MPre op os eqs neqs).
  Proof.
    intros Hos phi pm e scope Hd Hc He Hn Hb Hs Hok.
    destruct (denote_pre_inv _ _ _ _ _ Hd) as [fs [HF ->]].
    rewrite pre_ok_eq in Hok. apply andb_true_iff in Hok. destruct Hok as [Hok Hoks].
    apply andb_true_iff in Hok. destruct Hok as [Hoke Hokn].
    rewrite (pairs_ok_scope scope pm eqs Hs), <- ground_pairs_is_ok in Hoke.
    rewrite (pairs_ok_scope scope pm neqs Hs), <- ground_pairs_is_ok in Hokn.
    rewrite eval_lifted_eq.
    destruct (ground_pairs pm eqs) as [geqs|] eqn:Ee; [|discriminate].
    destruct (ground_pairs pm neqs) as [gneqs|] eqn:En; [|discriminate]. simpl.
    rewrite (ground_pairs_ok _ _ _ Ee), (ground_pairs_ok _ _ _ En).
    rewrite pre_bvars_eq in Hb.
    (* per-operand facts *)
    set (objs := objs_of oo).
    assert (Hall : Forall2 (fun (c : mcond) (db : bool * bool) => eval_lifted_cond dom eps oo s pm c =
                                        if fst db then Err EOther else Ok (snd db))
                           os (combine (map (fdiv0 tt objs e s) fs) (map (holds eps tt objs e s) fs))).
    { clear Hd Ee En Hoke Hokn.
      assert (Hcov : forall f, In f fs -> covers oo f).
      { intros f Hin. apply (covers_list oo (String.eqb op "or") (eq_forms eqs neqs ++ fs) f).
        - destruct (String.eqb op "or"); exact Hc.
        - apply in_or_app. right. exact Hin. }
      clear Hc. revert fs HF Hcov Hb Hoks. induction Hos as [|c r Hq Hr IH]; intros fs HF Hcov Hb Hoks.
      - inversion HF; subst. constructor.
      - inversion HF as [|? f ? fs' Hcf Hrf]; subst. simpl.
        rewrite conds_bvars_cons, no_shadow_app in Hb. apply andb_true_iff in Hb. destruct Hb as [Hb1 Hb2].
        rewrite conds_ok_cons in Hoks. apply andb_true_iff in Hoks. destruct Hoks as [Hk1 Hk2].
        constructor.
        + simpl. apply (Hq f pm e scope Hcf (Hcov f (or_introl eq_refl)) He Hn Hb1 Hs Hk1).
        + apply IH; try assumption. intros f' Hin. apply Hcov. right. exact Hin. }
    rewrite (fold_conds_spec _ op os _ _ Hall);
      [|rewrite map_length; symmetry; eapply Forall2_len; exact HF
       |rewrite map_length; symmetry; eapply Forall2_len; exact HF].
    unfold spec_of. fold objs.
    rewrite (seed_spec objs pm e op eqs neqs He).
    destruct (String.eqb op "or") eqn:Eop.
    - cbn [fdiv0 holds]. rewrite !existsb_app, fdiv0_eq_forms. simpl.
      rewrite existsb_id_map. destruct (existsb (fdiv0 tt objs e s) fs); [reflexivity|].
      unfold conn. rewrite Eop. rewrite !existsb_id_map. reflexivity.
    - cbn [fdiv0 holds]. rewrite existsb_app, forallb_app, fdiv0_eq_forms. simpl.
      rewrite existsb_id_map. destruct (existsb (fdiv0 tt objs e s) fs); [reflexivity|].
      unfold conn. rewrite Eop. rewrite !forallb_id_map. reflexivity.
  Qed.

  Lemma eval_lifted_spec oo (p : mpre) : PP oo p.
  Proof.
    exact (mpre_ind' (PP oo) (QQ oo) (PP_pre oo) (QQ_lit oo) (QQ_num oo) (QQ_nested oo) (QQ_univ oo) p).
  Qed.

  (* ---------- grounded conditions: evaluating the grounded copy = evaluating the lifted one on the fly ---------- *)
  Definition fold_gconds (f : gcond -> result bool) (op : string) : list gcond -> bool -> result bool :=
    fix go (l : list gcond) (acc : bool) : result bool :=
      match l with
      | [] => Ok acc
      | c :: r => do b <- f c; go r (fold_op op acc b)
      end.
  Lemma fold_gconds_cons f op c r acc :
    fold_gconds f op (c :: r) acc = (do b <- f c; fold_gconds f op r (fold_op op acc b)).
  Proof. reflexivity. Qed.

  Lemma eval_g_eq oo op os eqs neqs :
    eval_g dom eps oo s (GPre op os eqs neqs) = fold_gconds (eval_gcond dom eps oo s) op os (seed_of op eqs neqs).
  Proof. reflexivity. Qed.

  Lemma eval_g_lifted oo (pm : pmap) (p : mpre) : forall g,
    ground_pre dom pm p = Ok g -> eval_g dom eps oo s g = eval_lifted dom eps oo s pm p.
  Proof.
    apply (mpre_ind'
             (fun p => forall g, ground_pre dom pm p = Ok g -> eval_g dom eps oo s g = eval_lifted dom eps oo s pm p)
             (fun c => forall g, ground_cond dom pm c = Ok g ->
                                 eval_gcond dom eps oo s g = eval_lifted_cond dom eps oo s pm c)).
    - intros op os eqs neqs Hos g H. rewrite ground_pre_eq in H.
      apply bind_ok_inv in H. destruct H as [geqs [Heqs H]].
      apply bind_ok_inv in H. destruct H as [gneqs [Hneqs H]].
      apply bind_ok_inv in H. destruct H as [gos [Hgos H]]. injection H as <-.
      rewrite eval_g_eq, eval_lifted_eq, Heqs, Hneqs. simpl.
      generalize (seed_of op geqs gneqs). revert gos Hgos.
      induction Hos as [|c r Hc Hr IH]; intros gos Hgos acc.
      + rewrite ground_conds_nil in Hgos. injection Hgos as <-. reflexivity.
      + rewrite ground_conds_cons in Hgos.
        apply bind_ok_inv in Hgos. destruct Hgos as [gc [Hgc Hgos]].
        apply bind_ok_inv in Hgos. destruct Hgos as [gr [Hgr Hgos]]. injection Hgos as <-.
        rewrite fold_gconds_cons, fold_conds_cons, (Hc _ Hgc).
        destruct (eval_lifted_cond dom eps oo s pm c); simpl; [|reflexivity]. apply IH. exact Hgr.
    - intros pos p0 args g H. rewrite ground_cond_lit in H. apply bind_ok_inv in H. destruct H as [a [Ha H]].
      injection H as <-. rewrite eval_lifted_cond_lit, Ha. reflexivity.
    - intros t g H. rewrite ground_cond_num in H. apply bind_ok_inv in H. destruct H as [gt [Hgt H]].
      injection H as <-. rewrite eval_lifted_cond_num, Hgt. reflexivity.
    - intros q IHq g H. rewrite ground_cond_nested in H. apply bind_ok_inv in H. destruct H as [gq [Hgq H]].
      injection H as <-. rewrite eval_lifted_cond_nested. apply IHq. exact Hgq.
    - intros v ty q _ g H. rewrite ground_cond_univ in H. injection H as <-. reflexivity.
  Qed.

  (* the grounded condition evaluates to the truth value of the denoted formula *)
  Theorem eval_g_spec oo (pm : pmap) (e : env) (p : mpre) (g : gpre) (phi : form) :
    ground_pre dom pm p = Ok g ->
    denote_pre p = Some phi -> covers oo phi ->
    env_agree pm e -> no_shadow consts (dkeys pm ++ pre_bvars p) = true ->
    pre_ok dom true (dkeys pm) p = true ->
    eval_g dom eps oo s g = spec_of oo e phi.
  Proof.
    intros Hg Hd Hc He Hns Hok. rewrite no_shadow_app in Hns. apply andb_true_iff in Hns. destruct Hns as [Hn1 Hn2].
    rewrite (eval_g_lifted oo pm p g Hg).
    apply (eval_lifted_spec oo p phi pm e (dkeys pm) Hd Hc He (nsh_of_no_shadow _ _ Hn1) Hn2 (scope_of_dkeys pm) Hok).
  Qed.
End Eval.

(* ---------- forall-free formulas do not look at the object table ---------- *)
Lemma holds_forall_free eps tt objs1 objs2 s (phi : form) : forall e,
  forall_free phi = true -> holds eps tt objs1 e s phi = holds eps tt objs2 e s phi.
Proof.
  induction phi as [p a|p a|a b|a b|c l r|l IH|l IH|v ty b IH] using form_ind'; intros e H; simpl; try reflexivity.
  - simpl in H. induction IH as [|f r Hf Hr IHr]; simpl; [reflexivity|].
    simpl in H. apply andb_true_iff in H. destruct H as [H1 H2]. rewrite (Hf e H1), (IHr H2). reflexivity.
  - simpl in H. induction IH as [|f r Hf Hr IHr]; simpl; [reflexivity|].
    simpl in H. apply andb_true_iff in H. destruct H as [H1 H2]. rewrite (Hf e H1), (IHr H2). reflexivity.
  - discriminate.
Qed.

Lemma fdiv0_forall_free tt objs1 objs2 s (phi : form) : forall e,
  forall_free phi = true -> fdiv0 tt objs1 e s phi = fdiv0 tt objs2 e s phi.
Proof.
  induction phi as [p a|p a|a b|a b|c l r|l IH|l IH|v ty b IH] using form_ind'; intros e H; simpl; try reflexivity.
  - simpl in H. induction IH as [|f r Hf Hr IHr]; simpl; [reflexivity|].
    simpl in H. apply andb_true_iff in H. destruct H as [H1 H2]. rewrite (Hf e H1), (IHr H2). reflexivity.
  - simpl in H. induction IH as [|f r Hf Hr IHr]; simpl; [reflexivity|].
    simpl in H. apply andb_true_iff in H. destruct H as [H1 H2]. rewrite (Hf e H1), (IHr H2). reflexivity.
  - discriminate.
Qed.

(* ---------- the two readings C03/C04/C16 need for 'when' antecedents ---------- *)
(* with the object table: any formula *)
Theorem C02_eval_g_some (dom : mdomain) (eps : float) (s : state) (objs : objects)
        (pm : pmap) (p : mpre) (g : gpre) (phi : form) :
  ground_pre dom pm p = Ok g ->
  denote_pre p = Some phi ->
  no_shadow (d_consts dom) (dkeys pm ++ pre_bvars p) = true ->
  pre_ok dom true (dkeys pm) p = true ->
  eval_g dom eps (Some objs) s g =
  if fdiv0 (d_types dom) objs pm s phi then Err EOther else Ok (holds eps (d_types dom) objs pm s phi).
Proof.
  intros Hg Hd Hns Hok.
  exact (eval_g_spec dom eps s (Some objs) pm pm p g phi Hg Hd I (env_agree_refl pm) Hns Hok).
Qed.

(* without one (an operator built without problem objects; 'when' antecedents before the repair D37): forall-free
   formulas only; the table on the right is arbitrary *)
Theorem C02_eval_g_none (dom : mdomain) (eps : float) (s : state) (objs : objects)
        (pm : pmap) (p : mpre) (g : gpre) (phi : form) :
  ground_pre dom pm p = Ok g ->
  denote_pre p = Some phi -> forall_free phi = true ->
  no_shadow (d_consts dom) (dkeys pm ++ pre_bvars p) = true ->
  pre_ok dom true (dkeys pm) p = true ->
  eval_g dom eps None s g =
  if fdiv0 (d_types dom) objs pm s phi then Err EOther else Ok (holds eps (d_types dom) objs pm s phi).
Proof.
  intros Hg Hd Hff Hns Hok.
  rewrite (eval_g_spec dom eps s None pm pm p g phi Hg Hd Hff (env_agree_refl pm) Hns Hok).
  unfold spec_of. simpl objs_of.
  rewrite (fdiv0_forall_free _ [] objs s phi pm Hff), (holds_forall_free eps _ [] objs s phi pm Hff). reflexivity.
Qed.
