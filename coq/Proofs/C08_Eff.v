(* C08: reading back printed effects (Action.effects_to_pddl / EffectsParser) and a whole printed action. *)
From Coq Require Import List Ascii String Bool Arith Lia PrimFloat.
From Verif Require Import Base.Result Base.Str Base.Sexp Base.PyDict Base.Float
  Model.Types Model.NumExpr Model.Domain Model.DomainExporter Proofs.C08_Defs Proofs.C08_Trees Proofs.C08_Pre.
Import ListNotations.
Open Scope string_scope.
Open Scope list_scope.

Lemma mapM_app {A B} (f : A -> result B) l1 l2 r1 r2 :
  mapM f l1 = Ok r1 -> mapM f l2 = Ok r2 -> mapM f (l1 ++ l2) = Ok (r1 ++ r2).
Proof.
  revert r1. induction l1 as [|x xs IH]; intros r1 H1 H2; simpl in *.
  - injection H1 as <-. exact H2.
  - destruct (f x) as [y|k]; [|discriminate]. cbn [bind] in *.
    destruct (mapM f xs) as [ys|k]; [|discriminate]. cbn [bind] in *. injection H1 as <-.
    rewrite (IH ys eq_refl H2). reflexivity.
Qed.

Lemma mapM_map_ok {A B C} (f : A -> result B) (g : C -> A) (h : C -> B) l :
  (forall x, In x l -> f (g x) = Ok (h x)) -> mapM f (map g l) = Ok (map h l).
Proof.
  induction l as [|x xs IH]; intros H; simpl; [reflexivity|].
  rewrite (H x (or_introl eq_refl)). cbn [bind]. rewrite IH; [reflexivity|]. intros y Hy. apply H. right. exact Hy.
Qed.

Lemma foldM_app {A S} (f : S -> A -> result S) l1 l2 s s1 :
  foldM f l1 s = Ok s1 -> foldM f (l1 ++ l2) s = foldM f l2 s1.
Proof.
  revert s. induction l1 as [|x xs IH]; intros s H; simpl in *.
  - injection H as <-. reflexivity.
  - destruct (f s x) as [s'|k]; [|discriminate]. cbn [bind] in *. apply IH. exact H.
Qed.


Section Eff.
  Variable num : numparser.
  Variable tt : typetable.
  Variable consts : pydict string.
  Variable preds funcs : pydict signature.
  Variable dpre deff : nat.
  Variable tyk ck : string -> bool.
  Hypothesis Htyk : forall t, type_known tt t = tyk t.
  Hypothesis Hck : forall a, dmem consts a = ck a.
  Hypothesis Hres : forall k, str_in k reserved_names = true -> dmem preds k = false.

  Ltac str_compute := cbn [String.eqb Ascii.eqb Bool.eqb orb andb negb str_in assignment_ops].

  Lemma assignment_op_cases op : str_in op assignment_ops = true -> op = "assign" \/ op = "increase" \/ op = "decrease".
  Proof.
    cbn [str_in assignment_ops]. intros H.
    repeat (apply orb_true_iff in H; destruct H as [H|H]); try discriminate; apply String.eqb_eq in H; auto.
  Qed.

  (* ---------- the result of a 'when' ---------- *)
  Lemma parse_result_lit sg l :
    wf_reslit ck sg l = true -> parse_result num consts funcs sg (export_mlit l) = Ok (inl l).
  Proof.
    destruct l as [pos p args]. unfold wf_reslit, export_mlit, export_lit. cbn [l_pos l_name l_args].
    intros H. apply andb_true_iff in H. destruct H as [Hn Ha]. destruct pos.
    - apply negb_true_iff in Hn. cbn [str_in] in Hn. apply orb_false_iff in Hn. destruct Hn as [Hnot Hasg].
      unfold parse_result. cbn [head_of bind]. rewrite Hnot. cbn [str_in] in Hasg |- *. rewrite Hasg.
      rewrite (parse_untyped_roundtrip consts ck Hck sg true p args Ha). reflexivity.
    - unfold parse_result. cbn [head_of bind]. str_compute.
      rewrite (parse_untyped_roundtrip consts ck Hck sg false p args Ha). reflexivity.
  Qed.

  Lemma parse_result_tree sg t :
    wf_numeff num funcs deff t = true ->
    parse_result num consts funcs sg (export_tree deff t) = Ok (inr (rr_tree num deff t)).
  Proof.
    intros H. destruct t as [x|f a|op l r]; try discriminate.
    cbn [wf_numeff] in H. apply andb_true_iff in H. destruct H as [Hwt Hop].
    pose proof (construct_tree_fuel num funcs deff (TNode op l r) Hwt) as Hc.
    cbn [export_tree] in Hc |- *. unfold parse_result. cbn [head_of bind].
    rewrite Hop.
    assert (Hnot : String.eqb op "not" = false).
    { destruct (assignment_op_cases op Hop) as [->|[->| ->]]; reflexivity. }
    rewrite Hnot, Hc. reflexivity.
  Qed.

  Lemma split_results_app disc (nums : list mtree) :
    split_results (map inl disc ++ map inr nums) = (disc, nums).
  Proof.
    unfold split_results. rewrite !flat_map_app.
    assert (H1 : forall (l : list mlit), flat_map (fun r : mlit + mtree => match r with inl l => [l] | inr _ => [] end) (map inl l) = l).
    { induction l as [|x xs IH]; simpl; [reflexivity|]. rewrite IH. reflexivity. }
    assert (H2 : forall (l : list mtree), flat_map (fun r : mlit + mtree => match r with inl l => [l] | inr _ => [] end) (map inr l) = []).
    { induction l as [|x xs IH]; simpl; [reflexivity|]. exact IH. }
    assert (H3 : forall (l : list mlit), flat_map (fun r : mlit + mtree => match r with inl _ => [] | inr t => [t] end) (map inl l) = []).
    { induction l as [|x xs IH]; simpl; [reflexivity|]. exact IH. }
    assert (H4 : forall (l : list mtree), flat_map (fun r : mlit + mtree => match r with inl _ => [] | inr t => [t] end) (map inr l) = l).
    { induction l as [|x xs IH]; simpl; [reflexivity|]. rewrite IH. reflexivity. }
    rewrite H1, H2, H3, H4, app_nil_r. reflexivity.
  Qed.

  (* ---------- when / forall-when ---------- *)
  Lemma condeff_roundtrip sg ce :
    wf_condeff num tyk ck preds funcs dpre deff sg ce = true ->
    parse_conditional_effect num tt consts preds funcs sg (export_condeff dpre deff ce) =
    Ok (rr_condeff num dpre deff ce).
  Proof.
    destruct ce as [ante disc nums]. unfold wf_condeff, export_condeff, rr_condeff. cbn [ce_ante ce_disc ce_num].
    intros H. apply andb_true_iff in H. destruct H as [H Hnums].
    apply andb_true_iff in H. destruct H as [H Hdisc].
    apply andb_true_iff in H. destruct H as [Hop Hante].
    destruct ante as [op os eqs neqs]. cbn [pre_op] in Hop. apply String.eqb_eq in Hop. subst op.
    rewrite export_pre_items. unfold parse_conditional_effect. cbn [head_of bind]. str_compute.
    rewrite (pre_items_roundtrip num tt consts preds funcs dpre tyk ck Htyk Hck Hres sg _ "and" os eqs neqs "and" Hante)
      by (rewrite size_slist_cons; lia).
    cbn [bind].
    rewrite (mapM_app _ _ _ (map inl disc) (map inr (map (rr_tree num deff) nums))).
    - cbn [bind]. rewrite split_results_app. reflexivity.
    - apply mapM_map_ok. intros l Hl. apply parse_result_lit. exact (forallb_In _ _ _ Hdisc Hl).
    - rewrite map_map. apply mapM_map_ok. intros t Ht. apply parse_result_tree. exact (forallb_In _ _ _ Hnums Ht).
  Qed.

  Lemma univeff_roundtrip sg ue :
    wf_univeff num tyk ck preds funcs dpre deff sg ue = true ->
    parse_universal_effect num tt consts preds funcs sg (export_univeff dpre deff ue) =
    Ok (rr_univeff num dpre deff ue).
  Proof.
    destruct ue as [v ty ce]. unfold wf_univeff, export_univeff, rr_univeff. cbn [ue_var ue_ty ue_ce].
    intros H. apply andb_true_iff in H. destruct H as [Hty Hce].
    unfold parse_universal_effect. rewrite Htyk, Hty. cbn [negb].
    rewrite (condeff_roundtrip _ _ Hce). reflexivity.
  Qed.

  (* ---------- the members of ':effect (and ...)' ---------- *)
  Notation pen := (parse_effect_node num tt consts preds funcs).

  Lemma node_lit sg acc l :
    wf_efflit ck preds sg l = true ->
    pen sg acc (export_mlit l) =
    Ok {| ea_disc := ea_disc acc ++ [l]; ea_num := ea_num acc; ea_cond := ea_cond acc; ea_univ := ea_univ acc |}.
  Proof.
    destruct l as [pos p args]. unfold wf_efflit, export_mlit, export_lit. cbn [l_pos l_name l_args].
    intros H. apply andb_true_iff in H. destruct H as [Hp Ha]. destruct pos.
    - unfold parse_effect_node. cbn [head_of bind]. rewrite Hp.
      rewrite (parse_untyped_roundtrip consts ck Hck sg true p args Ha). reflexivity.
    - unfold parse_effect_node. cbn [head_of bind]. rewrite (Hres "not" eq_refl). str_compute.
      rewrite (parse_untyped_roundtrip consts ck Hck sg false p args Ha). reflexivity.
  Qed.

  Lemma node_cond sg acc ce :
    wf_condeff num tyk ck preds funcs dpre deff sg ce = true ->
    pen sg acc (export_condeff dpre deff ce) =
    Ok {| ea_disc := ea_disc acc; ea_num := ea_num acc; ea_cond := ea_cond acc ++ [rr_condeff num dpre deff ce];
          ea_univ := ea_univ acc |}.
  Proof.
    intros H. unfold parse_effect_node.
    change (head_of (export_condeff dpre deff ce)) with (Ok "when" : result string). cbn [bind].
    rewrite (Hres "when" eq_refl). str_compute. rewrite (condeff_roundtrip sg ce H). reflexivity.
  Qed.

  Lemma node_univ sg acc ue :
    wf_univeff num tyk ck preds funcs dpre deff sg ue = true ->
    pen sg acc (export_univeff dpre deff ue) =
    Ok {| ea_disc := ea_disc acc; ea_num := ea_num acc; ea_cond := ea_cond acc;
          ea_univ := ea_univ acc ++ [rr_univeff num dpre deff ue] |}.
  Proof.
    intros H. unfold parse_effect_node.
    change (head_of (export_univeff dpre deff ue)) with (Ok "forall" : result string). cbn [bind].
    rewrite (Hres "forall" eq_refl). str_compute. rewrite (univeff_roundtrip sg ue H). reflexivity.
  Qed.

  Lemma node_num sg acc t :
    wf_numeff num funcs deff t = true ->
    pen sg acc (export_tree deff t) =
    Ok {| ea_disc := ea_disc acc; ea_num := ea_num acc ++ [rr_tree num deff t]; ea_cond := ea_cond acc;
          ea_univ := ea_univ acc |}.
  Proof.
    intros H. destruct t as [x|f a|op l r]; try discriminate.
    cbn [wf_numeff] in H. apply andb_true_iff in H. destruct H as [Hwt Hop].
    pose proof (construct_tree_fuel num funcs deff (TNode op l r) Hwt) as Hc.
    cbn [export_tree] in Hc |- *. unfold parse_effect_node. cbn [head_of bind].
    assert (Hr : dmem preds op = false).
    { apply Hres. destruct (assignment_op_cases op Hop) as [->|[->| ->]]; reflexivity. }
    assert (Hk : String.eqb op "not" = false /\ String.eqb op "forall" = false /\ String.eqb op "when" = false).
    { destruct (assignment_op_cases op Hop) as [->|[->| ->]]; repeat split; reflexivity. }
    destruct Hk as (K1 & K2 & K3). rewrite Hr, K1, K2, K3, Hop, Hc. reflexivity.
  Qed.

  Lemma fold_lits sg : forall l acc,
    forallb (wf_efflit ck preds sg) l = true ->
    foldM (pen sg) (map export_mlit l) acc =
    Ok {| ea_disc := ea_disc acc ++ l; ea_num := ea_num acc; ea_cond := ea_cond acc; ea_univ := ea_univ acc |}.
  Proof.
    induction l as [|x xs IH]; intros acc H; cbn [map foldM].
    - rewrite app_nil_r. destruct acc; reflexivity.
    - cbn [forallb] in H. apply andb_true_iff in H. destruct H as [Hx Hxs].
      rewrite (node_lit sg acc x Hx). cbn [bind]. rewrite (IH _ Hxs). cbn [ea_disc ea_num ea_cond ea_univ].
      rewrite <- app_assoc. reflexivity.
  Qed.

  Lemma fold_conds sg : forall l acc,
    forallb (wf_condeff num tyk ck preds funcs dpre deff sg) l = true ->
    foldM (pen sg) (map (export_condeff dpre deff) l) acc =
    Ok {| ea_disc := ea_disc acc; ea_num := ea_num acc; ea_cond := ea_cond acc ++ map (rr_condeff num dpre deff) l;
          ea_univ := ea_univ acc |}.
  Proof.
    induction l as [|x xs IH]; intros acc H; cbn [map foldM].
    - rewrite app_nil_r. destruct acc; reflexivity.
    - cbn [forallb] in H. apply andb_true_iff in H. destruct H as [Hx Hxs].
      rewrite (node_cond sg acc x Hx). cbn [bind]. rewrite (IH _ Hxs). cbn [ea_disc ea_num ea_cond ea_univ].
      rewrite <- app_assoc. reflexivity.
  Qed.

  Lemma fold_univs sg : forall l acc,
    forallb (wf_univeff num tyk ck preds funcs dpre deff sg) l = true ->
    foldM (pen sg) (map (export_univeff dpre deff) l) acc =
    Ok {| ea_disc := ea_disc acc; ea_num := ea_num acc; ea_cond := ea_cond acc;
          ea_univ := ea_univ acc ++ map (rr_univeff num dpre deff) l |}.
  Proof.
    induction l as [|x xs IH]; intros acc H; cbn [map foldM].
    - rewrite app_nil_r. destruct acc; reflexivity.
    - cbn [forallb] in H. apply andb_true_iff in H. destruct H as [Hx Hxs].
      rewrite (node_univ sg acc x Hx). cbn [bind]. rewrite (IH _ Hxs). cbn [ea_disc ea_num ea_cond ea_univ].
      rewrite <- app_assoc. reflexivity.
  Qed.

  Lemma fold_nums sg : forall l acc,
    forallb (wf_numeff num funcs deff) l = true ->
    foldM (pen sg) (map (export_tree deff) l) acc =
    Ok {| ea_disc := ea_disc acc; ea_num := ea_num acc ++ map (rr_tree num deff) l; ea_cond := ea_cond acc;
          ea_univ := ea_univ acc |}.
  Proof.
    induction l as [|x xs IH]; intros acc H; cbn [map foldM].
    - rewrite app_nil_r. destruct acc; reflexivity.
    - cbn [forallb] in H. apply andb_true_iff in H. destruct H as [Hx Hxs].
      rewrite (node_num sg acc x Hx). cbn [bind]. rewrite (IH _ Hxs). cbn [ea_disc ea_num ea_cond ea_univ].
      rewrite <- app_assoc. reflexivity.
  Qed.

  Theorem effects_roundtrip a :
    wf_action num tyk ck preds funcs dpre deff a = true ->
    parse_effects num tt consts preds funcs (ma_sig a) (export_effects dpre deff a) =
    Ok {| ea_disc := ma_disc a; ea_num := map (rr_tree num deff) (ma_num a);
          ea_cond := map (rr_condeff num dpre deff) (ma_cond a); ea_univ := map (rr_univeff num dpre deff) (ma_univ a) |}.
  Proof.
    unfold wf_action. intros H.
    apply andb_true_iff in H. destruct H as [H Hu]. apply andb_true_iff in H. destruct H as [H Hc].
    apply andb_true_iff in H. destruct H as [H Hn]. apply andb_true_iff in H. destruct H as [H Hd].
    unfold parse_effects, export_effects. cbn [head_of bind]. str_compute.
    rewrite (foldM_app _ _ _ _ _ (fold_lits (ma_sig a) (ma_disc a) _ Hd)).
    rewrite (foldM_app _ _ _ _ _ (fold_conds (ma_sig a) (ma_cond a) _ Hc)).
    rewrite (foldM_app _ _ _ _ _ (fold_univs (ma_sig a) (ma_univ a) _ Hu)).
    rewrite (fold_nums (ma_sig a) (ma_num a) _ Hn). reflexivity.
  Qed.

  (* ---------- the whole action ---------- *)
  Theorem action_roundtrip a :
    wf_action num tyk ck preds funcs dpre deff a = true ->
    match export_action dpre deff a with
    | SList (_ :: body) => parse_action num tt consts preds funcs body = Ok (rr_action num dpre deff a)
    | _ => False
    end.
  Proof.
    intros Hwf. pose proof (effects_roundtrip a Hwf) as Heff.
    unfold wf_action in Hwf.
    apply andb_true_iff in Hwf. destruct Hwf as [H _]. apply andb_true_iff in H. destruct H as [H _].
    apply andb_true_iff in H. destruct H as [H _]. apply andb_true_iff in H. destruct H as [H _].
    apply andb_true_iff in H. destruct H as [H Hpre]. apply andb_true_iff in H. destruct H as [H Hop].
    apply andb_true_iff in H. destruct H as [Hname Hsig].
    apply String.eqb_eq in Hname.
    destruct a as [n sg pre disc nums conds univs]. cbn [ma_name ma_sig ma_pre ma_disc ma_num ma_cond ma_univ] in *.
    destruct pre as [op os eqs neqs]. cbn [pre_op] in Hop. apply String.eqb_eq in Hop. subst op.
    unfold export_action. cbn [ma_name ma_sig ma_pre]. rewrite export_pre_items.
    unfold parse_action. cbn [List.length Nat.eqb negb parse_sections].
    rewrite (parse_signature_roundtrip tt tyk Htyk sg Hsig). cbn [bind ma_name ma_sig ma_pre ma_disc ma_num ma_cond ma_univ].
    unfold parse_preconditions, empty_pre.
    rewrite (pre_items_roundtrip num tt consts preds funcs dpre tyk ck Htyk Hck Hres sg _ "and" os eqs neqs "and" Hpre)
      by (rewrite size_slist_cons; lia).
    cbn [bind ma_name ma_sig ma_pre ma_disc ma_num ma_cond ma_univ].
    rewrite Heff. cbn [bind ea_disc ea_num ea_cond ea_univ]. rewrite Hname. reflexivity.
  Qed.
End Eff.
