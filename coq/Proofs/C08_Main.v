(* C08: corollaries of the round-trip theorem, examples and the refutation of the unrestricted statement. *)
From Coq Require Import List Ascii String Bool Arith Lia Permutation PrimFloat.
From Verif Require Import Base.Result Base.Str Base.Sexp Base.PyDict Base.Float
  Model.Tokenizer Model.Types Model.NumExpr Model.Domain Model.Exec Model.DomainExporter Spec.Pddl
  Proofs.C08_Defs Proofs.C08_Trees Proofs.C08_Pre Proofs.C08_Eff Proofs.C08_Tables Proofs.C08_Domain
  Proofs.C08_Range Proofs.C08_RangeDom Proofs.C08_Perm Proofs.C08_Vocab.
Import ListNotations.
Open Scope string_scope.
Open Scope list_scope.

(* ---------- a non-trivial domain satisfying the hypotheses ---------- *)
(* float(): the numerals of the example and of its exported text *)
Definition ex_num : numparser := fun s =>
  if String.eqb s "0.5" then Some 0x1p-1%float
  else if String.eqb s "0.50" then Some 0x1p-1%float
  else if String.eqb s "0.5000" then Some 0x1p-1%float
  else if String.eqb s "2.25" then Some 0x1.2p+1%float
  else if String.eqb s "2.2500" then Some 0x1.2p+1%float
  else if String.eqb s "0.125" then Some 0x1p-3%float
  else if String.eqb s "0.12" then Some 0x1.eb851eb851eb8p-4%float
  else if String.eqb s "0.1250" then Some 0x1p-3%float
  else if String.eqb s "0.1200" then Some 0x1.eb851eb851eb8p-4%float
  else if String.eqb s "1" then Some 1%float
  else if String.eqb s "3" then Some 3%float
  else if String.eqb s "10" then Some 10%float
  else None.

Definition ex_text : string :=
  "(define (domain ex) (:requirements :typing :fluents :conditional-effects)
   (:types truck car - vehicle vehicle place - object depot - place)
   (:constants hq - depot spare - car)
   (:predicates (at ?v - vehicle ?p - place) (free ?p - place) (broken ?v - vehicle) (ready))
   (:functions (fuel ?v - vehicle) (dist ?a - place ?b - place) (total))
   (:action drive :parameters (?v - vehicle ?from - place ?to - place)
     :precondition (and (at ?v ?from) (not (broken ?v)) (not (= ?from ?to)) (>= (fuel ?v) (* (dist ?from ?to) 0.5))
                        (or (free ?to) (and (ready) (at spare hq)) (< (total) 10))
                        (forall (?o - vehicle) (or (not (at ?o ?to)) (= ?o ?v) (> (fuel ?o) 0.125))))
     :effect (and (at ?v ?to) (not (at ?v ?from)) (decrease (fuel ?v) (* (dist ?from ?to) 0.5))
                  (increase (total) 2.25)
                  (when (and (free ?to) (<= (fuel ?v) 3)) (and (not (free ?to)) (assign (fuel ?v) (+ (fuel ?v) 0.125))))
                  (forall (?o - car) (when (and (at ?o ?from) (not (= ?o ?v))) (and (broken ?o) (increase (fuel ?o) 1))))))
   (:action rest :parameters () :precondition () :effect (and (ready))))".

Definition ex_domain : result mdomain :=
  do e <- parse_string MStr ex_text; parse_domain ex_num e.

Definition ex_m : mdomain :=
  match ex_domain with Ok m => m | Err _ => empty_domain end.

Lemma ex_parsed : ex_domain = Ok ex_m.
Proof. vm_compute. reflexivity. Qed.

Lemma ex_wf : wf_mdomain ex_num 2 4 ex_m = true.
Proof. vm_compute. reflexivity. Qed.

Lemma ex_nontrivial :
  List.length (d_actions ex_m) = 2 /\ List.length (d_types ex_m) = 5 /\
  List.length (domain_nums 2 4 ex_m) = 8.
Proof. vm_compute. repeat split. Qed.

(* the round trip of the example: 0.125 inside a condition is printed with 2 decimals and comes back as 0.12,
   everything else is unchanged *)
Lemma ex_roundtrip : parse_domain ex_num (export_domain 2 4 ex_m) = Ok (rr_domain ex_num 2 4 ex_m).
Proof. apply domain_roundtrip. exact ex_wf. Qed.

(* ---------- from text to text: every parsed domain in PDDL section order ---------- *)
Section FromText.
  Variable num : numparser.
  Variable dpre deff : nat.
  Hypothesis Hnum : forall d, d = dpre \/ d = deff -> forall s x, num s = Some x -> num_ok num d x = true.
  Hypothesis Hnum_cmp : forall c r x, num (String c r) = Some x -> str_in (String c EmptyString) comparison_ops = false.

  Theorem parsed_roundtrip e m :
    canonical e = true -> no_vac e = true -> parse_domain num e = Ok m ->
    forallb (fun kp => not_dash (fst kp)) (d_types m) = true ->
    forallb (fun ns => negb (str_in (fst ns) reserved_names)) (d_preds m) = true ->
    (forall k, str_in k ("=" :: comparison_ops ++ assignment_ops) = true -> dget (d_funcs m) k = None) ->
    parse_domain num (export_domain dpre deff m) = Ok (rr_domain num dpre deff m).
  Proof.
    intros Hc Hv Hp H1 H2 H3. apply domain_roundtrip.
    apply (parse_domain_wf num dpre deff Hnum Hnum_cmp e m Hc Hv Hp H1 H2 H3).
  Qed.
End FromText.

(* the hypotheses about float() hold for the example's table at 2 and 4 decimals, and the example text is in
   canonical order, without empty quantifiers, with hygienic names *)
Lemma ex_num_closed : forall d, d = 2 \/ d = 4 -> forall s x, ex_num s = Some x -> num_ok ex_num d x = true.
Proof.
  intros d Hd s x. unfold ex_num.
  repeat match goal with |- (if ?c then _ else _) = _ -> _ => destruct c end;
    intros H; try discriminate; injection H as <-; destruct Hd as [-> | ->]; vm_compute; reflexivity.
Qed.

Lemma ex_num_cmp : forall c r x, ex_num (String c r) = Some x -> str_in (String c EmptyString) comparison_ops = false.
Proof.
  intros c r x. unfold ex_num.
  repeat match goal with |- (if ?b then _ else _) = _ -> _ => let E := fresh "E" in destruct b eqn:E end;
    intros H; try discriminate;
    match goal with E : String.eqb _ _ = true |- _ => apply String.eqb_eq in E; injection E as -> _; reflexivity end.
Qed.

Definition ex_sexp : sexp := match parse_string MStr ex_text with Ok e => e | Err _ => Atom "" end.

Lemma ex_range_hyps :
  canonical ex_sexp = true /\ no_vac ex_sexp = true /\ parse_domain ex_num ex_sexp = Ok ex_m /\
  forallb (fun kp => not_dash (fst kp)) (d_types ex_m) = true /\
  forallb (fun ns => negb (str_in (fst ns) reserved_names)) (d_preds ex_m) = true /\
  forallb (fun k => match dget (d_funcs ex_m) k with None => true | Some _ => false end)
          ("=" :: comparison_ops ++ assignment_ops) = true.
Proof. vm_compute. repeat split. Qed.

(* ---------- every set order ---------- *)
Lemma set_orders_roundtrip (num : numparser) (dpre deff : nat) (m m1 : mdomain) :
  wf_mdomain num dpre deff m = true -> perm_domain m m1 ->
  wf_mdomain num dpre deff m1 = true /\
  parse_domain num (export_domain dpre deff m1) = Ok (rr_domain num dpre deff m1).
Proof.
  intros Hwf Hp. pose proof (wf_mdomain_perm num dpre deff m m1 Hp Hwf) as H1.
  exact (conj H1 (domain_roundtrip num dpre deff m1 H1)).
Qed.

Lemma vocabulary_same (num : numparser) (dpre deff : nat) (m : mdomain) :
  Corr.Core.model_vocab (rr_domain num dpre deff m) = Corr.Core.model_vocab m /\
  d_name (rr_domain num dpre deff m) = d_name m /\ d_reqs (rr_domain num dpre deff m) = d_reqs m.
Proof. exact (conj (vocab_same num dpre deff m) (conj eq_refl eq_refl)). Qed.

Lemma example_all :
  ex_domain = Ok ex_m /\ wf_mdomain ex_num 2 4 ex_m = true /\
  parse_domain ex_num (export_domain 2 4 ex_m) = Ok (rr_domain ex_num 2 4 ex_m).
Proof. exact (conj ex_parsed (conj ex_wf ex_roundtrip)). Qed.

Lemma range_example_all :
  (forall d, d = 2 \/ d = 4 -> forall s x, ex_num s = Some x -> num_ok ex_num d x = true) /\
  (forall c r x, ex_num (String c r) = Some x -> str_in (String c EmptyString) comparison_ops = false) /\
  canonical ex_sexp = true /\ no_vac ex_sexp = true /\ parse_domain ex_num ex_sexp = Ok ex_m.
Proof.
  refine (conj ex_num_closed (conj ex_num_cmp _)).
  destruct ex_range_hyps as (H1 & H2 & H3 & _). exact (conj H1 (conj H2 H3)).
Qed.

(* ---------- the unrestricted statement is false: finding D83 ---------- *)
Definition d83_text : string :=
  "(define (domain dom) (:requirements :typing :universal-preconditions) (:types a - object)
   (:predicates (p ?x - a))
   (:action a1 :parameters (?x - a) :precondition (and (forall (?q - a) (or))) :effect (and (p ?x)))
   (:action a2 :parameters (?x - a) :precondition (and (or (p ?x) (forall (?q - a) (and)))) :effect (and (p ?x))))".

Definition no_num : numparser := fun _ => None.

Definition d83_domain : result mdomain := do e <- parse_string MStr d83_text; parse_domain no_num e.
Definition d83_m : mdomain := match d83_domain with Ok m => m | Err _ => empty_domain end.
Definition d83_m' : mdomain :=
  match parse_domain no_num (export_domain 2 4 d83_m) with Ok m => m | Err _ => empty_domain end.

Definition applicable_in (m : mdomain) (name : string) (args : list string) (objs : Spec.Pddl.objects)
           (s : Spec.Pddl.state) : result bool :=
  match dget (d_actions m) name with
  | None => Err EKey
  | Some a => do ga <- Exec.ground_action m a args; Exec.is_applicable m 0x1.a36e2eb1c432dp-14%float (Some objs) ga s
  end.

Definition empty_state : Spec.Pddl.state := {| Spec.Pddl.facts := []; Spec.Pddl.fluents := [] |}.

Lemma d83_refutes :
  d83_domain = Ok d83_m /\
  parse_domain no_num (export_domain 2 4 d83_m) = Ok d83_m' /\
  applicable_in d83_m "a1" ["o1"] [("o1", "a")] empty_state = Ok false /\
  applicable_in d83_m' "a1" ["o1"] [("o1", "a")] empty_state = Ok true /\
  applicable_in d83_m "a2" ["o1"] [("o1", "a")] empty_state = Ok true /\
  applicable_in d83_m' "a2" ["o1"] [("o1", "a")] empty_state = Ok false.
Proof. vm_compute. repeat split. Qed.

Lemma refuted_all :
  exists (text : string) (m m' : mdomain),
    (do e <- parse_string MStr text; parse_domain no_num e) = Ok m /\
    parse_domain no_num (export_domain 2 4 m) = Ok m' /\
    applicable_in m "a1" ["o1"] [("o1", "a")] empty_state = Ok false /\
    applicable_in m' "a1" ["o1"] [("o1", "a")] empty_state = Ok true /\
    applicable_in m "a2" ["o1"] [("o1", "a")] empty_state = Ok true /\
    applicable_in m' "a2" ["o1"] [("o1", "a")] empty_state = Ok false.
Proof. exists d83_text, d83_m, d83_m'. exact d83_refutes. Qed.

