(* C08: corollaries of the round-trip theorem, examples and the refutation of the unrestricted statement. *)
From Coq Require Import List Ascii String Bool Arith Lia Permutation PrimFloat.
From Verif Require Import Base.Result Base.Str Base.Sexp Base.PyDict Base.Float
  Model.Tokenizer Model.Types Model.NumExpr Model.Domain Model.Exec Model.DomainExporter Spec.Pddl
  Proofs.C08_Defs Proofs.C08_Trees Proofs.C08_Pre Proofs.C08_Eff Proofs.C08_Tables Proofs.C08_Domain.
Import ListNotations.
Open Scope string_scope.
Open Scope list_scope.

(* ---------- a non-trivial domain satisfying the hypotheses ---------- *)
(* float(): the numerals of the example and of its exported text *)
Definition ex_num : numparser := fun s =>
  if String.eqb s "0.5" then Some 0x1p-1%float
  else if String.eqb s "0.50" then Some 0x1p-1%float
  else if String.eqb s "0.5000" then Some 0x1p-1%float
  else if String.eqb s "2.25" then Some 0x1.2p+1%float
  else if String.eqb s "2.2500" then Some 0x1.2p+1%float
  else if String.eqb s "0.125" then Some 0x1p-3%float
  else if String.eqb s "0.12" then Some 0x1.eb851eb851eb8p-4%float
  else if String.eqb s "0.1250" then Some 0x1p-3%float
  else if String.eqb s "1" then Some 1%float
  else if String.eqb s "3" then Some 3%float
  else if String.eqb s "10" then Some 10%float
  else None.

Definition ex_text : string :=
  "(define (domain ex) (:requirements :typing :fluents :conditional-effects)
   (:types truck car - vehicle vehicle place - object depot - place)
   (:constants hq - depot spare - car)
   (:predicates (at ?v - vehicle ?p - place) (free ?p - place) (broken ?v - vehicle) (ready))
   (:functions (fuel ?v - vehicle) (dist ?a - place ?b - place) (total))
   (:action drive :parameters (?v - vehicle ?from - place ?to - place)
     :precondition (and (at ?v ?from) (not (broken ?v)) (not (= ?from ?to)) (>= (fuel ?v) (* (dist ?from ?to) 0.5))
                        (or (free ?to) (and (ready) (at spare hq)) (< (total) 10))
                        (forall (?o - vehicle) (or (not (at ?o ?to)) (= ?o ?v) (> (fuel ?o) 0.125))))
     :effect (and (at ?v ?to) (not (at ?v ?from)) (decrease (fuel ?v) (* (dist ?from ?to) 0.5))
                  (increase (total) 2.25)
                  (when (and (free ?to) (<= (fuel ?v) 3)) (and (not (free ?to)) (assign (fuel ?v) (+ (fuel ?v) 0.125))))
                  (forall (?o - car) (when (and (at ?o ?from) (not (= ?o ?v))) (and (broken ?o) (increase (fuel ?o) 1))))))
   (:action rest :parameters () :precondition () :effect (and (ready))))".

Definition ex_domain : result mdomain :=
  do e <- parse_string MStr ex_text; parse_domain ex_num e.

Definition ex_m : mdomain :=
  match ex_domain with Ok m => m | Err _ => empty_domain end.

Lemma ex_parsed : ex_domain = Ok ex_m.
Proof. vm_compute. reflexivity. Qed.

Lemma ex_wf : wf_mdomain ex_num 2 4 ex_m = true.
Proof. vm_compute. reflexivity. Qed.

Lemma ex_nontrivial :
  List.length (d_actions ex_m) = 2 /\ List.length (d_types ex_m) = 5 /\
  List.length (domain_nums 2 4 ex_m) = 8.
Proof. vm_compute. repeat split. Qed.

(* the round trip of the example: 0.125 inside a condition is printed with 2 decimals and comes back as 0.12,
   everything else is unchanged *)
Lemma ex_roundtrip : parse_domain ex_num (export_domain 2 4 ex_m) = Ok (rr_domain ex_num 2 4 ex_m).
Proof. apply domain_roundtrip. exact ex_wf. Qed.

(* ---------- the unrestricted statement is false: finding D83 ---------- *)
Definition d83_text : string :=
  "(define (domain dom) (:requirements :typing :universal-preconditions) (:types a - object)
   (:predicates (p ?x - a))
   (:action a1 :parameters (?x - a) :precondition (and (forall (?q - a) (or))) :effect (and (p ?x)))
   (:action a2 :parameters (?x - a) :precondition (and (or (p ?x) (forall (?q - a) (and)))) :effect (and (p ?x))))".

Definition no_num : numparser := fun _ => None.

Definition d83_domain : result mdomain := do e <- parse_string MStr d83_text; parse_domain no_num e.
Definition d83_m : mdomain := match d83_domain with Ok m => m | Err _ => empty_domain end.
Definition d83_m' : mdomain :=
  match parse_domain no_num (export_domain 2 4 d83_m) with Ok m => m | Err _ => empty_domain end.

Definition applicable_in (m : mdomain) (name : string) (args : list string) (objs : Spec.Pddl.objects)
           (s : Spec.Pddl.state) : result bool :=
  match dget (d_actions m) name with
  | None => Err EKey
  | Some a => do ga <- Exec.ground_action m a args; Exec.is_applicable m 0x1.a36e2eb1c432dp-14%float (Some objs) ga s
  end.

Definition empty_state : Spec.Pddl.state := {| Spec.Pddl.facts := []; Spec.Pddl.fluents := [] |}.

Lemma d83_refutes :
  d83_domain = Ok d83_m /\
  parse_domain no_num (export_domain 2 4 d83_m) = Ok d83_m' /\
  applicable_in d83_m "a1" ["o1"] [("o1", "a")] empty_state = Ok false /\
  applicable_in d83_m' "a1" ["o1"] [("o1", "a")] empty_state = Ok true /\
  applicable_in d83_m "a2" ["o1"] [("o1", "a")] empty_state = Ok true /\
  applicable_in d83_m' "a2" ["o1"] [("o1", "a")] empty_state = Ok false.
Proof. vm_compute. repeat split. Qed.
