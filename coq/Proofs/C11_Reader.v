(* C11, reader half: read_from_tokens returns exactly the parenthesis structure. *)
From Coq Require Import List Ascii String Bool Arith Lia.
From Verif Require Import Base.Result Base.Str Base.Sexp Model.Tokenizer Spec.Layout.
Import ListNotations.
Open Scope string_scope.
Open Scope list_scope.

Lemma wf_head_not_rp e rest :
  wf e = true -> exists t ts, flatten e ++ rest = t :: ts /\ String.eqb t ")" = false.
Proof.
  destruct e as [s|l]; simpl; intros H.
  - exists s, rest. split; [reflexivity|].
    unfold is_paren_tok in H. rewrite negb_true_iff, orb_false_iff in H. tauto.
  - eexists _, _. split; reflexivity.
Qed.

Lemma size_pos e : 1 <= size e.
Proof. destruct e; simpl; lia. Qed.

Lemma rd_sound_aux :
  forall e, wf e = true ->
  forall fuel rest, size e <= fuel -> rd fuel (flatten e ++ rest) = Ok (e, rest).
Proof.
  induction e as [s|l IH] using sexp_ind'; intros Hwf fuel rest Hf.
  - simpl in *. destruct fuel as [|f]; [lia|]. simpl.
    unfold is_paren_tok in Hwf. rewrite negb_true_iff, orb_false_iff in Hwf.
    destruct Hwf as [H1 H2]. rewrite H1, H2. reflexivity.
  - simpl in Hwf. cbn [flatten size] in *.
    destruct fuel as [|f]; [lia|]. cbn [rd app]. cbn [String.eqb Ascii.eqb Bool.eqb].
    (* generalised statement about rdl *)
    assert (Hl : forall l', Forall (fun e => wf e = true ->
                 forall fuel rest, size e <= fuel -> rd fuel (flatten e ++ rest) = Ok (e, rest)) l' ->
               forallb wf l' = true ->
               forall fuel acc rest, 1 + list_sum (map size l') <= fuel ->
               rdl fuel ((flat_map flatten l' ++ [")"]) ++ rest) acc = Ok (SList (rev acc ++ l'), rest)).
    { clear. intros l' HF. induction HF as [|x xs Hx _ IHxs]; intros Hwf fuel acc rest Hf.
      - destruct fuel as [|f]; [simpl in Hf; lia|]. simpl. rewrite app_nil_r. reflexivity.
      - simpl in Hwf. apply andb_true_iff in Hwf as [Hwx Hwxs].
        change (list_sum (map size (x :: xs))) with (size x + list_sum (map size xs)) in Hf.
        destruct fuel as [|f]; [lia|]. pose proof (size_pos x) as Hsx.
        cbn [flat_map]. rewrite <- !app_assoc.
        destruct (wf_head_not_rp x (flat_map flatten xs ++ [")"] ++ rest) Hwx) as (t & ts & Heq & Hne).
        cbn [rdl]. rewrite Heq, Hne, <- Heq.
        rewrite (Hx Hwx f _) by lia.
        rewrite app_assoc. rewrite (IHxs Hwxs f (x :: acc) rest) by lia.
        simpl. rewrite <- app_assoc. reflexivity. }
    rewrite (Hl l IH Hwf f [] rest) by lia. reflexivity.
Qed.

Lemma rd_sound e fuel rest :
  wf e = true -> size e <= fuel -> rd fuel (flatten e ++ rest) = Ok (e, rest).
Proof. intros; apply rd_sound_aux; assumption. Qed.

(* completeness: whatever rd returns, the consumed tokens are the flattening of the result *)
Lemma rd_complete_aux :
  forall fuel,
    (forall ts e rest, rd fuel ts = Ok (e, rest) -> ts = flatten e ++ rest /\ wf e = true) /\
    (forall ts acc e rest, rdl fuel ts acc = Ok (e, rest) ->
       exists l, e = SList (rev acc ++ l) /\ ts = flat_map flatten l ++ ")" :: rest /\ forallb wf l = true).
Proof.
  induction fuel as [|f [IHrd IHrdl]]; split; try (simpl; intros; discriminate).
  - intros ts e rest H. cbn [rd] in H. destruct ts as [|t ts']; [discriminate|].
    destruct (String.eqb t "(") eqn:Elp.
    + apply String.eqb_eq in Elp. subst t.
      apply IHrdl in H as (l & -> & -> & Hwf). simpl. split; [|exact Hwf].
      rewrite <- app_assoc. reflexivity.
    + destruct (String.eqb t ")") eqn:Erp; [discriminate|].
      injection H as <- <-. simpl. split; [reflexivity|].
      unfold is_paren_tok. rewrite Elp, Erp. reflexivity.
  - intros ts acc e rest H. cbn [rdl] in H. destruct ts as [|t ts']; [discriminate|].
    destruct (String.eqb t ")") eqn:Erp.
    + apply String.eqb_eq in Erp. subst t. injection H as <- <-.
      exists []. rewrite app_nil_r. repeat split; reflexivity.
    + destruct (rd f (t :: ts')) as [[e1 ts1]|k] eqn:E1; [|discriminate].
      apply IHrd in E1 as [Hts Hw1].
      apply IHrdl in H as (l & -> & -> & Hwf).
      exists (e1 :: l). simpl. rewrite <- app_assoc. simpl.
      split; [reflexivity|]. split.
      * rewrite Hts, <- app_assoc. reflexivity.
      * rewrite Hw1, Hwf. reflexivity.
Qed.

Lemma rd_complete fuel ts e rest :
  rd fuel ts = Ok (e, rest) -> ts = flatten e ++ rest /\ wf e = true.
Proof. apply rd_complete_aux. Qed.

(* the strict reader: Ok e  <->  the token list is exactly the flattening of a well-formed e *)
Theorem parse_tokens_strict_iff ts e :
  parse_tokens_strict ts = Ok e <-> (ts = flatten e /\ wf e = true).
Proof.
  unfold parse_tokens_strict. split.
  - destruct (rd _ ts) as [[e' [|r rs]]|k] eqn:E; try discriminate.
    intros H. injection H as <-. apply rd_complete in E as [-> Hw].
    rewrite app_nil_r. auto.
  - intros [-> Hw]. rewrite <- (app_nil_r (flatten e)) at 2.
    rewrite rd_sound; [reflexivity|exact Hw|].
    rewrite flatten_length_size. lia.
Qed.

(* the code's reader: Ok e  <->  the token list STARTS with the flattening of a well-formed e *)
Theorem parse_tokens_iff ts e :
  parse_tokens ts = Ok e <-> (exists rest, ts = flatten e ++ rest /\ wf e = true).
Proof.
  unfold parse_tokens. split.
  - destruct (rd _ ts) as [[e' rest]|k] eqn:E; try discriminate.
    intros H. injection H as <-. apply rd_complete in E as [-> Hw]. eauto.
  - intros (rest & -> & Hw).
    rewrite rd_sound; [reflexivity|exact Hw|].
    rewrite app_length, flatten_length_size. lia.
Qed.

Lemma unread_tokens_spec ts e :
  parse_tokens ts = Ok e -> ts = flatten e ++ unread_tokens ts.
Proof.
  unfold parse_tokens, unread_tokens.
  destruct (rd _ ts) as [[e' rest]|k] eqn:E; try discriminate.
  intros H. injection H as <-. apply rd_complete in E as [-> _]. reflexivity.
Qed.

(* the two readers differ exactly on inputs with unread tokens *)
Theorem parse_tokens_vs_strict ts :
  parse_tokens ts = parse_tokens_strict ts \/
  (exists e, parse_tokens ts = Ok e /\ unread_tokens ts <> [] /\ parse_tokens_strict ts = Err ESyntax).
Proof.
  unfold parse_tokens, parse_tokens_strict, unread_tokens.
  destruct (rd _ ts) as [[e' [|r rs]]|k]; [left; reflexivity| |left; reflexivity].
  right. exists e'. repeat split. discriminate.
Qed.

Lemma flatten_nonempty e : 1 <= List.length (flatten e).
Proof. destruct e; simpl; lia. Qed.

(* the fuel supplied by parse_tokens never runs out *)
Lemma rd_fuel_aux :
  forall fuel,
    (forall ts, rd fuel ts = Err EFuel -> fuel = 0 \/ fuel + 1 <= 2 * List.length ts) /\
    (forall ts acc, rdl fuel ts acc = Err EFuel -> fuel <= 2 * List.length ts).
Proof.
  induction fuel as [|f [IHrd IHrdl]]; split; intros; try (left; reflexivity); try lia.
  - right. cbn [rd] in H. destruct ts as [|t rest]; [discriminate|].
    destruct (String.eqb t "("); [apply IHrdl in H; simpl; lia|].
    destruct (String.eqb t ")"); discriminate.
  - cbn [rdl] in H. destruct ts as [|t rest]; [discriminate|].
    destruct (String.eqb t ")"); [discriminate|].
    destruct (rd f (t :: rest)) as [[e1 ts1]|k] eqn:E1.
    + apply rd_complete in E1 as [Hts _]. apply IHrdl in H.
      apply (f_equal (@List.length string)) in Hts. rewrite app_length in Hts.
      pose proof (flatten_nonempty e1). lia.
    + injection H as ->. apply IHrd in E1. simpl in *. lia.
Qed.

Theorem parse_tokens_no_fuel ts : parse_tokens ts <> Err EFuel.
Proof.
  unfold parse_tokens. destruct (rd _ ts) as [[e rest]|k] eqn:E; try discriminate.
  intros H. injection H as ->. apply rd_fuel_aux in E. lia.
Qed.

Theorem parse_tokens_strict_no_fuel ts : parse_tokens_strict ts <> Err EFuel.
Proof.
  unfold parse_tokens_strict. destruct (rd _ ts) as [[e [|r rs]]|k] eqn:E; try discriminate.
  intros H. injection H as ->. apply rd_fuel_aux in E. lia.
Qed.
