(* C15: the witnesses.  One small domain (the one of findings.d/C15.json), read by the MODEL's domain parser and by
   the SPEC's grammar reading from the same text; every claim below is computed (vm_compute) on the executable model
   and on the spec interpreter, and replayed on the implementation by the check (finding witnesses).

   * [w70]: the current converter groups (needz a2 t1) with (delz a3) although delz deletes (z), which needz requires:
     the step is not a joint action of non-interfering members (finding D70, open);
   * [w25] / [w71]: what the converter did BEFORE the repairs D25 / D71 (the final comparison [insertion_ok_before]):
     the joint plan ended in another state than the sequential plan. *)
From Coq Require Import List Ascii String Bool Arith PrimFloat.
From Verif Require Import Base.Result Base.Str Base.Sexp Base.PyDict Base.Float
  Model.Tokenizer Model.Types Model.Domain Model.Exec Model.PlanConverter
  Spec.Pddl Spec.Grammar Spec.JointPlan Proofs.C15_Views Proofs.C15_Effect Proofs.C15_Sound.
Import ListNotations.
Open Scope string_scope.
Open Scope list_scope.

Definition dom_text : string :=
"(define (domain d)
(:requirements :typing :fluents)
(:types agent thing)
(:predicates (z) (p ?x - thing) (at ?a - agent ?x - thing))
(:functions (f ?a - agent) (g))
(:action setz :parameters (?a - agent) :precondition (and ) :effect (and (z)))
(:action delz :parameters (?a - agent) :precondition (and ) :effect (and (not (z))))
(:action needz :parameters (?a - agent ?x - thing) :precondition (and (z) (>= (f ?a) 0)) :effect (and (p ?x) (increase (f ?a) (g))))
(:action setg :parameters (?a - agent) :precondition (and ) :effect (and (assign (g) 5)))
)".

Definition nums : string -> option float := fun s => lookup s [("0", 0%float); ("5", 5%float)].
Definition eps : float := 0x1p-14%float.
Definition objs : objects := [("a1", "agent"); ("a2", "agent"); ("a3", "agent"); ("t1", "thing"); ("t2", "thing")].
Definition init : state :=
  {| facts := []; fluents := [(("f", ["a1"]), 0%float); (("f", ["a2"]), 0%float); (("f", ["a3"]), 0%float); (("g", []), 1%float)] |}.

Definition dom_sexp : result sexp := parse MFile (s2t dom_text).
Definition mdom : mdomain :=
  match dom_sexp with Ok e => match parse_domain nums e with Ok d => d | Err _ => empty_domain end | Err _ => empty_domain end.
Definition sdom : list action :=
  match dom_sexp with Ok e => match read_domain nums e with Some d => sd_actions d | None => [] end | Err _ => [] end.
Definition w : jworld := {| jw_eps := eps; jw_tt := [("agent", "object"); ("thing", "object")]; jw_objs := objs; jw_actions := sdom |}.

Lemma domain_is_read : List.length (d_actions mdom) = 4 /\ List.length sdom = 4.
Proof. vm_compute. split; reflexivity. Qed.

Definition same_facts (a b : state) : bool := facts_equiv (facts a) (facts b).
Definition fluent_is (s : state) (k : atom) (v : float) : bool :=
  match fluent_get k (fluents s) with Some x => float_beq x v | None => false end.

(* ---------- D70 (open): the current test lets a precondition be deleted inside a joint action ---------- *)
Definition agents70 := ["a3"; "a2"; "a1"].
Definition plan70 : text := s2t "(setz a1)
(needz a2 t1)
(delz a3)
".
Definition calls70 : list call := [("setz", ["a1"]); ("needz", ["a2"; "t1"]); ("delz", ["a3"])].
Definition js70 : list joint :=
  [[nop; nop; ("setz", ["a1"])]; [("delz", ["a3"]); ("needz", ["a2"; "t1"]); nop]].

Lemma w70_converted : convert_plan mdom eps agents70 true insertion_ok init plan70 = Ok js70.
Proof. vm_compute. reflexivity. Qed.

Lemma w70_extracted : option_map (map fst) (match extract_plan_actions agents70 plan70 with Ok l => Some l | Err _ => None end) = Some calls70.
Proof. vm_compute. reflexivity. Qed.

(* the sequential plan is valid; the joint plan's second step is not a joint action of non-interfering members *)
Lemma w70_sequential_valid : match seq_run w init calls70 with Some _ => true | None => false end = true.
Proof. vm_compute. reflexivity. Qed.

Lemma w70_interfere : non_interfering w ("delz", ["a3"]) ("needz", ["a2"; "t1"]) = false.
Proof. vm_compute. reflexivity. Qed.

Lemma w70_joint_undefined : joint_run w init js70 = None.
Proof. vm_compute. reflexivity. Qed.

(* ... although every member is applicable in its step's pre-state, the effects are compatible and the final state
   is the sequential one (what C15_outcome proves in general) *)
Lemma w70_outcome_still_equal :
  match run_sequential mdom eps init calls70, run_joint mdom eps init js70 with
  | Ok a, Ok b => same_facts a b && fluent_is b ("f", ["a2"]) 1%float && fluent_is a ("f", ["a2"]) 1%float
  | _, _ => false
  end = true.
Proof. vm_compute. reflexivity. Qed.

(* ---------- D25, before the repair: add/delete interference undetected, other final state ---------- *)
Definition agents25 := ["a1"; "a2"; "a3"].
Definition plan25 : text := s2t "(delz a2)
(setz a1)
".
Definition calls25 : list call := [("delz", ["a2"]); ("setz", ["a1"])].

Lemma w25_before : convert_plan mdom eps agents25 true insertion_ok_before init plan25 = Ok [[("setz", ["a1"]); ("delz", ["a2"]); nop]].
Proof. vm_compute. reflexivity. Qed.

Lemma w25_before_other_state :
  match run_sequential mdom eps init calls25, run_joint mdom eps init [[("setz", ["a1"]); ("delz", ["a2"]); nop]] with
  | Ok a, Ok b => atom_in ("z", []) (facts a) && negb (atom_in ("z", []) (facts b))
  | _, _ => false
  end = true.
Proof. vm_compute. reflexivity. Qed.

Lemma w25_after : convert_plan mdom eps agents25 true insertion_ok init plan25 = Ok [[nop; ("delz", ["a2"]); nop]; [("setz", ["a1"]); nop; nop]].
Proof. vm_compute. reflexivity. Qed.

(* ---------- D71, before the repair: a right-hand side read while another member assigns it ---------- *)
Definition agents71 := ["a2"; "a1"; "a3"].
Definition plan71 : text := s2t "(setz a3)
(needz a1 t1)
(setg a2)
".
Definition calls71 : list call := [("setz", ["a3"]); ("needz", ["a1"; "t1"]); ("setg", ["a2"])].
Definition js71_before : list joint := [[nop; nop; ("setz", ["a3"])]; [("setg", ["a2"]); ("needz", ["a1"; "t1"]); nop]].

Lemma w71_before : convert_plan mdom eps agents71 true insertion_ok_before init plan71 = Ok js71_before.
Proof. vm_compute. reflexivity. Qed.

Lemma w71_before_other_state :
  match run_sequential mdom eps init calls71, run_joint mdom eps init js71_before with
  | Ok a, Ok b => fluent_is a ("f", ["a1"]) 1%float && fluent_is b ("f", ["a1"]) 5%float
  | _, _ => false
  end = true.
Proof. vm_compute. reflexivity. Qed.

Lemma w71_after :
  convert_plan mdom eps agents71 true insertion_ok init plan71 =
  Ok [[nop; nop; ("setz", ["a3"])]; [nop; ("needz", ["a1"; "t1"]); nop]; [("setg", ["a2"]); nop; nop]].
Proof. vm_compute. reflexivity. Qed.

(* ---------- an example: 3 agents, 6 actions, one forced sequentialisation ---------- *)
Definition agents_ex := ["a1"; "a2"; "a3"].
Definition plan_ex : text := s2t "0 : (setz a1)
1 : (SETG a2)
2 : (needz a3 t1)
3 : (needz a1 t2)
4 : (delz a2)
5 : (setz a3)
".
Definition calls_ex : list call :=
  [("setz", ["a1"]); ("setg", ["a2"]); ("needz", ["a3"; "t1"]); ("needz", ["a1"; "t2"]); ("delz", ["a2"]); ("setz", ["a3"])].
Definition js_ex : list joint :=
  [[("setz", ["a1"]); ("setg", ["a2"]); nop];
   [("needz", ["a1"; "t2"]); nop; ("needz", ["a3"; "t1"])];
   [nop; ("delz", ["a2"]); nop];                         (* (setz a3) adds what (delz a2) deletes: kept apart *)
   [nop; nop; ("setz", ["a3"])]].

Lemma ex_extracted :
  extract_plan_actions agents_ex plan_ex =
  Ok [(("setz", ["a1"]), "a1"); (("setg", ["a2"]), "a2"); (("needz", ["a3"; "t1"]), "a3"); (("needz", ["a1"; "t2"]), "a1");
      (("delz", ["a2"]), "a2"); (("setz", ["a3"]), "a3")].
Proof. vm_compute. reflexivity. Qed.

Lemma ex_converted : convert_plan mdom eps agents_ex true insertion_ok init plan_ex = Ok js_ex.
Proof. vm_compute. reflexivity. Qed.

(* the sequential plan is valid, every step is a joint action of applicable, non-interfering members, and both runs of
   the spec interpreter end in the same state *)
Lemma ex_sound : sound_regrouping float_beq w init calls_ex js_ex.
Proof.
  unfold sound_regrouping.
  assert (E : match seq_run w init calls_ex, joint_run w init js_ex with
              | Some a, Some b => state_eqv float_beq b a
              | _, _ => false end = true) by (vm_compute; reflexivity).
  destruct (seq_run w init calls_ex); [|discriminate].
  destruct (joint_run w init js_ex); [exact E|discriminate].
Qed.

(* the library's own two executions agree as well *)
Lemma ex_library_runs :
  match run_sequential mdom eps init calls_ex, run_joint mdom eps init js_ex with
  | Ok a, Ok b => state_eqv float_beq a b
  | _, _ => false
  end = true.
Proof. vm_compute. reflexivity. Qed.

(* the hypotheses of the outcome theorem are satisfiable: every precondition of the example evaluates in every state *)
Lemma ex_pre_total : Forall (fun c => pre_total mdom eps c) calls_ex.
Proof.
  repeat constructor; intros ga Hga st; vm_compute in Hga; inversion Hga; subst ga; eexists; cbv - [atom_in fluent_get cmp_holds PrimFloat.leb PrimFloat.ltb PrimFloat.abs PrimFloat.sub]; reflexivity.
Qed.

Lemma ex_sequential_valid : exists fin, run_sequential mdom eps init calls_ex = Ok fin.
Proof. eexists. vm_compute. reflexivity. Qed.

(* ---------- the full soundness statement fails on the witness of D70 ---------- *)
Lemma w70_not_sound : ~ sound_regrouping float_beq w init calls70 js70.
Proof.
  unfold sound_regrouping. rewrite w70_joint_undefined.
  destruct (seq_run w init calls70) eqn:E; [intros H; exact H|].
  pose proof w70_sequential_valid as V. rewrite E in V. discriminate.
Qed.

Definition sound_statement : Prop :=
  forall (domain_text : string) (nums : string -> option float) (eps : float) (tt : tytree) (objs : objects)
         (init : state) (agents : list string) (flag : bool) (t : text),
  match parse MFile (s2t domain_text) with
  | Ok e =>
      match parse_domain nums e, read_domain nums e with
      | Ok d, Some sd =>
          forall pa js,
            extract_plan_actions agents t = Ok pa -> Forall (fun p => is_nop (fst p) = false) pa ->
            convert_plan d eps agents flag insertion_ok init t = Ok js ->
            sound_regrouping float_beq {| jw_eps := eps; jw_tt := tt; jw_objs := objs; jw_actions := sd_actions sd |}
                             init (map fst pa) js
      | _, _ => True
      end
  | Err _ => True
  end.

Definition e0 : sexp := Eval vm_compute in (match dom_sexp with Ok e => e | Err _ => Atom "" end).
Definition sd0 : sdomain :=
  Eval vm_compute in (match read_domain nums e0 with
                      | Some sd => sd
                      | None => {| sd_types := []; sd_consts := []; sd_preds := []; sd_funcs := []; sd_actions := [] |}
                      end).

Lemma reading_sexp : parse MFile (s2t dom_text) = Ok e0.
Proof. vm_compute. reflexivity. Qed.
Lemma reading_model : parse_domain nums e0 = Ok mdom.
Proof. vm_compute. reflexivity. Qed.
Lemma reading_spec : read_domain nums e0 = Some sd0.
Proof. vm_compute. reflexivity. Qed.
Lemma reading_spec_actions : sd_actions sd0 = sdom.
Proof. vm_compute. reflexivity. Qed.

Lemma sound_statement_refuted : ~ sound_statement.
Proof.
  intros H.
  specialize (H dom_text nums eps [("agent", "object"); ("thing", "object")] objs init agents70 true plan70).
  rewrite reading_sexp in H. cbv beta iota in H. rewrite reading_model, reading_spec in H. cbv beta iota in H.
  rewrite reading_spec_actions in H.
  destruct (extract_plan_actions agents70 plan70) as [pa|] eqn:Ee; [|vm_compute in Ee; discriminate].
  specialize (H pa js70 eq_refl).
  assert (Hpa : map fst pa = calls70).
  { pose proof w70_extracted as X. rewrite Ee in X. cbn in X. inversion X. reflexivity. }
  assert (Hn : Forall (fun p => is_nop (fst p) = false) pa).
  { vm_compute in Ee. inversion Ee; subst pa. repeat constructor. }
  specialize (H Hn w70_converted). rewrite Hpa in H. exact (w70_not_sound H).
Qed.
