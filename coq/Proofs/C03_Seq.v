(* C03 along call SEQUENCES: one grounded action (one Operator object of the library) applied again and again, each call
   to the state the previous call returned (to the state that call was given when it refused).  The model keeps nothing
   between two calls, so the chain of returned states is the chain of PDDL successors; the correspondence check
   (Corr/C03.v, seq3) runs the same sequences on ONE Operator object of the library. *)
From Coq Require Import List String Bool PrimFloat Permutation.
From Verif Require Import Base.Result Base.Str Base.PyDict Model.Types Model.Domain Model.Exec Spec.Pddl Spec.Joint
  Proofs.C03_Spec Proofs.C03_Defs Proofs.C03_Main Proofs.C16_Commute.
Import ListNotations.
Open Scope string_scope.
Open Scope list_scope.

Section Chain.
  Variables (d : mdomain) (eps : float) (a : maction) (effs : list eff) (args : list string) (ga : gaction)
            (objs : objects) (order uorder : list nat).

  Definition chain_next (s : state) (res : result state) : state := match res with Ok s' => s' | Err _ => s end.

  (* the returned values of k calls on one grounded action; [allows] = the allow_inapplicable_actions flag of each call *)
  Fixpoint model_chain (s : state) (allows : list bool) : list (result state) :=
    match allows with
    | [] => []
    | al :: r => let res := apply_op d eps ga (Some objs) al false order uorder s in
                 res :: model_chain (chain_next s res) r
    end.

  (* PDDL: the successor when the call is applicable or forced, no state (an error) otherwise *)
  Fixpoint spec_chain (A : action) (t : state) (allows : list bool) : list (option state) :=
    match allows with
    | [] => []
    | al :: r => if applicable eps (d_types d) objs A args t || al
                 then Some (successor eps (d_types d) objs A args t) :: spec_chain A (successor eps (d_types d) objs A args t) r
                 else None :: spec_chain A t r
    end.

  (* at the states the model's chain visits: the library's applicability test answers as PDDL says (the statement of C02),
     visiting the effect groups raises nothing, the firing effects are consistent *)
  Fixpoint chain_hyps (A : action) (s : state) (allows : list bool) : Prop :=
    match allows with
    | [] => True
    | al :: r =>
        is_applicable d eps (Some objs) ga s = Ok (applicable eps (d_types d) objs A args s) /\
        evaluates d eps objs ga s /\
        consistent (all_groups eps (d_types d) objs A args s) = true /\
        chain_hyps A (chain_next s (apply_op d eps ga (Some objs) al false order uorder s)) r
    end.

  Definition step_rel (r : result state) (o : option state) : Prop :=
    match r, o with
    | Ok s', Some t' => state_eq s' t'
    | Err EValue, None => True
    | _, _ => False
    end.

  Hypothesis Hd : denote_effs a = Some effs.
  Hypothesis Hn : names_ok d a = true.
  Hypothesis Hg : ground_action d a args = Ok ga.
  Hypothesis Ho : is_order order (List.length (ga_groups ga)).
  Hypothesis Hu : is_order uorder (List.length (ma_univ a)).

  Theorem chain_refines : forall allows s t,
    state_eq s t -> chain_hyps (spec_action a effs) s allows ->
    Forall2 step_rel (model_chain s allows) (spec_chain (spec_action a effs) t allows).
  Proof.
    induction allows as [|al r IH]; intros s t Hst Hh; simpl; [constructor|].
    simpl in Hh. destruct Hh as [Happ [Hev [Hc Hrest]]].
    pose proof (applicable_congr (d_types d) objs eps (spec_action a effs, args) s t Hst) as Eapp.
    unfold Spec.Joint.m_applicable in Eapp. simpl in Eapp. rewrite <- Eapp.
    destruct (applicable eps (d_types d) objs (spec_action a effs) args s || al) eqn:Eb.
    - assert (Hor : applicable eps (d_types d) objs (spec_action a effs) args s = true \/ al = true)
        by (apply orb_true_iff; exact Eb).
      destruct (successor_gen d eps a effs args ga objs s Hd Hn Hg Hev al _ Happ Hor Hc order uorder Ho Hu) as [s' [Hret Heq]].
      rewrite Hret in Hrest |- *. simpl in Hrest |- *.
      pose proof (step_congr (d_types d) objs eps (spec_action a effs, args) s t Hst) as Hsc.
      unfold Spec.Joint.m_step in Hsc. simpl in Hsc.
      assert (Hnext : state_eq s' (successor eps (d_types d) objs (spec_action a effs) args t))
        by (eapply state_eq_trans; [exact Heq | exact Hsc]).
      constructor; [exact Hnext | apply IH; assumption].
    - apply orb_false_iff in Eb. destruct Eb as [Eb1 Eb2]. subst al. rewrite Eb1 in Happ.
      rewrite (refused d eps ga objs s order uorder Happ) in Hrest |- *. simpl in Hrest |- *.
      constructor; [exact I | apply IH; assumption].
  Qed.
End Chain.

(* ---------- the hypotheses are satisfiable: a counter that a universal effect copies (the conditional and universal
   effects READ the fluent the unconditional group WRITES), applied four times to its own result: applicable twice,
   then refused ((ticks) = 2), then forced ---------- *)
From Verif Require Import Base.Sexp Model.Tokenizer Proofs.C03_Eval Proofs.C03_Refine Proofs.C03_Examples.

Definition tk_text : string :=
  "(define (domain stamping) (:requirements :typing :fluents :conditional-effects)
    (:types item watch)
    (:predicates (tracked ?i - item) (running ?w - watch))
    (:functions (ticks) (stamp ?i - item))
    (:action tick :parameters (?w - watch)
      :precondition (and (running ?w) (< (ticks) 2))
      :effect (and (increase (ticks) 1)
                   (when (>= (ticks) 1) (not (running ?w)))
                   (forall (?i - item) (when (tracked ?i) (assign (stamp ?i) (ticks)))))))".

Definition tk_dom : mdomain := Eval vm_compute in parse_text tk_text.
Definition tk_act : maction := Eval vm_compute in act_of tk_dom "tick".
Definition tk_effs : list eff := Eval vm_compute in effs_of tk_act.
Definition tk_args : list string := ["w1"].
Definition tk_ga : gaction := Eval vm_compute in ground_of tk_dom tk_act tk_args.
Definition tk_objs : objects := [("a", "item"); ("b", "item"); ("w1", "watch")].
Definition tk_state : state :=
  {| facts := [("tracked", ["a"]); ("running", ["w1"])];
     fluents := [(("ticks", []), 0%float); (("stamp", ["a"]), 7%float); (("stamp", ["b"]), 7%float)] |}.
Definition tk_allows : list bool := [false; true; false; true].

Example tk_denote : denote_effs tk_act = Some tk_effs /\ List.length tk_effs = 3.
Proof. vm_compute. split; reflexivity. Qed.
Example tk_names : names_ok tk_dom tk_act = true.
Proof. vm_compute. reflexivity. Qed.
Example tk_ground : ground_action tk_dom tk_act tk_args = Ok tk_ga.
Proof. vm_compute. reflexivity. Qed.
Example tk_order : is_order [1; 0] (List.length (ga_groups tk_ga)).
Proof. unfold is_order. vm_compute. apply perm_swap. Qed.
Example tk_uorder : is_order [0] (List.length (ma_univ tk_act)).
Proof. unfold is_order. vm_compute. apply Permutation_refl. Qed.

Ltac chain_step :=
  split; [vm_compute; reflexivity
         | split; [apply evaluates_b_sound; vm_compute; reflexivity | split; [vm_compute; reflexivity|]]].

Example tk_hyps :
  chain_hyps tk_dom ex_eps tk_args tk_ga tk_objs [1; 0] [0] (spec_action tk_act tk_effs) tk_state tk_allows.
Proof. unfold tk_allows. cbn [chain_hyps]. chain_step. chain_step. chain_step. chain_step. exact I. Qed.

(* what the four calls return: ticks 1, 2, refused, 3; (stamp a) is the value of (ticks) BEFORE each call: 0, 1, -, 2;
   (running w1) is deleted by the second call (the 'when' reads (ticks) = 1 of the pre-state, not 2) *)
Example tk_chain :
  map (fun r => match r with
                | Ok s => Some (fluent_get ("ticks", []) (fluents s), fluent_get ("stamp", ["a"]) (fluents s),
                                fluent_get ("stamp", ["b"]) (fluents s), atom_in ("running", ["w1"]) (facts s))
                | Err _ => None end)
      (model_chain tk_dom ex_eps tk_ga tk_objs [1; 0] [0] tk_state tk_allows)
  = [Some (Some 1%float, Some 0%float, Some 7%float, true);
     Some (Some 2%float, Some 1%float, Some 7%float, false);
     None;
     Some (Some 3%float, Some 2%float, Some 7%float, false)] /\
  nth 2 (model_chain tk_dom ex_eps tk_ga tk_objs [1; 0] [0] tk_state tk_allows) (Err EOther) = Err EValue.
Proof. vm_compute. split; reflexivity. Qed.

Example tk_refines :
  Forall2 step_rel (model_chain tk_dom ex_eps tk_ga tk_objs [1; 0] [0] tk_state tk_allows)
                   (spec_chain tk_dom ex_eps tk_args tk_objs (spec_action tk_act tk_effs) tk_state tk_allows).
Proof.
  apply (chain_refines tk_dom ex_eps tk_act tk_effs tk_args tk_ga tk_objs [1; 0] [0]).
  - apply tk_denote.
  - exact tk_names.
  - exact tk_ground.
  - exact tk_order.
  - exact tk_uorder.
  - apply state_eq_refl.
  - exact tk_hyps.
Qed.
