(* C02/C06 glue: the library's subtype test (Model.Types.is_sub_type: walk over the parent links) and the spec's
   (Spec.Pddl.subtypeb: ancestor_walk) are the same function on the same table. *)
From Coq Require Import List String Bool Arith.
From Verif Require Import Base.Result Base.Str Base.PyDict Model.Types Spec.Pddl.
Import ListNotations.
Open Scope string_scope.
Open Scope list_scope.

Lemma dget_lookup {V} (d : pydict V) (k : string) : dget d k = lookup k d.
Proof.
  induction d as [|[k' v] r IH]; simpl; [reflexivity|].
  destruct (String.eqb k k'); [reflexivity|exact IH].
Qed.

Lemma walk_ancestor_walk (fuel : nat) (d : typetable) : forall t target,
  match walk fuel d t target with Ok b => b | Err _ => false end = ancestor_walk fuel d t target.
Proof.
  induction fuel as [|f IH]; intros t target; simpl.
  - destruct (String.eqb t target); reflexivity.
  - destruct (String.eqb t target); [reflexivity|].
    destruct (String.eqb t "object"); [reflexivity|].
    rewrite dget_lookup. unfold name in *.
    destruct (lookup t d) as [parent|]; apply IH.
Qed.

Lemma is_sub_type_subtypeb (d : typetable) (t target : string) :
  is_sub_type d t target = subtypeb d t target.
Proof. unfold is_sub_type, subtypeb. apply walk_ancestor_walk. Qed.

(* the walk never runs out of fuel silently: on a table whose chains reach 'object' (what parse_types accepts)
   the answer does not depend on extra fuel -- proved for C06 by its own builder; here only the identity above is needed. *)
