(* C18, part 12: the alpha step of the code's model is correct.
   Model.ChangeSignatureAlpha.change_signature_a (the renaming since /repo eb5fde6: a quantifier whose variable is the
   new name of some parameter moves to a fresh name first) - whenever it returns, on a well-formed action (no repeated
   argument in a literal or fluent) whose object model denotes a Spec.Pddl action A, under a mapping that moves
   parameters only and is injective on the names in sight (the parameters and the free names of A) - returns an object
   model that denotes an action A' with the renamed parameter list, applicable in the same states and with the same
   successors as A for every argument tuple.  NO clause about the quantified variables of the action: a new name may
   equal one of them (the case Proofs.C18_AlphaStep leaves out), and may equal the fresh names the library would pick.
   What the proof needs from fresh_variable_name is exactly what it tests: the fresh name is not a token of the printed
   quantifier (so it is neither free in the body nor the variable of an inner quantifier that reads a name) and neither
   a key nor a value of the mapping in force.
   The renamed formula is related to the original one by Proofs.C18_AlphaSem.simf (truth under environments that agree
   through the substitution), the generalisation of Proofs.C18_Alpha.holds_ren to bound variables that change name. *)
From Coq Require Import List String Bool Arith PrimFloat.
From Verif Require Import Base.Result Base.Str Base.PyDict Model.Domain Model.Exec Model.ChangeSignature
  Model.ChangeSignatureAlpha Spec.Pddl Spec.Rename
  Proofs.C18_Dict Proofs.C18_Alpha Proofs.C18_Denote Proofs.C18_AlphaSem.
Import ListNotations.
Open Scope string_scope.
Open Scope list_scope.

(* ---------- well-formedness: no literal or fluent with a repeated argument ---------- *)
Fixpoint nodup_tree (t : mtree) : Prop :=
  match t with
  | TNum _ => True
  | TFn _ args => NoDup args
  | TNode _ l r => nodup_tree l /\ nodup_tree r
  end.

Fixpoint nodup_pre (p : mpre) : Prop :=
  match p with
  | MPre _ os _ _ =>
      (fix go (l : list mcond) : Prop := match l with [] => True | c :: r => nodup_cond c /\ go r end) os
  end
with nodup_cond (c : mcond) : Prop :=
  match c with
  | MLit _ _ args => NoDup args
  | MNum t => nodup_tree t
  | MNested q => nodup_pre q
  | MUniv _ _ body => nodup_pre body
  end.

Definition nodup_lit (l : mlit) : Prop := NoDup (l_args l).
Definition nodup_condeff (ce : mcondeff) : Prop :=
  nodup_pre (ce_ante ce) /\ Forall nodup_lit (ce_disc ce) /\ Forall nodup_tree (ce_num ce).
Definition nodup_action (a : maction) : Prop :=
  NoDup (dkeys (ma_sig a)) /\ nodup_pre (ma_pre a) /\ Forall nodup_lit (ma_disc a) /\ Forall nodup_tree (ma_num a) /\
  Forall nodup_condeff (ma_cond a) /\ Forall (fun ue => nodup_condeff (ue_ce ue)) (ma_univ a).

Lemma nodup_pre_unfold op os eqs neqs : nodup_pre (MPre op os eqs neqs) <-> Forall nodup_cond os.
Proof.
  simpl. induction os as [|c r IH]; simpl.
  - split; intros; constructor.
  - split.
    + intros [Hc Hr]. constructor; [exact Hc|apply IH; exact Hr].
    + intros H. inversion H; subst. split; [assumption|apply IH; assumption].
Qed.

(* ---------- denote_pre, inverted ---------- *)
Definition feq (ab : string * string) : form := FEq (fst ab) (snd ab).
Definition fneq (ab : string * string) : form := FNeq (fst ab) (snd ab).

Lemma collect_somes {A} (fs : list A) : collect (map Some fs) = Some fs.
Proof. induction fs as [|f r IH]; simpl; [reflexivity|]. rewrite IH. reflexivity. Qed.

Lemma collect_inv {A} (l : list (option A)) fs : collect l = Some fs -> l = map Some fs.
Proof.
  revert fs. induction l as [|[x|] r IH]; simpl; intros fs H.
  - inversion H. reflexivity.
  - destruct (collect r) as [xs|]; [|discriminate]. inversion H; subst. simpl. rewrite (IH xs eq_refl). reflexivity.
  - discriminate.
Qed.

Lemma collect_some_map {A B} (g : A -> B) (l : list A) : collect (map (fun x => Some (g x)) l) = Some (map g l).
Proof. induction l as [|x r IH]; simpl; [reflexivity|]. rewrite IH. reflexivity. Qed.

Lemma collect_parts os eqs neqs :
  collect (pre_parts os eqs neqs) =
  match collect (map denote_cond os) with
  | Some osF => Some (map feq eqs ++ map fneq neqs ++ osF)
  | None => None
  end.
Proof.
  unfold pre_parts. rewrite !collect_app.
  rewrite (collect_some_map (fun ab : name * name => FEq (fst ab) (snd ab)) eqs),
          (collect_some_map (fun ab : name * name => FNeq (fst ab) (snd ab)) neqs).
  destruct (collect (map denote_cond os)); reflexivity.
Qed.

Lemma denote_pre_mk op os eqs neqs :
  denote_pre (MPre op os eqs neqs) =
  match collect (map denote_cond os) with
  | Some osF => Some (mk op (map feq eqs ++ map fneq neqs ++ osF))
  | None => None
  end.
Proof.
  rewrite denote_pre_unfold, collect_parts. destruct (collect (map denote_cond os)); reflexivity.
Qed.

Lemma denote_pre_inv op os eqs neqs F :
  denote_pre (MPre op os eqs neqs) = Some F ->
  exists osF, map denote_cond os = map Some osF /\ F = mk op (map feq eqs ++ map fneq neqs ++ osF).
Proof.
  rewrite denote_pre_mk. destruct (collect (map denote_cond os)) as [osF|] eqn:E; [|discriminate].
  intros H. inversion H. exists osF. split; [apply collect_inv; exact E|reflexivity].
Qed.

Lemma denote_pre_intro op os eqs neqs osF :
  map denote_cond os = map Some osF ->
  denote_pre (MPre op os eqs neqs) = Some (mk op (map feq eqs ++ map fneq neqs ++ osF)).
Proof. intros H. rewrite denote_pre_mk, H, collect_somes. reflexivity. Qed.

Lemma map_some_cons {A B} (f : A -> option B) (c : A) (r : list A) (l : list B) :
  map f (c :: r) = map Some l -> exists x xs, l = x :: xs /\ f c = Some x /\ map f r = map Some xs.
Proof.
  destruct l as [|x xs]; simpl; intros H; [discriminate|]. inversion H. exists x, xs. auto.
Qed.

(* ---------- the renaming and injectivity ---------- *)
Lemma rn_single v c n : rn [(v, c)] n = single v c n.
Proof. unfold rn, single. simpl. destruct (String.eqb n v); reflexivity. Qed.

Lemma inj_on_incl rho (l l' : list name) : inj_on rho l -> incl l' l -> inj_on rho l'.
Proof. intros H Hi x y Hx Hy. apply H; apply Hi; assumption. Qed.

Lemma NoDup_map_inj_on rho (args : list name) : NoDup args -> inj_on rho args -> NoDup (map rho args).
Proof. intros Hnd Hinj. apply NoDup_map_inj; [exact Hinj|exact Hnd]. Qed.

(* distinct_* (Proofs.C18_Denote: no literal gets two equal argument names under the mapping) from nodup_* and injectivity
   on the free names, when no quantifier captures *)
Lemma distinct_tree_of m rho t a :
  (forall n, rn m n = rho n) -> denote_tree t = Some a -> nodup_tree t -> inj_on rho (free_nexp a) -> distinct_tree m t.
Proof.
  intros Hext. revert a. induction t as [x|f args|op l IHl r IHr]; simpl; intros a Hd Hnd Hinj.
  - exact I.
  - inversion Hd; subst a. simpl in Hinj. rewrite (map_ext _ _ Hext). apply NoDup_map_inj_on; assumption.
  - destruct (binop_of op); [|discriminate].
    destruct (denote_tree l) as [la|] eqn:El; [|discriminate]. destruct (denote_tree r) as [ra|] eqn:Er; [|discriminate].
    inversion Hd; subst a. simpl in Hinj. destruct Hnd as [Hl Hr]. split.
    + apply (IHl la eq_refl Hl). eapply inj_on_incl; [exact Hinj|]. apply incl_appl. apply incl_refl.
    + apply (IHr ra eq_refl Hr). eapply inj_on_incl; [exact Hinj|]. apply incl_appr. apply incl_refl.
Qed.

Lemma distinct_cmp_of m rho t F :
  (forall n, rn m n = rho n) -> denote_cmp t = Some F -> nodup_tree t -> inj_on rho (free_form F) -> distinct_tree m t.
Proof.
  intros Hext Hd Hnd Hinj. destruct t as [x|f args|op l r]; simpl in Hd; try discriminate.
  destruct (cmpop_of op); [|discriminate].
  destruct (denote_tree l) as [la|] eqn:El; [|discriminate]. destruct (denote_tree r) as [ra|] eqn:Er; [|discriminate].
  inversion Hd; subst F. simpl in Hinj. destruct Hnd as [Hl Hr]. split.
  - apply (distinct_tree_of m rho l la Hext El Hl). eapply inj_on_incl; [exact Hinj|]. apply incl_appl. apply incl_refl.
  - apply (distinct_tree_of m rho r ra Hext Er Hr). eapply inj_on_incl; [exact Hinj|]. apply incl_appr. apply incl_refl.
Qed.

Lemma nocap_mk rho op fs : nocap_form rho (mk op fs) -> forall x, In x fs -> nocap_form rho x.
Proof.
  unfold mk. destruct (String.eqb op "or"); simpl; intros H x Hx.
  - revert H. induction fs as [|y r IH]; simpl; intros H; [contradiction|].
    destruct H as [Hy Hr]. destruct Hx as [->|Hx]; [exact Hy|exact (IH Hx Hr)].
  - revert H. induction fs as [|y r IH]; simpl; intros H; [contradiction|].
    destruct H as [Hy Hr]. destruct Hx as [->|Hx]; [exact Hy|exact (IH Hx Hr)].
Qed.

Lemma in_osF_free (eqs neqs : list (string * string)) (osF : list form) op x :
  In x osF -> incl (free_form x) (free_form (mk op (map feq eqs ++ map fneq neqs ++ osF))).
Proof.
  intros Hx n Hn. rewrite free_mk. apply in_flat_map. exists x. split; [|exact Hn].
  apply in_or_app. right. apply in_or_app. right. exact Hx.
Qed.

Lemma distinct_of :
  forall p m rho F, (forall n, rn m n = rho n) -> denote_pre p = Some F -> nodup_pre p ->
                    inj_on rho (free_form F) -> nocap_form rho F -> distinct_pre m p.
Proof.
  apply (mpre_ind'
           (fun p => forall m rho F, (forall n, rn m n = rho n) -> denote_pre p = Some F -> nodup_pre p ->
                                     inj_on rho (free_form F) -> nocap_form rho F -> distinct_pre m p)
           (fun c => forall m rho F, (forall n, rn m n = rho n) -> denote_cond c = Some F -> nodup_cond c ->
                                     inj_on rho (free_form F) -> nocap_form rho F -> distinct_cond m c)).
  - intros op os eqs neqs IH m rho F Hext Hd Hnd Hinj Hnc.
    apply distinct_pre_unfold. apply nodup_pre_unfold in Hnd.
    destruct (denote_pre_inv op os eqs neqs F Hd) as [osF [Hos ->]].
    clear Hd. revert osF Hos Hinj Hnc. induction os as [|c r IHr]; intros osF Hos Hinj Hnc; [constructor|].
    destruct (map_some_cons denote_cond c r osF Hos) as [x [xs [-> [Hc Hr]]]].
    inversion IH as [|? ? IHc IHrest]; subst. inversion Hnd as [|? ? Hndc Hndr]; subst.
    constructor.
    + apply (IHc m rho x Hext Hc Hndc).
      * eapply inj_on_incl; [exact Hinj|]. apply in_osF_free. left. reflexivity.
      * apply (nocap_mk rho op _ Hnc). apply in_or_app. right. apply in_or_app. right. left. reflexivity.
    + apply (IHr IHrest Hndr xs Hr).
      * eapply inj_on_incl; [exact Hinj|]. rewrite !free_mk. intros n Hn. apply in_flat_map in Hn.
        destruct Hn as [y [Hy Hn]]. apply in_flat_map. exists y. split; [|exact Hn].
        apply in_app_or in Hy. destruct Hy as [Hy|Hy]; [apply in_or_app; left; exact Hy|].
        apply in_app_or in Hy. destruct Hy as [Hy|Hy]; apply in_or_app; right; apply in_or_app; [left; exact Hy|right; right; exact Hy].
      * assert (Hall : forall y, In y (map feq eqs ++ map fneq neqs ++ xs) -> nocap_form rho y).
        { intros y Hy. apply (nocap_mk rho op _ Hnc).
          apply in_app_or in Hy. destruct Hy as [Hy|Hy]; [apply in_or_app; left; exact Hy|].
          apply in_app_or in Hy. destruct Hy as [Hy|Hy]; apply in_or_app; right; apply in_or_app; [left; exact Hy|right; right; exact Hy]. }
        clear -Hall. unfold mk. set (l := map feq eqs ++ map fneq neqs ++ xs) in *. clearbody l.
        destruct (String.eqb op "or"); simpl; induction l as [|y ys IHl]; simpl; auto;
          (split; [apply Hall; left; reflexivity|apply IHl; intros z Hz; apply Hall; right; exact Hz]).
  - intros pos p args m rho F Hext Hd Hnd Hinj _. simpl. simpl in Hnd.
    assert (free_form F = args) by (destruct pos; simpl in Hd; inversion Hd; reflexivity).
    rewrite H in Hinj. rewrite (map_ext _ _ Hext). apply NoDup_map_inj_on; assumption.
  - intros t m rho F Hext Hd Hnd Hinj _. simpl. apply (distinct_cmp_of m rho t F Hext Hd Hnd Hinj).
  - intros q IH m rho F Hext Hd Hnd Hinj Hnc. simpl. apply (IH m rho F Hext Hd Hnd Hinj Hnc).
  - intros v ty b IH m rho F Hext Hd Hnd Hinj Hnc. simpl. simpl in Hd.
    destruct (denote_pre b) as [FB|] eqn:Eb; [|discriminate]. inversion Hd; subst F. simpl in Hinj, Hnc.
    destruct Hnc as [Hc1 Hc2].
    apply (IH (drop m v) (upd rho v) FB).
    + intros n. rewrite rn_drop_upd. unfold upd. destruct (String.eqb n v); [reflexivity|apply Hext].
    + reflexivity.
    + exact Hnd.
    + intros x y Hx Hy. unfold upd. destruct (String.eqb x v) eqn:Ex; destruct (String.eqb y v) eqn:Ey; intros E.
      * apply String.eqb_eq in Ex, Ey. congruence.
      * apply String.eqb_eq in Ex. subst x. exfalso. apply (Hc1 y Hy); [|symmetry; exact E].
        intros ->. rewrite String.eqb_refl in Ey. discriminate.
      * apply String.eqb_eq in Ey. subst y. exfalso. apply (Hc1 x Hx); [|exact E].
        intros ->. rewrite String.eqb_refl in Ex. discriminate.
      * apply Hinj; [| |exact E]; apply filter_In; (split; [assumption|]); [rewrite Ex|rewrite Ey]; reflexivity.
    + exact Hc2.
Qed.

(* the plain renaming keeps the action well formed *)
Lemma nodup_tree_rename m t : distinct_tree m t -> nodup_tree (rename_tree m t).
Proof.
  induction t as [x|f args|op l IHl r IHr]; simpl; intros H.
  - exact I.
  - rewrite rename_args_map by exact H. exact H.
  - destruct H as [Hl Hr]. split; [apply IHl; exact Hl|apply IHr; exact Hr].
Qed.

Lemma nodup_numexp_rename m t : nodup_tree t -> distinct_tree m t -> nodup_tree (rename_numexp m t).
Proof.
  destruct t as [x|f args|op l r]; simpl; intros Hn H; [exact I|exact Hn|].
  destruct H as [Hl Hr]. split; apply nodup_tree_rename; assumption.
Qed.

Lemma nodup_rename :
  forall p m, nodup_pre p -> distinct_pre m p -> nodup_pre (rename_pre m p).
Proof.
  apply (mpre_ind'
           (fun p => forall m, nodup_pre p -> distinct_pre m p -> nodup_pre (rename_pre m p))
           (fun c => forall m, nodup_cond c -> distinct_cond m c -> nodup_cond (rename_cond m c))).
  - intros op os eqs neqs IH m Hn Hd. rewrite rename_pre_unfold. apply nodup_pre_unfold.
    apply nodup_pre_unfold in Hn. apply distinct_pre_unfold in Hd.
    induction os as [|c r IHr]; [constructor|].
    inversion IH; subst. inversion Hn; subst. inversion Hd; subst. simpl. constructor; auto.
  - intros pos p args m Hn Hd. simpl in *. rewrite rename_args_map by exact Hd. exact Hd.
  - intros t m Hn Hd. simpl in *. apply nodup_numexp_rename; assumption.
  - intros q IH m Hn Hd. simpl in *. apply IH; assumption.
  - intros v ty b IH m Hn Hd. simpl in *. apply IH; assumption.
Qed.

(* ---------- fresh_variable_name: what "not blocked" gives ---------- *)
Lemma prefix_refl s : String.prefix s s = true.
Proof. induction s as [|a r IH]; simpl; [reflexivity|]. destruct (Ascii.ascii_dec a a); [exact IH|contradiction]. Qed.

Lemma infix_refl c : infix_of c c = true.
Proof. destruct c as [|a c]; [reflexivity|]. cbn [infix_of]. rewrite (prefix_refl (String a c)). reflexivity. Qed.

Lemma fresh_from_not_blocked fuel v toks m i c : fresh_from fuel v toks m i = Ok c -> blocked toks m c = false.
Proof.
  revert i. induction fuel as [|fu IH]; intros i H; [discriminate|]. cbn [fresh_from] in H.
  set (cand := (v ++ "_" ++ nat_to_string i)%string) in *.
  destruct (blocked toks m cand) eqn:E.
  - apply (IH (S i)). exact H.
  - inversion H; subst c. exact E.
Qed.

Lemma fresh_name_spec v toks m c :
  fresh_name v toks m = Ok c -> ~ In c toks /\ ~ In c (dkeys m) /\ ~ In c (dvalues m).
Proof.
  unfold fresh_name. intros H. apply fresh_from_not_blocked in H. unfold blocked in H.
  apply orb_false_iff in H. destruct H as [H H3]. apply orb_false_iff in H. destruct H as [H1 H2].
  split; [|split].
  - intros Hin. assert (existsb (infix_of c) toks = true); [|congruence].
    apply existsb_exists. exists c. split; [exact Hin|apply infix_refl].
  - intros Hin. apply str_in_In in Hin. congruence.
  - intros Hin. apply str_in_In in Hin. congruence.
Qed.

(* the tokens of the printed text cover the free names of the denoted formula and the variables of its quantifiers
   that read a name *)
Lemma tokens_tree t a : denote_tree t = Some a -> incl (free_nexp a) (ptok_tree t).
Proof.
  revert a. induction t as [x|f args|op l IHl r IHr]; simpl; intros a H.
  - inversion H. simpl. apply incl_refl.
  - inversion H. simpl. apply incl_tl. apply incl_refl.
  - destruct (binop_of op); [|discriminate].
    destruct (denote_tree l) as [la|]; [|discriminate]. destruct (denote_tree r) as [ra|]; [|discriminate].
    inversion H. simpl. apply incl_app; [apply incl_appl; apply IHl; reflexivity|apply incl_appr; apply IHr; reflexivity].
Qed.

Lemma tokens_cmp t F : denote_cmp t = Some F -> incl (free_form F) (ptok_tree t) /\ qbound F = [].
Proof.
  destruct t as [x|f args|op l r]; simpl; intros H; try discriminate.
  destruct (cmpop_of op); [|discriminate].
  destruct (denote_tree l) as [la|] eqn:El; [|discriminate]. destruct (denote_tree r) as [ra|] eqn:Er; [|discriminate].
  inversion H. simpl. split; [|reflexivity].
  apply incl_app; [apply incl_appl; apply tokens_tree; exact El|apply incl_appr; apply tokens_tree; exact Er].
Qed.

Lemma ptok_pre_unfold op os eqs neqs :
  ptok_pre (MPre op os eqs neqs) =
  flat_map ptok_cond os ++ flat_map (fun ab => [fst ab; snd ab]) eqs ++ flat_map (fun ab => [fst ab; snd ab]) neqs.
Proof. reflexivity. Qed.

Lemma qbound_mk op fs : qbound (mk op fs) = flat_map qbound fs.
Proof. unfold mk. destruct (String.eqb op "or"); reflexivity. Qed.

Lemma empty_pre_denote p F : empty_pre p = true -> denote_pre p = Some F -> free_form F = [] /\ qbound F = [].
Proof.
  destruct p as [op [|c r] [|e es] [|n ns]]; simpl; try discriminate. intros _ H.
  destruct (String.eqb op "or"); inversion H; split; reflexivity.
Qed.

Lemma tokens_of :
  forall p F, denote_pre p = Some F -> incl (free_form F) (ptok_pre p) /\ incl (qbound F) (ptok_pre p).
Proof.
  apply (mpre_ind'
           (fun p => forall F, denote_pre p = Some F -> incl (free_form F) (ptok_pre p) /\ incl (qbound F) (ptok_pre p))
           (fun c => forall F, denote_cond c = Some F -> incl (free_form F) (ptok_cond c) /\ incl (qbound F) (ptok_cond c))).
  - intros op os eqs neqs IH F Hd.
    destruct (denote_pre_inv op os eqs neqs F Hd) as [osF [Hos ->]]. rewrite free_mk, qbound_mk, ptok_pre_unfold.
    assert (Hops : incl (flat_map free_form osF) (flat_map ptok_cond os) /\ incl (flat_map qbound osF) (flat_map ptok_cond os)).
    { clear Hd. revert osF Hos. induction os as [|c r IHr]; intros osF Hos.
      - destruct osF; [|discriminate]. split; apply incl_refl.
      - destruct (map_some_cons denote_cond c r osF Hos) as [x [xs [-> [Hc Hr]]]].
        inversion IH as [|? ? IHc IHrest]; subst. destruct (IHc x Hc) as [H1 H2]. destruct (IHr IHrest xs Hr) as [H3 H4].
        simpl. split; apply incl_app; try (apply incl_appl; assumption); apply incl_appr; assumption. }
    destruct Hops as [H1 H2]. rewrite !flat_map_app. split.
    + apply incl_app; [|apply incl_app].
      * apply incl_appr. apply incl_appl. intros n Hn. apply in_flat_map in Hn. destruct Hn as [f [Hf Hn]].
        apply in_map_iff in Hf. destruct Hf as [ab [<- Hab]]. apply in_flat_map. exists ab. split; [exact Hab|exact Hn].
      * apply incl_appr. apply incl_appr. intros n Hn. apply in_flat_map in Hn. destruct Hn as [f [Hf Hn]].
        apply in_map_iff in Hf. destruct Hf as [ab [<- Hab]]. apply in_flat_map. exists ab. split; [exact Hab|exact Hn].
      * apply incl_appl. exact H1.
    + apply incl_app; [|apply incl_app].
      * intros n Hn. apply in_flat_map in Hn. destruct Hn as [f [Hf Hn]].
        apply in_map_iff in Hf. destruct Hf as [ab [<- Hab]]. contradiction.
      * intros n Hn. apply in_flat_map in Hn. destruct Hn as [f [Hf Hn]].
        apply in_map_iff in Hf. destruct Hf as [ab [<- Hab]]. contradiction.
      * apply incl_appl. exact H2.
  - intros pos p args F Hd. destruct pos; simpl in Hd; inversion Hd; simpl;
      (split; [apply incl_tl; apply incl_refl|intros n Hn; contradiction]).
  - intros t F Hd. simpl in Hd. destruct (tokens_cmp t F Hd) as [H1 H2]. simpl. split; [exact H1|].
    rewrite H2. intros n Hn. contradiction.
  - intros q IH F Hd. simpl in Hd. simpl. apply IH. exact Hd.
  - intros v ty b IH F Hd. simpl in Hd. destruct (denote_pre b) as [FB|] eqn:Eb; [|discriminate].
    inversion Hd; subst F. cbn [ptok_cond]. destruct (empty_pre b) eqn:Ee.
    + destruct (empty_pre_denote b FB Ee Eb) as [H1 H2]. simpl. rewrite H1, H2. simpl. split; intros n Hn; contradiction.
    + destruct (IH FB eq_refl) as [H1 H2]. split.
      * simpl. intros n Hn. apply filter_In in Hn. right. right. apply H1. exact (proj1 Hn).
      * simpl. destruct (free_form FB) as [|y0 ys0].
        -- intros n Hn. right. right. apply H2. exact Hn.
        -- intros n Hn. destruct Hn as [<-|Hn]; [left; reflexivity|right; right; apply H2; exact Hn].
Qed.

Lemma fresh_for_body v ty body FB c :
  denote_pre body = Some FB -> ~ In c (ptok_cond (MUniv v ty body)) -> ~ In c (free_form FB) /\ ~ In c (qbound FB).
Proof.
  intros Hd Hc. cbn [ptok_cond] in Hc. destruct (empty_pre body) eqn:Ee.
  - destruct (empty_pre_denote body FB Ee Hd) as [H1 H2]. rewrite H1, H2. split; intros H; contradiction.
  - destruct (tokens_of body FB Hd) as [H1 H2]. split; intros H; apply Hc; right; right; [apply H1|apply H2]; exact H.
Qed.

(* ---------- the mapping below a quantifier ---------- *)
Lemma rn_not_value (m : renaming) x n : ~ In x (dvalues m) -> n <> x -> rn m n <> x.
Proof.
  intros Hv Hne. unfold rn. destruct (dget m n) as [y|] eqn:E; [|exact Hne].
  intros ->. apply Hv. clear Hv Hne. induction m as [|[k z] r IH]; simpl in E; [discriminate|].
  destruct (String.eqb n k); [inversion E; left; reflexivity|right; apply IH; exact E].
Qed.

Lemma rn_not_key (m : renaming) c : ~ In c (dkeys m) -> rn m c = c.
Proof.
  intros Hk. unfold rn. destruct (dget m c) as [y|] eqn:E; [|reflexivity]. exfalso. apply Hk. clear Hk.
  induction m as [|[k z] r IH]; simpl in E; [discriminate|].
  destruct (String.eqb c k) eqn:Ek; [apply String.eqb_eq in Ek; left; symmetry; exact Ek|right; apply IH; exact E].
Qed.

Lemma not_value_of_str_in (m : renaming) v : str_in v (dvalues m) = false -> ~ In v (dvalues m).
Proof. intros H Hin. apply str_in_In in Hin. congruence. Qed.

Lemma rn_drop_ne m v n : n <> v -> rn (drop m v) n = rn m n.
Proof. intros H. rewrite rn_drop. destruct (String.eqb n v) eqn:E; [apply String.eqb_eq in E; contradiction|reflexivity]. Qed.

(* injectivity below a quantifier that keeps its variable *)
Lemma inj_keep m v (L : list name) :
  ~ In v (dvalues (drop m v)) -> inj_on (rn m) (filter (fun n => negb (String.eqb n v)) L) -> inj_on (rn (drop m v)) L.
Proof.
  intros Hv Hinj x y Hx Hy E. rewrite !rn_drop in E.
  destruct (String.eqb x v) eqn:Ex; destruct (String.eqb y v) eqn:Ey.
  - apply String.eqb_eq in Ex, Ey. congruence.
  - apply String.eqb_eq in Ex. subst x. exfalso.
    assert (Hne : y <> v) by (intros ->; rewrite String.eqb_refl in Ey; discriminate).
    apply (rn_not_value (drop m v) v y Hv Hne). rewrite (rn_drop_ne m v y Hne). symmetry. exact E.
  - apply String.eqb_eq in Ey. subst y. exfalso.
    assert (Hne : x <> v) by (intros ->; rewrite String.eqb_refl in Ex; discriminate).
    apply (rn_not_value (drop m v) v x Hv Hne). rewrite (rn_drop_ne m v x Hne). exact E.
  - apply Hinj; [| |exact E]; apply filter_In; (split; [assumption|]); [rewrite Ex|rewrite Ey]; reflexivity.
Qed.

(* what the moved variable leaves for the mapping in force: it fixes c, agrees with rn m off v and never yields c *)
Lemma rest_moved m v c (L : list name) :
  ~ In c L -> ~ In c (dvalues (drop m v)) ->
  forall n, In n L -> n <> v -> rn (drop m v) n = rn m n /\ rn m n <> c.
Proof.
  intros Hc Hv n Hn Hne. split; [apply rn_drop_ne; exact Hne|].
  rewrite <- (rn_drop_ne m v n Hne). apply rn_not_value; [exact Hv|]. intros ->. contradiction.
Qed.

Lemma inj_single v c (L : list name) : ~ In c L -> inj_on (single v c) L.
Proof.
  intros Hc x y Hx Hy. unfold single. destruct (String.eqb x v) eqn:Ex; destruct (String.eqb y v) eqn:Ey; intros E.
  - apply String.eqb_eq in Ex, Ey. congruence.
  - subst y. contradiction.
  - subst x. contradiction.
  - exact E.
Qed.

Lemma inj_moved rho rho' v c (L : list name) :
  ~ In c L -> rho' c = c ->
  (forall n, In n L -> n <> v -> rho' n = rho n /\ rho n <> c) ->
  inj_on rho (filter (fun n => negb (String.eqb n v)) L) ->
  forall L', (forall x, In x L' -> exists n, In n L /\ x = single v c n) -> inj_on rho' L'.
Proof.
  intros Hc Hfix Hrest Hinj L' HL' x y Hx Hy E.
  destruct (HL' x Hx) as [n1 [Hn1 ->]]. destruct (HL' y Hy) as [n2 [Hn2 ->]]. unfold single in *.
  destruct (String.eqb n1 v) eqn:E1; destruct (String.eqb n2 v) eqn:E2.
  - reflexivity.
  - exfalso. assert (Hne : n2 <> v) by (intros ->; rewrite String.eqb_refl in E2; discriminate).
    destruct (Hrest n2 Hn2 Hne) as [H1 H2]. rewrite Hfix, H1 in E. apply H2. symmetry. exact E.
  - exfalso. assert (Hne : n1 <> v) by (intros ->; rewrite String.eqb_refl in E1; discriminate).
    destruct (Hrest n1 Hn1 Hne) as [H1 H2]. rewrite Hfix, H1 in E. apply H2. exact E.
  - assert (Hne1 : n1 <> v) by (intros ->; rewrite String.eqb_refl in E1; discriminate).
    assert (Hne2 : n2 <> v) by (intros ->; rewrite String.eqb_refl in E2; discriminate).
    destruct (Hrest n1 Hn1 Hne1) as [H1 _]. destruct (Hrest n2 Hn2 Hne2) as [H2 _]. rewrite H1, H2 in E.
    apply Hinj; [| |exact E]; apply filter_In; (split; [assumption|]); [rewrite E1|rewrite E2]; reflexivity.
Qed.

(* ---------- the preconditions ---------- *)
Definition Ppre (fuel : nat) : Prop :=
  forall m p p' F, rename_pre_a fuel m p = Ok p' -> denote_pre p = Some F -> nodup_pre p ->
                   inj_on (rn m) (free_form F) -> exists F', denote_pre p' = Some F' /\ simf (rn m) F F'.
Definition Pcond (fuel : nat) : Prop :=
  forall m c c' F, rename_cond_a fuel m c = Ok c' -> denote_cond c = Some F -> nodup_cond c ->
                   inj_on (rn m) (free_form F) -> exists F', denote_cond c' = Some F' /\ simf (rn m) F F'.

Lemma simf_pairs rho (g : string * string -> form) (l : list (string * string)) m :
  (forall n, rn m n = rho n) ->
  (forall ab, simf rho (g ab) (g (rename_pair m ab))) ->
  Forall2 (simf rho) (map g l) (map g (map (rename_pair m) l)).
Proof. intros _ H. induction l as [|ab r IH]; simpl; constructor; [apply H|exact IH]. Qed.

Lemma simf_feq m ab : simf (rn m) (feq ab) (feq (rename_pair m ab)).
Proof.
  intros eps tt objs s e e' Hag. unfold feq, rename_pair. simpl.
  rewrite (Hag (fst ab)), (Hag (snd ab)); simpl; auto.
Qed.

Lemma simf_fneq m ab : simf (rn m) (fneq ab) (fneq (rename_pair m ab)).
Proof.
  intros eps tt objs s e e' Hag. unfold fneq, rename_pair. simpl.
  rewrite (Hag (fst ab)), (Hag (snd ab)); simpl; auto.
Qed.

Lemma operands_sim fu m : Pcond fu ->
  forall os os' osF, mapM (rename_cond_a fu m) os = Ok os' -> map denote_cond os = map Some osF ->
    Forall nodup_cond os -> (forall x, In x osF -> inj_on (rn m) (free_form x)) ->
    exists osF', map denote_cond os' = map Some osF' /\ Forall2 (simf (rn m)) osF osF'.
Proof.
  intros IHc. induction os as [|c r IHr]; intros os' osF Hm Hd Hn Hinj.
  - simpl in Hm. inversion Hm; subst os'. destruct osF; [|discriminate]. exists []. split; [reflexivity|constructor].
  - simpl in Hm. apply bind_ok_inv in Hm. destruct Hm as [c' [Hc Hm]]. apply bind_ok_inv in Hm. destruct Hm as [r' [Hr Hm]].
    inversion Hm; subst os'. destruct (map_some_cons denote_cond c r osF Hd) as [x [xs [-> [Hdc Hdr]]]].
    inversion Hn as [|? ? Hnc Hnr]; subst.
    destruct (IHc m c c' x Hc Hdc Hnc (Hinj x (or_introl eq_refl))) as [x' [Hx' Hsx]].
    destruct (IHr r' xs Hr Hdr Hnr (fun y Hy => Hinj y (or_intror Hy))) as [xs' [Hxs' Hsxs]].
    exists (x' :: xs'). split; [simpl; rewrite Hx', Hxs'; reflexivity|constructor; assumption].
Qed.

Lemma rename_a_sim : forall fuel, Ppre fuel /\ Pcond fuel.
Proof.
  induction fuel as [|fu [IHp IHc]]; [split; intros m p p' F H; discriminate|]. split.
  - intros m [op os eqs neqs] p' F H Hd Hn Hinj. cbn [rename_pre_a] in H.
    apply bind_ok_inv in H. destruct H as [os' [Hos H]]. inversion H; subst p'. clear H.
    destruct (denote_pre_inv op os eqs neqs F Hd) as [osF [HosF ->]]. apply nodup_pre_unfold in Hn.
    destruct (operands_sim fu m IHc os os' osF Hos HosF Hn) as [osF' [HosF' Hsim]].
    { intros x Hx. eapply inj_on_incl; [exact Hinj|]. apply in_osF_free. exact Hx. }
    exists (mk op (map feq (map (rename_pair m) eqs) ++ map fneq (map (rename_pair m) neqs) ++ osF')). split.
    + apply denote_pre_intro. exact HosF'.
    + apply simf_mk. apply Forall2_app; [|apply Forall2_app; [|exact Hsim]].
      * apply (simf_pairs (rn m) feq eqs m (fun n => eq_refl)). apply simf_feq.
      * apply (simf_pairs (rn m) fneq neqs m (fun n => eq_refl)). apply simf_fneq.
  - intros m c c' F H Hd Hn Hinj. destruct c as [pos p args|t|q|v ty body]; cbn [rename_cond_a] in H.
    + inversion H; subst c'. clear H. simpl in Hn.
      assert (Hf : free_form F = args) by (destruct pos; simpl in Hd; inversion Hd; reflexivity).
      rewrite Hf in Hinj. assert (Hnd : NoDup (map (rn m) args)) by (apply NoDup_map_inj_on; assumption).
      exists (ren_form (rn m) F). split.
      * simpl. rewrite rename_args_map by exact Hnd. destruct pos; simpl in Hd; inversion Hd; reflexivity.
      * apply simf_ren. destruct pos; simpl in Hd; inversion Hd; exact I.
    + inversion H; subst c'. clear H. simpl in Hn, Hd.
      assert (Hdt : distinct_tree m t) by (apply (distinct_cmp_of m (rn m) t F (fun n => eq_refl) Hd Hn Hinj)).
      exists (ren_form (rn m) F). split.
      * simpl. rewrite (denote_cmp_rename m t Hdt), Hd. reflexivity.
      * apply simf_ren. destruct t as [x|f a|op l r]; simpl in Hd; try discriminate.
        destruct (cmpop_of op), (denote_tree l), (denote_tree r); try discriminate. inversion Hd. exact I.
    + apply bind_ok_inv in H. destruct H as [q' [Hq H]]. inversion H; subst c'. simpl in Hd, Hn.
      destruct (IHp m q q' F Hq Hd Hn Hinj) as [F' [HF' Hs]]. exists F'. split; [exact HF'|exact Hs].
    + simpl in Hd. destruct (denote_pre body) as [FB|] eqn:Eb; [|discriminate]. inversion Hd; subst F. clear Hd.
      simpl in Hn, Hinj.
      destruct (str_in v (dvalues (drop m v))) eqn:Ecap.
      * (* the variable moves to a fresh name first *)
        apply bind_ok_inv in H. destruct H as [c [Hfresh H]]. apply bind_ok_inv in H. destruct H as [b' [Hb' H]].
        inversion H; subst c'. clear H.
        destruct (fresh_name_spec v _ (drop m v) c Hfresh) as [Htok [Hkey Hval]].
        destruct (fresh_for_body v ty body FB c Eb Htok) as [Hfree Hq].
        assert (Hnc : nocap_form (single v c) FB) by (apply (nocap_only_to c); [apply only_to_single|exact Hq]).
        assert (Hdist : distinct_pre [(v, c)] body).
        { apply (distinct_of body [(v, c)] (single v c) FB (rn_single v c) Eb Hn); [|exact Hnc].
          apply inj_single. exact Hfree. }
        assert (HX : denote_pre (rename_pre [(v, c)] body) = Some (ren_form (single v c) FB)).
        { rewrite (denote_pre_rename [(v, c)] body Hdist), Eb. simpl. f_equal. apply ren_form_ext. apply rn_single. }
        assert (Hrest := rest_moved m v c (free_form FB) Hfree Hval).
        assert (Hfix := rn_not_key (drop m v) c Hkey).
        destruct (IHp (drop m v) (rename_pre [(v, c)] body) b' (ren_form (single v c) FB) Hb' HX) as [FB' [HFB' Hs]].
        { apply nodup_rename; assumption. }
        { apply (inj_moved (rn m) (rn (drop m v)) v c (free_form FB) Hfree Hfix Hrest Hinj). apply in_free_ren. }
        exists (FForall c ty FB'). split; [simpl; rewrite HFB'; reflexivity|].
        apply (simf_forall_move (rn m) (rn (drop m v)) v c ty FB FB' Hfree Hnc Hfix Hrest Hs).
      * (* the variable stays *)
        apply bind_ok_inv in H. destruct H as [b' [Hb' H]]. inversion H; subst c'. clear H.
        pose proof (not_value_of_str_in _ _ Ecap) as Hv.
        destruct (IHp (drop m v) body b' FB Hb' Eb Hn (inj_keep m v (free_form FB) Hv Hinj)) as [FB' [HFB' Hs]].
        exists (FForall v ty FB'). split; [simpl; rewrite HFB'; reflexivity|].
        apply simf_forall_keep.
        -- intros n _ Hne. rewrite <- (rn_drop_ne m v n Hne). apply rn_not_value; assumption.
        -- apply (simf_ext (rn (drop m v))); [apply rn_drop_upd|exact Hs].
Qed.

Theorem rename_pre_a_sim fuel m p p' F :
  rename_pre_a fuel m p = Ok p' -> denote_pre p = Some F -> nodup_pre p -> inj_on (rn m) (free_form F) ->
  exists F', denote_pre p' = Some F' /\ simf (rn m) F F'.
Proof. apply (proj1 (rename_a_sim fuel)). Qed.

(* ================================================================================================== *)
(* Effects                                                                                              *)
(* ================================================================================================== *)
Lemma denote_prims_inv disc nums ps :
  denote_prims disc nums = Some ps ->
  exists np, map denote_numeff nums = map Some np /\ ps = map denote_lit disc ++ np.
Proof.
  unfold denote_prims. rewrite collect_app, (collect_some_map denote_lit disc).
  destruct (collect (map denote_numeff nums)) as [np|] eqn:E; [|discriminate].
  intros H. inversion H. exists np. split; [apply collect_inv; exact E|reflexivity].
Qed.

Lemma denote_numeff_inv t p :
  denote_numeff t = Some p ->
  exists op f args rhs k r, t = TNode op (TFn f args) rhs /\ denote_tree rhs = Some r /\ p = PNum k f args r.
Proof.
  destruct t as [x|f args|op l rhs]; simpl; try discriminate.
  destruct l as [x|f args|op2 l1 l2]; try discriminate.
  destruct (assignop_of op) as [k|]; [|discriminate]. destruct (denote_tree rhs) as [r|] eqn:Er; [|discriminate].
  intros H. inversion H. exists op, f, args, rhs, k, r. auto.
Qed.

Lemma distinct_numeff_of m rho t p :
  (forall n, rn m n = rho n) -> denote_numeff t = Some p -> nodup_tree t -> inj_on rho (free_prim p) -> distinct_tree m t.
Proof.
  intros Hext Hd Hn Hinj. destruct (denote_numeff_inv t p Hd) as [op [f [args [rhs [k [r [-> [Hr ->]]]]]]]].
  simpl in Hn, Hinj. destruct Hn as [Hargs Hrhs]. simpl. split.
  - rewrite (map_ext _ _ Hext). apply NoDup_map_inj_on; [exact Hargs|].
    eapply inj_on_incl; [exact Hinj|]. apply incl_appl. apply incl_refl.
  - apply (distinct_tree_of m rho rhs r Hext Hr Hrhs). eapply inj_on_incl; [exact Hinj|]. apply incl_appr. apply incl_refl.
Qed.

Lemma prims_rename m rho disc nums ps :
  (forall n, rn m n = rho n) -> denote_prims disc nums = Some ps ->
  Forall nodup_lit disc -> Forall nodup_tree nums -> inj_on rho (flat_map free_prim ps) ->
  denote_prims (map (rename_lit m) disc) (map (rename_numexp m) nums) = Some (map (ren_prim (rn m)) ps) /\
  Forall nodup_lit (map (rename_lit m) disc) /\ Forall nodup_tree (map (rename_numexp m) nums).
Proof.
  intros Hext Hd Hnl Hnt Hinj. destruct (denote_prims_inv disc nums ps Hd) as [np [Hnp Hps]].
  assert (Hdl : Forall (distinct_lit m) disc).
  { apply Forall_forall. intros l Hl. unfold distinct_lit. rewrite (map_ext _ _ Hext).
    rewrite Forall_forall in Hnl. apply NoDup_map_inj_on; [apply (Hnl l Hl)|].
    eapply inj_on_incl; [exact Hinj|]. intros n Hn. apply in_flat_map. exists (denote_lit l). split.
    - rewrite Hps. apply in_or_app. left. apply in_map. exact Hl.
    - unfold denote_lit. destruct (l_pos l); exact Hn. }
  assert (Hdt : Forall (distinct_tree m) nums).
  { clear Hd. subst ps. revert np Hnp Hinj. induction nums as [|t r IH]; intros np Hnp Hinj; [constructor|].
    destruct (map_some_cons denote_numeff t r np Hnp) as [x [xs [-> [Ht Hr]]]]. inversion Hnt; subst. constructor.
    - apply (distinct_numeff_of m rho t x Hext Ht); [assumption|].
      eapply inj_on_incl; [exact Hinj|]. intros n Hn. apply in_flat_map. exists x. split; [|exact Hn].
      apply in_or_app. right. left. reflexivity.
    - apply (IH H2 xs Hr). eapply inj_on_incl; [exact Hinj|]. intros n Hn. apply in_flat_map in Hn.
      destruct Hn as [y [Hy Hn]]. apply in_flat_map. exists y. split; [|exact Hn].
      apply in_app_or in Hy. destruct Hy as [Hy|Hy]; apply in_or_app; [left; exact Hy|right; right; exact Hy]. }
  split; [|split].
  - rewrite (denote_prims_rename m disc nums Hdl Hdt), Hd. reflexivity.
  - apply Forall_forall. intros l' Hl'. apply in_map_iff in Hl'. destruct Hl' as [l [<- Hl]].
    rewrite Forall_forall in Hdl. specialize (Hdl l Hl). unfold distinct_lit in Hdl. unfold nodup_lit, rename_lit. simpl.
    rewrite rename_args_map by exact Hdl. exact Hdl.
  - apply Forall_forall. intros t' Ht'. apply in_map_iff in Ht'. destruct Ht' as [t [<- Ht]].
    rewrite Forall_forall in Hdt, Hnt. apply nodup_numexp_rename; [apply Hnt|apply Hdt]; exact Ht.
Qed.

Lemma tokens_prims disc nums ps :
  denote_prims disc nums = Some ps ->
  incl (flat_map free_prim ps) (flat_map (fun l => l_name l :: l_args l) disc ++ flat_map ptok_tree nums).
Proof.
  intros Hd. destruct (denote_prims_inv disc nums ps Hd) as [np [Hnp ->]]. rewrite flat_map_app. apply incl_app.
  - apply incl_appl. intros n Hn. apply in_flat_map in Hn. destruct Hn as [p [Hp Hn]].
    apply in_map_iff in Hp. destruct Hp as [l [<- Hl]]. apply in_flat_map. exists l. split; [exact Hl|].
    right. unfold denote_lit in Hn. destruct (l_pos l); exact Hn.
  - apply incl_appr. clear Hd. revert np Hnp. induction nums as [|t r IH]; intros np Hnp.
    + destruct np; [|discriminate]. apply incl_refl.
    + destruct (map_some_cons denote_numeff t r np Hnp) as [x [xs [-> [Ht Hr]]]]. simpl. apply incl_app.
      * apply incl_appl. destruct (denote_numeff_inv t x Ht) as [op [f [args [rhs [k [rr [-> [Hrr ->]]]]]]]]. simpl.
        apply incl_app; [apply incl_tl; apply incl_appl; apply incl_refl|apply incl_tl; apply incl_appr; apply tokens_tree; exact Hrr].
      * apply incl_appr. apply IH. exact Hr.
Qed.

(* a conditional effect: antecedent and primitive effects *)
Lemma condeff_a_sim fuel m ce ce' c ps :
  rename_condeff_a fuel m ce = Ok ce' ->
  denote_pre (ce_ante ce) = Some c -> denote_prims (ce_disc ce) (ce_num ce) = Some ps ->
  nodup_condeff ce -> inj_on (rn m) (free_form c ++ flat_map free_prim ps) ->
  exists c', denote_pre (ce_ante ce') = Some c' /\
             denote_prims (ce_disc ce') (ce_num ce') = Some (map (ren_prim (rn m)) ps) /\ simf (rn m) c c'.
Proof.
  intros H Hc Hps [Hn1 [Hn2 Hn3]] Hinj. unfold rename_condeff_a in H.
  apply bind_ok_inv in H. destruct H as [ante [Ha H]]. inversion H; subst ce'. simpl.
  destruct (rename_pre_a_sim fuel m (ce_ante ce) ante c Ha Hc Hn1) as [c' [Hc' Hs]].
  { eapply inj_on_incl; [exact Hinj|]. apply incl_appl. apply incl_refl. }
  exists c'. split; [exact Hc'|]. split; [|exact Hs].
  apply (prims_rename m (rn m) _ _ ps (fun n => eq_refl) Hps Hn2 Hn3).
  eapply inj_on_incl; [exact Hinj|]. apply incl_appr. apply incl_refl.
Qed.

Lemma denote_condeff_inv ce E :
  denote_condeff ce = Some E ->
  exists c ps, denote_pre (ce_ante ce) = Some c /\ denote_prims (ce_disc ce) (ce_num ce) = Some ps /\ E = EWhen c ps.
Proof.
  unfold denote_condeff. destruct (denote_pre (ce_ante ce)) as [c|]; [|discriminate].
  destruct (denote_prims (ce_disc ce) (ce_num ce)) as [ps|]; [|discriminate].
  intros H. inversion H. exists c, ps. auto.
Qed.

Lemma denote_univeff_inv ue E :
  denote_univeff ue = Some E ->
  exists c ps, denote_pre (ce_ante (ue_ce ue)) = Some c /\
               denote_prims (ce_disc (ue_ce ue)) (ce_num (ue_ce ue)) = Some ps /\ E = EForall (ue_var ue) (ue_ty ue) c ps.
Proof.
  unfold denote_univeff. destruct (denote_pre (ce_ante (ue_ce ue))) as [c|]; [|discriminate].
  destruct (denote_prims (ce_disc (ue_ce ue)) (ce_num (ue_ce ue))) as [ps|]; [|discriminate].
  intros H. inversion H. exists c, ps. auto.
Qed.

Theorem condeff_sim fuel m ce ce' E :
  rename_condeff_a fuel m ce = Ok ce' -> denote_condeff ce = Some E -> nodup_condeff ce ->
  inj_on (rn m) (free_eff E) -> exists E', denote_condeff ce' = Some E' /\ sime (rn m) E E'.
Proof.
  intros H Hd Hn Hinj. destruct (denote_condeff_inv ce E Hd) as [c [ps [Hc [Hps ->]]]]. simpl in Hinj.
  destruct (condeff_a_sim fuel m ce ce' c ps H Hc Hps Hn Hinj) as [c' [Hc' [Hps' Hs]]].
  exists (EWhen c' (map (ren_prim (rn m)) ps)). split.
  - unfold denote_condeff. rewrite Hc', Hps'. reflexivity.
  - apply sime_when. exact Hs.
Qed.

Theorem univeff_sim fuel m ue ue' E :
  rename_univeff_a fuel m ue = Ok ue' -> denote_univeff ue = Some E -> nodup_condeff (ue_ce ue) ->
  inj_on (rn m) (free_eff E) -> exists E', denote_univeff ue' = Some E' /\ sime (rn m) E E'.
Proof.
  intros H Hd Hn Hinj. destruct (denote_univeff_inv ue E Hd) as [cF [ps [Hc [Hps ->]]]]. simpl in Hinj.
  set (v := ue_var ue) in *. set (L := free_form cF ++ flat_map free_prim ps) in *.
  unfold rename_univeff_a in H. fold v in H.
  destruct (str_in v (dvalues (drop m v))) eqn:Ecap.
  - (* the variable moves to a fresh name first *)
    apply bind_ok_inv in H. destruct H as [c [Hfresh H]]. apply bind_ok_inv in H. destruct H as [ce'' [Hce H]].
    inversion H; subst ue'. clear H.
    destruct (fresh_name_spec v _ (drop m v) c Hfresh) as [Htok [Hkey Hval]].
    destruct (tokens_of (ce_ante (ue_ce ue)) cF Hc) as [T1 T2].
    pose proof (tokens_prims _ _ ps Hps) as T3.
    assert (HcL : ~ In c L).
    { intros Hin. apply Htok. right. right. unfold ptok_condeff. apply in_app_or in Hin. destruct Hin as [Hin|Hin].
      - apply in_or_app. left. apply T1. exact Hin.
      - apply in_or_app. right. apply T3. exact Hin. }
    assert (Hq : ~ In c (qbound cF)).
    { intros Hin. apply Htok. right. right. unfold ptok_condeff. apply in_or_app. left. apply T2. exact Hin. }
    assert (Hfree : ~ In c (free_form cF)) by (intros Hin; apply HcL; apply in_or_app; left; exact Hin).
    assert (Hnc : nocap_form (single v c) cF) by (apply (nocap_only_to c); [apply only_to_single|exact Hq]).
    destruct Hn as [Hn1 [Hn2 Hn3]].
    assert (HinjS : inj_on (single v c) L) by (apply inj_single; exact HcL).
    assert (Hdist : distinct_pre [(v, c)] (ce_ante (ue_ce ue))).
    { apply (distinct_of _ [(v, c)] (single v c) cF (rn_single v c) Hc Hn1); [|exact Hnc].
      eapply inj_on_incl; [exact HinjS|]. apply incl_appl. apply incl_refl. }
    destruct (prims_rename [(v, c)] (single v c) _ _ ps (rn_single v c) Hps Hn2 Hn3) as [HpsX [HnX2 HnX3]].
    { eapply inj_on_incl; [exact HinjS|]. apply incl_appr. apply incl_refl. }
    assert (HpsX' : denote_prims (map (rename_lit [(v, c)]) (ce_disc (ue_ce ue))) (map (rename_numexp [(v, c)]) (ce_num (ue_ce ue)))
                    = Some (map (ren_prim (single v c)) ps)).
    { rewrite HpsX. f_equal. apply map_ext. intros p. apply ren_prim_ext. apply rn_single. }
    assert (HX : denote_pre (rename_pre [(v, c)] (ce_ante (ue_ce ue))) = Some (ren_form (single v c) cF)).
    { rewrite (denote_pre_rename [(v, c)] _ Hdist), Hc. simpl. f_equal. apply ren_form_ext. apply rn_single. }
    assert (Hrest := rest_moved m v c L HcL Hval).
    assert (Hfix := rn_not_key (drop m v) c Hkey).
    destruct (condeff_a_sim fuel (drop m v) (rename_condeff [(v, c)] (ue_ce ue)) ce''
                            (ren_form (single v c) cF) (map (ren_prim (single v c)) ps) Hce HX HpsX')
      as [c' [Hc' [Hps' Hs]]].
    { split; [apply nodup_rename; assumption|split; assumption]. }
    { apply (inj_moved (rn m) (rn (drop m v)) v c L HcL Hfix Hrest Hinj).
      intros x Hx. apply in_app_or in Hx. destruct Hx as [Hx|Hx].
      - destruct (in_free_ren cF (single v c) x Hx) as [n [Hn E]]. exists n. split; [|exact E].
        unfold L. apply in_or_app. left. exact Hn.
      - apply in_flat_map in Hx. destruct Hx as [p' [Hp' Hx]]. apply in_map_iff in Hp'. destruct Hp' as [p [<- Hp]].
        destruct (in_free_prim_ren (single v c) p x Hx) as [n [Hn E]]. exists n. split; [|exact E].
        unfold L. apply in_or_app. right. apply in_flat_map. exists p. split; assumption. }
    exists (EForall c (ue_ty ue) c' (map (ren_prim (rn (drop m v))) (map (ren_prim (single v c)) ps))). split.
    + unfold denote_univeff. simpl. rewrite Hc', Hps'. reflexivity.
    + apply (sime_forall_move (rn m) (rn (drop m v)) v c (ue_ty ue) cF c' ps HcL Hnc Hfix Hrest Hs).
  - (* the variable stays *)
    apply bind_ok_inv in H. destruct H as [ce'' [Hce H]]. inversion H; subst ue'. clear H.
    pose proof (not_value_of_str_in _ _ Ecap) as Hv.
    destruct (condeff_a_sim fuel (drop m v) (ue_ce ue) ce'' cF ps Hce Hc Hps Hn (inj_keep m v L Hv Hinj))
      as [c' [Hc' [Hps' Hs]]].
    exists (EForall v (ue_ty ue) c' (map (ren_prim (upd (rn m) v)) ps)). split.
    + unfold denote_univeff. simpl. rewrite Hc', Hps'. f_equal. f_equal. apply map_ext. intros p.
      apply ren_prim_ext. apply rn_drop_upd.
    + apply sime_forall_keep.
      * intros n _ Hne. rewrite <- (rn_drop_ne m v n Hne). apply rn_not_value; assumption.
      * apply (simf_ext (rn (drop m v))); [apply rn_drop_upd|exact Hs].
Qed.

(* ================================================================================================== *)
(* The action                                                                                           *)
(* ================================================================================================== *)
Lemma mapM_sim {X E} (f : X -> result X) (den : X -> option E) (R : E -> E -> Prop) (ok : X -> Prop) (inj : E -> Prop) :
  (forall x x' e, f x = Ok x' -> den x = Some e -> ok x -> inj e -> exists e', den x' = Some e' /\ R e e') ->
  forall l l' es, mapM f l = Ok l' -> map den l = map Some es -> Forall ok l -> (forall e, In e es -> inj e) ->
    exists es', map den l' = map Some es' /\ Forall2 R es es'.
Proof.
  intros Hone. induction l as [|x r IH]; intros l' es Hm Hd Hok Hinj.
  - simpl in Hm. inversion Hm; subst l'. destruct es; [|discriminate]. exists []. split; [reflexivity|constructor].
  - simpl in Hm. apply bind_ok_inv in Hm. destruct Hm as [x' [Hx Hm]]. apply bind_ok_inv in Hm. destruct Hm as [r' [Hr Hm]].
    inversion Hm; subst l'. destruct (map_some_cons den x r es Hd) as [e [es0 [-> [Hdx Hdr]]]].
    inversion Hok as [|? ? Hokx Hokr]; subst.
    destruct (Hone x x' e Hx Hdx Hokx (Hinj e (or_introl eq_refl))) as [e' [He' HR]].
    destruct (IH r' es0 Hr Hdr Hokr (fun y Hy => Hinj y (or_intror Hy))) as [es' [Hes' HRs]].
    exists (e' :: es'). split; [simpl; rewrite He', Hes'; reflexivity|constructor; assumption].
Qed.

Lemma fires_Forall2 eps tt objs s e e' rho (es es' : list eff) :
  Forall2 (sime rho) es es' -> agree_on rho e e' (flat_map free_eff es) ->
  flat_map (fires eps tt objs e' s) es' = flat_map (fires eps tt objs e s) es.
Proof.
  induction 1 as [|x y l l' Hxy _ IH]; simpl; intros Hag; [reflexivity|].
  rewrite (Hxy eps tt objs s e e'), IH; [reflexivity| |].
  - eapply agree_on_incl; [exact Hag|]. apply incl_appr. apply incl_refl.
  - eapply agree_on_incl; [exact Hag|]. apply incl_appl. apply incl_refl.
Qed.

Theorem change_signature_fuel_correct (fuel : nat) (m : renaming) (a a' : maction) (A : action) :
  nodup_action a -> denote_action a = Some A ->
  (forall n, ~ In n (params A) -> rn m n = n) ->
  inj_on (rn m) (params A ++ free_action A) ->
  change_signature_fuel fuel m a = Ok a' ->
  exists A', denote_action a' = Some A' /\
    a_name A' = a_name A /\
    a_params A' = map (fun pt => (rn m (fst pt), snd pt)) (a_params A) /\
    forall eps tt objs args s, List.length args = List.length (a_params A) ->
      applicable eps tt objs A' args s = applicable eps tt objs A args s /\
      successor eps tt objs A' args s = successor eps tt objs A args s.
Proof.
  intros [Hsig [Hnpre [Hndisc [Hnnum [Hncond Hnuniv]]]]] HA Hmove Hinj H.
  unfold change_signature_fuel in H.
  apply bind_ok_inv in H. destruct H as [pre' [Hpre H]].
  apply bind_ok_inv in H. destruct H as [conds' [Hconds H]].
  apply bind_ok_inv in H. destruct H as [univs' [Hunivs H]]. inversion H; subst a'. clear H.
  unfold denote_action in HA. destruct (denote_pre (ma_pre a)) as [F|] eqn:EF; [|discriminate].
  destruct (denote_effs a) as [es|] eqn:Ees; [|discriminate]. inversion HA; subst A. clear HA.
  unfold params, free_action in *. simpl in *.
  unfold denote_effs in Ees. destruct (denote_prims (ma_disc a) (ma_num a)) as [ps|] eqn:Eps; [|discriminate].
  destruct (collect (map denote_condeff (ma_cond a))) as [cs|] eqn:Ecs; [|discriminate].
  destruct (collect (map denote_univeff (ma_univ a))) as [us|] eqn:Eus; [|discriminate].
  inversion Ees; subst es. clear Ees. apply collect_inv in Ecs, Eus.
  set (rho := rn m) in *.
  assert (HinjF : inj_on rho (free_form F)).
  { eapply inj_on_incl; [exact Hinj|]. apply incl_appr. apply incl_appl. apply incl_refl. }
  assert (HinE : forall E, In E (EPrims ps :: cs ++ us) -> inj_on rho (free_eff E)).
  { intros E HE. eapply inj_on_incl; [exact Hinj|]. apply incl_appr. apply incl_appr.
    intros n Hn. apply in_flat_map. exists E. split; assumption. }
  destruct (rename_pre_a_sim fuel m (ma_pre a) pre' F Hpre EF Hnpre HinjF) as [F' [HF' HsF]].
  destruct (prims_rename m rho _ _ ps (fun n => eq_refl) Eps Hndisc Hnnum) as [Hps' _].
  { apply (HinE (EPrims ps)). left. reflexivity. }
  destruct (mapM_sim (rename_condeff_a fuel m) denote_condeff (sime rho) nodup_condeff (fun E => inj_on rho (free_eff E))
                     (condeff_sim fuel m) (ma_cond a) conds' cs Hconds Ecs Hncond) as [cs' [Hcs' Hscs]].
  { intros E HE. apply HinE. right. apply in_or_app. left. exact HE. }
  destruct (mapM_sim (rename_univeff_a fuel m) denote_univeff (sime rho) (fun ue => nodup_condeff (ue_ce ue))
                     (fun E => inj_on rho (free_eff E)) (univeff_sim fuel m) (ma_univ a) univs' us Hunivs Eus Hnuniv)
    as [us' [Hus' Hsus]].
  { intros E HE. apply HinE. right. apply in_or_app. right. exact HE. }
  assert (Hrb : rebuild m (ma_sig a) = map (rn_item m) (ma_sig a)).
  { apply rebuild_map. apply NoDup_map_inj_on; [exact Hsig|].
    eapply inj_on_incl; [exact Hinj|]. apply incl_appl. apply incl_refl. }
  exists {| a_name := ma_name a; a_params := map (rn_item m) (ma_sig a); a_pre := F';
            a_effs := EPrims (map (ren_prim rho) ps) :: cs' ++ us' |}.
  split; [|split; [reflexivity|split; [reflexivity|]]].
  - unfold denote_action, denote_effs. simpl. rewrite HF', Hps', Hcs', Hus', !collect_somes, Hrb. reflexivity.
  - intros eps tt objs args s Hlen.
    assert (Hag : agree_on rho (combine (map fst (ma_sig a)) args) (combine (map rho (map fst (ma_sig a))) args)
                           (map fst (ma_sig a) ++ free_form F ++ flat_map free_eff (EPrims ps :: cs ++ us))).
    { apply bind_args_agree; [exact Hmove|exact Hinj|]. rewrite map_length. exact Hlen. }
    rewrite (map_map fst rho) in Hag.
    split.
    + unfold applicable, bind_args. cbn [a_params a_pre]. rewrite map_map. apply HsF.
      eapply agree_on_incl; [exact Hag|]. apply incl_appr. apply incl_appl. apply incl_refl.
    + unfold successor, all_groups, bind_args. cbn [a_params a_effs]. rewrite map_map. f_equal.
      apply (fires_Forall2 eps tt objs s _ _ rho).
      * constructor; [|apply Forall2_app; assumption].
        apply (sime_ren rho (EPrims ps)). exact I.
      * eapply agree_on_incl; [exact Hag|]. apply incl_appr. apply incl_appr. apply incl_refl.
Qed.

Theorem change_signature_a_correct (m : renaming) (a a' : maction) (A : action) :
  nodup_action a -> denote_action a = Some A ->
  (forall n, ~ In n (params A) -> rn m n = n) ->
  inj_on (rn m) (params A ++ free_action A) ->
  change_signature_a m a = Ok a' ->
  exists A', denote_action a' = Some A' /\
    a_name A' = a_name A /\
    a_params A' = map (fun pt => (rn m (fst pt), snd pt)) (a_params A) /\
    forall eps tt objs args s, List.length args = List.length (a_params A) ->
      applicable eps tt objs A' args s = applicable eps tt objs A args s /\
      successor eps tt objs A' args s = successor eps tt objs A args s.
Proof. exact (change_signature_fuel_correct alpha_fuel m a a' A). Qed.
