(* C08: every iteration order of the underlying sets.
   [perm_domain m m1]: m1 is m with the operands of every condition, its (in)equality pairs, the discrete / numeric /
   conditional / universal effects of every action and of every 'when' listed in another order (at every nesting
   level independently) - i.e. the same Python object iterated in another order.  Well-formedness does not depend on
   the order, so every theorem about wf_mdomain objects applies to every reordering. *)
From Coq Require Import List Ascii String Bool Arith Lia Permutation PrimFloat.
From Verif Require Import Base.Result Base.Str Base.Sexp Base.PyDict Base.Float
  Model.Types Model.NumExpr Model.Domain Model.DomainExporter
  Proofs.C08_Defs Proofs.C08_Trees Proofs.C08_Pre Proofs.C08_Tables.
Import ListNotations.
Open Scope string_scope.
Open Scope list_scope.

Inductive perm_pre : mpre -> mpre -> Prop :=
| PPre op os os1 os' eqs eqs' neqs neqs' :
    Forall2 perm_cond os os1 -> Permutation os1 os' -> Permutation eqs eqs' -> Permutation neqs neqs' ->
    perm_pre (MPre op os eqs neqs) (MPre op os' eqs' neqs')
with perm_cond : mcond -> mcond -> Prop :=
| PLit pos p a : perm_cond (MLit pos p a) (MLit pos p a)
| PNum t : perm_cond (MNum t) (MNum t)
| PNested q q' : perm_pre q q' -> perm_cond (MNested q) (MNested q')
| PUniv v ty q q' : perm_pre q q' -> perm_cond (MUniv v ty q) (MUniv v ty q').

Definition perm_condeff (ce ce' : mcondeff) : Prop :=
  perm_pre (ce_ante ce) (ce_ante ce') /\ Permutation (ce_disc ce) (ce_disc ce') /\ Permutation (ce_num ce) (ce_num ce').
Definition perm_univeff (ue ue' : muniveff) : Prop :=
  ue_var ue = ue_var ue' /\ ue_ty ue = ue_ty ue' /\ perm_condeff (ue_ce ue) (ue_ce ue').

Definition perm_action (a a' : maction) : Prop :=
  ma_name a = ma_name a' /\ ma_sig a = ma_sig a' /\ perm_pre (ma_pre a) (ma_pre a') /\
  Permutation (ma_disc a) (ma_disc a') /\ Permutation (ma_num a) (ma_num a') /\
  (exists cs, Forall2 perm_condeff (ma_cond a) cs /\ Permutation cs (ma_cond a')) /\
  (exists us, Forall2 perm_univeff (ma_univ a) us /\ Permutation us (ma_univ a')).

Definition perm_domain (m m' : mdomain) : Prop :=
  d_name m = d_name m' /\ d_reqs m = d_reqs m' /\ d_types m = d_types m' /\ d_consts m = d_consts m' /\
  d_preds m = d_preds m' /\ d_funcs m = d_funcs m' /\
  Forall2 (fun na na' => fst na = fst na' /\ perm_action (snd na) (snd na')) (d_actions m) (d_actions m').

Lemma forallb_perm8 {A} (f : A -> bool) l l' : Permutation l l' -> forallb f l = forallb f l'.
Proof.
  induction 1 as [|x l1 l2 _ IH|x y l|l1 l2 l3 _ IH1 _ IH2]; simpl; [reflexivity|rewrite IH; reflexivity| |congruence].
  destruct (f x), (f y); reflexivity.
Qed.

Lemma forallb_forall2 {A} (f : A -> bool) (R : A -> A -> Prop) l l' :
  Forall2 R l l' -> (forall x y, In x l -> R x y -> f x = true -> f y = true) -> forallb f l = true -> forallb f l' = true.
Proof.
  induction 1 as [|x y l l' Hxy _ IH]; intros HR Hf; [reflexivity|].
  cbn [forallb] in *. apply andb_true_iff in Hf. destruct Hf as [Hx Hl].
  rewrite (HR x y (or_introl eq_refl) Hxy Hx), IH; [reflexivity| |exact Hl]. intros a b Ha. apply HR. right. exact Ha.
Qed.

Section PermWf.
  Variable num : numparser.
  Variable tyk ck : string -> bool.
  Variable preds funcs : pydict signature.

  Lemma perm_pre_shape p p' : perm_pre p p' -> pre_op p' = pre_op p /\ (vacuous_body p' = vacuous_body p).
  Proof.
    intros H. inversion H as [op os os1 os' eqs eqs' neqs neqs' Hf Hp He Hn]; subst. split; [reflexivity|].
    cbn [vacuous_body].
    assert (Hl : List.length os' = List.length os).
    { rewrite <- (Permutation_length Hp). symmetry. clear -Hf. induction Hf; simpl; congruence. }
    pose proof (Permutation_length He) as Hle. pose proof (Permutation_length Hn) as Hln.
    destruct os, os'; try discriminate; destruct eqs, eqs'; try discriminate; destruct neqs, neqs'; try discriminate; reflexivity.
  Qed.

  Lemma wf_pre_perm d : forall p, forall p' sg,
    perm_pre p p' -> wf_pre num tyk ck preds funcs d sg p = true -> wf_pre num tyk ck preds funcs d sg p' = true.
  Proof.
    apply (mpre_ind'
      (fun p => forall p' sg, perm_pre p p' -> wf_pre num tyk ck preds funcs d sg p = true -> wf_pre num tyk ck preds funcs d sg p' = true)
      (fun c => forall c' sg, perm_cond c c' -> wf_cond num tyk ck preds funcs d sg c = true -> wf_cond num tyk ck preds funcs d sg c' = true)).
    - intros op os eqs neqs HQ p' sg Hperm Hwf.
      inversion Hperm as [op0 os0 os1 os' eqs0 eqs' neqs0 neqs' Hf Hp He Hn]; subst.
      change (wf_pre num tyk ck preds funcs d sg (MPre op os eqs neqs)) with (forallb (wf_cond num tyk ck preds funcs d sg) os) in Hwf.
      change (wf_pre num tyk ck preds funcs d sg (MPre op os' eqs' neqs')) with (forallb (wf_cond num tyk ck preds funcs d sg) os').
      rewrite <- (forallb_perm8 _ _ _ Hp).
      apply (forallb_forall2 _ perm_cond os os1 Hf); [|exact Hwf].
      rewrite Forall_forall in HQ. intros x y Hx Hxy Hfx. apply (HQ x Hx y sg Hxy Hfx).
    - intros pos p0 a c' sg Hperm Hwf. inversion Hperm; subst. exact Hwf.
    - intros t c' sg Hperm Hwf. inversion Hperm; subst. exact Hwf.
    - intros q HP c' sg Hperm Hwf. inversion Hperm as [| |q0 q' Hq|]; subst.
      change (wf_cond num tyk ck preds funcs d sg (MNested q)) with (is_connective (pre_op q) && wf_pre num tyk ck preds funcs d sg q) in Hwf.
      change (wf_cond num tyk ck preds funcs d sg (MNested q')) with (is_connective (pre_op q') && wf_pre num tyk ck preds funcs d sg q').
      apply andb_true_iff in Hwf. destruct Hwf as [Hop Hwq]. destruct (perm_pre_shape q q' Hq) as [Ho _].
      rewrite Ho, Hop, (HP q' sg Hq Hwq). reflexivity.
    - intros v ty q HP c' sg Hperm Hwf. inversion Hperm as [| | |v0 ty0 q0 q' Hq]; subst.
      change (wf_cond num tyk ck preds funcs d sg (MUniv v ty q))
        with (negb (vacuous_body q) && is_connective (pre_op q) && tyk ty && wf_pre num tyk ck preds funcs d (dset sg v ty) q) in Hwf.
      change (wf_cond num tyk ck preds funcs d sg (MUniv v ty q'))
        with (negb (vacuous_body q') && is_connective (pre_op q') && tyk ty && wf_pre num tyk ck preds funcs d (dset sg v ty) q').
      apply andb_true_iff in Hwf. destruct Hwf as [Hwf Hwq]. destruct (perm_pre_shape q q' Hq) as [Ho Hv].
      rewrite Ho, Hv, Hwf, (HP q' (dset sg v ty) Hq Hwq). reflexivity.
  Qed.

  Lemma wf_condeff_perm dpre deff sg ce ce' :
    perm_condeff ce ce' -> wf_condeff num tyk ck preds funcs dpre deff sg ce = true ->
    wf_condeff num tyk ck preds funcs dpre deff sg ce' = true.
  Proof.
    intros (Ha & Hd & Hn) H. unfold wf_condeff in *.
    apply andb_true_iff in H. destruct H as [H Hnums]. apply andb_true_iff in H. destruct H as [H Hdisc].
    apply andb_true_iff in H. destruct H as [Hop Hante]. destruct (perm_pre_shape _ _ Ha) as [Ho _].
    rewrite Ho, Hop, (wf_pre_perm dpre _ _ sg Ha Hante), <- (forallb_perm8 _ _ _ Hd), Hdisc, <- (forallb_perm8 _ _ _ Hn), Hnums.
    reflexivity.
  Qed.

  Lemma wf_univeff_perm dpre deff sg ue ue' :
    perm_univeff ue ue' -> wf_univeff num tyk ck preds funcs dpre deff sg ue = true ->
    wf_univeff num tyk ck preds funcs dpre deff sg ue' = true.
  Proof.
    intros (Hv & Ht & Hc) H. unfold wf_univeff in *. rewrite <- Hv, <- Ht.
    apply andb_true_iff in H. destruct H as [Hty Hce]. rewrite Hty. apply (wf_condeff_perm dpre deff _ _ _ Hc Hce).
  Qed.

  Lemma wf_action_perm dpre deff a a' :
    perm_action a a' -> wf_action num tyk ck preds funcs dpre deff a = true ->
    wf_action num tyk ck preds funcs dpre deff a' = true.
  Proof.
    intros (Hn & Hs & Hp & Hd & Hnu & (cs & Hcf & Hcp) & (us & Huf & Hup)) H. unfold wf_action in *.
    apply andb_true_iff in H. destruct H as [H Hu]. apply andb_true_iff in H. destruct H as [H Hc].
    apply andb_true_iff in H. destruct H as [H Hnum]. apply andb_true_iff in H. destruct H as [H Hdisc].
    apply andb_true_iff in H. destruct H as [H Hpre]. apply andb_true_iff in H. destruct H as [H Hop].
    destruct (perm_pre_shape _ _ Hp) as [Ho _].
    rewrite <- Hn, <- Hs, H, Ho, Hop, (wf_pre_perm dpre _ _ _ Hp Hpre), <- (forallb_perm8 _ _ _ Hd), Hdisc,
      <- (forallb_perm8 _ _ _ Hnu), Hnum, <- (forallb_perm8 _ _ _ Hcp), <- (forallb_perm8 _ _ _ Hup).
    assert (C : forallb (wf_condeff num tyk ck preds funcs dpre deff (ma_sig a)) cs = true).
    { apply (forallb_forall2 _ _ _ _ Hcf); [|exact Hc]. intros x y _ Hxy Hx. apply (wf_condeff_perm dpre deff _ x y Hxy Hx). }
    assert (U : forallb (wf_univeff num tyk ck preds funcs dpre deff (ma_sig a)) us = true).
    { apply (forallb_forall2 _ _ _ _ Huf); [|exact Hu]. intros x y _ Hxy Hx. apply (wf_univeff_perm dpre deff _ x y Hxy Hx). }
    rewrite C, U. reflexivity.
  Qed.
End PermWf.

Theorem wf_mdomain_perm num dpre deff m m' :
  perm_domain m m' -> wf_mdomain num dpre deff m = true -> wf_mdomain num dpre deff m' = true.
Proof.
  intros (_ & _ & Ht & Hc & Hp & Hf & Ha) H. unfold wf_mdomain, wf_mdomain_gen in *. rewrite <- Ht, <- Hc, <- Hp, <- Hf.
  apply andb_true_iff in H. destruct H as [H Hacts]. apply andb_true_iff in H. destruct H as [H Hdup]. rewrite H. cbn [andb].
  assert (Hk : dkeys (d_actions m') = dkeys (d_actions m)).
  { clear -Ha. unfold dkeys. induction Ha as [|x y l l' [Hxy _] _ IH]; [reflexivity|]. cbn [map]. rewrite IH, Hxy. reflexivity. }
  rewrite Hk, Hdup. cbn [andb].
  apply (forallb_forall2 _ _ _ _ Ha); [|exact Hacts].
  intros [k a] [k' a'] _ [Hkk Hperm] Hx. cbn [fst snd] in *. apply andb_true_iff in Hx. destruct Hx as [Hka Hwa].
  destruct Hperm as (Hn & Hrest). subst k'. rewrite <- Hn, Hka.
  apply (wf_action_perm num _ _ _ _ dpre deff a a' (conj Hn Hrest) Hwa).
Qed.

(* the identity is a reordering: the relation is not empty *)
Lemma perm_pre_refl : forall p, perm_pre p p.
Proof.
  apply (mpre_ind' (fun p => perm_pre p p) (fun c => perm_cond c c)).
  - intros op os eqs neqs HQ. apply (PPre op os os os eqs eqs neqs neqs); try reflexivity.
    induction HQ; constructor; assumption.
  - constructor.
  - constructor.
  - intros q H. constructor. exact H.
  - intros v ty q H. constructor. exact H.
Qed.
