(* C01, effects: EffectsParser.parse of the model against the independent reading read_effects. *)
From Coq Require Import List Ascii String Bool Arith Lia PrimFloat Permutation.
From Verif Require Import Base.Result Base.Str Base.Sexp Base.PyDict Model.Types Model.Domain Model.Exec
  Spec.Pddl Spec.Grammar Spec.Faithful Proofs.C01_Defs Proofs.C01_Typed Proofs.C01_Vocab Proofs.C01_Pre.
Import ListNotations.
Open Scope string_scope.
Open Scope list_scope.

(* matching a token against a literal keyword is a test *)
Ltac chars h := repeat (destruct h as [|[[|] [|] [|] [|] [|] [|] [|] [|]] h]; try reflexivity).
Lemma match_not {T} (h : string) (a b : T) :
  (match h with "not" => a | _ => b end) = if String.eqb h "not" then a else b.
Proof. chars h. Qed.
Lemma match_when {T} (h : string) (a b : T) :
  (match h with "when" => a | _ => b end) = if String.eqb h "when" then a else b.
Proof. chars h. Qed.
Lemma match_forall {T} (h : string) (a b : T) :
  (match h with "forall" => a | _ => b end) = if String.eqb h "forall" then a else b.
Proof. chars h. Qed.
Lemma match_dash {T} (h : string) (a b : T) :
  (match h with "-" => a | _ => b end) = if String.eqb h "-" then a else b.
Proof. chars h. Qed.

Lemma match_when_forall {T} (h : string) (a b c : T) :
  (match h with "when" => a | "forall" => b | _ => c end) =
  if String.eqb h "when" then a else if String.eqb h "forall" then b else c.
Proof. chars h. Qed.

(* ---------- the independent reading with the literal keywords spelled as tests ---------- *)
Section ReadEff.
  Variable num : numreader.

  Definition read_prim' (e : sexp) : option prim :=
    match e with
    | SList (Atom h :: args) =>
        if String.eqb h "not" then
          match args with
          | [SList (Atom p :: pargs)] =>
              if str_in p keywords then None
              else match atom_names pargs with Some names => Some (PDel p names) | None => None end
          | _ => None
          end
        else
          match args with
          | [SList (Atom f :: fargs); rhs] =>
              match read_assignop h with
              | Some k =>
                  match atom_names fargs, read_nexp num rhs with
                  | Some names, Some r => Some (PNum k f names r)
                  | _, _ => None
                  end
              | None => None
              end
          | _ =>
              if str_in h keywords then None
              else match atom_names args with Some names => Some (PAdd h names) | None => None end
          end
    | _ => None
    end.

  Lemma read_prim_eq e : read_prim num e = read_prim' e.
  Proof.
    destruct e as [s|[|[h|sub] args]]; try reflexivity.
    unfold read_prim, read_prim'. rewrite match_not.
    destruct (String.eqb h "not") eqn:Eh.
    - apply String.eqb_eq in Eh. subst h.
      destruct args as [|[a|[|[f|sf] fargs]] [|rhs [|z zs]]]; reflexivity.
    - destruct args as [|[a|[|[f|sf] fargs]] [|rhs [|z zs]]]; try reflexivity.
      destruct (read_assignop h); [reflexivity|]. destruct (str_in h keywords); reflexivity.
  Qed.

  Definition prim_item (e : sexp) : option (prim + eff) :=
    match read_prim num e with Some p => Some (inl p) | None => None end.

  Definition read_eff_item' (e : sexp) : option (prim + eff) :=
    match e with
    | SList (Atom h :: args) =>
        if String.eqb h "when" then
          match args with
          | [c; res] =>
              match read_form num c, read_prims num res with
              | Some f, Some ps => Some (inr (EWhen f ps))
              | _, _ => None
              end
          | _ => None
          end
        else if String.eqb h "forall" then
          match args with
          | [SList [Atom v; Atom d; Atom ty]; SList [Atom w; c; res]] =>
              if String.eqb d "-" && String.eqb w "when" then
                match read_form num c, read_prims num res with
                | Some f, Some ps => Some (inr (EForall v ty f ps))
                | _, _ => None
                end
              else None
          | _ => None
          end
        else prim_item e
    | _ => None
    end.

  Lemma prim_item_keyword h args :
    str_in h keywords = true -> String.eqb h "not" = false -> read_assignop h = None ->
    prim_item (SList (Atom h :: args)) = None.
  Proof.
    intros Hk Hn Ha. unfold prim_item. rewrite read_prim_eq. unfold read_prim'. rewrite Hn, Ha, Hk.
    destruct args as [|[a|[|[f|sf] fargs]] [|rhs [|z zs]]]; reflexivity.
  Qed.

  Lemma read_eff_item_eq e : read_eff_item num e = read_eff_item' e.
  Proof.
    destruct e as [s|[|[h|sub] args]]; try reflexivity.
    unfold read_eff_item, read_eff_item'. fold (prim_item (SList (Atom h :: args))).
    rewrite match_when_forall. destruct (String.eqb h "when") eqn:Ew.
    - apply String.eqb_eq in Ew. subst h.
      destruct args as [|c [|res [|z zs]]]; try reflexivity; apply prim_item_keyword; reflexivity.
    - destruct (String.eqb h "forall") eqn:Ef; [|reflexivity].
      apply String.eqb_eq in Ef. subst h.
      assert (Hn : prim_item (SList (Atom "forall" :: args)) = None) by (apply prim_item_keyword; reflexivity).
      destruct args as [|[s|[|[v|sv] [|[d|sd] [|[ty|sty] [|x q]]]]] [|[s2|[|[w|sw] [|c [|res [|z zs]]]]] [|y r]]];
        try exact Hn; try reflexivity.
      all: rewrite ?match_dash, ?match_when; try exact Hn.
      all: try (destruct (String.eqb d "-"); try exact Hn).
      all: try (rewrite ?match_when; destruct (String.eqb w "when"); try exact Hn; try reflexivity).
  Qed.
End ReadEff.

Lemma match_and {T} (h : string) (a b : T) :
  (match h with "and" => a | _ => b end) = if String.eqb h "and" then a else b.
Proof. chars h. Qed.

(* ---------- effect lists up to order ---------- *)
Lemma effs_rel_nil : effs_rel [] [].
Proof. exists []. split; constructor. Qed.

Lemma effs_rel_snoc l o l1 x' x :
  effs_rel l o -> Permutation l1 (l ++ [x']) -> eff_rel x' x -> effs_rel l1 (o ++ [x]).
Proof.
  intros (mid & Hp & Hf) Hp1 Hx. exists (mid ++ [x']). split.
  - rewrite Hp1. apply Permutation_app_tail. exact Hp.
  - apply Forall2_app; [exact Hf|]. constructor; [exact Hx|constructor].
Qed.

Lemma effs_rel_cons x x' l o : eff_rel x' x -> effs_rel l o -> effs_rel (x' :: l) (x :: o).
Proof.
  intros Hx (mid & Hp & Hf). exists (x' :: mid). split; [constructor; exact Hp|constructor; assumption].
Qed.

Section ParseEff.
  Variable num : numparser.
  Variable tt : typetable.
  Variable consts : pydict string.
  Variable preds : pydict signature.
  Variable funcs : pydict signature.
  Hypothesis Hfkey : forall f sg, dget funcs f = Some sg -> str_in f keywords = false.
  Hypothesis Hpkey : forall p, dmem preds p = true -> str_in p keywords = false.

  (* ----- one primitive effect ----- *)
  Definition denote_result (r : mlit + mtree) : option prim :=
    match r with inl l => Some (denote_lit l) | inr t => denote_numeff t end.

  Lemma denote_tree_fn t f names : denote_tree t = Some (NFl f names) -> t = TFn f names.
  Proof.
    destruct t as [x|g args|op l r]; simpl.
    - discriminate.
    - intros H. injection H as -> ->. reflexivity.
    - destruct (binop_of op), (denote_tree l), (denote_tree r); discriminate.
  Qed.

  Lemma assign_is_keyword h k :
    read_assignop h = Some k -> str_in h keywords = true /\ str_in h numeric_ops = false /\
                                 String.eqb h "not" = false.
  Proof.
    unfold read_assignop. intros H.
    destruct (String.eqb h "assign") eqn:E1; [apply String.eqb_eq in E1; subst h; repeat split|].
    destruct (String.eqb h "increase") eqn:E2; [apply String.eqb_eq in E2; subst h; repeat split|].
    destruct (String.eqb h "decrease") eqn:E3; [apply String.eqb_eq in E3; subst h; repeat split|].
    discriminate.
  Qed.

  Lemma assignment_ops_read h : str_in h assignment_ops = true -> exists k, read_assignop h = Some k.
  Proof.
    unfold assignment_ops, read_assignop. simpl.
    destruct (String.eqb h "assign"); [eauto|]. destruct (String.eqb h "increase"); [eauto|].
    destruct (String.eqb h "decrease"); [eauto|discriminate].
  Qed.
  Lemma assignment_ops_read_false h : str_in h assignment_ops = false -> read_assignop h = None.
  Proof.
    unfold assignment_ops, read_assignop. simpl.
    destruct (String.eqb h "assign"); [discriminate|]. destruct (String.eqb h "increase"); [discriminate|].
    destruct (String.eqb h "decrease"); [discriminate|reflexivity].
  Qed.

  (* a numeric effect node (k (f args) rhs) *)
  Lemma numeff_faithful h args t p :
    construct num funcs (tree_fuel (SList (Atom h :: args))) (SList (Atom h :: args)) = Ok t ->
    str_in h assignment_ops = true ->
    read_prim num (SList (Atom h :: args)) = Some p ->
    prim_ok p = true ->
    denote_numeff t = Some p.
  Proof.
    intros Hc Ha Hr Hok. destruct (assignment_ops_read h Ha) as [k Hk].
    destruct (assign_is_keyword h k Hk) as (Hkw & Hnum & Hnot).
    rewrite read_prim_eq in Hr. unfold read_prim' in Hr. rewrite Hnot, Hk, Hkw in Hr.
    destruct args as [|[a|[|[f|sf] fargs]] [|rhs [|z zs]]]; try discriminate Hr.
    destruct (atom_names fargs) as [names|] eqn:En; [|discriminate].
    destruct (read_nexp num rhs) as [r|] eqn:Er; [|discriminate]. injection Hr as <-.
    simpl in Hok. apply negb_true_iff in Hok. rename Hok into Hfk.
    unfold tree_fuel in Hc. remember (size (SList [Atom h; SList (Atom f :: fargs); rhs])) as fu0 eqn:Efu. clear Efu.
    cbn [construct] in Hc. cbn [all_atoms forallb andb] in Hc.
    destruct (construct num funcs fu0 (SList (Atom f :: fargs))) as [ta|] eqn:Eta; cbn [bind] in Hc; [|discriminate].
    destruct (construct num funcs fu0 rhs) as [tb|] eqn:Etb; cbn [bind] in Hc; [|discriminate].
    injection Hc as <-.
    destruct (not_keyword_heads f Hfk) as (_ & _ & _ & _ & _ & _ & _ & Hfb & _).
    assert (Hrf : read_nexp num (SList (Atom f :: fargs)) = Some (NFl f names)).
    { rewrite read_nexp_app by assumption. rewrite En. reflexivity. }
    pose proof (construct_faithful num funcs Hfkey _ _ _ _ Eta Hrf) as Hta.
    apply denote_tree_fn in Hta. subst ta.
    simpl. rewrite assignop_of_read, Hk.
    rewrite (construct_faithful num funcs Hfkey _ _ _ _ Etb Er). reflexivity.
  Qed.

  Lemma parse_result_faithful sg e r p :
    parse_result num consts funcs sg e = Ok r ->
    read_prim num e = Some p -> prim_ok p = true ->
    denote_result r = Some p.
  Proof.
    intros Hp Hr Hok. unfold parse_result in Hp.
    destruct e as [s|[|[h|sub] args]]; try (rewrite read_prim_eq in Hr; discriminate Hr).
    cbn [head_of bind] in Hp.
    destruct (String.eqb h "not") eqn:Enot.
    - rewrite read_prim_eq in Hr. unfold read_prim' in Hr. rewrite Enot in Hr.
      destruct args as [|[a|[|[q|sq] pargs]] [|x xs]]; try discriminate Hr.
      destruct (str_in q keywords); [discriminate|].
      destruct (atom_names pargs) as [names|] eqn:En; [|discriminate]. injection Hr as <-.
      destruct (parse_untyped_predicate sg consts false (SList (Atom q :: pargs))) as [l|] eqn:El;
        cbn [bind] in Hp; [|discriminate].
      injection Hp as <-.
      destruct (parse_untyped_predicate_ok _ _ _ _ _ El) as (n & args0 & names0 & Hnode & Hn0 & ->).
      injection Hnode as <- <-. rewrite En in Hn0. injection Hn0 as <-. reflexivity.
    - destruct (str_in h assignment_ops) eqn:Ea.
      + destruct (construct num funcs _ _) as [t|] eqn:Et; cbn [bind] in Hp; [|discriminate].
        injection Hp as <-. simpl. eapply numeff_faithful; eassumption.
      + destruct (parse_untyped_predicate sg consts true (SList (Atom h :: args))) as [l|] eqn:El;
          cbn [bind] in Hp; [|discriminate].
        injection Hp as <-.
        destruct (parse_untyped_predicate_ok _ _ _ _ _ El) as (n & args0 & names0 & Hnode & Hn0 & ->).
        injection Hnode as <- <-.
        rewrite read_prim_eq in Hr. unfold read_prim' in Hr. rewrite Enot in Hr.
        rewrite (assignment_ops_read_false h Ea) in Hr.
        destruct args as [|[a|[|[f|sf] fargs]] [|rhs [|z zs]]]; try discriminate Hn0; try discriminate Hr.
        all: destruct (str_in h keywords); [discriminate|]; rewrite Hn0 in Hr; injection Hr as <-; reflexivity.
  Qed.

  (* ----- lists of primitive effects ----- *)
  Lemma mapM_parse_result sg : forall l rs ps,
    mapM (parse_result num consts funcs sg) l = Ok rs ->
    all_some (map (read_prim num) l) = Some ps ->
    forallb (prim_ok) ps = true ->
    Forall2 (fun r p => denote_result r = Some p) rs ps.
  Proof.
    induction l as [|e rest IH]; intros rs ps Hm Hr Hok.
    - simpl in Hm, Hr. injection Hm as <-. injection Hr as <-. constructor.
    - cbn [mapM] in Hm. cbn [map] in Hr. rewrite all_some_cons in Hr.
      destruct (parse_result num consts funcs sg e) as [r|] eqn:Er; cbn [bind] in Hm; [|discriminate].
      destruct (mapM (parse_result num consts funcs sg) rest) as [rs0|] eqn:Ers; cbn [bind] in Hm; [|discriminate].
      injection Hm as <-.
      destruct (read_prim num e) as [p|] eqn:Ep; [|discriminate].
      destruct (all_some (map (read_prim num) rest)) as [ps0|] eqn:Eps; [|discriminate]. injection Hr as <-.
      simpl in Hok. apply andb_true_iff in Hok as [Hokp Hokr].
      constructor; [eapply parse_result_faithful; eassumption|]. apply IH; [reflexivity|reflexivity|exact Hokr].
  Qed.

  Lemma split_results_perm rs ps :
    Forall2 (fun r p => denote_result r = Some p) rs ps ->
    exists ns, all_some (map denote_numeff (snd (split_results rs))) = Some ns /\
               Permutation (map denote_lit (fst (split_results rs)) ++ ns) ps.
  Proof.
    induction 1 as [|r p rs ps Hrp _ IH].
    - exists []. split; [reflexivity|constructor].
    - destruct IH as (ns & Hns & Hperm). unfold split_results in *. cbn [fst snd] in *.
      destruct r as [l|t]; cbn [flat_map app] in *.
      + exists ns. split; [exact Hns|]. simpl in Hrp. injection Hrp as <-. simpl. constructor. exact Hperm.
      + simpl in Hrp. exists (p :: ns). split.
        * cbn [map]. rewrite all_some_cons, Hrp, Hns. reflexivity.
        * apply Permutation_sym. apply Permutation_cons_app. apply Permutation_sym. exact Hperm.
  Qed.

  (* the result part of a when: one primitive or (and p1 ... pn) *)
  Definition parse_results (sg : signature) (res : sexp) : result (list (mlit + mtree)) :=
    do rh <- head_of res;
    if String.eqb rh "and"
    then match res with SList (_ :: subs) => mapM (parse_result num consts funcs sg) subs | _ => Err EType end
    else do r <- parse_result num consts funcs sg res; Ok [r].

  Lemma parse_results_faithful sg res rs ps :
    parse_results sg res = Ok rs ->
    read_prims num res = Some ps -> forallb (prim_ok) ps = true ->
    Forall2 (fun r p => denote_result r = Some p) rs ps.
  Proof.
    unfold parse_results. intros Hp Hr Hok.
    destruct res as [s|[|[h|sub] args]].
    - unfold read_prims, read_prim in Hr. discriminate Hr.
    - discriminate Hp.
    - cbn [head_of bind] in Hp. unfold read_prims in Hr. rewrite match_and in Hr.
      destruct (String.eqb h "and").
      + eapply mapM_parse_result; eassumption.
      + destruct (parse_result num consts funcs sg (SList (Atom h :: args))) as [r|] eqn:Er; cbn [bind] in Hp;
          [|discriminate].
        injection Hp as <-.
        destruct (read_prim num (SList (Atom h :: args))) as [p|] eqn:Ep; [|discriminate]. injection Hr as <-.
        simpl in Hok. rewrite andb_true_r in Hok.
        constructor; [eapply parse_result_faithful; eassumption|constructor].
    - discriminate Hp.
  Qed.

  (* ----- when ----- *)
  Lemma parse_conditional_effect_shape sg e ce :
    parse_conditional_effect num tt consts preds funcs sg e = Ok ce ->
    exists cond res, e = SList [Atom "when"; cond; res].
  Proof.
    unfold parse_conditional_effect.
    destruct e as [s|[|[w|sw] rest]]; try discriminate.
    rewrite match_when. destruct (String.eqb w "when") eqn:Ew; [|discriminate].
    apply String.eqb_eq in Ew. subst w.
    destruct rest as [|cond [|res [|z zs]]]; try discriminate. intros _. eauto.
  Qed.

  Lemma parse_conditional_effect_unfold sg cond res :
    parse_conditional_effect num tt consts preds funcs sg (SList [Atom "when"; cond; res]) =
    (do ch <- head_of cond;
     do ante <- parse_pre num tt consts preds funcs (S (size cond)) sg (MPre "and" [] [] [])
                  (if String.eqb ch "and" then match cond with SList (_ :: subs) => subs | _ => [] end else [cond]);
     do rs <- parse_results sg res;
     let (disc, nums) := split_results rs in
     Ok {| ce_ante := ante; ce_disc := disc; ce_num := nums |}).
  Proof.
    cbn [parse_conditional_effect]. unfold parse_results.
    destruct (head_of cond) as [ch|]; cbn [bind]; [|reflexivity].
    destruct (parse_pre _ _ _ _ _ _ _ _ _) as [ante|]; cbn [bind]; [|reflexivity].
    destruct (head_of res) as [rh|]; reflexivity.
  Qed.

  Lemma parse_conditional_effect_faithful sg cond res ce c ps :
    parse_conditional_effect num tt consts preds funcs sg (SList [Atom "when"; cond; res]) = Ok ce ->
    read_form num cond = Some c -> read_prims num res = Some ps ->
    form_ok c = true -> forallb (prim_ok) ps = true ->
    exists c' ps', denote_condeff ce = Some (c', ps') /\ form_equiv c' c /\ Permutation ps' ps.
  Proof.
    intros Hp Hc Hr Hokc Hokp. rewrite parse_conditional_effect_unfold in Hp.
    destruct (head_of cond) as [ch|] eqn:Ech; cbn [bind] in Hp; [|discriminate].
    match type of Hp with (do ante <- ?A; _) = _ => destruct A as [ante|] eqn:Eante; cbn [bind] in Hp; [|discriminate] end.
    destruct (parse_results sg res) as [rs|] eqn:Ers; cbn [bind] in Hp; [|discriminate].
    pose proof (parse_results_faithful sg res rs ps Ers Hr Hokp) as Hf2.
    destruct (split_results_perm rs ps Hf2) as (ns & Hns & Hperm).
    destruct (split_results rs) as [disc nums] eqn:Esplit. cbn [fst snd] in Hns, Hperm.
    injection Hp as <-.
    assert (Hante : exists c', denote_pre ante = Some c' /\ form_equiv c' c).
    { destruct cond as [s|[|[h|sub] subs]]; try (simpl in Hc; discriminate Hc).
      cbn [head_of] in Ech. injection Ech as <-.
      destruct (String.eqb h "and") eqn:Eand.
      - apply String.eqb_eq in Eand. subst h.
        exact (nested_faithful num tt consts preds funcs _ sg "and" subs ante c
                 (parse_pre_faithful num tt consts preds funcs Hfkey Hpkey _) eq_refl Eante Hc Hokc).
      - destruct (parse_pre_faithful num tt consts preds funcs Hfkey Hpkey _ sg (MPre "and" [] [] [])
                    [SList (Atom h :: subs)] ante [c] [] Eante)
          as (fr' & Hd' & Hop' & fs' & Hperm' & Hf2').
        + cbn [map]. rewrite all_some_cons, Hc. reflexivity.
        + simpl. rewrite Hokc. reflexivity.
        + reflexivity.
        + rewrite denote_pre_unfold, Hd', Hop'. simpl. eexists. split; [reflexivity|].
          eapply form_equiv_trans; [|apply form_equiv_and_single].
          apply equiv_list_and. exists fs'. split; assumption. }
    destruct Hante as (c' & Hc' & Hequiv).
    exists c', (map denote_lit disc ++ ns). unfold denote_condeff, denote_group. cbn [ce_ante ce_disc ce_num].
    rewrite Hc', Hns. repeat split; assumption.
  Qed.

  (* ----- forall-when ----- *)
  Lemma parse_universal_effect_faithful sg args u e0 :
    parse_universal_effect num tt consts preds funcs sg (SList (Atom "forall" :: args)) = Ok u ->
    read_eff_item num (SList (Atom "forall" :: args)) = Some (inr e0) ->
    eff_ok e0 = true ->
    exists e', denote_univeff u = Some e' /\ eff_rel e' e0.
  Proof.
    intros Hp Hr Hok. rewrite read_eff_item_eq in Hr. unfold read_eff_item' in Hr.
    change (String.eqb "forall" "when") with false in Hr. rewrite String.eqb_refl in Hr.
    destruct args as [|[s|[|[v|sv] [|[d|sd] [|[ty|sty] [|x q]]]]] [|[s2|[|[w|sw] [|c [|res [|z zs]]]]] [|y r]]];
      try discriminate Hr.
    destruct (String.eqb d "-" && String.eqb w "when") eqn:Edw; [|discriminate].
    apply andb_true_iff in Edw as [_ Ew]. apply String.eqb_eq in Ew. subst w.
    destruct (read_form num c) as [f|] eqn:Ef; [|discriminate].
    destruct (read_prims num res) as [ps|] eqn:Eps; [|discriminate]. injection Hr as <-.
    simpl in Hok. apply andb_true_iff in Hok as [Hokf Hokp].
    cbn [parse_universal_effect] in Hp. destruct (negb (type_known tt ty)); [discriminate|].
    destruct (parse_conditional_effect num tt consts preds funcs (dset sg v ty) (SList [Atom "when"; c; res]))
      as [ce|] eqn:Ece; cbn [bind] in Hp; [|discriminate].
    injection Hp as <-.
    destruct (parse_conditional_effect_faithful _ c res ce f ps Ece Ef Eps Hokf Hokp) as (c' & ps' & Hd & Hc & Hperm).
    unfold denote_univeff. cbn [ue_ce ue_var ue_ty]. rewrite Hd. eexists. split; [reflexivity|].
    constructor; assumption.
  Qed.

  (* ----- the loop over the conjuncts of an effect ----- *)
  Definition when_of (cp : form * list prim) : eff := EWhen (fst cp) (snd cp).
  Definition item_prims (i : prim + eff) : list prim := match i with inl p => [p] | inr _ => [] end.
  Definition item_others (i : prim + eff) : list eff := match i with inl _ => [] | inr x => [x] end.
  Definition item_ok (i : prim + eff) : bool := match i with inl p => prim_ok p | inr e => eff_ok e end.

  Definition acc_rel (acc : effacc) (prims : list prim) (others : list eff) : Prop :=
    exists ns cs us,
      all_some (map denote_numeff (ea_num acc)) = Some ns /\
      all_some (map denote_condeff (ea_cond acc)) = Some cs /\
      all_some (map denote_univeff (ea_univ acc)) = Some us /\
      Permutation (map denote_lit (ea_disc acc) ++ ns) prims /\
      effs_rel (map when_of cs ++ us) others.

  Lemma all_some_snoc {A B} (f : A -> option B) l x ys y :
    all_some (map f l) = Some ys -> f x = Some y -> all_some (map f (l ++ [x])) = Some (ys ++ [y]).
  Proof. intros Hl Hx. rewrite map_app, all_some_app, Hl. simpl. rewrite Hx. reflexivity. Qed.

  Lemma acc_rel_add_lit acc prims others l :
    acc_rel acc prims others ->
    acc_rel {| ea_disc := ea_disc acc ++ [l]; ea_num := ea_num acc; ea_cond := ea_cond acc; ea_univ := ea_univ acc |}
            (prims ++ [denote_lit l]) (others ++ []).
  Proof.
    intros (ns & cs & us & Hn & Hc & Hu & Hp & He). exists ns, cs, us. cbn [ea_disc ea_num ea_cond ea_univ].
    rewrite app_nil_r. repeat split; try assumption.
    rewrite map_app. simpl. rewrite <- app_assoc.
    apply Permutation_trans with ((map denote_lit (ea_disc acc) ++ ns) ++ [denote_lit l]).
    - rewrite <- app_assoc. apply Permutation_app_head. apply Permutation_app_comm.
    - apply Permutation_app_tail. exact Hp.
  Qed.

  Lemma parse_effect_node_faithful sg acc node acc' item prims others :
    parse_effect_node num tt consts preds funcs sg acc node = Ok acc' ->
    read_eff_item num node = Some item -> item_ok item = true ->
    acc_rel acc prims others ->
    acc_rel acc' (prims ++ item_prims item) (others ++ item_others item).
  Proof.
    intros Hp Hr Hok Hacc. unfold parse_effect_node in Hp.
    destruct node as [s|[|[h|sub] args]]; try (rewrite read_eff_item_eq in Hr; discriminate Hr).
    cbn [head_of bind] in Hp.
    destruct (dmem preds h) eqn:Epred.
    { destruct (parse_untyped_predicate sg consts true (SList (Atom h :: args))) as [l|] eqn:El; cbn [bind] in Hp;
        [|discriminate].
      injection Hp as <-.
      destruct (parse_untyped_predicate_ok _ _ _ _ _ El) as (n & args0 & names & Hnode & Hnames & ->).
      injection Hnode as <- <-.
      pose proof (Hpkey h Epred) as Hk.
      destruct (not_keyword_heads h Hk) as (_ & _ & Hnot & Hfa & Hwh & _ & _ & _ & Has & _).
      rewrite read_eff_item_eq in Hr. unfold read_eff_item' in Hr. rewrite Hwh, Hfa in Hr.
      unfold prim_item in Hr. rewrite read_prim_eq in Hr. unfold read_prim' in Hr. rewrite Hnot, Has, Hk in Hr.
      assert (Hi : item = inl (PAdd h names)).
      { destruct args as [|[a|[|[f|sf] fargs]] [|rhs [|z zs]]]; try discriminate Hnames;
          rewrite Hnames in Hr; injection Hr as <-; reflexivity. }
      subst item. apply (acc_rel_add_lit acc prims others {| l_pos := true; l_name := h; l_args := names |} Hacc). }
    destruct (String.eqb h "not") eqn:Enot.
    { apply String.eqb_eq in Enot. subst h.
      rewrite read_eff_item_eq in Hr. unfold read_eff_item' in Hr.
      change (String.eqb "not" "when") with false in Hr. change (String.eqb "not" "forall") with false in Hr.
      unfold prim_item in Hr. rewrite read_prim_eq in Hr. unfold read_prim' in Hr. rewrite String.eqb_refl in Hr.
      destruct args as [|[a|[|[q|sq] pargs]] [|x xs]]; try discriminate Hr.
      destruct (str_in q keywords); [discriminate|].
      destruct (atom_names pargs) as [names|] eqn:En; [|discriminate]. injection Hr as <-.
      destruct (parse_untyped_predicate sg consts false (SList (Atom q :: pargs))) as [l|] eqn:El; cbn [bind] in Hp;
        [|discriminate].
      injection Hp as <-.
      destruct (parse_untyped_predicate_ok _ _ _ _ _ El) as (n & args0 & names0 & Hnode & Hn0 & ->).
      injection Hnode as <- <-. rewrite En in Hn0. injection Hn0 as <-.
      apply (acc_rel_add_lit acc prims others {| l_pos := false; l_name := q; l_args := names |} Hacc). }
    destruct (String.eqb h "forall") eqn:Efa.
    { apply String.eqb_eq in Efa. subst h.
      destruct (parse_universal_effect num tt consts preds funcs sg (SList (Atom "forall" :: args))) as [u|] eqn:Eu;
        cbn [bind] in Hp; [|discriminate].
      injection Hp as <-.
      assert (Hi : exists e0, item = inr e0).
      { rewrite read_eff_item_eq in Hr. unfold read_eff_item' in Hr.
        change (String.eqb "forall" "when") with false in Hr. rewrite String.eqb_refl in Hr.
        destruct args as [|[s|[|[v|sv] [|[d|sd] [|[ty|sty] [|x q]]]]] [|[s2|[|[w|sw] [|c [|res [|z zs]]]]] [|y r]]];
          try discriminate Hr.
        destruct (_ && _); [|discriminate]. destruct (read_form num c); [|discriminate].
        destruct (read_prims num res); [|discriminate]. injection Hr as <-. eauto. }
      destruct Hi as [e0 ->].
      destruct (parse_universal_effect_faithful sg args u e0 Eu Hr Hok) as (e' & He' & Hrel).
      destruct Hacc as (ns & cs & us & Hn & Hc & Hu & Hperm & He).
      exists ns, cs, (us ++ [e']). cbn [ea_disc ea_num ea_cond ea_univ item_prims item_others].
      rewrite app_nil_r. repeat split; try assumption.
      - apply all_some_snoc; assumption.
      - eapply effs_rel_snoc; [exact He| |exact Hrel]. rewrite app_assoc. apply Permutation_refl. }
    destruct (String.eqb h "when") eqn:Ewh.
    { apply String.eqb_eq in Ewh. subst h.
      destruct (parse_conditional_effect num tt consts preds funcs sg (SList (Atom "when" :: args))) as [ce|] eqn:Ece;
        cbn [bind] in Hp; [|discriminate].
      injection Hp as <-.
      destruct (parse_conditional_effect_shape _ _ _ Ece) as (cond & res & Hshape). injection Hshape as ->.
      rewrite read_eff_item_eq in Hr. unfold read_eff_item' in Hr. rewrite String.eqb_refl in Hr.
      destruct (read_form num cond) as [f|] eqn:Ef; [|discriminate].
      destruct (read_prims num res) as [ps|] eqn:Eps; [|discriminate]. injection Hr as <-.
      simpl in Hok. apply andb_true_iff in Hok as [Hokf Hokp].
      destruct (parse_conditional_effect_faithful _ cond res ce f ps Ece Ef Eps Hokf Hokp)
        as (c' & ps' & Hd & Hcf & Hpp).
      destruct Hacc as (ns & cs & us & Hn & Hc & Hu & Hperm & He).
      exists ns, (cs ++ [(c', ps')]), us. cbn [ea_disc ea_num ea_cond ea_univ item_prims item_others].
      rewrite app_nil_r. repeat split; try assumption.
      - apply all_some_snoc; assumption.
      - eapply effs_rel_snoc; [exact He| |apply (ER_when c' f ps' ps Hcf Hpp)].
        rewrite map_app. simpl. rewrite <- !app_assoc. apply Permutation_app_head.
        change (when_of (c', ps') :: us) with ([EWhen c' ps'] ++ us). apply Permutation_app_comm. }
    destruct (str_in h assignment_ops) eqn:Eas; [|discriminate].
    destruct (construct num funcs _ _) as [t|] eqn:Et; cbn [bind] in Hp; [|discriminate].
    injection Hp as <-.
    destruct (assignment_ops_read h Eas) as [k Hk].
    assert (Hi : exists p, item = inl p /\ read_prim num (SList (Atom h :: args)) = Some p).
    { rewrite read_eff_item_eq in Hr. unfold read_eff_item' in Hr. rewrite Ewh, Efa in Hr.
      unfold prim_item in Hr. destruct (read_prim num (SList (Atom h :: args))) as [p|]; [|discriminate].
      injection Hr as <-. eauto. }
    destruct Hi as (p & -> & Hrp).
    pose proof (numeff_faithful h args t p Et Eas Hrp Hok) as Hden.
    destruct Hacc as (ns & cs & us & Hn & Hc & Hu & Hperm & He).
    exists (ns ++ [p]), cs, us. cbn [ea_disc ea_num ea_cond ea_univ item_prims item_others].
    rewrite app_nil_r. repeat split; try assumption.
    - apply all_some_snoc; assumption.
    - rewrite app_assoc. apply Permutation_app_tail. exact Hperm.
  Qed.

  Lemma fold_effect_nodes sg : forall nodes acc acc' items prims others,
    foldM (parse_effect_node num tt consts preds funcs sg) nodes acc = Ok acc' ->
    all_some (map (read_eff_item num) nodes) = Some items ->
    forallb item_ok items = true ->
    acc_rel acc prims others ->
    acc_rel acc' (prims ++ flat_map item_prims items) (others ++ flat_map item_others items).
  Proof.
    induction nodes as [|node rest IH]; intros acc acc' items prims others Hf Hr Hok Hacc.
    - simpl in Hf, Hr. injection Hf as <-. injection Hr as <-. simpl. rewrite !app_nil_r. exact Hacc.
    - cbn [foldM] in Hf. cbn [map] in Hr. rewrite all_some_cons in Hr.
      destruct (parse_effect_node num tt consts preds funcs sg acc node) as [acc1|] eqn:E1; cbn [bind] in Hf;
        [|discriminate].
      destruct (read_eff_item num node) as [item|] eqn:Ei; [|discriminate].
      destruct (all_some (map (read_eff_item num) rest)) as [items0|] eqn:Eis; [|discriminate]. injection Hr as <-.
      simpl in Hok. apply andb_true_iff in Hok as [Hoki Hokr].
      pose proof (parse_effect_node_faithful sg acc node acc1 item prims others E1 Ei Hoki Hacc) as Hacc1.
      pose proof (IH acc1 acc' items0 _ _ Hf eq_refl Hokr Hacc1) as Hfin.
      cbn [flat_map]. rewrite !app_assoc. exact Hfin.
  Qed.

  Lemma items_ok_of_effs items :
    forallb (prim_ok) (flat_map item_prims items) = true ->
    forallb (eff_ok) (flat_map item_others items) = true ->
    forallb item_ok items = true.
  Proof.
    induction items as [|[p|e] r IH]; simpl; intros Hp He; [reflexivity| |].
    - apply andb_true_iff in Hp as [Hp1 Hp2]. rewrite Hp1. apply IH; assumption.
    - apply andb_true_iff in He as [He1 He2]. rewrite He1. apply IH; assumption.
  Qed.

  (* ---------- EffectsParser.parse ---------- *)
  Theorem parse_effects_faithful sg e ef es :
    parse_effects num tt consts preds funcs sg e = Ok ef ->
    read_effects num e = Some es ->
    forallb (eff_ok) es = true ->
    exists es', denote_eff_parts (ea_disc ef) (ea_num ef) (ea_cond ef) (ea_univ ef) = Some es' /\ effs_rel es' es.
  Proof.
    intros Hp Hr Hok. unfold parse_effects in Hp.
    destruct e as [s|[|[h|sub] nodes]]; try discriminate Hr.
    cbn [head_of bind] in Hp. unfold read_effects in Hr. rewrite match_and in Hr.
    destruct (String.eqb h "and"); [|discriminate]. cbn [negb] in Hp.
    destruct (all_some (map (read_eff_item num) nodes)) as [items|] eqn:Ei; [|discriminate]. injection Hr as <-.
    change (fun i : prim + eff => match i with inl p => [p] | inr _ => [] end) with item_prims in Hok.
    change (fun i : prim + eff => match i with inl _ => [] | inr x => [x] end) with item_others in Hok.
    cbn [forallb eff_ok] in Hok. apply andb_true_iff in Hok as [Hokp Hoke].
    assert (Hacc0 : acc_rel {| ea_disc := []; ea_num := []; ea_cond := []; ea_univ := [] |} [] []).
    { exists [], [], []. split; [reflexivity|]. split; [reflexivity|]. split; [reflexivity|].
      split; [constructor|apply effs_rel_nil]. }
    pose proof (fold_effect_nodes sg nodes _ ef items [] [] Hp Ei (items_ok_of_effs items Hokp Hoke) Hacc0) as Hfin.
    destruct Hfin as (ns & cs & us & Hn & Hc & Hu & Hperm & He). simpl in Hperm, He.
    unfold denote_eff_parts, denote_group. rewrite Hn, Hc, Hu. eexists. split; [reflexivity|].
    apply effs_rel_cons; [constructor; exact Hperm|exact He].
  Qed.
End ParseEff.
