(* C07: joint actions (apply_actions, create_multi_agent_triplet, MultiAgentTrajectoryExporter.parse_plan) and the
   separation statement for the tree as it stands (all four repairs committed).
   The joint-action calls are HISTORIES of the operations of Model/Store.v (apply_actions_at, ma_triplet_at,
   ma_plan_at), so the frame / repeat / separation theorems about all histories speak about them; what is proved here
   in addition: how many state handles such a call creates, and that the state it returns is one of them -- never the
   state it was given. *)
From Coq Require Import List Bool Arith PeanoNat Lia.
From Verif Require Import Model.Store Proofs.C07_Frame Proofs.C07_Interleave Proofs.C07_Sep.
Import ListNotations.

(* ---------------------------------------------------------------- the tree as it stands *)
Definition cfg_current : cfg := all_fixed.

Lemma separation_current : separation_statement cfg_current.
Proof. intro h. apply separation_holds. reflexivity. Qed.

Lemma cfg_current_fixed : writes_fixed cfg_current = true /\ sep_fixed cfg_current = true.
Proof. split; reflexivity. Qed.

(* ---------------------------------------------------------------- state handles created by single operations *)
Definition mrun (c : cfg) (h : list op) (m : mstate) : mstate := fst (run c h (m, st0)).

Lemma run_fst : forall c h m st st', fst (run c h (m, st)) = fst (run c h (m, st')).
Proof.
  intros c h. induction h as [|p h IH]; intros m st st'; simpl; auto.
  rewrite !run_step_eq. apply IH.
Qed.

Lemma mrun_cons : forall c p h m, mrun c (p :: h) m = mrun c h (fst (step c m p)).
Proof. intros. unfold mrun. simpl. rewrite run_step_eq. apply run_fst. Qed.

Lemma mrun_nil : forall c m, mrun c [] m = m.
Proof. reflexivity. Qed.

Lemma mrun_app : forall c h1 h2 m, mrun c (h1 ++ h2) m = mrun c h2 (mrun c h1 m).
Proof.
  intros c h1. induction h1 as [|p h IH]; intros h2 m.
  - reflexivity.
  - simpl. rewrite !mrun_cons. apply IH.
Qed.

Lemma sts_copy : forall c m s, exists si, sts (fst (step c m (OCopy s))) = sts m ++ [si].
Proof.
  intros. simpl. destruct (ev_copy_state m (nth s (sts m) dflt_s)) as [si evs]. simpl. eexists; eauto.
Qed.

Lemma sts_mkop : forall c m d a objs sh, sts (fst (step c m (OMkOp d a objs sh))) = sts m.
Proof. intros. reflexivity. Qed.

Lemma sts_readstate : forall c m s, sts (fst (step c m (OReadState s))) = sts m.
Proof. intros. reflexivity. Qed.

Lemma sts_applicable : forall c m o s, sts (fst (step c m (OApplicable o s))) = sts m.
Proof.
  intros. simpl. destruct (ensure_grounded m o) as [[m1 oi] evg] eqn:E.
  apply ensure_grounded_same in E. simpl. tauto.
Qed.

Lemma sts_apply_raised : forall c m o s skip, sts (fst (step c m (OApply o s skip true))) = sts m.
Proof.
  intros. simpl. destruct (ensure_grounded m o) as [[m1 oi] evg] eqn:E.
  apply ensure_grounded_same in E. simpl. tauto.
Qed.

Lemma sts_apply : forall c m o s skip, exists si, sts (fst (step c m (OApply o s skip false))) = sts m ++ [si].
Proof.
  intros. simpl. destruct (ensure_grounded m o) as [[m1 oi] evg] eqn:E.
  apply ensure_grounded_same in E. destruct E as (_ & E & _).
  destruct (apply_body_sts c m1 o oi (nth s (sts m) dflt_s)) as [si Hsi].
  destruct (ev_apply_body c m1 o oi (nth s (sts m) dflt_s)) as [m2 evb]. simpl in *.
  exists si. rewrite Hsi, E. reflexivity.
Qed.

Ltac len_of H := apply (f_equal (@length sinfo)) in H; rewrite app_length in H; cbn [length] in H.

(* ---------------------------------------------------------------- apply_actions *)
(* the loop over >= 2 acting members: started with ns state handles alive and acc among them, it ends with ns' state
   handles, and the state it returns (if it returns) is acc or a handle created by the loop *)
Lemma joint_loop_states : forall c d s objs allow ms o acc ns m l res ns' o',
  joint_loop d s objs allow ms o acc ns = (l, res, ns', o') -> length (sts m) = ns ->
  length (sts (mrun c l m)) = ns' /\ ns <= ns' /\
  (forall r, res = Some r -> r = acc \/ (ns <= r < ns')) /\
  (ms <> [] -> forall r, res = Some r -> ns <= r < ns').
Proof.
  intros c d s objs allow ms. induction ms as [|mb ms IH]; intros o acc ns m l res ns' o' H Hm; simpl in H.
  - inversion H; subst. unfold mrun; simpl. split; [reflexivity|]. split; [lia|]. split.
    + intros r Hr. inversion Hr; subst. left; reflexivity.
    + intros X. exfalso. apply X. reflexivity.
  - destruct (mb_app mb || allow) eqn:A.
    + destruct (joint_loop d s objs allow ms (S o) ns (S ns)) as [[[rest res1] ns1] o1] eqn:E.
      inversion H; subst; clear H.
      cbn [app]. rewrite !mrun_cons.
      set (m1 := fst (step c m (OMkOp d (mb_act mb) objs (mb_sh mb)))).
      set (m2 := fst (step c m1 (OApplicable o s))).
      set (m3 := fst (step c m2 (OApply o acc false false))).
      assert (L3 : length (sts m3) = S (length (sts m))).
      { destruct (sts_apply c m2 o acc false) as [si Hs]. fold m3 in Hs. len_of Hs. rewrite Hs.
        unfold m2. rewrite sts_applicable. unfold m1. rewrite sts_mkop. lia. }
      specialize (IH (S o) (length (sts m)) (S (length (sts m))) m3 rest res ns' o' E L3).
      destruct IH as (I1 & I2 & I3 & I4). split; [exact I1|]. split; [lia|]. split.
      * intros r0 Hr. right. destruct (I3 r0 Hr) as [X | X]; lia.
      * intros _ r0 Hr. destruct (I3 r0 Hr) as [X | X]; lia.
    + inversion H; subst; clear H. rewrite !mrun_cons, mrun_nil.
      rewrite sts_applicable, sts_mkop. split; [reflexivity|]. split; [lia|]. split; intros; discriminate.
Qed.

Lemma apply_actions_states : forall c m d s objs ms allow l res ns' no',
  apply_actions_at (length (sts m)) (length (ops m)) d s objs ms allow = (l, res, ns', no') ->
  length (sts (mrun c l m)) = ns' /\
  forall r, res = Some r -> length (sts m) <= r < ns'.
Proof.
  intros c m d s objs ms allow l res ns' no' H. unfold apply_actions_at in H.
  destruct (acting ms) as [|mb [|mb2 r]] eqn:EA.
  - inversion H; subst. rewrite mrun_cons, mrun_nil.
    destruct (sts_copy c m s) as [si Hs]. len_of Hs. split.
    + lia.
    + intros r0 Hr; inversion Hr; subst; lia.
  - destruct (negb (mb_app mb) && negb allow) eqn:R; inversion H; subst; clear H;
      rewrite !mrun_cons, mrun_nil.
    + rewrite sts_apply_raised, sts_mkop. split; auto. intros; discriminate.
    + destruct (sts_apply c (fst (step c m (OMkOp d (mb_act mb) objs (mb_sh mb)))) (length (ops m)) s false) as [si Hs].
      len_of Hs. rewrite sts_mkop in Hs. split; [lia|].
      intros r0 Hr; inversion Hr; subst; lia.
  - destruct (joint_loop d s objs allow (mb :: mb2 :: r) (length (ops m)) (length (sts m)) (S (length (sts m))))
      as [[[rest res1] ns1] o1] eqn:E.
    inversion H; subst; clear H. rewrite mrun_cons.
    destruct (sts_copy c m s) as [si Hs]. len_of Hs.
    assert (L : length (sts (fst (step c m (OCopy s)))) = S (length (sts m))) by lia.
    destruct (joint_loop_states c d s objs allow (mb :: mb2 :: r) _ _ _ _ _ _ _ _ E L) as (I1 & I2 & I3 & I4).
    split; auto. intros r0 Hr. assert (X : mb :: mb2 :: r <> []) by discriminate.
    specialize (I4 X r0 Hr). lia.
Qed.

(* apply_actions never returns the state it was given: the handle of its result does not exist before the call and
   exists after it *)
Lemma apply_actions_fresh : forall c m d s objs ms allow r,
  snd (apply_actions_ops m d s objs ms allow) = Some r ->
  length (sts m) <= r < length (sts (mrun c (fst (apply_actions_ops m d s objs ms allow)) m)).
Proof.
  intros c m d s objs ms allow r H. unfold apply_actions_ops in *.
  destruct (apply_actions_at (length (sts m)) (length (ops m)) d s objs ms allow) as [[[l res] ns'] no'] eqn:E.
  simpl in *. destruct (apply_actions_states c m d s objs ms allow l res ns' no' E) as [L F].
  rewrite L. apply F; auto.
Qed.

(* ... hence (current tree) the result shares no mutable cell with the state it was given nor with any other value
   that was live before the call *)
Lemma separated_no_share : forall m a b, separated m = true -> In a (values m) -> In b (values m) -> a <> b ->
  shares m a b = false.
Proof.
  intros m a b S Va Vb Nab. destruct (shares m a b) eqn:Hs; auto. exfalso.
  unfold separated in S. rewrite forallb_forall in S.
  unfold shares in Hs. apply existsb_exists in Hs as [l [Hla Hlb]]. apply mem_loc_true in Hlb.
  pose proof (S a Va) as Sa. rewrite forallb_forall in Sa. specialize (Sa l Hla). apply owner_eqb_eq in Sa.
  pose proof (S b Vb) as Sb. rewrite forallb_forall in Sb. specialize (Sb l Hlb). apply owner_eqb_eq in Sb.
  congruence.
Qed.

Lemma In_values_st : forall m r, In (OSt r) (values m) <-> r < length (sts m).
Proof.
  intros m r. unfold values. split.
  - intros [H | H]; [discriminate|]. apply in_app_or in H as [H | H]; apply in_map_iff in H as [i [E Hi]].
    + discriminate.
    + inversion E; subst. apply in_seq in Hi. lia.
  - intros H. right. apply in_or_app. right. apply in_map_iff. exists r. split; auto. apply in_seq. lia.
Qed.

Lemma run_app : forall c h l acc, run c (h ++ l) acc = run c l (run c h acc).
Proof. intros. unfold run. apply fold_left_app. Qed.

Lemma mrun_extends : forall c l m, extends m (mrun c l m).
Proof.
  intros c l. induction l as [|p l IH]; intros m.
  - rewrite mrun_nil. apply extends_refl.
  - rewrite mrun_cons. eapply extends_trans; [apply step_extends | apply IH].
Qed.

Lemma apply_actions_unshared : forall h d s objs ms allow r v,
  let m := fst (run cfg_current h start) in
  let m' := mrun cfg_current (fst (apply_actions_ops m d s objs ms allow)) m in
  snd (apply_actions_ops m d s objs ms allow) = Some r -> In v (values m) ->
  In (OSt r) (values m') /\ ~ In (OSt r) (values m) /\ shares m' (OSt r) v = false.
Proof.
  intros h d s objs ms allow r v m m' Hr Hv.
  pose proof (apply_actions_fresh cfg_current m d s objs ms allow r Hr) as F. fold m' in F.
  assert (R1 : In (OSt r) (values m')) by (apply In_values_st; lia).
  assert (R2 : ~ In (OSt r) (values m)) by (rewrite In_values_st; lia).
  split; auto. split; auto.
  apply separated_no_share; auto.
  - unfold m', mrun. rewrite (run_fst _ _ _ st0 (snd (run cfg_current h start))).
    unfold m. rewrite <- surjective_pairing, <- run_app. apply separation_current.
  - apply (extends_values m m'); auto. apply mrun_extends.
  - intros E. apply R2. rewrite E. exact Hv.
Qed.

(* frame for the three joint-action calls from ANY reachable model state: a value live before the call is live after
   it, reaches the same cells, and every such cell keeps its contents *)
Inductive jcall :=
| JApply (d s : nat) (objs : option nat) (ms : list (option member)) (allow : bool)
| JTriplet (d s pobjs : nat) (ms : list (option member)) (allow : bool)
| JPlan (d pobjs : nat) (steps : list (list (option member))) (allow : bool).

Definition jrender (m : mstate) (j : jcall) : list op :=
  let ns := length (sts m) in
  let no := length (ops m) in
  match j with
  | JApply d s objs ms allow => fst (fst (fst (apply_actions_at ns no d s objs ms allow)))
  | JTriplet d s pobjs ms allow => fst (fst (fst (ma_triplet_at ns no d s pobjs ms allow)))
  | JPlan d pobjs steps allow => fst (ma_plan_at d pobjs allow steps ns no pobjs)
  end.

Lemma joint_frame : forall c j m st v, writes_fixed c = true -> Inv m -> In v (values m) ->
  let r := run c (jrender m j) (m, st) in
  In v (values (fst r)) /\ reach (fst r) v = reach m v /\ forall l, In l (reach m v) -> snd r l = st l.
Proof. intros c j m st v F H Hv. apply frame_history; auto. Qed.

(* Example (non-vacuity): two members act, one idles, on the initial state of a parsed problem; the result is state
   handle 3 (handles 1, 2 are the call's intermediate states), three state handles are created *)
Definition ex_sh : ashape := {| a_pre := 1; a_effs := [(0, 1)]; a_forall := 1 |}.
Definition ex_joint_prefix : list op := [OParseDomain true 2; OParseProblem 0 [0; 1]].
Definition ex_members : list (option member) :=
  [Some {| mb_act := 0; mb_sh := ex_sh; mb_app := true |}; None; Some {| mb_act := 1; mb_sh := ex_sh; mb_app := true |}].

Lemma ex_joint :
  let m := fst (run cfg_current ex_joint_prefix start) in
  snd (apply_actions_ops m 0 0 (Some 0) ex_members false) = Some 3 /\
  length (sts (mrun cfg_current (fst (apply_actions_ops m 0 0 (Some 0) ex_members false)) m)) = 4 /\
  snd (apply_actions_ops m 0 0 (Some 0) [None; None] false) = Some 1 /\
  snd (apply_actions_ops m 0 0 None [Some {| mb_act := 0; mb_sh := ex_sh; mb_app := false |}] false) = None.
Proof. vm_compute. repeat split; reflexivity. Qed.
