(* C18: the theorems assembled for Props/C18.v, and worked examples showing that their hypotheses are
   satisfiable by non-trivial values and that each side condition is needed. *)
From Coq Require Import List String Bool PrimFloat.
From Verif Require Import Base.Result Base.Str Base.Sexp Base.PyDict Model.Types Model.Domain Model.Exec Model.ChangeSignature
  Spec.Pddl Spec.Rename Proofs.C18_Dict Proofs.C18_Alpha Proofs.C18_Denote Proofs.C18_Exec Proofs.C18_Check Proofs.C18_Parser.
Import ListNotations.
Open Scope string_scope.
Open Scope list_scope.

(* same number, order and types of parameters *)
Theorem signature_renamed (m : renaming) (a : maction) :
  NoDup (dkeys (ma_sig a)) ->
  (forall x y, In x (dkeys (ma_sig a)) -> In y (dkeys (ma_sig a)) -> rn m x = rn m y -> x = y) ->
  ma_sig (change_signature m a) = map (rn_item m) (ma_sig a).
Proof.
  intros Hnd Hinj. simpl. apply rebuild_map. apply NoDup_map_inj; assumption.
Qed.

Theorem signature_renamed_ok dom (m : renaming) (a : maction) :
  renaming_ok dom a m = true -> ma_sig (change_signature m a) = map (rn_item m) (ma_sig a).
Proof.
  intros H. apply renaming_ok_distinct in H. destruct H as [Hs _]. simpl. apply rebuild_map. exact Hs.
Qed.

(* the main theorem on the model *)
Theorem rename_correct dom (m : renaming) (a : maction) :
  renaming_ok dom a m = true ->
  ma_sig (change_signature m a) = map (rn_item m) (ma_sig a) /\
  denote_pre (ma_pre (change_signature m a)) = option_map (ren_form (rn m)) (denote_pre (ma_pre a)) /\
  denote_effs (change_signature m a) = option_map (map (ren_eff (rn m))) (denote_effs a) /\
  denote_action (change_signature m a) = option_map (ren_action (rn m)) (denote_action a) /\
  same_behaviour dom a (change_signature m a).
Proof.
  intros H. pose proof (renaming_ok_distinct dom a m H) as Hd.
  split; [apply (signature_renamed_ok dom); exact H|].
  split; [apply denote_pre_rename; apply Hd|].
  split; [apply denote_effs_rename; exact Hd|].
  split; [apply denote_action_rename; exact Hd|].
  apply rename_same_behaviour. exact H.
Qed.

(* for an action read by the parser: a condition on the mapping alone *)
Theorem rename_parsed (num : numparser) (dom : mdomain) (e : list sexp) (a : maction) (m : renaming) :
  wf_funcs (d_funcs dom) -> num_ok num ->
  parse_action num (d_types dom) (d_consts dom) (d_preds dom) (d_funcs dom) e = Ok a ->
  let ps := dkeys (ma_sig a) in
  (forall n, ~ In n ps -> rn m n = n) ->
  (forall x y, In x ps -> In y ps -> rn m x = rn m y -> x = y) ->
  (forall p, In p ps -> rn m p <> p ->
     (In (rn m p) ps \/ ~ In (rn m p) (names_action a)) /\
     ~ In (rn m p) (bound_maction a) /\ dmem (d_consts dom) (rn m p) = false /\ dmem (d_consts dom) p = false) ->
  ma_sig (change_signature m a) = map (rn_item m) (ma_sig a) /\
  denote_action (change_signature m a) = option_map (ren_action (rn m)) (denote_action a) /\
  same_behaviour dom a (change_signature m a).
Proof.
  intros W K P ps H1 H2 H3.
  pose proof (parsed_renaming_ok num dom e a m W K P H1 H2 H3) as Hok.
  destruct (rename_correct dom m a Hok) as [A [_ [_ [C D]]]]. exact (conj A (conj C D)).
Qed.

(* model + spec: what the renamed object model denotes behaves like what the original denotes *)
Theorem denoted_behaviour dom (m : renaming) (a : maction) (A : action) :
  renaming_ok dom a m = true -> denote_action a = Some A -> admissible (rn m) A ->
  exists A', denote_action (change_signature m a) = Some A' /\
    forall eps tt objs args s, List.length args = List.length (a_params A) ->
      applicable eps tt objs A' args s = applicable eps tt objs A args s /\
      successor eps tt objs A' args s = successor eps tt objs A args s.
Proof.
  intros Hok HA Hadm. exists (ren_action (rn m) A). split.
  - rewrite (denote_action_rename m a (renaming_ok_distinct dom a m Hok)), HA. reflexivity.
  - intros eps tt objs args s Hlen. split.
    + apply alpha_applicable; assumption.
    + apply alpha_successor; assumption.
Qed.

(* ================================================================================================== *)
(* Worked example: a 3-parameter action with a nested or, a forall condition, a when and a forall-when  *)
(* ================================================================================================== *)
Definition ex_dom : mdomain :=
  {| d_name := "dom"; d_reqs := []; d_types := [("t0", "object")]; d_consts := [("c0", "t0")];
     d_preds := [("p", [("?a", "t0"); ("?b", "t0")]); ("q", [("?a", "t0")])];
     d_funcs := [("f", [("?a", "t0")])]; d_actions := [] |}.

(* (:action act :parameters (?x ?y ?z - t0)
     :precondition (and (p ?x ?y) (or (q ?x) (and (q ?y) (= ?x ?z))) (not (= ?x ?y))
                        (forall (?u - t0) (or (p ?u ?z) (q ?u))) (>= (f ?x) 1) (p ?z c0))
     :effect (and (q ?z) (not (p ?x ?y)) (increase (f ?y) (f ?x)) (when (q ?y) (p ?y ?x))
                  (forall (?u - t0) (when (p ?u ?x) (q ?u))))) *)
Definition ex_act : maction :=
  {| ma_name := "act";
     ma_sig := [("?x", "t0"); ("?y", "t0"); ("?z", "t0")];
     ma_pre := MPre "and"
       [MLit true "p" ["?x"; "?y"];
        MNested (MPre "or" [MLit true "q" ["?x"]; MNested (MPre "and" [MLit true "q" ["?y"]] [("?x", "?z")] [])] [] []);
        MUniv "?u" "t0" (MPre "or" [MLit true "p" ["?u"; "?z"]; MLit true "q" ["?u"]] [] []);
        MNum (TNode ">=" (TFn "f" ["?x"]) (TNum 1));
        MLit true "p" ["?z"; "c0"]]
       [] [("?x", "?y")];
     ma_disc := [{| l_pos := true; l_name := "q"; l_args := ["?z"] |};
                 {| l_pos := false; l_name := "p"; l_args := ["?x"; "?y"] |}];
     ma_num := [TNode "increase" (TFn "f" ["?y"]) (TFn "f" ["?x"])];
     ma_cond := [{| ce_ante := MPre "and" [MLit true "q" ["?y"]] [] [];
                    ce_disc := [{| l_pos := true; l_name := "p"; l_args := ["?y"; "?x"] |}]; ce_num := [] |}];
     ma_univ := [{| ue_var := "?u"; ue_ty := "t0";
                    ue_ce := {| ce_ante := MPre "and" [MLit true "p" ["?u"; "?x"]] [] [];
                                ce_disc := [{| l_pos := true; l_name := "q"; l_args := ["?u"] |}]; ce_num := [] |} |}] |}.

Definition ex_rotation : renaming := [("?x", "?y"); ("?y", "?z"); ("?z", "?x")].    (* a permutation of the names *)
Definition ex_swap : renaming := [("?x", "?y"); ("?y", "?x")].                      (* ?z absent: kept *)
Definition ex_chain : renaming := [("?z", "?w"); ("?y", "?z"); ("?x", "?y")].       (* ?x->?y->?z->?w, dict in any order *)
Definition ex_fresh : renaming := [("?x", "?param_0"); ("?y", "?param_1"); ("?z", "?param_2")].

Example ex_rotation_ok : renaming_ok ex_dom ex_act ex_rotation = true. Proof. vm_compute. reflexivity. Qed.
Example ex_swap_ok : renaming_ok ex_dom ex_act ex_swap = true. Proof. vm_compute. reflexivity. Qed.
Example ex_chain_ok : renaming_ok ex_dom ex_act ex_chain = true. Proof. vm_compute. reflexivity. Qed.
Example ex_fresh_ok : renaming_ok ex_dom ex_act ex_fresh = true. Proof. vm_compute. reflexivity. Qed.

(* what the model computes for the rotation: every layer is renamed, the quantified ?u and the constant stay *)
Example ex_rotation_result :
  change_signature ex_rotation ex_act =
  {| ma_name := "act";
     ma_sig := [("?y", "t0"); ("?z", "t0"); ("?x", "t0")];
     ma_pre := MPre "and"
       [MLit true "p" ["?y"; "?z"];
        MNested (MPre "or" [MLit true "q" ["?y"]; MNested (MPre "and" [MLit true "q" ["?z"]] [("?y", "?x")] [])] [] []);
        MUniv "?u" "t0" (MPre "or" [MLit true "p" ["?u"; "?x"]; MLit true "q" ["?u"]] [] []);
        MNum (TNode ">=" (TFn "f" ["?y"]) (TNum 1));
        MLit true "p" ["?x"; "c0"]]
       [] [("?y", "?z")];
     ma_disc := [{| l_pos := true; l_name := "q"; l_args := ["?x"] |};
                 {| l_pos := false; l_name := "p"; l_args := ["?y"; "?z"] |}];
     ma_num := [TNode "increase" (TFn "f" ["?z"]) (TFn "f" ["?y"])];
     ma_cond := [{| ce_ante := MPre "and" [MLit true "q" ["?z"]] [] [];
                    ce_disc := [{| l_pos := true; l_name := "p"; l_args := ["?z"; "?y"] |}]; ce_num := [] |}];
     ma_univ := [{| ue_var := "?u"; ue_ty := "t0";
                    ue_ce := {| ce_ante := MPre "and" [MLit true "p" ["?u"; "?y"]] [] [];
                                ce_disc := [{| l_pos := true; l_name := "q"; l_args := ["?u"] |}]; ce_num := [] |} |}] |}.
Proof. vm_compute. reflexivity. Qed.

Example ex_rotation_behaviour : same_behaviour ex_dom ex_act (change_signature ex_rotation ex_act).
Proof. apply rename_same_behaviour. exact ex_rotation_ok. Qed.

(* the statement is not vacuous: the call (o0 o1 o2) grounds, is applicable in this state and changes it *)
Definition ex_objs : objects := [("o0", "t0"); ("o1", "t0"); ("o2", "t0")].
Definition ex_state : state :=
  {| facts := [("p", ["o0"; "o1"]); ("q", ["o0"]); ("q", ["o1"]); ("q", ["o2"]); ("q", ["c0"]); ("p", ["o2"; "c0"]);
               ("p", ["o1"; "o0"])];
     fluents := [(("f", ["o0"]), 2%float); (("f", ["o1"]), 0.5%float)] |}.

Definition ex_eps : float := 0x1.a36e2eb1c432dp-14%float.      (* the library's EPSILON, 1e-4 *)

Definition ex_run (a : maction) : result (bool * state) :=
  do ga <- ground_action ex_dom a ["o0"; "o1"; "o2"];
  do b <- is_applicable ex_dom ex_eps (Some ex_objs) ga ex_state;
  do s <- apply_op ex_dom ex_eps ga (Some ex_objs) false false [0; 1] [0] ex_state;
  Ok (b, s).

Example ex_run_original :
  ex_run ex_act =
  Ok (true, {| facts := [("q", ["o0"]); ("q", ["o1"]); ("q", ["o2"]); ("q", ["c0"]); ("p", ["o2"; "c0"]);
                         ("p", ["o1"; "o0"])];
               fluents := [(("f", ["o0"]), 2%float); (("f", ["o1"]), 2.5%float)] |}).
Proof. vm_compute. reflexivity. Qed.

Example ex_run_renamed : ex_run (change_signature ex_rotation ex_act) = ex_run ex_act.
Proof. vm_compute. reflexivity. Qed.

(* ================================================================================================== *)
(* Each side condition is needed                                                                        *)
(* ================================================================================================== *)
(* (1) injectivity: two parameters onto one name collapse the signature (computed by the dict model) *)
Example collapse_when_not_injective :
  ma_sig (change_signature [("?x", "?n"); ("?y", "?n")] ex_act) = [("?n", "t0"); ("?z", "t0")] /\
  renaming_ok ex_dom ex_act [("?x", "?n"); ("?y", "?n")] = false.
Proof. split; vm_compute; reflexivity. Qed.

(* (2) a new name that is a quantified variable of the action is captured: the renamed action behaves differently *)
Example capture_changes_behaviour :
  renaming_ok ex_dom ex_act [("?z", "?u")] = false /\
  (do ga <- ground_action ex_dom ex_act ["o0"; "o1"; "o2"];
   is_applicable ex_dom ex_eps (Some ex_objs) ga ex_state) = Ok true /\
  (do ga <- ground_action ex_dom (change_signature [("?z", "?u")] ex_act) ["o0"; "o1"; "o2"];
   is_applicable ex_dom ex_eps (Some ex_objs) ga
     {| facts := ("p", ["c0"; "c0"]) :: facts ex_state; fluents := fluents ex_state |}) <>
  (do ga <- ground_action ex_dom ex_act ["o0"; "o1"; "o2"];
   is_applicable ex_dom ex_eps (Some ex_objs) ga
     {| facts := ("p", ["c0"; "c0"]) :: facts ex_state; fluents := fluents ex_state |}).
Proof. repeat split; vm_compute; try reflexivity; discriminate. Qed.

(* (3) a new name that is a constant of the domain is read as that constant *)
Example constant_changes_behaviour :
  renaming_ok ex_dom ex_act [("?z", "c0")] = false /\
  ex_run (change_signature [("?z", "c0")] ex_act) <> ex_run ex_act.
Proof. split; vm_compute; [reflexivity|discriminate]. Qed.

(* the same on the spec: without "no capture" alpha-invariance fails *)
Example spec_capture :
  let A := {| a_name := "a"; a_params := [("?x", "t")];
              a_pre := FForall "?u" "t" (FAtom "p" ["?u"; "?x"]); a_effs := [] |} in
  let rho := fun n => if String.eqb n "?x" then "?u" else n in
  let s := {| facts := [("p", ["o0"; "o0"]); ("p", ["o1"; "o1"])]; fluents := [] |} in
  applicable 0%float [] [("o0", "t"); ("o1", "t")] A ["o0"] s = false /\
  applicable 0%float [] [("o0", "t"); ("o1", "t")] (ren_action rho A) ["o0"] s = true.
Proof. split; vm_compute; reflexivity. Qed.

(* ================================================================================================== *)
(* The property read literally - ANY mapping that is injective on the parameters - and its refutation    *)
(* (recorded finding D75: a new name may be a quantified variable of the action; nothing checks it)      *)
(* ================================================================================================== *)
Definition full_statement : Prop :=
  forall (dom : mdomain) (a : maction) (m : renaming),
    well_formed a = true ->
    (forall n, ~ In n (dkeys (ma_sig a)) -> rn m n = n) ->
    (forall x y, In x (dkeys (ma_sig a)) -> In y (dkeys (ma_sig a)) -> rn m x = rn m y -> x = y) ->
    same_behaviour dom a (change_signature m a).

Theorem full_statement_refuted : ~ full_statement.
Proof.
  intros H. specialize (H ex_dom ex_act [("?z", "?u")]).
  assert (Hwf : well_formed ex_act = true) by (vm_compute; reflexivity).
  assert (Hmove : forall n, ~ In n (dkeys (ma_sig ex_act)) -> rn [("?z", "?u")] n = n).
  { intros n Hn. unfold rn. simpl. destruct (String.eqb n "?z") eqn:E; [|reflexivity].
    apply String.eqb_eq in E. subst n. exfalso. apply Hn. simpl. auto. }
  assert (Hinj : forall x y, In x (dkeys (ma_sig ex_act)) -> In y (dkeys (ma_sig ex_act)) ->
                             rn [("?z", "?u")] x = rn [("?z", "?u")] y -> x = y).
  { intros x y Hx Hy. simpl in Hx, Hy.
    destruct Hx as [<-|[<-|[<-|[]]]]; destruct Hy as [<-|[<-|[<-|[]]]]; vm_compute; intros E;
      try reflexivity; discriminate E. }
  specialize (H Hwf Hmove Hinj ["o0"; "o1"; "o2"]).
  destruct (ground_action ex_dom ex_act ["o0"; "o1"; "o2"]) as [ga|k] eqn:E1; [|vm_compute in E1; discriminate E1].
  destruct (ground_action ex_dom (change_signature [("?z", "?u")] ex_act) ["o0"; "o1"; "o2"]) as [ga'|k] eqn:E2;
    [|vm_compute in E2; discriminate E2].
  destruct H as [Happ _].
  destruct capture_changes_behaviour as [_ [_ Hneq]]. apply Hneq.
  rewrite E1, E2. unfold bind. apply Happ.
Qed.
