(* C10: the hypotheses of the round-trip theorem are satisfiable (single-agent and joint, with and without an object table);
   the witnesses of the recorded deviations. *)
From Coq Require Import List Ascii String Bool Arith Lia PrimFloat Permutation.
From Verif Require Import Base.Result Base.Str Base.Sexp Base.PyDict Base.Float Model.Tokenizer Model.Types Model.Domain
  Model.State Model.Trajectory Spec.Pddl Spec.State
  Proofs.C14_Text Proofs.C14_Spec Proofs.C14_Eq Proofs.C14_Main Proofs.C14_Serialize Proofs.C14_Examples Proofs.C10_State
  Proofs.C10_Main.
Import ListNotations.
Open Scope string_scope.
Open Scope list_scope.

Definition ex_objs : pydict string := [("a", "t"); ("b", "t")].
Definition ex_t0 : triplet := {| t_pre := ex_pre; t_act := ASingle ("mv", ["a"; "b"]); t_post := ex_mid |}.
Definition ex_t1 : triplet := {| t_pre := ex_mid; t_act := ASingle ("clear", []); t_post := ex_end |}.
Definition ex_j0 : triplet := {| t_pre := ex_pre; t_act := AJoint [("mv", ["a"; "b"]); nop_call]; t_post := ex_mid |}.
Definition ex_j1 : triplet := {| t_pre := ex_mid; t_act := AJoint [nop_call; nop_call]; t_post := ex_end |}.

Ltac in_cases := repeat match goal with
  | H : _ \/ _ |- _ => destruct H as [H|H]; [subst|]
  | H : False |- _ => destruct H
  end.

Lemma ex_values_ok s : s = ex_pre \/ s = ex_mid \/ s = ex_end ->
  (forall x, In x (values s) -> num_ok ex_num_text ex_parse_num x) /\ nums_clean ex_num_text s.
Proof.
  intros [-> | [-> | ->]]; split; intros x H; vm_compute in H; in_cases;
    try (eexists; split; vm_compute; reflexivity); vm_compute; reflexivity.
Qed.

Lemma ex_parseable problem s : problem = None \/ problem = Some ex_objs -> s = ex_pre \/ s = ex_mid \/ s = ex_end ->
  parseable ex_dom problem s.
Proof.
  intros [-> | ->] [-> | [-> | ->]]; unfold parseable; vm_compute den_facts; vm_compute den_fluents; cbn [map fst];
    (split; [|split]);
    repeat first
      [ apply Forall_nil | apply NoDup_nil
      | apply Forall_cons
      | apply NoDup_cons; [vm_compute; intuition discriminate|] ];
    try (eexists; split; [vm_compute; reflexivity|]; split; [reflexivity|]; split;
         [repeat (apply NoDup_cons; [vm_compute; intuition discriminate|]); apply NoDup_nil|];
         try exact I;
         repeat first [ apply Forall_nil | apply Forall2_nil
                      | apply Forall_cons; [eexists; vm_compute; reflexivity|]
                      | apply Forall2_cons; [eexists; split; vm_compute; reflexivity|] ]).
Qed.

Lemma ex_den_ok problem s : problem = None \/ problem = Some ex_objs -> s = ex_pre \/ s = ex_mid \/ s = ex_end ->
  den_ok ex_dom ex_num_text ex_parse_num problem s.
Proof.
  intros Hp Hs. split; [destruct Hs as [-> | [-> | ->]]; vm_compute; reflexivity|].
  split; [apply ex_values_ok; exact Hs|apply ex_parseable; assumption].
Qed.

(* single-agent, with the problem's object table and with deduced objects *)
Example ex_roundtrip_hypotheses problem : problem = None \/ problem = Some ex_objs ->
  den_ok ex_dom ex_num_text ex_parse_num problem (t_pre ex_t0) /\ nums_clean ex_num_text (t_pre ex_t0) /\
  Forall (step_text_ok ex_num_text) [ex_t0; ex_t1] /\
  Forall (step_ok ex_dom ex_num_text ex_parse_num problem None) [ex_t0; ex_t1] /\
  chain_from (t_post ex_t0) [ex_t1].
Proof.
  intros Hp. split; [apply ex_den_ok; auto|]. split; [apply (ex_values_ok ex_pre); auto|]. split; [|split].
  - constructor; [|constructor; [|constructor]].
    + split; [vm_compute; reflexivity|]. split; [vm_compute; reflexivity|apply (ex_values_ok ex_mid); auto].
    + split; [vm_compute; reflexivity|]. split; [vm_compute; reflexivity|apply (ex_values_ok ex_end); auto].
  - constructor; [|constructor; [|constructor]].
    + split; [exact I|]. split; [reflexivity|apply (ex_den_ok problem ex_mid); auto].
    + split; [exact I|]. split; [reflexivity|apply (ex_den_ok problem ex_end); auto].
  - split; [apply State_same_refl|exact I].
Qed.

(* joint actions with nop entries, two executing agents *)
Example ex_roundtrip_hypotheses_joint problem : problem = None \/ problem = Some ex_objs ->
  den_ok ex_dom ex_num_text ex_parse_num problem (t_pre ex_j0) /\ nums_clean ex_num_text (t_pre ex_j0) /\
  Forall (step_text_ok ex_num_text) [ex_j0; ex_j1] /\
  Forall (step_ok ex_dom ex_num_text ex_parse_num problem (Some ["agent0"; "agent1"])) [ex_j0; ex_j1] /\
  chain_from (t_post ex_j0) [ex_j1].
Proof.
  intros Hp. split; [apply ex_den_ok; auto|]. split; [apply (ex_values_ok ex_pre); auto|]. split; [|split].
  - constructor; [|constructor; [|constructor]].
    + split; [vm_compute; reflexivity|]. split; [vm_compute; reflexivity|apply (ex_values_ok ex_mid); auto].
    + split; [vm_compute; reflexivity|]. split; [vm_compute; reflexivity|apply (ex_values_ok ex_end); auto].
  - constructor; [|constructor; [|constructor]].
    + split; [split; [vm_compute; reflexivity|eexists; split; [reflexivity|simpl; lia]]|].
      split; [reflexivity|apply (ex_den_ok problem ex_mid); auto].
    + split; [split; [vm_compute; reflexivity|eexists; split; [reflexivity|simpl; lia]]|].
      split; [reflexivity|apply (ex_den_ok problem ex_end); auto].
  - split; [apply State_same_refl|exact I].
Qed.

(* what the text looks like *)
Example ex_export_text :
  export_text ex_num_text [ex_t0; ex_t1] =
  Ok ("((:init (= (g a b) -1.5) (= (h ) 2.5) (p a) (z ))" +++ LFs +++
      "(operator: (mv a b))" +++ LFs +++
      "(:state (= (g a b) 1.0) (= (h ) 2.5) (p b))" +++ LFs +++
      "(operator: (clear ))" +++ LFs +++
      "(:state  )" +++ LFs +++ ")").
Proof. vm_compute. reflexivity. Qed.

(* ---------- D07: a fluent with a repeated argument ---------- *)
Definition d07_triplet : triplet :=
  {| t_pre := d07_state; t_act := ASingle ("touch", ["o1"]);
     t_post := {| st_init := false; st_preds := st_preds d07_state; st_fluents := st_fluents d07_state |} |}.

(* the exported text parses, the observation has the right length and call, but its states are not the exported ones *)
Lemma roundtrip_refuted :
  exists text tree O c,
    export_text ex_num_text [d07_triplet] = Ok text /\ parse MFile (s2t text) = Ok tree /\
    parse_trajectory d07_dom ex_parse_num None None false tree = Ok O /\ ob_components O = [c] /\
    state_eq ex_num_text (oc_prev c) (t_pre d07_triplet) = false /\
    state_eq ex_num_text (oc_next c) (t_post d07_triplet) = false.
Proof.
  eexists. eexists. eexists. eexists.
  split; [vm_compute; reflexivity|]. split; [vm_compute; reflexivity|]. split; [vm_compute; reflexivity|].
  split; [reflexivity|]. split; vm_compute; reflexivity.
Qed.

(* the only hypothesis of the round-trip theorem that the witness violates *)
Lemma d07_violates_only_nodup :
  state_ok d07_state = true /\ nums_clean ex_num_text d07_state /\
  ~ parseable d07_dom None d07_state.
Proof.
  split; [vm_compute; reflexivity|]. split.
  - intros x H. vm_compute in H. destruct H as [<-|[]]. vm_compute. reflexivity.
  - intros (_ & F & _). vm_compute in F. inversion F as [|? ? (lifted & _ & _ & Nd & _) _]; subst.
    cbn [snd] in Nd. inversion Nd as [|? ? Hni _]; subst. apply Hni. left. reflexivity.
Qed.
