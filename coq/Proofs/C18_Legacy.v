(* C18: what the repair D23 changed, as theorems about the model of the code BEFORE the repair
   (Model.ChangeSignature.legacy_*: in-place  sig[new] = sig.pop(old)  loop, flattened walk, no when/forall effects).
     legacy_partial : on mappings to FRESH names that cover every key, the old loop computes exactly what the
                      rebuilt dict computes (this is the only use the repository's tests make of it);
     legacy_refuted : a permutation of two parameter names collapses the signature and a binary literal;
                      a literal over a constant raises KeyError; conditional effects keep the old names. *)
From Coq Require Import List String Bool.
From Verif Require Import Base.Result Base.PyDict Model.Domain Model.ChangeSignature Proofs.C18_Dict.
Import ListNotations.
Open Scope string_scope.
Open Scope list_scope.

Lemma dget_head {V} (k : string) (v : V) (r : pydict V) : dget ((k, v) :: r) k = Some v.
Proof. simpl. rewrite String.eqb_refl. reflexivity. Qed.

Lemma dpop_head {V} (k : string) (v : V) (r : pydict V) : dpop ((k, v) :: r) k = r.
Proof. simpl. rewrite String.eqb_refl. reflexivity. Qed.

Lemma pop_insert_acc {V} (m : renaming) : forall (rest done : pydict V),
  (forall k, In k (dkeys rest) -> dget m k <> None) ->
  (forall k, In k (dkeys rest) -> ~ In (rn m k) (dkeys rest) /\ ~ In (rn m k) (dkeys done)) ->
  NoDup (map (rn m) (dkeys rest)) ->
  foldM (pop_insert_step m) (dkeys rest) (rest ++ done) = Ok (done ++ map (rn_item m) rest).
Proof.
  induction rest as [|[k v] r IH]; intros done Hcov Hfresh Hnd.
  - simpl. rewrite app_nil_r. reflexivity.
  - simpl dkeys. simpl foldM. unfold pop_insert_step at 1.
    assert (Hk : In k (dkeys ((k, v) :: r))) by (left; reflexivity).
    destruct (dget m k) as [new|] eqn:Em; [|exfalso; apply (Hcov k Hk); exact Em].
    assert (Hnew : rn m k = new) by (unfold rn; rewrite Em; reflexivity).
    change (((k, v) :: r) ++ done) with ((k, v) :: (r ++ done)).
    rewrite dget_head, dpop_head. simpl bind.
    destruct (Hfresh k Hk) as [Hf1 Hf2]. rewrite Hnew in Hf1, Hf2.
    rewrite dset_fresh.
    2:{ rewrite dkeys_app. intros Hin. apply in_app_or in Hin. destruct Hin as [Hin|Hin].
        - apply Hf1. right. exact Hin.
        - apply Hf2. exact Hin. }
    rewrite <- app_assoc. rewrite IH.
    + rewrite <- app_assoc. simpl. unfold rn_item at 2. simpl. rewrite Hnew. reflexivity.
    + intros k' Hk'. apply Hcov. right. exact Hk'.
    + intros k' Hk'. destruct (Hfresh k' (or_intror Hk')) as [H1 H2]. split.
      * intros Hin. apply H1. right. exact Hin.
      * rewrite dkeys_app. intros Hin. apply in_app_or in Hin. destruct Hin as [Hin|Hin]; [exact (H2 Hin)|].
        simpl in Hin. destruct Hin as [Heq|[]].
        simpl in Hnd. apply NoDup_cons_iff in Hnd. destruct Hnd as [Hnotin _]. apply Hnotin.
        rewrite Hnew, Heq. apply in_map. exact Hk'.
    + simpl in Hnd. apply NoDup_cons_iff in Hnd. exact (proj2 Hnd).
Qed.

(* the old loop agrees with the rebuilt dict when every key is renamed to a fresh, distinct name *)
Theorem legacy_partial {V} (m : renaming) (sg : pydict V) :
  (forall k, In k (dkeys sg) -> dget m k <> None) ->
  (forall k, In k (dkeys sg) -> ~ In (rn m k) (dkeys sg)) ->
  NoDup (map (rn m) (dkeys sg)) ->
  pop_insert m sg = Ok (rebuild m sg) /\ rebuild m sg = map (rn_item m) sg.
Proof.
  intros Hcov Hfresh Hnd. split.
  - unfold pop_insert. rewrite <- (app_nil_r sg) at 2. rewrite pop_insert_acc.
    + simpl. rewrite rebuild_map by exact Hnd. reflexivity.
    + exact Hcov.
    + intros k Hk. split; [apply Hfresh; exact Hk|intros []].
    + exact Hnd.
  - apply rebuild_map. exact Hnd.
Qed.

(* ---------- witnesses ---------- *)
(* (:action mv :parameters (?x ?y ?z - t0) :precondition (and (p ?x ?y)) :effect (and (q ?z) (when (q ?y) (p ?y ?x)))) *)
Definition lg_act : maction :=
  {| ma_name := "mv";
     ma_sig := [("?x", "t0"); ("?y", "t0"); ("?z", "t0")];
     ma_pre := MPre "and" [MLit true "p" ["?x"; "?y"]] [] [];
     ma_disc := [{| l_pos := true; l_name := "q"; l_args := ["?z"] |}];
     ma_num := [];
     ma_cond := [{| ce_ante := MPre "and" [MLit true "q" ["?y"]] [] [];
                    ce_disc := [{| l_pos := true; l_name := "p"; l_args := ["?y"; "?x"] |}]; ce_num := [] |}];
     ma_univ := [] |}.
Definition lg_swap : renaming := [("?x", "?y"); ("?y", "?x"); ("?z", "?z")].
Definition lg_chain : renaming := [("?x", "?y"); ("?y", "?z"); ("?z", "?w")].

Theorem legacy_refuted :
  (* a permutation of the parameter names: the signature loses an entry, (p ?x ?y) becomes unary, and the
     conditional effect still speaks of the old names *)
  (exists a', legacy_change_signature lg_swap lg_act = Ok a' /\
              ma_sig a' = [("?x", "t0"); ("?z", "t0")] /\
              ma_pre a' = MPre "and" [MLit true "p" ["?x"]] [] [] /\
              ma_cond a' = ma_cond lg_act) /\
  (* a chain ?x->?y->?z->?w leaves a single parameter *)
  (exists a', legacy_change_signature lg_chain lg_act = Ok a' /\ ma_sig a' = [("?w", "t0")]) /\
  (* a literal over a constant: KeyError *)
  legacy_rename_args [("?x", "?p0")] ["?x"; "c0"] = Err EKey /\
  (* whereas the repaired code handles all three *)
  ma_sig (change_signature lg_swap lg_act) = [("?y", "t0"); ("?x", "t0"); ("?z", "t0")] /\
  ma_pre (change_signature lg_swap lg_act) = MPre "and" [MLit true "p" ["?y"; "?x"]] [] [] /\
  ma_sig (change_signature lg_chain lg_act) = [("?y", "t0"); ("?z", "t0"); ("?w", "t0")] /\
  rename_args [("?x", "?p0")] ["?x"; "c0"] = ["?p0"; "c0"].
Proof.
  repeat split; try (eexists; repeat split); vm_compute; reflexivity.
Qed.
