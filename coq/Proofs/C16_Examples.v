(* C16: worked examples - a joint action of three entries (two non-interfering members and a nop), its permutations,
   a refused one, an interfering pair. *)
From Coq Require Import List Ascii String Bool Arith PrimFloat.
From Verif Require Import Base.Result Base.Str Base.Sexp Base.PyDict Model.Tokenizer Model.Types Model.Domain Model.Exec
  Model.Plan Model.Joint Spec.Pddl Spec.Joint.
Import ListNotations.
Open Scope string_scope.
Open Scope list_scope.

Definition jx_text : string :=
  "(define (domain robots) (:requirements :typing :fluents) (:types robot loc)
     (:predicates (at ?r - robot ?l - loc) (free ?l - loc)) (:functions (fuel ?r - robot))
     (:action move :parameters (?r - robot ?a - loc ?b - loc)
        :precondition (and (at ?r ?a) (free ?b) (>= (fuel ?r) 1))
        :effect (and (not (at ?r ?a)) (at ?r ?b) (free ?a) (not (free ?b)) (decrease (fuel ?r) 1))))".

Definition jx_num (s : string) : option float := if String.eqb s "1" then Some 1%float else None.
Definition jx_eps : float := 0x1p-10%float.

Definition jx_dom : mdomain :=
  match parse MStr (s2t jx_text) with
  | Ok e => match parse_domain jx_num e with Ok d => d | Err _ => empty_domain end
  | Err _ => empty_domain
  end.

Definition jx_objs : objects :=
  [("r1", "robot"); ("r2", "robot"); ("l1", "loc"); ("l2", "loc"); ("l3", "loc"); ("l4", "loc")].
Definition jx_state : state :=
  {| facts := [("at", ["r1"; "l1"]); ("at", ["r2"; "l3"]); ("free", ["l2"]); ("free", ["l4"])];
     fluents := [(("fuel", ["r1"]), 2%float); (("fuel", ["r2"]), 1%float)] |}.
Definition jx_cur : mstate := {| ms_init := true; ms_st := jx_state |}.

Definition mv (r a b : string) : acall := {| ac_name := "move"; ac_args := [r; a; b] |}.
Definition nop : acall := {| ac_name := "nop"; ac_args := [] |}.

(* the spec's view of the action and of the two members *)
Definition jx_move : action :=
  {| a_name := "move"; a_params := [("?r", "robot"); ("?a", "loc"); ("?b", "loc")];
     a_pre := FAnd [FAtom "at" ["?r"; "?a"]; FAtom "free" ["?b"]; FCmp CGe (NFl "fuel" ["?r"]) (NNum 1%float)];
     a_effs := [EPrims [PDel "at" ["?r"; "?a"]; PAdd "at" ["?r"; "?b"]; PAdd "free" ["?a"]; PDel "free" ["?b"];
                        PNum ADecrease "fuel" ["?r"] (NNum 1%float)]] |}.
Definition jx_tt : tytree := [("robot", "object"); ("loc", "object")].
Definition m1 : member := (jx_move, ["r1"; "l1"; "l2"]).
Definition m2 : member := (jx_move, ["r2"; "l3"; "l4"]).
Definition m3 : member := (jx_move, ["r2"; "l3"; "l2"]).      (* wants the location r1 moves to *)

Definition same_state (s t : state) : bool :=
  facts_equiv (facts s) (facts t) &&
  forallb (fun kv => match fluent_get (fst kv) (fluents t) with Some v => (v =? snd kv)%float | None => false end) (fluents s) &&
  forallb (fun kv => match fluent_get (fst kv) (fluents s) with Some v => (v =? snd kv)%float | None => false end) (fluents t).

Definition result_state (r : result mstate) : state :=
  match r with Ok s => ms_st s | Err _ => {| facts := []; fluents := [] |} end.

(* the hypotheses of C16_joint hold for [(move r1 l1 l2), (nop ), (move r2 l3 l4)] ... *)
Lemma jx_hypotheses :
  pairwise_non_interfering jx_tt jx_objs [m1; m2] = true /\
  forallb (m_applicable jx_tt jx_objs jx_eps jx_state) [m1; m2] = true /\
  call_applicable jx_dom jx_eps (Some jx_objs) (mv "r1" "l1" "l2") jx_state = Ok true /\
  call_applicable jx_dom jx_eps (Some jx_objs) (mv "r2" "l3" "l4") jx_state = Ok true.
Proof. repeat split; vm_compute; reflexivity. Qed.

(* ... the joint action returns a state, the same one for the other orders and nop positions, and it is the
   sequential composition of the spec in either order *)
Lemma jx_joint :
  let r := apply_actions jx_dom jx_eps (Some jx_objs) id_schedule jx_cur [mv "r1" "l1" "l2"; nop; mv "r2" "l3" "l4"] false in
  let r' := apply_actions jx_dom jx_eps (Some jx_objs) id_schedule jx_cur [mv "r2" "l3" "l4"; mv "r1" "l1" "l2"; nop] false in
  is_ok r = true /\ is_ok r' = true /\
  same_state (result_state r) (result_state r') = true /\
  same_state (result_state r) (seq_apply jx_tt jx_objs jx_eps jx_state [m1; m2]) = true /\
  same_state (result_state r) (seq_apply jx_tt jx_objs jx_eps jx_state [m2; m1]) = true /\
  atom_in ("at", ["r1"; "l2"]) (facts (result_state r)) = true /\
  fluent_get ("fuel", ["r2"]) (fluents (result_state r)) = Some 0%float.
Proof. repeat split; vm_compute; reflexivity. Qed.

Lemma jx_example_lemma :
  pairwise_non_interfering jx_tt jx_objs [m1; m2] = true /\
  forallb (m_applicable jx_tt jx_objs jx_eps jx_state) [m1; m2] = true /\
  let r := apply_actions jx_dom jx_eps (Some jx_objs) id_schedule jx_cur [mv "r1" "l1" "l2"; nop; mv "r2" "l3" "l4"] false in
  let r' := apply_actions jx_dom jx_eps (Some jx_objs) id_schedule jx_cur [mv "r2" "l3" "l4"; mv "r1" "l1" "l2"; nop] false in
  is_ok r = true /\ is_ok r' = true /\
  same_state (result_state r) (result_state r') = true /\
  same_state (result_state r) (seq_apply jx_tt jx_objs jx_eps jx_state [m1; m2]) = true /\
  same_state (result_state r) (seq_apply jx_tt jx_objs jx_eps jx_state [m2; m1]) = true.
Proof.
  destruct jx_hypotheses as [H1 [H2 _]]. destruct jx_joint as [A [B [C [D [E _]]]]].
  split; [exact H1|]. split; [exact H2|]. cbv zeta. repeat split; assumption.
Qed.

(* a member that is inapplicable in the current state (r2 has fuel for one move only, and l1 is not free): refused with
   ValueError, at any position, unless allowed *)
Lemma jx_refused :
  apply_actions jx_dom jx_eps (Some jx_objs) id_schedule jx_cur [mv "r1" "l1" "l2"; nop; mv "r2" "l3" "l1"] false = Err EValue /\
  apply_actions jx_dom jx_eps (Some jx_objs) id_schedule jx_cur [mv "r2" "l3" "l1"; mv "r1" "l1" "l2"] false = Err EValue /\
  is_ok (apply_actions jx_dom jx_eps (Some jx_objs) id_schedule jx_cur [mv "r1" "l1" "l2"; mv "r2" "l3" "l1"] true) = true.
Proof. repeat split; vm_compute; reflexivity. Qed.

(* non-interference is needed.  Both robots move to l2: each member is applicable in the current state, the pair
   interferes (m1 deletes (free l2), which m3's precondition reads), and after m1 the member m3 is no longer
   applicable - 'one after the other' would refuse what the joint applicability test accepts.  And with an add/delete
   conflict (m1 adds (free l1), m4 deletes it) the two orders of the successor functions give different states. *)
Definition m4 : member := (jx_move, ["r2"; "l3"; "l1"]).
Lemma jx_interfering :
  forallb (m_applicable jx_tt jx_objs jx_eps jx_state) [m1; m3] = true /\
  non_interfering jx_tt jx_objs m1 m3 = false /\
  m_applicable jx_tt jx_objs jx_eps (m_step jx_tt jx_objs jx_eps jx_state m1) m3 = false /\
  non_interfering jx_tt jx_objs m1 m4 = false /\
  same_state (seq_apply jx_tt jx_objs jx_eps jx_state [m1; m4]) (seq_apply jx_tt jx_objs jx_eps jx_state [m4; m1]) = false.
Proof. repeat split; vm_compute; reflexivity. Qed.

(* the exporter: two joint actions, one triplet each, chained; the nop is printed *)
Definition jx_plan : list string :=
  ["[(move r1 l1 l2),(nop ),(move r2 l3 l4)]"; "[(nop ), (move r1 l2 l1), (nop )]"].
Definition jx_trace : list jtriplet :=
  match parse_joint_plan jx_dom jx_eps false jx_objs (fun _ => id_schedule) false jx_state jx_plan with
  | Ok ts => ts | Err _ => [] end.

Lemma jx_export :
  parse_joint_plan jx_dom jx_eps false jx_objs (fun _ => id_schedule) false jx_state jx_plan = Ok jx_trace /\
  map jt_ops jx_trace = [["(move r1 l1 l2)"; "(nop )"; "(move r2 l3 l4)"]; ["(nop )"; "(move r1 l2 l1)"; "(nop )"]] /\
  (exists items, export_joint jx_trace = Ok items /\ List.length items = 5).
Proof.
  split; [vm_compute; reflexivity|]. split; [vm_compute; reflexivity|].
  eexists. split; vm_compute; reflexivity.
Qed.

(* ---------- why the object table must reach joint execution (finding D63, repaired) ---------- *)
(* 'lock' closes every free location (forall-when effect); 'alarm' needs every location free (forall precondition) *)
Definition dx_text : string :=
  "(define (domain locks) (:requirements :typing) (:types loc)
     (:predicates (free ?l - loc) (done))
     (:action lock :parameters (?x - loc) :precondition (and (free ?x))
        :effect (and (done) (forall (?l - loc) (when (and (free ?l)) (and (not (free ?l)))))))
     (:action alarm :parameters (?x - loc) :precondition (and (forall (?l - loc) (and (free ?l))))
        :effect (and (done))))".
Definition dx_dom : mdomain :=
  match parse MStr (s2t dx_text) with
  | Ok e => match parse_domain jx_num e with Ok d => d | Err _ => empty_domain end
  | Err _ => empty_domain
  end.
Definition dx_objs : objects := [("l1", "loc"); ("l2", "loc")].
Definition dx_state : state := {| facts := [("free", ["l1"])]; fluents := [] |}.
Definition dx_cur : mstate := {| ms_init := true; ms_st := dx_state |}.
Definition dx_lock : action :=
  {| a_name := "lock"; a_params := [("?x", "loc")]; a_pre := FAnd [FAtom "free" ["?x"]];
     a_effs := [EPrims [PAdd "done" []]; EForall "?l" "loc" (FAnd [FAtom "free" ["?l"]]) [PDel "free" ["?l"]]] |}.
Definition dx_alarm : action :=
  {| a_name := "alarm"; a_params := [("?x", "loc")]; a_pre := FAnd [FForall "?l" "loc" (FAnd [FAtom "free" ["?l"]])];
     a_effs := [EPrims [PAdd "done" []]] |}.
Definition dx_tt : tytree := [("loc", "object")].
Definition lock_l1 : acall := {| ac_name := "lock"; ac_args := ["l1"] |}.
Definition alarm_l1 : acall := {| ac_name := "alarm"; ac_args := ["l1"] |}.

(* with the object table (the code after the repair) the joint action [(lock l1)] is the PDDL successor and
   [(alarm l1)] is refused; WITHOUT it (the code before the repair = the same model run with no table) the forall effect
   is skipped and the inapplicable member is executed *)
Lemma dx_object_table_needed :
  m_applicable dx_tt dx_objs jx_eps dx_state (dx_lock, ["l1"]) = true /\
  m_applicable dx_tt dx_objs jx_eps dx_state (dx_alarm, ["l1"]) = false /\
  same_state (result_state (apply_actions dx_dom jx_eps (Some dx_objs) id_schedule dx_cur [lock_l1] false))
             (seq_apply dx_tt dx_objs jx_eps dx_state [(dx_lock, ["l1"])]) = true /\
  apply_actions dx_dom jx_eps (Some dx_objs) id_schedule dx_cur [alarm_l1] false = Err EValue /\
  is_ok (apply_actions dx_dom jx_eps None id_schedule dx_cur [lock_l1] false) = true /\
  same_state (result_state (apply_actions dx_dom jx_eps None id_schedule dx_cur [lock_l1] false))
             (seq_apply dx_tt dx_objs jx_eps dx_state [(dx_lock, ["l1"])]) = false /\
  is_ok (apply_actions dx_dom jx_eps None id_schedule dx_cur [alarm_l1] false) = true.
Proof. repeat split; vm_compute; reflexivity. Qed.
