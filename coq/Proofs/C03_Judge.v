(* C03: the relation of the theorems ([state_eq]) implies the comparator of the correspondence check
   (Corr.Core.state_equiv, a boolean: facts as sets, fluent maps with bit-equal values), on states whose fluent lists
   have no repeated key.  So a disagreement reported by the check can never be an artefact of the two notions. *)
From Coq Require Import List String Bool PrimFloat ZArith SpecFloat.
From Verif Require Import Base.Str Base.Float Spec.Pddl Corr.Core Proofs.C03_Spec.
Import ListNotations.
Open Scope list_scope.

Lemma sf_eqb_refl : forall a, sf_eqb a a = true.
Proof.
  intros [s| s| |s m e]; simpl; try reflexivity; try apply Bool.eqb_reflx.
  rewrite Bool.eqb_reflx, Pos.eqb_refl, Z.eqb_refl. reflexivity.
Qed.

Lemma float_eq_refl : forall x, float_eq x x = true.
Proof. intros x. unfold float_eq, float_beq. apply sf_eqb_refl. Qed.

Lemma fluent_get_first : forall (l : list (atom * float)) k v,
  NoDup (map fst l) -> In (k, v) l -> fluent_get k l = Some v.
Proof.
  induction l as [|[k' v'] r IH]; intros k v Hnd Hin; [contradiction|].
  simpl in *. inversion Hnd as [|x xs Hnotin Hnd']; subst. destruct Hin as [E|Hin].
  - inversion E; subst. rewrite atom_eqb_refl. reflexivity.
  - destruct (atom_eqb k k') eqn:Ek.
    + apply atom_eqb_eq in Ek. subst k'. exfalso. apply Hnotin. apply in_map_iff. exists (k, v). split; [reflexivity | exact Hin].
    + apply IH; assumption.
Qed.

Lemma fluents_subset_of_eq : forall a b : list (atom * float),
  NoDup (map fst a) -> (forall k, fluent_get k a = fluent_get k b) -> fluents_subset a b = true.
Proof.
  intros a b Hnd H. unfold fluents_subset. apply forallb_forall. intros [k v] Hin. simpl.
  rewrite <- H. rewrite (fluent_get_first a k v Hnd Hin). apply float_eq_refl.
Qed.

Lemma facts_subset_of_eq : forall a b : list atom,
  (forall x, atom_in x a = atom_in x b) -> facts_subset a b = true.
Proof.
  intros a b H. unfold facts_subset. apply forallb_forall. intros x Hin. rewrite <- H. apply atom_in_In. exact Hin.
Qed.

Theorem state_eq_state_equiv : forall s t : state,
  NoDup (map fst (fluents s)) -> NoDup (map fst (fluents t)) -> state_eq s t -> state_equiv s t = true.
Proof.
  intros s t Hs Ht [Hf Hl]. unfold state_equiv, facts_equiv.
  rewrite (facts_subset_of_eq _ _ Hf), (facts_subset_of_eq _ _ (fun x => eq_sym (Hf x))).
  rewrite (fluents_subset_of_eq _ _ Hs Hl), (fluents_subset_of_eq _ _ Ht (fun k => eq_sym (Hl k))). reflexivity.
Qed.

(* the successor keeps fluent keys unique *)
Lemma fluent_set_keys : forall a v l, NoDup (map fst l) -> NoDup (map fst (fluent_set a v l)).
Proof.
  intros a v l. induction l as [|[k w] r IH]; intros H; simpl.
  - constructor; [intros [] | constructor].
  - inversion H as [|x xs Hnotin Hnd]; subst. destruct (atom_eqb a k) eqn:E; simpl.
    + exact H.
    + constructor; [|apply IH; exact Hnd]. intros Hin. apply Hnotin.
      clear -Hin E. induction r as [|[k2 w2] r IH]; simpl in *.
      * destruct Hin as [Hk|[]]. subst. rewrite atom_eqb_refl in E. discriminate.
      * destruct (atom_eqb a k2) eqn:E2; simpl in *; [exact Hin|]. destruct Hin as [Hk|Hin]; [left; exact Hk | right; apply IH; exact Hin].
Qed.

Lemma succ_keys : forall gs s, NoDup (map fst (fluents s)) -> NoDup (map fst (fluents (succ s gs))).
Proof.
  assert (Hprim : forall g s, NoDup (map fst (fluents s)) -> NoDup (map fst (fluents (fold_left apply_gprim g s)))).
  { induction g as [|x r IH]; intros s H; simpl; [exact H|]. apply IH. destruct x; simpl; try exact H. apply fluent_set_keys. exact H. }
  unfold succ. induction gs as [|g r IH]; intros s H; simpl; [exact H|].
  apply IH. unfold apply_group. apply Hprim. apply Hprim. exact H.
Qed.
