(* C18, part 3: what the renamed object model MEANS.  The formula / effects denoted by change_signature m a are
   the simultaneous substitution (Spec.Rename) of the formula / effects denoted by a, whenever no literal or
   fluent gets two equal argument names (which is what an admissible mapping guarantees). *)
From Coq Require Import List String Bool PrimFloat.
From Verif Require Import Base.Result Base.Str Base.PyDict Model.Domain Model.Exec Model.ChangeSignature
  Spec.Pddl Spec.Rename Proofs.C18_Dict.
Import ListNotations.
Open Scope string_scope.
Open Scope list_scope.

(* ---------- the denotation of effects and of a whole action (Exec.v stops at preconditions) ---------- *)
Fixpoint collect {A} (l : list (option A)) : option (list A) :=
  match l with
  | [] => Some []
  | Some x :: r => match collect r with Some xs => Some (x :: xs) | None => None end
  | None :: _ => None
  end.

Definition denote_lit (l : mlit) : prim :=
  if l_pos l then PAdd (l_name l) (l_args l) else PDel (l_name l) (l_args l).

Definition denote_numeff (t : mtree) : option prim :=
  match t with
  | TNode op (TFn f args) rhs =>
      match assignop_of op, denote_tree rhs with
      | Some k, Some r => Some (PNum k f args r)
      | _, _ => None
      end
  | _ => None
  end.

Definition denote_prims (disc : list mlit) (nums : list mtree) : option (list prim) :=
  collect (map (fun l => Some (denote_lit l)) disc ++ map denote_numeff nums).

Definition denote_condeff (ce : mcondeff) : option eff :=
  match denote_pre (ce_ante ce), denote_prims (ce_disc ce) (ce_num ce) with
  | Some c, Some ps => Some (EWhen c ps)
  | _, _ => None
  end.

Definition denote_univeff (ue : muniveff) : option eff :=
  match denote_pre (ce_ante (ue_ce ue)), denote_prims (ce_disc (ue_ce ue)) (ce_num (ue_ce ue)) with
  | Some c, Some ps => Some (EForall (ue_var ue) (ue_ty ue) c ps)
  | _, _ => None
  end.

Definition denote_effs (a : maction) : option (list eff) :=
  match denote_prims (ma_disc a) (ma_num a), collect (map denote_condeff (ma_cond a)),
        collect (map denote_univeff (ma_univ a)) with
  | Some ps, Some cs, Some us => Some (EPrims ps :: cs ++ us)
  | _, _, _ => None
  end.

Definition denote_action (a : maction) : option action :=
  match denote_pre (ma_pre a), denote_effs a with
  | Some f, Some es => Some {| a_name := ma_name a; a_params := ma_sig a; a_pre := f; a_effs := es |}
  | _, _ => None
  end.

(* ---------- "no literal or fluent gets two equal argument names" ---------- *)
Fixpoint distinct_tree (m : renaming) (t : mtree) : Prop :=
  match t with
  | TNum _ => True
  | TFn _ args => NoDup (map (rn m) args)
  | TNode _ l r => distinct_tree m l /\ distinct_tree m r
  end.

Fixpoint distinct_pre (m : renaming) (p : mpre) : Prop :=
  match p with
  | MPre _ os _ _ =>
      (fix go (l : list mcond) : Prop := match l with [] => True | c :: r => distinct_cond m c /\ go r end) os
  end
with distinct_cond (m : renaming) (c : mcond) : Prop :=
  match c with
  | MLit _ _ args => NoDup (map (rn m) args)
  | MNum t => distinct_tree m t
  | MNested q => distinct_pre m q
  | MUniv v _ body => distinct_pre (drop m v) body
  end.

Definition distinct_lit (m : renaming) (l : mlit) : Prop := NoDup (map (rn m) (l_args l)).
Definition distinct_condeff (m : renaming) (ce : mcondeff) : Prop :=
  distinct_pre m (ce_ante ce) /\ Forall (distinct_lit m) (ce_disc ce) /\ Forall (distinct_tree m) (ce_num ce).
Definition distinct_action (m : renaming) (a : maction) : Prop :=
  NoDup (map (rn m) (dkeys (ma_sig a))) /\
  distinct_pre m (ma_pre a) /\ Forall (distinct_lit m) (ma_disc a) /\ Forall (distinct_tree m) (ma_num a) /\
  Forall (distinct_condeff m) (ma_cond a) /\
  Forall (fun ue => distinct_condeff (drop m (ue_var ue)) (ue_ce ue)) (ma_univ a).

(* ---------- induction principle for the nested mutual object model ---------- *)
Section MpreInd.
  Variable P : mpre -> Prop.
  Variable Q : mcond -> Prop.
  Hypothesis HPre : forall op os eqs neqs, Forall Q os -> P (MPre op os eqs neqs).
  Hypothesis HLit : forall pos p args, Q (MLit pos p args).
  Hypothesis HNum : forall t, Q (MNum t).
  Hypothesis HNested : forall q, P q -> Q (MNested q).
  Hypothesis HUniv : forall v ty b, P b -> Q (MUniv v ty b).
  Fixpoint mpre_ind' (p : mpre) : P p :=
    match p with
    | MPre op os eqs neqs =>
        HPre op os eqs neqs
             ((fix go (l : list mcond) : Forall Q l :=
                 match l with
                 | [] => Forall_nil _
                 | c :: r => Forall_cons _ (mcond_ind' c) (go r)
                 end) os)
    end
  with mcond_ind' (c : mcond) : Q c :=
    match c with
    | MLit pos p args => HLit pos p args
    | MNum t => HNum t
    | MNested q => HNested q (mpre_ind' q)
    | MUniv v ty b => HUniv v ty b (mpre_ind' b)
    end.
End MpreInd.

(* ---------- the substitution depends on the function's values only ---------- *)
Lemma ren_nexp_ext rho rho' x : (forall n, rho n = rho' n) -> ren_nexp rho x = ren_nexp rho' x.
Proof.
  intros H. induction x as [y|f args|o a IHa b IHb]; simpl.
  - reflexivity.
  - f_equal. apply map_ext. exact H.
  - rewrite IHa, IHb. reflexivity.
Qed.

Lemma ren_form_ext : forall f rho rho', (forall n, rho n = rho' n) -> ren_form rho f = ren_form rho' f.
Proof.
  induction f as [p a|p a|a b|a b|c l r|l IH|l IH|v ty b IH] using form_ind'; intros rho rho' H; simpl.
  - f_equal. apply map_ext. exact H.
  - f_equal. apply map_ext. exact H.
  - rewrite !H. reflexivity.
  - rewrite !H. reflexivity.
  - rewrite (ren_nexp_ext rho rho' l H), (ren_nexp_ext rho rho' r H). reflexivity.
  - f_equal. apply map_ext_in. intros x Hx. rewrite Forall_forall in IH. apply IH; assumption.
  - f_equal. apply map_ext_in. intros x Hx. rewrite Forall_forall in IH. apply IH; assumption.
  - f_equal. apply IH. intros n. unfold upd. destruct (String.eqb n v); [reflexivity|apply H].
Qed.

Lemma ren_prim_ext rho rho' p : (forall n, rho n = rho' n) -> ren_prim rho p = ren_prim rho' p.
Proof.
  intros H. destruct p as [q args|q args|k f args rhs]; simpl.
  - f_equal. apply map_ext. exact H.
  - f_equal. apply map_ext. exact H.
  - f_equal; [apply map_ext; exact H|apply ren_nexp_ext; exact H].
Qed.

Lemma rn_drop_upd m v n : rn (drop m v) n = upd (rn m) v n.
Proof. rewrite rn_drop. reflexivity. Qed.

(* ---------- collect ---------- *)
Lemma collect_map {A} (g : A -> A) (l : list (option A)) :
  collect (map (option_map g) l) = option_map (map g) (collect l).
Proof.
  induction l as [|[x|] r IH]; simpl; [reflexivity| |reflexivity].
  rewrite IH. destruct (collect r); reflexivity.
Qed.

Lemma collect_app {A} (a b : list (option A)) :
  collect (a ++ b) = match collect a, collect b with Some x, Some y => Some (x ++ y) | _, _ => None end.
Proof.
  induction a as [|[x|] r IH]; simpl.
  - destruct (collect b); reflexivity.
  - rewrite IH. destruct (collect r), (collect b); reflexivity.
  - reflexivity.
Qed.

(* denote_pre through collect *)
Definition pre_parts (os : list mcond) (eqs neqs : list (string * string)) : list (option form) :=
  map (fun ab => Some (FEq (fst ab) (snd ab))) eqs ++
  map (fun ab => Some (FNeq (fst ab) (snd ab))) neqs ++ map denote_cond os.

Lemma collect_spec {A} (l : list (option A)) :
  (if forallb (fun o => match o with Some _ => true | None => false end) l
   then Some (flat_map (fun o => match o with Some f => [f] | None => [] end) l) else None) = collect l.
Proof.
  induction l as [|[x|] r IH]; simpl; [reflexivity| |reflexivity].
  rewrite <- IH. destruct (forallb _ r); reflexivity.
Qed.

Lemma denote_pre_unfold op os eqs neqs :
  denote_pre (MPre op os eqs neqs) =
  match collect (pre_parts os eqs neqs) with
  | Some fs => Some (if String.eqb op "or" then FOr fs else FAnd fs)
  | None => None
  end.
Proof.
  unfold pre_parts.
  assert (Hgo : (fix go (l : list mcond) : list (option form) :=
                   match l with [] => [] | c :: r => denote_cond c :: go r end) os = map denote_cond os).
  { induction os as [|c r IH]; simpl; [reflexivity|]. rewrite IH. reflexivity. }
  simpl denote_pre. rewrite Hgo.
  set (parts := map (fun ab : name * name => Some (FEq (fst ab) (snd ab))) eqs ++
                map (fun ab : name * name => Some (FNeq (fst ab) (snd ab))) neqs ++ map denote_cond os).
  rewrite <- (collect_spec parts).
  destruct (forallb (fun o : option form => match o with Some _ => true | None => false end) parts); reflexivity.
Qed.

Lemma rename_pre_unfold m op os eqs neqs :
  rename_pre m (MPre op os eqs neqs) =
  MPre op (map (rename_cond m) os) (map (rename_pair m) eqs) (map (rename_pair m) neqs).
Proof.
  reflexivity.   (* the local fix is map, up to conversion *)
Qed.

Lemma distinct_pre_unfold m op os eqs neqs :
  distinct_pre m (MPre op os eqs neqs) <-> Forall (distinct_cond m) os.
Proof.
  simpl. induction os as [|c r IH]; simpl.
  - split; intros; constructor.
  - split.
    + intros [Hc Hr]. constructor; [exact Hc|apply IH; exact Hr].
    + intros H. inversion H; subst. split; [assumption|apply IH; assumption].
Qed.

(* ---------- trees ---------- *)
Lemma denote_tree_rename m t :
  distinct_tree m t -> denote_tree (rename_tree m t) = option_map (ren_nexp (rn m)) (denote_tree t).
Proof.
  induction t as [x|f args|op l IHl r IHr]; simpl; intros H.
  - reflexivity.
  - rewrite rename_args_map by exact H. reflexivity.
  - destruct H as [Hl Hr]. rewrite (IHl Hl), (IHr Hr).
    destruct (binop_of op), (denote_tree l), (denote_tree r); reflexivity.
Qed.

Lemma denote_cmp_rename m t :
  distinct_tree m t -> denote_cmp (rename_numexp m t) = option_map (ren_form (rn m)) (denote_cmp t).
Proof.
  destruct t as [x|f args|op l r]; simpl; intros H; try reflexivity.
  destruct H as [Hl Hr]. rewrite (denote_tree_rename m l Hl), (denote_tree_rename m r Hr).
  destruct (cmpop_of op), (denote_tree l), (denote_tree r); reflexivity.
Qed.

(* ---------- preconditions ---------- *)
Lemma denote_rename_mutual :
  (forall p m, distinct_pre m p -> denote_pre (rename_pre m p) = option_map (ren_form (rn m)) (denote_pre p)).
Proof.
  apply (mpre_ind'
           (fun p => forall m, distinct_pre m p ->
                               denote_pre (rename_pre m p) = option_map (ren_form (rn m)) (denote_pre p))
           (fun c => forall m, distinct_cond m c ->
                               denote_cond (rename_cond m c) = option_map (ren_form (rn m)) (denote_cond c))).
  - intros op os eqs neqs IH m Hd.
    rewrite rename_pre_unfold, !denote_pre_unfold.
    apply distinct_pre_unfold in Hd.
    assert (Hparts : pre_parts (map (rename_cond m) os) (map (rename_pair m) eqs) (map (rename_pair m) neqs)
                     = map (option_map (ren_form (rn m))) (pre_parts os eqs neqs)).
    { unfold pre_parts. rewrite !map_app, !map_map.
      assert (Hos : map (fun x => denote_cond (rename_cond m x)) os =
                    map (fun x => option_map (ren_form (rn m)) (denote_cond x)) os).
      { apply map_ext_in. intros c Hc. rewrite Forall_forall in IH, Hd. apply IH; [exact Hc|apply Hd; exact Hc]. }
      rewrite Hos. reflexivity. }
    rewrite Hparts, collect_map.
    destruct (collect (pre_parts os eqs neqs)) as [fs|]; simpl; [|reflexivity].
    destruct (String.eqb op "or"); reflexivity.
  - intros pos p args m Hd. simpl in Hd. simpl. rewrite rename_args_map by exact Hd.
    destruct pos; reflexivity.
  - intros t m Hd. simpl. apply denote_cmp_rename. exact Hd.
  - intros q IH m Hd. simpl. apply IH. exact Hd.
  - intros v ty b IH m Hd. simpl. simpl in Hd. rewrite (IH (drop m v) Hd).
    destruct (denote_pre b) as [f|]; simpl; [|reflexivity].
    f_equal. f_equal. apply ren_form_ext. intros n. apply rn_drop_upd.
Qed.

Theorem denote_pre_rename m p :
  distinct_pre m p -> denote_pre (rename_pre m p) = option_map (ren_form (rn m)) (denote_pre p).
Proof. apply denote_rename_mutual. Qed.

(* ---------- effects ---------- *)
Lemma denote_lit_rename m l :
  distinct_lit m l -> denote_lit (rename_lit m l) = ren_prim (rn m) (denote_lit l).
Proof.
  intros H. unfold denote_lit, rename_lit. simpl. unfold distinct_lit in H.
  rewrite rename_args_map by exact H. destruct (l_pos l); reflexivity.
Qed.

Lemma denote_numeff_rename m t :
  distinct_tree m t -> denote_numeff (rename_numexp m t) = option_map (ren_prim (rn m)) (denote_numeff t).
Proof.
  destruct t as [x|f args|op l r]; simpl; intros H; try reflexivity.
  destruct H as [Hl Hr].
  destruct l as [x|f args|op2 l1 l2]; simpl; try reflexivity.
  simpl in Hl. rewrite rename_args_map by exact Hl.
  rewrite (denote_tree_rename m r Hr).
  destruct (assignop_of op), (denote_tree r); reflexivity.
Qed.

Lemma denote_prims_rename m disc nums :
  Forall (distinct_lit m) disc -> Forall (distinct_tree m) nums ->
  denote_prims (map (rename_lit m) disc) (map (rename_numexp m) nums) =
  option_map (map (ren_prim (rn m))) (denote_prims disc nums).
Proof.
  intros Hd Hn. unfold denote_prims. rewrite <- collect_map. f_equal.
  rewrite !map_app, !map_map. f_equal.
  - apply map_ext_in. intros l Hl. simpl. rewrite Forall_forall in Hd. rewrite denote_lit_rename by (apply Hd; exact Hl).
    reflexivity.
  - apply map_ext_in. intros t Ht. rewrite Forall_forall in Hn. apply denote_numeff_rename. apply Hn. exact Ht.
Qed.

Lemma denote_condeff_rename m ce :
  distinct_condeff m ce ->
  denote_condeff (rename_condeff m ce) = option_map (ren_eff (rn m)) (denote_condeff ce).
Proof.
  intros [Hp [Hd Hn]]. unfold denote_condeff, rename_condeff. simpl.
  rewrite (denote_pre_rename m _ Hp), (denote_prims_rename m _ _ Hd Hn).
  destruct (denote_pre (ce_ante ce)), (denote_prims (ce_disc ce) (ce_num ce)); reflexivity.
Qed.

Lemma denote_univeff_rename m ue :
  distinct_condeff (drop m (ue_var ue)) (ue_ce ue) ->
  denote_univeff (rename_univeff m ue) = option_map (ren_eff (rn m)) (denote_univeff ue).
Proof.
  intros [Hp [Hd Hn]]. unfold denote_univeff, rename_univeff. simpl.
  rewrite (denote_pre_rename _ _ Hp), (denote_prims_rename _ _ _ Hd Hn).
  destruct (denote_pre (ce_ante (ue_ce ue))) as [c|]; simpl; [|reflexivity].
  destruct (denote_prims (ce_disc (ue_ce ue)) (ce_num (ue_ce ue))) as [ps|]; simpl; [|reflexivity].
  f_equal. f_equal.
  - apply ren_form_ext. intros n. apply rn_drop_upd.
  - apply map_ext. intros p. apply ren_prim_ext. intros n. apply rn_drop_upd.
Qed.

Lemma collect_map_in {A B} (f g : A -> option B) (h : B -> B) (l : list A) :
  (forall x, In x l -> f x = option_map h (g x)) ->
  collect (map f l) = option_map (map h) (collect (map g l)).
Proof.
  intros H. rewrite <- collect_map. f_equal. rewrite map_map. apply map_ext_in. exact H.
Qed.

Theorem denote_effs_rename m a :
  distinct_action m a ->
  denote_effs (change_signature m a) = option_map (map (ren_eff (rn m))) (denote_effs a).
Proof.
  intros [_ [_ [Hd [Hn [Hc Hu]]]]]. unfold denote_effs. simpl.
  rewrite (denote_prims_rename m _ _ Hd Hn).
  rewrite map_map.
  rewrite (collect_map_in (fun x => denote_condeff (rename_condeff m x)) denote_condeff (ren_eff (rn m))).
  2:{ intros ce Hce. rewrite Forall_forall in Hc. apply denote_condeff_rename. apply Hc. exact Hce. }
  rewrite map_map.
  rewrite (collect_map_in (fun x => denote_univeff (rename_univeff m x)) denote_univeff (ren_eff (rn m))).
  2:{ intros ue Hue. rewrite Forall_forall in Hu. apply denote_univeff_rename. apply (Hu ue Hue). }
  destruct (denote_prims (ma_disc a) (ma_num a)) as [ps|]; simpl; [|reflexivity].
  destruct (collect (map denote_condeff (ma_cond a))) as [cs|]; simpl; [|reflexivity].
  destruct (collect (map denote_univeff (ma_univ a))) as [us|]; simpl; [|reflexivity].
  rewrite map_app. reflexivity.
Qed.

(* the whole action: the renamed object model denotes the renamed action *)
Theorem denote_action_rename m a :
  distinct_action m a ->
  denote_action (change_signature m a) = option_map (ren_action (rn m)) (denote_action a).
Proof.
  intros Hd. unfold denote_action.
  rewrite (denote_effs_rename m a Hd).
  destruct Hd as [Hsig [Hpre _]].
  change (ma_pre (change_signature m a)) with (rename_pre m (ma_pre a)).
  rewrite (denote_pre_rename m _ Hpre).
  destruct (denote_pre (ma_pre a)) as [f|]; simpl; [|reflexivity].
  destruct (denote_effs a) as [es|]; simpl; [|reflexivity].
  unfold ren_action. simpl. f_equal. f_equal.
  rewrite (rebuild_map m (ma_sig a) Hsig). reflexivity.
Qed.
