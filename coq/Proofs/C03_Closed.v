(* C03: the closed statements of Props/C03.v with their proofs (Props/C03.v restates them and refers here). *)
From Coq Require Import List String Bool PrimFloat Permutation.
From Verif Require Import Base.Result Base.Str Base.PyDict Model.Types Model.Domain Model.Exec Spec.Pddl
  Proofs.C03_Spec Proofs.C03_Defs Proofs.C03_Refine Proofs.C03_Main Proofs.C03_Inner Proofs.C03_Examples
  Corr.Core Proofs.C03_Judge.
Import ListNotations.

(* C03_successor.  For EVERY visiting order of the effect groups and of the universal effects the model returns a
   state, and it is the PDDL successor. *)
Theorem C03_successor_lemma :
  forall (d : mdomain) (eps : float) (a : maction) (effs : list eff) (args : list string) (ga : gaction)
         (objs : objects) (s : state),
    denote_effs a = Some effs -> names_ok d a = true ->
    ground_action d a args = Ok ga ->
    is_applicable d eps (Some objs) ga s = Ok true ->
    evaluates d eps objs ga s ->
    consistent (all_groups eps (d_types d) objs (spec_action a effs) args s) = true ->
    forall order uorder, is_order order (List.length (ga_groups ga)) -> is_order uorder (List.length (ma_univ a)) ->
    exists s', apply_op d eps ga (Some objs) false false order uorder s = Ok s' /\
               state_eq s' (successor eps (d_types d) objs (spec_action a effs) args s).
Proof.
  intros d eps a effs args ga objs s Hd Hn Hg Happ Hev Hc order uorder Ho Hu.
  exact (successor_gen d eps a effs args ga objs s Hd Hn Hg Hev false true Happ (or_introl eq_refl) Hc order uorder Ho Hu).
Qed.

(* The same, judged by the boolean comparator of the correspondence check (Corr.Core.state_equiv: facts as sets, fluent
   maps with bit-equal values): on a state whose fluent list has no repeated key the comparator answers true. *)
Theorem C03_successor_judged_lemma :
  forall (d : mdomain) (eps : float) (a : maction) (effs : list eff) (args : list string) (ga : gaction)
         (objs : objects) (s : state),
    denote_effs a = Some effs -> names_ok d a = true ->
    ground_action d a args = Ok ga ->
    is_applicable d eps (Some objs) ga s = Ok true ->
    evaluates d eps objs ga s ->
    consistent (all_groups eps (d_types d) objs (spec_action a effs) args s) = true ->
    NoDup (map fst (fluents s)) ->
    forall order uorder, is_order order (List.length (ga_groups ga)) -> is_order uorder (List.length (ma_univ a)) ->
    exists s', apply_op d eps ga (Some objs) false false order uorder s = Ok s' /\
               state_equiv s' (successor eps (d_types d) objs (spec_action a effs) args s) = true.
Proof.
  intros d eps a effs args ga objs s Hd Hn Hg Happ Hev Hc Hk order uorder Ho Hu.
  destruct (successor_gen d eps a effs args ga objs s Hd Hn Hg Hev false true Happ (or_introl eq_refl) Hc order uorder Ho Hu)
    as [s' [E1 E2]].
  exists s'. split; [exact E1|].
  pose proof (apply_op_fire d eps objs ga false order uorder s true Happ (or_introl eq_refl) Hev) as E3.
  rewrite E3 in E1. inversion E1; subst s'.
  apply state_eq_state_equiv; [apply succ_keys; exact Hk | unfold successor; apply succ_keys; exact Hk | exact E2].
Qed.

(* Partial-correctness form, without "evaluates" and without "applicable": WHATEVER a call of apply returns (default flags or
   allow_inapplicable_actions), in whatever visiting order, is the PDDL successor. *)
Theorem C03_returned_is_successor_lemma :
  forall (d : mdomain) (eps : float) (a : maction) (effs : list eff) (args : list string) (ga : gaction)
         (objs : objects) (s s1 : state) (allow : bool) (order uorder : list nat),
    denote_effs a = Some effs -> names_ok d a = true ->
    ground_action d a args = Ok ga ->
    is_order order (List.length (ga_groups ga)) -> is_order uorder (List.length (ma_univ a)) ->
    apply_op d eps ga (Some objs) allow false order uorder s = Ok s1 ->
    consistent (all_groups eps (d_types d) objs (spec_action a effs) args s) = true ->
    state_eq s1 (successor eps (d_types d) objs (spec_action a effs) args s).
Proof.
  intros d eps a effs args ga objs s s1 allow order uorder Hd Hn Hg Ho Hu Hrun Hc.
  assert (Hu' : is_order uorder (List.length (ma_univ (ga_action ga)))).
  { destruct (ground_action_shape _ _ _ _ Hg) as [E _]. rewrite E. exact Hu. }
  destruct (run_ok_evaluates d eps objs ga allow order uorder s s1 Ho Hu' Hrun) as [Hev [b [Happ Hb]]].
  destruct (successor_gen d eps a effs args ga objs s Hd Hn Hg Hev allow b Happ Hb Hc order uorder Ho Hu) as [s2 [E1 E2]].
  rewrite Hrun in E1. inversion E1; subst. exact E2.
Qed.

(* The schedules quantifier.  Two visiting orders that are permutations of each other give set-equal states.
   Proved by commutation of consistent groups (C03_Spec.succ_rearr: induction on Permutation), not by enumeration. *)
Theorem C03_order_independent_lemma :
  forall (d : mdomain) (eps : float) (a : maction) (effs : list eff) (args : list string) (ga : gaction)
         (objs : objects) (s : state),
    denote_effs a = Some effs -> names_ok d a = true ->
    ground_action d a args = Ok ga ->
    is_applicable d eps (Some objs) ga s = Ok true ->
    evaluates d eps objs ga s ->
    consistent (all_groups eps (d_types d) objs (spec_action a effs) args s) = true ->
    forall order order' uorder uorder',
      is_order order (List.length (ga_groups ga)) -> Permutation order order' ->
      is_order uorder (List.length (ma_univ a)) -> Permutation uorder uorder' ->
      exists s1 s2,
        apply_op d eps ga (Some objs) false false order uorder s = Ok s1 /\
        apply_op d eps ga (Some objs) false false order' uorder' s = Ok s2 /\
        state_eq s1 s2.
Proof.
  intros d eps a effs args ga objs s Hd Hn Hg Happ Hev Hc order order' uorder uorder' Ho HP Hu HPu.
  exact (order_independent d eps a effs args ga objs s Hd Hn Hg Hev false true Happ (or_introl eq_refl) Hc
           order order' uorder uorder' Ho HP Hu HPu).
Qed.

(* The same on the model alone, for every effect shape (also quantified 'when' conditions): consistency is asked of
   the groups the MODEL fires ([canon_groups], which C03_Refine.canon_groups_spec identifies with [all_groups]). *)
Theorem C03_order_independent_model_lemma :
  forall (d : mdomain) (eps : float) (ga : gaction) (objs : objects) (s : state) (allow b : bool),
    is_applicable d eps (Some objs) ga s = Ok b -> (b = true \/ allow = true) ->
    evaluates d eps objs ga s ->
    consistent (canon_groups d eps objs ga s) = true ->
    forall order order' uorder uorder',
      is_order order (List.length (ga_groups ga)) -> is_order order' (List.length (ga_groups ga)) ->
      is_order uorder (List.length (ma_univ (ga_action ga))) -> is_order uorder' (List.length (ma_univ (ga_action ga))) ->
      exists s1 s2,
        apply_op d eps ga (Some objs) allow false order uorder s = Ok s1 /\
        apply_op d eps ga (Some objs) allow false order' uorder' s = Ok s2 /\
        state_eq s1 s2.
Proof. exact order_independent_model. Qed.

(* Spec level: consistent firing groups commute - any permutation of the groups and any permutation of the primitive
   effects inside each group gives the same successor (this also covers the iteration order of the sets of discrete
   and numeric effects inside one group). *)
Theorem C03_groups_commute_lemma :
  forall (s : state) (gs gs' : list (list gprim)),
    consistent gs = true -> rearr gs gs' -> state_eq (succ s gs) (succ s gs') /\ consistent gs' = true.
Proof. intros s gs gs' Hc HR. split; [apply succ_rearr; assumption | eapply consistent_rearr; eauto]. Qed.

(* Order independence needs no separate "evaluates" hypothesis: if the call returns in ONE visiting order then it returns
   in every visiting order, with a set-equal result (consistency asked of the groups the model fires). *)
Theorem C03_order_independent_run_lemma :
  forall (d : mdomain) (eps : float) (objs : objects) (ga : gaction) (allow : bool) (order uorder : list nat) (s s1 : state),
    is_order order (List.length (ga_groups ga)) -> is_order uorder (List.length (ma_univ (ga_action ga))) ->
    apply_op d eps ga (Some objs) allow false order uorder s = Ok s1 ->
    consistent (canon_groups d eps objs ga s) = true ->
    forall order' uorder',
      is_order order' (List.length (ga_groups ga)) -> is_order uorder' (List.length (ma_univ (ga_action ga))) ->
      exists s2, apply_op d eps ga (Some objs) allow false order' uorder' s = Ok s2 /\ state_eq s1 s2.
Proof. exact order_independent_run. Qed.

(* The collections INSIDE the action object (discrete effects, numeric effects, conditional effects, universal effects
   and the effect sets of each of them are hash sets in the library, lists in the model): two model actions that differ
   only by the order of these lists denote the same successor. *)
Theorem C03_stored_order_lemma :
  forall (eps : float) (tt : tytree) (objs : objects) (a a' : maction) (effs : list eff) (args : list string) (s : state),
    maction_perm a a' -> denote_effs a = Some effs ->
    consistent (all_groups eps tt objs (spec_action a effs) args s) = true ->
    exists effs', denote_effs a' = Some effs' /\
      state_eq (successor eps tt objs (spec_action a effs) args s) (successor eps tt objs (spec_action a' effs') args s) /\
      consistent (all_groups eps tt objs (spec_action a' effs') args s) = true.
Proof. exact successor_maction_perm. Qed.

(* Spec level: the order of the effects of an action and of the primitive effects inside each is immaterial. *)
Theorem C03_effects_order_lemma :
  forall (eps : float) (tt : tytree) (objs : objects) (A A' : action) (args : list string) (s : state),
    a_params A = a_params A' -> effs_perm (a_effs A) (a_effs A') ->
    consistent (all_groups eps tt objs A args s) = true ->
    state_eq (successor eps tt objs A args s) (successor eps tt objs A' args s) /\
    consistent (all_groups eps tt objs A' args s) = true.
Proof. exact successor_effs_perm. Qed.

(* Refusal: an inapplicable call raises ValueError unless allowed ... *)
Theorem C03_refused_lemma :
  forall (d : mdomain) (eps : float) (ga : gaction) (objs : objects) (s : state) (order uorder : list nat),
    is_applicable d eps (Some objs) ga s = Ok false ->
    apply_op d eps ga (Some objs) false false order uorder s = Err EValue.
Proof. exact refused. Qed.

(* ... and with allow_inapplicable_actions the forced successor is returned. *)
Theorem C03_forced_lemma :
  forall (d : mdomain) (eps : float) (a : maction) (effs : list eff) (args : list string) (ga : gaction)
         (objs : objects) (s : state) (b : bool),
    denote_effs a = Some effs -> names_ok d a = true ->
    ground_action d a args = Ok ga ->
    is_applicable d eps (Some objs) ga s = Ok b ->
    evaluates d eps objs ga s ->
    consistent (all_groups eps (d_types d) objs (spec_action a effs) args s) = true ->
    forall order uorder, is_order order (List.length (ga_groups ga)) -> is_order uorder (List.length (ma_univ a)) ->
    exists s', apply_op d eps ga (Some objs) true false order uorder s = Ok s' /\
               state_eq s' (successor eps (d_types d) objs (spec_action a effs) args s).
Proof.
  intros d eps a effs args ga objs s b Hd Hn Hg Happ Hev Hc order uorder Ho Hu.
  exact (successor_gen d eps a effs args ga objs s Hd Hn Hg Hev true b Happ (or_intror eq_refl) Hc order uorder Ho Hu).
Qed.

(* ---------- corollaries about the state that apply returns (same hypotheses as C03_successor) ---------- *)
Section Returned.
  Variables (d : mdomain) (eps : float) (a : maction) (effs : list eff) (args : list string) (ga : gaction)
            (objs : objects) (s s' : state) (order uorder : list nat).
  Hypothesis Hd : denote_effs a = Some effs.
  Hypothesis Hn : names_ok d a = true.
  Hypothesis Hg : ground_action d a args = Ok ga.
  Hypothesis Happ : is_applicable d eps (Some objs) ga s = Ok true.
  Hypothesis Hev : evaluates d eps objs ga s.
  Hypothesis Hc : consistent (all_groups eps (d_types d) objs (spec_action a effs) args s) = true.
  Hypothesis Ho : is_order order (List.length (ga_groups ga)).
  Hypothesis Hu : is_order uorder (List.length (ma_univ a)).
  Hypothesis Hret : apply_op d eps ga (Some objs) false false order uorder s = Ok s'.

  Let G := all_groups eps (d_types d) objs (spec_action a effs) args s.

  (* a fact is in the returned state iff a firing effect adds it, or it was there and no firing effect deletes it *)
  Theorem C03_facts_lemma : forall x,
    atom_in x (facts s') = atom_in x (flat_map adds_of G) || (atom_in x (facts s) && negb (atom_in x (flat_map dels_of G))).
  Proof. exact (facts_char d eps a effs args ga objs s Hd Hn Hg Hev false order uorder s' true Happ (or_introl eq_refl) Hc Ho Hu Hret). Qed.

  (* frame: every other fact and fluent is unchanged *)
  Theorem C03_frame_fact_lemma : forall x, ~ In x (flat_map adds_of G) -> ~ In x (flat_map dels_of G) ->
    atom_in x (facts s') = atom_in x (facts s).
  Proof. exact (frame_fact d eps a effs args ga objs s Hd Hn Hg Hev false order uorder s' true Happ (or_introl eq_refl) Hc Ho Hu Hret). Qed.

  Theorem C03_frame_fluent_lemma : forall x, ~ In x (flat_map sets_of G) -> fluent_get x (fluents s') = fluent_get x (fluents s).
  Proof. exact (frame_fluent d eps a effs args ga objs s Hd Hn Hg Hev false order uorder s' true Happ (or_introl eq_refl) Hc Ho Hu Hret). Qed.

  (* delete then add: an atom that a firing group adds is present, even when the same group deletes it *)
  Theorem C03_delete_then_add_lemma : forall x, In x (flat_map adds_of G) -> atom_in x (facts s') = true.
  Proof. exact (add_wins d eps a effs args ga objs s Hd Hn Hg Hev false order uorder s' true Happ (or_introl eq_refl) Hc Ho Hu Hret). Qed.

  Theorem C03_deleted_lemma : forall x, ~ In x (flat_map adds_of G) -> In x (flat_map dels_of G) -> atom_in x (facts s') = false.
  Proof. exact (deleted d eps a effs args ga objs s Hd Hn Hg Hev false order uorder s' true Happ (or_introl eq_refl) Hc Ho Hu Hret). Qed.

  (* numeric effects read the state BEFORE the action: target and right-hand side are evaluated in s *)
  Theorem C03_numeric_prestate_lemma : forall ps rest k f fargs rhs,
    effs = EPrims ps :: rest -> In (PNum k f fargs rhs) ps ->
    let e := bind_args (spec_action a effs) args in
    let tgt := (f, map (subst e) fargs) in
    let old := match fluent_get tgt (fluents s) with Some v => v | None => 0%float end in
    let v := neval e s rhs in
    fluent_get tgt (fluents s') =
    Some (match k with AAssign => v | AIncrease => old + v | ADecrease => old - v end)%float.
  Proof. exact (numeric_prestate d eps a effs args ga objs s Hd Hn Hg Hev false order uorder s' true Happ (or_introl eq_refl) Hc Ho Hu Hret). Qed.
  (* conditional effects fire on the state BEFORE the action: a 'when' whose condition holds there adds its atoms, whatever
     the other effects do to the atoms the condition reads ... *)
  Theorem C03_when_adds_lemma : forall c ps p pargs,
    In (EWhen c ps) effs -> In (PAdd p pargs) ps ->
    let e := bind_args (spec_action a effs) args in
    holds eps (d_types d) objs e s c = true ->
    atom_in (p, map (subst e) pargs) (facts s') = true.
  Proof. exact (when_adds d eps a effs args ga objs s Hd Hn Hg Hev false order uorder s' true Happ (or_introl eq_refl) Hc Ho Hu Hret). Qed.

  (* ... and so does every instance of a 'forall-when', the variable ranging over the objects of the type and its subtypes *)
  Theorem C03_forall_when_adds_lemma : forall v ty c ps p pargs o,
    In (EForall v ty c ps) effs -> In (PAdd p pargs) ps ->
    In o (objects_of_type (d_types d) objs ty) ->
    let e := (v, o) :: bind_args (spec_action a effs) args in
    holds eps (d_types d) objs e s c = true ->
    atom_in (p, map (subst e) pargs) (facts s') = true.
  Proof. exact (forall_when_adds d eps a effs args ga objs s Hd Hn Hg Hev false order uorder s' true Happ (or_introl eq_refl) Hc Ho Hu Hret). Qed.
End Returned.

(* the hypotheses are satisfiable by a non-trivial action (add, delete, delete+add of one atom, increase, a firing
   'when', a non-firing 'when', a 'forall-when' over a type with a subtype), visited in the order [2;0;1] *)
Theorem C03_example_lemma :
  exists s', apply_op ex_dom ex_eps ex_ga (Some ex_objs) false false [2; 0; 1] [0] ex_state = Ok s' /\
             state_eq s' (successor ex_eps (d_types ex_dom) ex_objs (spec_action ex_act ex_effs) ex_args ex_state).
Proof. exact ex_successor. Qed.

