(* C16: what a SEQUENCE of calls on one exporter looks like in the model, and the flag discipline the exported
   trajectory relies on.

   - a state returned by a joint action is never flagged as the initial state, whatever the members (no member, one,
     several; allowed or not): [apply_actions_not_init];
   - hence in an exported joint trajectory exactly the first printed state is '(:init', every other one '(:state':
     [parse_joint_plan_init_once];
   - the two allow switches (constructor argument of the exporter, argument of parse_plan) act as ONE disjunction and
     nothing else of an earlier call enters a later one: [flags_are_a_disjunction] - a plan parsed with
     (exporter_allow, allow) is the plan parsed by an exporter built with their disjunction and no per-call flag;
   - refusal at the level of the exporter: no switch set, a line whose joint action has a member that is inapplicable
     in the state the earlier lines led to: parse_plan raises ValueError, at whatever position the member and the
     line stand: [parse_joint_plan_refuses]. *)
From Coq Require Import List Ascii String Bool Arith Lia PrimFloat.
From Verif Require Import Base.Result Base.Str Base.Sexp Base.PyDict Model.Types Model.Domain Model.Exec Model.Plan
  Model.Joint Spec.Pddl Proofs.C04_Thread Proofs.C16_Joint.
Import ListNotations.
Open Scope string_scope.
Open Scope list_scope.

Section NotInit.
  Variable d : mdomain.
  Variable eps : float.
  Variable objs : option objects.
  Variable sch : schedule.

  Lemma joint_member_not_init allow orig acc ic s :
    joint_member d eps objs allow sch orig acc ic = Ok s -> ms_init s = false.
  Proof.
    unfold joint_member. intros H.
    destruct (dget (d_actions d) (ac_name (snd ic))) as [a|]; [|discriminate].
    destruct (ground_action d a (ac_args (snd ic))) as [ga|k]; simpl in H; [|discriminate].
    destruct (is_applicable d eps objs ga orig) as [okb|k]; simpl in H; [|discriminate].
    destruct (okb || allow); [|discriminate].
    destruct (apply_op d eps ga objs true false (fst (sch (fst ic) a)) (snd (sch (fst ic) a)) (ms_st acc)) as [s'|k];
      simpl in H; [|discriminate].
    inversion H; subst. reflexivity.
  Qed.

  Lemma joint_fold_not_init allow orig l : forall acc s,
    ms_init acc = false -> foldM (joint_member d eps objs allow sch orig) l acc = Ok s -> ms_init s = false.
  Proof.
    induction l as [|x xs IH]; intros acc s Hacc H; simpl in H.
    - inversion H; subst. exact Hacc.
    - destruct (joint_member d eps objs allow sch orig acc x) as [s1|k] eqn:E; simpl in H; [|discriminate].
      apply (IH s1 s); [|exact H]. exact (joint_member_not_init _ _ _ _ _ E).
  Qed.

  (* D66 / seeded change C07_D: the state returned by a joint action is never flagged as the initial state *)
  Theorem apply_actions_not_init cur calls allow s :
    apply_actions d eps objs sch cur calls allow = Ok s -> ms_init s = false.
  Proof.
    unfold apply_actions. intros H.
    assert (Hfold : forall l, foldM (joint_member d eps objs allow sch (ms_st cur)) l
                                    {| ms_init := false; ms_st := ms_st cur |} = Ok s -> ms_init s = false).
    { intros l Hl. apply (joint_fold_not_init allow (ms_st cur) l {| ms_init := false; ms_st := ms_st cur |} s);
        [reflexivity | exact Hl]. }
    destruct (filter (fun c => negb (is_nop c)) calls) as [|c0 [|c1 r]] eqn:E.
    - exact (Hfold _ H).
    - destruct (apply_call d eps objs allow (sch 0) c0 (ms_st cur)) as [s'|k]; simpl in H; [|discriminate].
      inversion H; subst. reflexivity.
    - exact (Hfold _ H).
  Qed.
End NotInit.

Section Flags.
  Variable d : mdomain.
  Variable eps : float.
  Variable objs : objects.
  Variable sch : nat -> schedule.

  Lemma cmt_flags exporter_allow allow s prev line :
    create_multi_agent_triplet d eps exporter_allow objs s allow prev line =
    create_multi_agent_triplet d eps (allow || exporter_allow) objs s false prev line.
  Proof. unfold create_multi_agent_triplet. rewrite orb_false_l. reflexivity. Qed.

  Lemma foldM_ext {A S} (f g : S -> A -> result S) (Hfg : forall s x, f s x = g s x) l : forall s,
    foldM f l s = foldM g l s.
  Proof.
    induction l as [|x xs IH]; intros s; simpl; [reflexivity|].
    rewrite Hfg. destruct (g s x); simpl; [apply IH | reflexivity].
  Qed.

  (* the exporter's flag and the per-call flag are one disjunction; nothing else distinguishes the two exporters *)
  Theorem flags_are_a_disjunction exporter_allow allow init lines :
    parse_joint_plan d eps exporter_allow objs sch allow init lines =
    parse_joint_plan d eps (allow || exporter_allow) objs sch false init lines.
  Proof.
    unfold parse_joint_plan.
    rewrite (foldM_ext (jplan_step d eps exporter_allow objs sch allow)
                       (jplan_step d eps (allow || exporter_allow) objs sch false)); [reflexivity|].
    intros [[ts prev] i] line. unfold jplan_step. rewrite cmt_flags. reflexivity.
  Qed.

  (* exactly the first state of an exported joint trajectory is the initial state *)
  Theorem parse_joint_plan_init_once exporter_allow allow init lines ts :
    parse_joint_plan d eps exporter_allow objs sch allow init lines = Ok ts ->
    forall k t, nth_error ts k = Some t ->
      ms_init (jt_next t) = false /\ (ms_init (jt_prev t) = true <-> k = 0).
  Proof.
    intros H. destruct (parse_joint_plan_trajectory d eps exporter_allow objs sch allow init lines ts H)
      as [_ [Hfirst [Hchain Hstep]]].
    assert (Hnext : forall k t, nth_error ts k = Some t -> ms_init (jt_next t) = false).
    { intros k t Ht. destruct (Hstep k t Ht) as [line [calls [_ [_ [_ Happ]]]]].
      exact (apply_actions_not_init _ _ _ _ _ _ _ _ Happ). }
    intros k t Ht. split; [exact (Hnext k t Ht)|].
    destruct k as [|k].
    - split; [reflexivity|]. intros _. rewrite (Hfirst t); [reflexivity|].
      destruct ts; simpl in *; [discriminate | exact Ht].
    - split; [|discriminate]. intros Hinit. exfalso.
      destruct (nth_error ts k) as [u|] eqn:Eu.
      + rewrite (Hchain k u t Eu Ht) in Hinit. rewrite (Hnext k u Eu) in Hinit. discriminate.
      + apply nth_error_None in Eu. assert (Hlt : S k < List.length ts) by (apply nth_error_Some; congruence). lia.
  Qed.

  (* refusal at the exporter: no switch set; the lines [l1] were exported; the next line's joint action has a member
     [c] that is inapplicable in the state they led to ([before]: the applicable members in front of it): ValueError *)
  Theorem parse_joint_plan_refuses init l1 line l2 ts1 calls txts before c after s1 :
    parse_joint_plan d eps false objs sch false init l1 = Ok ts1 ->
    let cur := end_state _ _ jt_next {| ms_init := true; ms_st := init |} ts1 in
    parse_joint_call line = Ok calls -> mapM (member_text d) calls = Ok txts ->
    filter (fun c => negb (is_nop c)) calls = before ++ c :: after ->
    Forall (fun c => call_applicable d eps (Some objs) c (ms_st cur) = Ok true) before ->
    seq_members d eps (Some objs) (sch (List.length l1)) (ms_st cur) (number_from 0 before) = Ok s1 ->
    call_applicable d eps (Some objs) c (ms_st cur) = Ok false ->
    parse_joint_plan d eps false objs sch false init (l1 ++ line :: l2) = Err EValue.
  Proof.
    intros H1 cur Hline Htxt Hfilter Hbefore Hseq Hc.
    apply (parse_joint_plan_fails_at d eps false objs sch false init l1 line l2 ts1 EValue H1).
    fold cur. unfold create_multi_agent_triplet. rewrite Hline. simpl. rewrite Htxt. simpl.
    rewrite (apply_actions_refuses d eps (Some objs) (sch (List.length l1)) cur
               (filter (fun c => negb (is_nop c)) calls) before c after s1); [reflexivity| | | |].
    - rewrite filter_idem. exact Hfilter.
    - exact Hbefore.
    - exact Hseq.
    - exact Hc.
  Qed.
End Flags.

(* ---------- the hypotheses are satisfiable: two plans on the robots of Proofs/C16_Examples.v ---------- *)
From Verif Require Import Proofs.C16_Examples.

Definition jq_good : list string := ["[(move r1 l1 l2),(nop )]"; "[(nop ),(move r2 l3 l1)]"].
Definition jq_idle : string := "[(nop ),(nop )]".
Definition jq_bad_line : string := "[(move r1 l1 l2), (move r2 l3 l1)]".      (* l1 is not free yet *)
Definition jq_plan (exporter_allow allow : bool) (lines : list string) : result (list (jtriplet)) :=
  parse_joint_plan jx_dom jx_eps exporter_allow jx_objs (fun _ => id_schedule) allow jx_state lines.

(* a valid plan of two joint actions is exported (two steps); the plan [idle; bad] satisfies the hypotheses of
   parse_joint_plan_refuses (the idle line is exported, the next line reads as two members, the first applicable and
   applied, the second inapplicable in the state the idle line led to) and is refused; with either switch it is not *)
Lemma jq_example :
  (exists ts, jq_plan false false jq_good = Ok ts /\ List.length ts = 2) /\
  (exists ts1 s1,
     jq_plan false false [jq_idle] = Ok ts1 /\
     let cur := end_state _ _ jt_next {| ms_init := true; ms_st := jx_state |} ts1 in
     ms_init cur = false /\
     parse_joint_call jq_bad_line = Ok [mv "r1" "l1" "l2"; mv "r2" "l3" "l1"] /\
     is_ok (mapM (member_text jx_dom) [mv "r1" "l1" "l2"; mv "r2" "l3" "l1"]) = true /\
     Forall (fun c => call_applicable jx_dom jx_eps (Some jx_objs) c (ms_st cur) = Ok true) [mv "r1" "l1" "l2"] /\
     seq_members jx_dom jx_eps (Some jx_objs) id_schedule (ms_st cur) (number_from 0 [mv "r1" "l1" "l2"]) = Ok s1 /\
     call_applicable jx_dom jx_eps (Some jx_objs) (mv "r2" "l3" "l1") (ms_st cur) = Ok false) /\
  jq_plan false false [jq_idle; jq_bad_line] = Err EValue /\
  is_ok (jq_plan false true [jq_idle; jq_bad_line]) = true /\
  is_ok (jq_plan true false [jq_idle; jq_bad_line]) = true.
Proof.
  split; [|split; [|split; [|split]]].
  - destruct (jq_plan false false jq_good) as [ts|k] eqn:E; [|vm_compute in E; discriminate].
    exists ts. split; [reflexivity|].
    assert (H : match jq_plan false false jq_good with Ok l => List.length l | Err _ => 0 end = 2) by (vm_compute; reflexivity).
    rewrite E in H. exact H.
  - destruct (jq_plan false false [jq_idle]) as [ts1|k] eqn:E; [|vm_compute in E; discriminate].
    pose (cur := end_state _ _ jt_next {| ms_init := true; ms_st := jx_state |} ts1).
    assert (Hcur : match jq_plan false false [jq_idle] with
                   | Ok l => end_state _ _ jt_next {| ms_init := true; ms_st := jx_state |} l
                   | Err _ => jx_cur end = {| ms_init := false; ms_st := jx_state |}) by (vm_compute; reflexivity).
    rewrite E in Hcur.
    destruct (seq_members jx_dom jx_eps (Some jx_objs) id_schedule jx_state (number_from 0 [mv "r1" "l1" "l2"]))
      as [s1|k] eqn:Es; [|vm_compute in Es; discriminate].
    exists ts1, s1. split; [reflexivity|]. cbv zeta. rewrite Hcur. cbn [ms_init ms_st].
    repeat split; try (vm_compute; reflexivity).
    + constructor; [vm_compute; reflexivity | constructor].
    + exact Es.
  - vm_compute. reflexivity.
  - vm_compute. reflexivity.
  - vm_compute. reflexivity.
Qed.
