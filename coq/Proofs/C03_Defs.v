(* C03, definitions: what effect list a model action denotes, the spec action of a model action, the hypotheses of the
   theorems as computable predicates, and the "firing" view of Model.Exec.apply_op (one list of primitive effects per
   effect group that fires). *)
From Coq Require Import List String Bool PrimFloat Arith Permutation.
From Verif Require Import Base.Result Base.Str Base.PyDict Model.Types Model.Domain Model.Exec Spec.Pddl.
Import ListNotations.
Open Scope string_scope.
Open Scope list_scope.

(* ---------- denotation of the model's effect representation ---------- *)
Fixpoint opt_all {A} (l : list (option A)) : option (list A) :=
  match l with
  | [] => Some []
  | Some x :: r => match opt_all r with Some xs => Some (x :: xs) | None => None end
  | None :: _ => None
  end.

Definition denote_lit (l : mlit) : prim :=
  if l_pos l then PAdd (l_name l) (l_args l) else PDel (l_name l) (l_args l).

(* a numeric effect: (assign|increase|decrease (f args) rhs) *)
Definition denote_num (t : mtree) : option prim :=
  match t with
  | TNode op (TFn f args) rhs =>
      match assignop_of op, denote_tree rhs with
      | Some k, Some r => Some (PNum k f args r)
      | _, _ => None
      end
  | _ => None
  end.

(* the literals (the group deletes, then adds) followed by the numeric updates *)
Definition denote_prims (disc : list mlit) (nums : list mtree) : option (list prim) :=
  match opt_all (map denote_num nums) with
  | Some ns => Some (map denote_lit disc ++ ns)
  | None => None
  end.

Definition denote_ce (ce : mcondeff) : option (form * list prim) :=
  match denote_pre (ce_ante ce), denote_prims (ce_disc ce) (ce_num ce) with
  | Some c, Some ps => Some (c, ps)
  | _, _ => None
  end.

Definition denote_when (ce : mcondeff) : option eff :=
  match denote_ce ce with Some (c, ps) => Some (EWhen c ps) | None => None end.

Definition denote_univ (ue : muniveff) : option eff :=
  match denote_ce (ue_ce ue) with Some (c, ps) => Some (EForall (ue_var ue) (ue_ty ue) c ps) | None => None end.

(* the unconditional group, then one effect per 'when', then one per 'forall-when' *)
Definition denote_effs (a : maction) : option (list eff) :=
  match denote_prims (ma_disc a) (ma_num a), opt_all (map denote_when (ma_cond a)), opt_all (map denote_univ (ma_univ a)) with
  | Some ps, Some ws, Some us => Some (EPrims ps :: ws ++ us)
  | _, _, _ => None
  end.

(* the spec action a model action stands for (the precondition is the business of C02; [successor] ignores it) *)
Definition spec_action (a : maction) (effs : list eff) : action :=
  {| a_name := ma_name a; a_params := ma_sig a;
     a_pre := match denote_pre (ma_pre a) with Some f => f | None => FAnd [] end;
     a_effs := effs |}.

(* ---------- conditions without quantifier ---------- *)
Fixpoint quantifier_free (f : form) : bool :=
  match f with
  | FAnd l => forallb quantifier_free l
  | FOr l => forallb quantifier_free l
  | FForall _ _ _ => false
  | _ => true
  end.

Definition eff_when_qfree (e : eff) : bool :=
  match e with
  | EPrims _ => true
  | EWhen c _ => quantifier_free c
  | EForall _ _ c _ => quantifier_free c
  end.

(* quantified variables of a condition tree *)
Fixpoint qvars_pre (p : mpre) : list string :=
  match p with
  | MPre _ os _ _ => (fix go (l : list mcond) : list string := match l with [] => [] | c :: r => qvars_cond c ++ go r end) os
  end
with qvars_cond (c : mcond) : list string :=
  match c with
  | MNested q => qvars_pre q
  | MUniv v _ b => v :: qvars_pre b
  | _ => []
  end.

Fixpoint qvars_conds (l : list mcond) : list string :=
  match l with [] => [] | c :: r => qvars_cond c ++ qvars_conds r end.


(* ---------- names: a constant of the domain is never a parameter or a quantified variable ---------- *)
Definition bound_names (a : maction) : list string :=
  dkeys (ma_sig a) ++
  flat_map (fun ce => qvars_pre (ce_ante ce)) (ma_cond a) ++
  flat_map (fun ue => ue_var ue :: qvars_pre (ce_ante (ue_ce ue))) (ma_univ a).

Definition names_ok (d : mdomain) (a : maction) : bool :=
  forallb (fun v => negb (dmem (d_consts d) v)) (bound_names a).

(* ---------- the firing view of apply_op ---------- *)
Section Fire.
  Variable dom : mdomain.
  Variable eps : float.
  Variable objs : objects.

  Definition disc_prim (pa : bool * atom) : gprim := if fst pa then GAdd (snd pa) else GDel (snd pa).

  (* the primitive effects of a grounded group, values computed in [prev] *)
  Definition gprims_of (prev : state) (g : ggroup) : result (list gprim) :=
    do vals <- mapM (eval_numeric_effect prev) (gg_num g);
    Ok (map disc_prim (gg_disc g) ++ map (fun av : atom * float => GSet (fst av) (snd av)) vals).

  (* what visiting a group contributes: nothing when its antecedent is false *)
  Definition fire (prev : state) (g : ggroup) : result (list (list gprim)) :=
    do h <- antecedents_hold dom eps (Some objs) g prev;
    if h then do ps <- gprims_of prev g; Ok [ps] else Ok [].

  (* what visiting (object, universal effect) contributes *)
  Definition fire_univ (pm0 : pmap) (prev : state) (o : string * string) (ue : muniveff) : result (list (list gprim)) :=
    if is_sub_type (d_types dom) (snd o) (ue_ty ue) then
      do g <- ground_group dom (dset pm0 (ue_var ue) (fst o)) (Some (ce_ante (ue_ce ue))) (ce_disc (ue_ce ue)) (ce_num (ue_ce ue));
      fire prev g
    else Ok [].

  Definition res_or_nil {A} (r : result (list A)) : list A := match r with Ok x => x | Err _ => [] end.

  (* "evaluates without error": every effect group can be visited in state [s] without an exception
     (no division by zero in a condition or in the right-hand side of a firing effect, quantified effects ground) *)
  Definition evaluates (ga : gaction) (s : state) : Prop :=
    (forall g, In g (ga_groups ga) -> is_ok (fire s g) = true) /\
    (forall o ue, In o objs -> In ue (ma_univ (ga_action ga)) -> is_ok (fire_univ (ga_pm ga) s o ue) = true).

  Definition evaluates_b (ga : gaction) (s : state) : bool :=
    forallb (fun g => is_ok (fire s g)) (ga_groups ga) &&
    forallb (fun o => forallb (fun ue => is_ok (fire_univ (ga_pm ga) s o ue)) (ma_univ (ga_action ga))) objs.
End Fire.

(* a visiting order of a collection of n elements: a permutation of its indices *)
Definition is_order (order : list nat) (n : nat) : Prop := Permutation order (seq 0 n).
